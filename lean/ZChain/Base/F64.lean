/-
# `ZChain.F64` — an exact, kernel-evaluable model of IEEE-754 binary64 (Go `float64`)

Core-only (NO Mathlib): this file is linked into the model drivers. Lean's built-in `Float` is opaque
to the kernel, so this is an own model. Everything is defined on exact naturals with ONE final
round-to-nearest-even (`roundDiv`), which is what IEEE-754 prescribes for `+ - * /` and for
integer→float conversion. Tied to Go bit-for-bit by `harness/cmd/f64` (also run inside every C10 check).

## Representation
`fin neg m E` is the double `(-1)^neg · m · 2^(E − 1074)`; i.e. magnitudes are counted in units of
`2^-1074` (the smallest subnormal) so that **all exponents are naturals**. Canonical form (`Canon`):
* normal:    `2^52 ≤ m < 2^53`, `0 ≤ E ≤ 2045`  (IEEE biased exponent field = `E + 1`);
* subnormal / zero: `m < 2^52`, `E = 0`.
Every function below returns canonical values when given canonical values; `ofBits` only produces
canonical values. `inf neg` is ±∞, `nan` is every NaN (payloads are not modelled: `toBits nan` is the
quiet NaN `0x7ff8000000000000`; harnesses canonicalise Go NaNs to that pattern before comparing).

## Interface (for importers)
* import/export:  `ofBits : Nat → F64` (any 64-bit pattern), `toBits : F64 → Nat`, `ofHex?/toHex` (16 hex digits)
* constants:      `zero`, `one`, `negZero`
* conversions:    `ofNat` (Go `float64(uint64)`), `ofInt` (Go `float64(int64)`),
                  `toNatTrunc : F64 → Option Nat` (Go `uint64(f)`; `none` = **undef**: NaN, ±∞, `f ≥ 2^64`, `f ≤ −1`
                  — implementation-defined in Go, never given a value here),
                  `toIntTrunc : F64 → Option Int` (Go `int64(f)`; `none` outside `(−2^63−1, 2^63)`)
* arithmetic:     `mul`, `div`, `add`, `sub`, `neg`, `abs`  (IEEE special cases for NaN/∞/±0 included)
* comparisons:    `lt`, `le`, `eq`, `gt`, `ge` (Bool; IEEE: any comparison with NaN is false, `-0 == +0`)
* integral:       `floor`, `ceil`, `roundToEven`, `trunc` (Go `math.Floor/Ceil/RoundToEven/Trunc`)
* `isNaN`, `isInf`, `isFinite`, `Canon`
* exact value helpers used by the proofs: `mag` (magnitude in units of 2^-1074 for finite values).
-/
namespace ZChain

inductive F64 where
  | fin (neg : Bool) (m : Nat) (E : Nat)
  | inf (neg : Bool)
  | nan
deriving DecidableEq, Repr, Inhabited

namespace F64

/-- number of bits of `n` (`0` for `0`). -/
def bitlen (n : Nat) : Nat := if n = 0 then 0 else n.log2 + 1

/-- round-half-even of the rational `N / D` (`D > 0`). -/
def rne (N D : Nat) : Nat :=
  let q := N / D
  let r := N % D
  if D < 2 * r ∨ (2 * r = D ∧ q % 2 = 1) then q + 1 else q

/-- THE rounding function. The exact non-negative rational `N / D` (`D > 0`), counted **in units of
`2^-1074`**, rounded to the nearest binary64 (ties to even), overflow to ∞.
`E` is the exponent of the binade of `N / D` (0 for everything below `2^53` units: subnormals and the
first normal binade share the quantum `2^-1074`); the mantissa is `N / (D·2^E)` rounded half-even; a
mantissa that rounds up to `2^53` moves to the next binade. -/
def roundDiv (neg : Bool) (N D : Nat) : F64 :=
  let E := bitlen (N / D) - 53
  let m := rne N (D * 2 ^ E)
  let m' := if m = 2 ^ 53 then 2 ^ 52 else m
  let E' := if m = 2 ^ 53 then E + 1 else E
  if 2045 < E' then .inf neg else .fin neg m' E'

def zero : F64 := .fin false 0 0
def negZero : F64 := .fin true 0 0
def one : F64 := .fin false (2 ^ 52) 1022

/-- canonical form (see header). -/
def Canon : F64 → Prop
  | .fin _ m E => (m < 2 ^ 52 ∧ E = 0) ∨ (2 ^ 52 ≤ m ∧ m < 2 ^ 53 ∧ E ≤ 2045)
  | _ => True

instance : DecidablePred Canon := fun x => by
  cases x <;> unfold Canon <;> infer_instance

def isNaN : F64 → Bool
  | .nan => true
  | _ => false

def isInf : F64 → Bool
  | .inf _ => true
  | _ => false

def isFinite : F64 → Bool
  | .fin _ _ _ => true
  | _ => false

/-- magnitude of a finite value in units of `2^-1074` (0 for ∞/NaN: guard with `isFinite`). -/
def mag : F64 → Nat
  | .fin _ m E => m * 2 ^ E
  | _ => 0

def isNeg : F64 → Bool
  | .fin s _ _ => s
  | .inf s => s
  | .nan => false

def isZero : F64 → Bool
  | .fin _ m _ => m == 0
  | _ => false

/-! ## import / export by bit pattern -/

def ofBits (b : Nat) : F64 :=
  let s := (b / 2 ^ 63) % 2 == 1
  let ex := (b / 2 ^ 52) % 2048
  let fr := b % 2 ^ 52
  if ex = 2047 then (if fr = 0 then .inf s else .nan)
  else if ex = 0 then .fin s fr 0
  else .fin s (2 ^ 52 + fr) (ex - 1)

def toBits : F64 → Nat
  | .nan => 0x7ff8000000000000
  | .inf s => (if s then 2 ^ 63 else 0) + 0x7ff0000000000000
  | .fin s m E =>
    (if s then 2 ^ 63 else 0) + (if m < 2 ^ 52 then m else (E + 1) * 2 ^ 52 + (m - 2 ^ 52))

def hexDigit (n : Nat) : Char :=
  if n < 10 then Char.ofNat (48 + n) else Char.ofNat (87 + n)

def hexVal? (c : Char) : Option Nat :=
  if '0' ≤ c ∧ c ≤ '9' then some (c.toNat - 48)
  else if 'a' ≤ c ∧ c ≤ 'f' then some (c.toNat - 87)
  else none

/-- 16 lower-case hex digits of a 64-bit pattern. -/
def hex16 (b : Nat) : String :=
  String.ofList ((List.range 16).map fun i => hexDigit ((b / 16 ^ (15 - i)) % 16))

def parseHex16? (s : String) : Option Nat :=
  let cs := s.toList
  if cs.length ≠ 16 then none
  else cs.foldl (fun acc c => match acc, hexVal? c with
    | some a, some v => some (a * 16 + v)
    | _, _ => none) (some 0)

def toHex (x : F64) : String := hex16 (toBits x)
def ofHex? (s : String) : Option F64 := (parseHex16? s).map ofBits

/-! ## conversions from integers -/

/-- Go `float64(n)` for `n : uint64` (any natural, in fact). Exact for `n < 2^53`
(`Proofs/F64.ofNat_exact`). -/
def ofNat (n : Nat) : F64 := roundDiv false (n * 2 ^ 1074) 1

/-- Go `float64(i)` for `i : int64`. -/
def ofInt (i : Int) : F64 := roundDiv (i < 0) (i.natAbs * 2 ^ 1074) 1

/-! ## arithmetic -/

def neg : F64 → F64
  | .fin s m E => .fin (!s) m E
  | .inf s => .inf (!s)
  | .nan => .nan

def abs : F64 → F64
  | .fin _ m E => .fin false m E
  | .inf _ => .inf false
  | .nan => .nan

def mul : F64 → F64 → F64
  | .nan, _ => .nan
  | _, .nan => .nan
  | .inf s, .inf t => .inf (s != t)
  | .inf s, .fin t m _ => if m = 0 then .nan else .inf (s != t)
  | .fin s m _, .inf t => if m = 0 then .nan else .inf (s != t)
  | .fin s m1 E1, .fin t m2 E2 => roundDiv (s != t) (m1 * m2 * 2 ^ (E1 + E2)) (2 ^ 1074)

def div : F64 → F64 → F64
  | .nan, _ => .nan
  | _, .nan => .nan
  | .inf _, .inf _ => .nan
  | .inf s, .fin t _ _ => .inf (s != t)
  | .fin s _ _, .inf t => .fin (s != t) 0 0
  | .fin s m1 E1, .fin t m2 E2 =>
    if m2 = 0 then (if m1 = 0 then .nan else .inf (s != t))
    else roundDiv (s != t) (m1 * 2 ^ E1 * 2 ^ 1074) (m2 * 2 ^ E2)

/-- signed magnitude as an integer number of units (finite values). -/
def sval : F64 → Int
  | .fin s m E => if s then - ((m * 2 ^ E : Nat) : Int) else ((m * 2 ^ E : Nat) : Int)
  | _ => 0

def add : F64 → F64 → F64
  | .nan, _ => .nan
  | _, .nan => .nan
  | .inf s, .inf t => if s = t then .inf s else .nan
  | .inf s, .fin _ _ _ => .inf s
  | .fin _ _ _, .inf t => .inf t
  | .fin s m1 E1, .fin t m2 E2 =>
    let v := sval (.fin s m1 E1) + sval (.fin t m2 E2)
    if v = 0 then
      -- exact zero: −0 only when both operands are negative (round-to-nearest rule)
      .fin (s && t) 0 0
    else roundDiv (v < 0) v.natAbs 1

def sub (a b : F64) : F64 := add a (neg b)

/-! ## comparisons (IEEE; Bool) -/

def lt : F64 → F64 → Bool
  | .nan, _ => false
  | _, .nan => false
  | .inf s, .inf t => s && !t
  | .inf s, .fin _ _ _ => s
  | .fin _ _ _, .inf t => !t
  | a, b => sval a < sval b

def eq : F64 → F64 → Bool
  | .nan, _ => false
  | _, .nan => false
  | .inf s, .inf t => s == t
  | .inf _, .fin _ _ _ => false
  | .fin _ _ _, .inf _ => false
  | a, b => sval a == sval b

def le (a b : F64) : Bool := lt a b || eq a b
def gt (a b : F64) : Bool := lt b a
def ge (a b : F64) : Bool := le b a

/-! ## float → integer -/

/-- Go `uint64(f)`: truncation toward zero when the truncated value is representable, else **undef**
(`none`). (On amd64 an out-of-range conversion yields some machine-dependent word; the Go spec
leaves it implementation-dependent and no theorem of this framework gives it a value.) -/
def toNatTrunc : F64 → Option Nat
  | .fin s m E =>
    let q := (m * 2 ^ E) / 2 ^ 1074
    if s then (if q = 0 then some 0 else none)
    else if q < 2 ^ 64 then some q else none
  | _ => none

/-- Go `int64(f)`. -/
def toIntTrunc : F64 → Option Int
  | .fin s m E =>
    let q : Nat := (m * 2 ^ E) / 2 ^ 1074
    if s then (if q ≤ 2 ^ 63 then some (-(Int.ofNat q)) else none)
    else if q < 2 ^ 63 then some (Int.ofNat q) else none
  | _ => none

/-! ## integral rounding (`math.Floor`, `math.Ceil`, `math.Trunc`, `math.RoundToEven`) -/

/-- a signed integer as a double, keeping the sign for zero (`math.Ceil(-0.5) = -0`). -/
def ofNatSigned (s : Bool) (n : Nat) : F64 := roundDiv s (n * 2 ^ 1074) 1

def trunc : F64 → F64
  | .fin s m E => if 1074 ≤ E then .fin s m E else ofNatSigned s ((m * 2 ^ E) / 2 ^ 1074)
  | x => x

def floor : F64 → F64
  | .fin s m E =>
    if 1074 ≤ E then .fin s m E
    else
      let q := (m * 2 ^ E) / 2 ^ 1074
      let r := (m * 2 ^ E) % 2 ^ 1074
      ofNatSigned s (if s && r != 0 then q + 1 else q)
  | x => x

def ceil : F64 → F64
  | .fin s m E =>
    if 1074 ≤ E then .fin s m E
    else
      let q := (m * 2 ^ E) / 2 ^ 1074
      let r := (m * 2 ^ E) % 2 ^ 1074
      ofNatSigned s (if !s && r != 0 then q + 1 else q)
  | x => x

def roundToEven : F64 → F64
  | .fin s m E => if 1074 ≤ E then .fin s m E else ofNatSigned s (rne (m * 2 ^ E) (2 ^ 1074))
  | x => x

end F64
end ZChain
