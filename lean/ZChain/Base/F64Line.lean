import ZChain.Base.Coin
/-! Line-protocol answers for `Base/F64` and `Base/Coin` ops (stateless; shared by `Drv/F64` and `Drv/C10`, core-only).

`f64.init` → `ok`
`f64.mul|div|add|sub <hex16> <hex16>` → `h <hex16>`        `f64.lt|le|eq <hex16> <hex16>` → `b true|false`
`f64.ofu <uint64>` / `f64.ofi <int64>` → `h <hex16>`        `f64.tou|toi <hex16>` → `n <decimal>` | `undef`
`f64.floor|ceil|rte|trunc|neg <hex16>` → `h <hex16>`
`coin.add|sub|mul|min|wadd|wsub <u64> <u64>` → `ok <u64>` | `err <class>`
`coin.toi64 <u64>` / `coin.ofi64 <i64>` / `coin.addi64|subi64 <u64> <i64>` → `ok <n>` | `err <class>`
`coin.dist <u64> <i64>` → `ok <share> <rest>` | `err <class>`
`coin.f2c <hex16>` / `coin.mulf <u64> <hex16>` → `ok <u64>` | `err <class>`     `coin.tof <u64>` → `h <hex16>`
(a 16-hex word is the IEEE bit pattern; every NaN is `7ff8000000000000`)
Numbers outside the Go type's range are `bad-op` (the Go side cannot even form them). -/
namespace ZChain.F64Line
open ZChain ZChain.Coin

def u64? (s : String) : Option Nat :=
  match s.toNat? with
  | some n => if n < U64 then some n else none
  | none => none

def i64? (s : String) : Option Int :=
  match s.toInt? with
  | some i => if -9223372036854775808 ≤ i ∧ i < 9223372036854775808 then some i else none
  | none => none

def showE {α} (f : α → String) : Except Err α → String
  | .ok v => "ok " ++ f v
  | .error e => "err " ++ e.tag

def showOptNat : Option Nat → String
  | some n => "n " ++ toString n
  | none => "undef"

def showOptInt : Option Int → String
  | some n => "n " ++ toString n
  | none => "undef"

def bin (op : String) (a b : F64) : Option String :=
  match op with
  | "f64.mul" => some ("h " ++ (F64.mul a b).toHex)
  | "f64.div" => some ("h " ++ (F64.div a b).toHex)
  | "f64.add" => some ("h " ++ (F64.add a b).toHex)
  | "f64.sub" => some ("h " ++ (F64.sub a b).toHex)
  | "f64.lt" => some ("b " ++ toString (F64.lt a b))
  | "f64.le" => some ("b " ++ toString (F64.le a b))
  | "f64.eq" => some ("b " ++ toString (F64.eq a b))
  | _ => none

def un (op : String) (a : F64) : Option String :=
  match op with
  | "f64.tou" => some (showOptNat (F64.toNatTrunc a))
  | "f64.toi" => some (showOptInt (F64.toIntTrunc a))
  | "f64.floor" => some ("h " ++ (F64.floor a).toHex)
  | "f64.ceil" => some ("h " ++ (F64.ceil a).toHex)
  | "f64.rte" => some ("h " ++ (F64.roundToEven a).toHex)
  | "f64.trunc" => some ("h " ++ (F64.trunc a).toHex)
  | "f64.neg" => some ("h " ++ (F64.neg a).toHex)
  | _ => none

def coin2 (op : String) (a b : Nat) : Option String :=
  match op with
  | "coin.add" => some (showE toString (addCoin a b))
  | "coin.sub" => some (showE toString (minusCoin a b))
  | "coin.mul" => some (showE toString (multCoin a b))
  | "coin.min" => some ("ok " ++ toString (Coin.min a b))
  | "coin.wadd" => some ("ok " ++ toString (wrapAdd a b))
  | "coin.wsub" => some ("ok " ++ toString (wrapSub a b))
  | _ => none

/-- the answer to one tokenised line, `none` = not an F64/Coin line or malformed. -/
def answer (ws : List String) : Option String :=
  match ws with
  | ["f64.init"] => some "ok"
  | ["f64.ofu", n] => (u64? n).map fun n => "h " ++ (F64.ofNat n).toHex
  | ["f64.ofi", i] => (i64? i).map fun i => "h " ++ (F64.ofInt i).toHex
  | ["coin.toi64", c] => (u64? c).map fun c => showE toString (toInt64 c)
  | ["coin.ofi64", i] => (i64? i).map fun i => showE toString (ofInt64 i)
  | ["coin.tof", c] => (u64? c).map fun c => "h " ++ (toFloat64 c).toHex
  | ["coin.f2c", a] => (F64.ofHex? a).map fun a => showE toString (float64ToCoin a)
  | ["coin.addi64", c, i] => match u64? c, i64? i with
    | some c, some i => some (showE toString (addInt64 c i))
    | _, _ => none
  | ["coin.subi64", c, i] => match u64? c, i64? i with
    | some c, some i => some (showE toString (minusInt64 c i))
    | _, _ => none
  | ["coin.dist", c, i] => match u64? c, i64? i with
    | some c, some i => some (showE (fun (p : Nat × Nat) => s!"{p.1} {p.2}") (distributeCoin c i))
    | _, _ => none
  | ["coin.mulf", c, a] => match u64? c, F64.ofHex? a with
    | some c, some a => some (showE toString (multFloat64 c a))
    | _, _ => none
  | [op, a, b] =>
    if op.startsWith "coin." then
      match u64? a, u64? b with
      | some a, some b => coin2 op a b
      | _, _ => none
    else
      match F64.ofHex? a, F64.ofHex? b with
      | some a, some b => bin op a b
      | _, _ => none
  | [op, a] => match F64.ofHex? a with
    | some a => un op a
    | none => none
  | _ => none

end ZChain.F64Line
