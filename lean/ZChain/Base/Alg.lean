/-
`Base/Alg` — pairing-based crypto "in the exponent" (DESIGN.md §4.6), shared by C18, C21, C31–C34, C41, C47.

Every group element of the real library (herumi BLS on BN254: G1 for signatures and message points,
G2 for public keys) is represented by its discrete logarithm w.r.t. the fixed generator, an element
of a type `F` with `+ * - /` (core type classes only). Theorems are proved for `[Field F]` in
`Proofs/Alg.lean` (Mathlib); the executable instance `Fr` below (integers modulo the group
order `r` of herumi's BN254 curve) needs no Mathlib and is what the line drivers compute with.

* secret key `s : F`; public key `pubKey s = s` (exponent of the G2 generator);
* message point `h = Hm m : F` (hash-to-curve, an uninterpreted function of the message);
* signature `sign s h = s * h`;  `verify pk h σ := σ = pk * h`  (the pairing equation
  `e(σ, g2) = e(Hm m, pk)` read in the exponent);
* polynomial secret sharing: coefficients `cs = [c₀, c₁, …]` (`c₀` the secret), share for id `x` is
  `polyEval cs x` (`SecretKey.Set(msk, id)`); the public polynomial has the same coefficients read as
  public keys, `PublicKey.Set(mpk, id)` is the same evaluation;
* Lagrange recovery at 0 from points `(id, value)` (`Sign.Recover`, `SecretKey.Recover`);
* aggregate verification `Σ σᵢ = Σ pkᵢ * Hm mᵢ` (product of pairings read in the exponent).

ASSUMED (recorded in the check configs, not axioms): the herumi library realises this algebra
(bilinearity, the groups have prime order `r`, hash-to-curve is a function), and `r` is prime (so that
`Fr` is a field and `inv` below is the inverse).
Core-only: this file is linked into the drivers.
-/
namespace ZChain.Alg

section Generic
variable {F : Type} [Add F] [Mul F] [Sub F] [Div F] [Zero F] [One F]

/-- public key of a secret key (exponent of the G2 generator). -/
def pubKey (s : F) : F := s

/-- `SecretKey.Sign`: `s · Hm(m)`. -/
def sign (s h : F) : F := s * h

/-- `Sign.Verify(pk, m)`: `e(σ, g2) = e(Hm m, pk)` in the exponent. -/
def verify [DecidableEq F] (pk h σ : F) : Bool := decide (σ = pk * h)

/-- `Sign.Verify` as the library answers: it additionally refuses the zero public key / the zero
signature (observed: the zero signature under the zero key is rejected although `0 = 0·h`). -/
def verifyLib [DecidableEq F] (pk h σ : F) : Bool :=
  decide (pk ≠ 0) && decide (σ ≠ 0) && decide (σ = pk * h)

/-- Horner evaluation `c₀ + x·(c₁ + x·(…))` — `SecretKey.Set(msk,id)`, `PublicKey.Set(mpk,id)`. -/
def polyEval (cs : List F) (x : F) : F := cs.foldr (fun c acc => c + x * acc) 0

/-- Lagrange basis coefficient at 0 of node `x` among nodes `xs`: `Π_{x' ≠ x} x' / (x' − x)`. -/
def lagrangeAt0 [DecidableEq F] (xs : List F) (x : F) : F :=
  ((xs.filter (fun x' => decide (x' ≠ x))).map (fun x' => x' / (x' - x))).prod

/-- Lagrange interpolation at 0 through the points `(x, y)`. -/
def recover [DecidableEq F] (pts : List (F × F)) : F :=
  (pts.map (fun p => p.2 * lagrangeAt0 (pts.map Prod.fst) p.1)).sum

/-- some id occurs twice. -/
def hasDup [DecidableEq F] : List F → Bool
  | [] => false
  | x :: xs => xs.contains x || hasDup xs

/-- `Sign.Recover` / `SecretKey.Recover` of the library with its error cases: no point → error;
one point → its value (whatever the id); otherwise a zero or repeated id → error. -/
def recoverLib [DecidableEq F] (pts : List (F × F)) : Option F :=
  match pts with
  | [] => none
  | [p] => some p.2
  | _ =>
    let xs := pts.map Prod.fst
    if xs.contains 0 then none
    else if hasDup xs then none
    else some (recover pts)

/-- one item of an aggregate verification: public key, message point, signature. -/
structure AggItem (F : Type) where
  pk : F
  h : F
  sig : F

/-- left side: the sum of the signatures (`Sign.Add`). -/
def aggSig (items : List (AggItem F)) : F := (items.map (·.sig)).sum

/-- right side: `Π e(Hm mᵢ, pkᵢ)` in the exponent. -/
def aggPair (items : List (AggItem F)) : F := (items.map (fun it => it.pk * it.h)).sum

/-- aggregate verification over batches (`BLS0ChainAggregateSignatureScheme`): the per-batch sums are
summed again, then one pairing check. -/
def aggVerify [DecidableEq F] (batches : List (List (AggItem F))) : Bool :=
  decide ((batches.map aggSig).sum = (batches.map aggPair).sum)

/-- every item verifies on its own. -/
def allValid [DecidableEq F] (items : List (AggItem F)) : Bool :=
  items.all (fun it => verify it.pk it.h it.sig)

end Generic

/-! ## Executable instance: integers modulo the BN254 group order -/

/-- the order of G1/G2/GT of herumi's BN254 (`bls.CurveFp254BNb`, the curve `bls.Init` selects in
`core/encryption/bls0chain.go` and `chaincore/threshold/bls/dkg.go`) — the value `bls.GetCurveOrder()`
returns (every harness asserts it with the `order` op); assumed prime. NB this is *not* the order of the
Ethereum curve alt_bn128 (2188…5617), which is a different BN curve. -/
def r : Nat := 16798108731015832284940804142231733909759579603404752749028378864165570215949

/-- canonical representative in `[0, r)`; every constructor below reduces. -/
structure Fr where
  v : Nat
deriving DecidableEq, Repr, Inhabited

namespace Fr
def ofNat (n : Nat) : Fr := ⟨n % r⟩
def ofInt (i : Int) : Fr := ⟨(i % (r : Int)).toNat⟩

def add (a b : Fr) : Fr := ⟨(a.v + b.v) % r⟩
def mul (a b : Fr) : Fr := ⟨(a.v * b.v) % r⟩
def neg (a : Fr) : Fr := ⟨(r - a.v % r) % r⟩
def sub (a b : Fr) : Fr := ⟨(a.v + (r - b.v % r)) % r⟩

/-- square-and-multiply with explicit fuel (256 bits suffice for exponents `< r`). -/
def powAux : Nat → Nat → Nat → Nat → Nat
  | 0, _, _, acc => acc
  | fuel + 1, b, e, acc =>
    if e = 0 then acc
    else powAux fuel (b * b % r) (e / 2) (if e % 2 = 1 then acc * b % r else acc)

def pow (a : Fr) (e : Nat) : Fr := ⟨powAux 260 (a.v % r) e (1 % r)⟩

/-- Fermat inverse `a^(r−2)` (`0⁻¹ = 0`, as in Mathlib fields). -/
def inv (a : Fr) : Fr := pow a (r - 2)
def div (a b : Fr) : Fr := mul a (inv b)

instance : Add Fr := ⟨add⟩
instance : Mul Fr := ⟨mul⟩
instance : Sub Fr := ⟨sub⟩
instance : Neg Fr := ⟨neg⟩
instance : Div Fr := ⟨div⟩
instance : Zero Fr := ⟨⟨0⟩⟩
instance : One Fr := ⟨⟨1⟩⟩
instance (n : Nat) : OfNat Fr n := ⟨ofNat n⟩
instance : ToString Fr := ⟨fun a => toString a.v⟩

/-- parse a decimal scalar (possibly negative, possibly ≥ r: reduced). -/
def parse? (s : String) : Option Fr := (s.toInt?).map ofInt

end Fr

/-! ## Point registry: canonical labels for group elements

The drivers never print a curve point. A point is answered by the label `<prefix><k>` where `k` is the
index of its first occurrence in the current case; the Go side labels the real library's serialised
points the same way, so the two answer streams agree exactly when the equality pattern of the real
points is the equality pattern of their exponents. -/
structure Registry where
  seen : List Fr := []
deriving Inhabited

def Registry.label (g : Registry) (x : Fr) : Registry × Nat :=
  match g.seen.findIdx? (· == x) with
  | some i => (g, i)
  | none => ({ seen := g.seen ++ [x] }, g.seen.length)

end ZChain.Alg
