import ZChain.Base.F64
/-
# `ZChain.Coin` — checked 64-bit coin arithmetic, exactly as `github.com/0chain/common/core/currency`

Core-only (NO Mathlib). `currency.Coin` is a Go `uint64`; here a coin is a `Nat` and the invariant
`c < 2^64` (`Coin.Valid`) is carried by hypotheses, never by truncation: every checked function returns
`Except Coin.Err Nat` and **errors on overflow instead of wrapping**, as the Go functions do. The few
places where contract code applies raw Go `+`/`-`/`++` to a `Coin` are modelled by `wrapAdd`/`wrapSub`
(mod 2^64) **at exactly those sites**, so wrap-around defects are expressible.
Tied to Go by `harness/cmd/f64` (ops `coin …`), which also runs inside every C10 check.

## Interface (for importers)  — Go function → Lean
* `AddCoin(c,b)` → `addCoin`          (`addOverflow` when `c + b ≥ 2^64`)
* `MinusCoin(c,b)` → `minusCoin`      (`minusOverflow` when `b > c`)
* `MultCoin(c,b)` → `multCoin`        (as coded: `a := c*b mod 2^64; if a ≠ 0 ∧ a/c ≠ b → multOverflow`.
                                        NB the Go test misses products that wrap to exactly 0, e.g.
                                        `MultCoin(2^32, 2^32) = (0, nil)`; `multCoin` reproduces that;
                                        `multCoin_ok_of_lt` in Proofs/Coin gives the exact case)
* `Coin.Int64()` → `toInt64`          (`u64OverflowsI64` when `c ≥ 2^63`)
* `Int64ToCoin(a)` → `ofInt64`        (`i64UnderflowsU64` when `a < 0`)
* `AddInt64`, `MinusInt64` → `addInt64`, `minusInt64`
* `DistributeCoin(c,a)` → `distributeCoin` (`(c / a, c % a)`; Go panics on `a = 0`: `divZero`)
* `Coin.Float64()` → `toFloat64`      (never errors: `float64(uint64) ≥ 0`)
* `Float64ToCoin(a)` → `float64ToCoin` (`f64UnderflowsU64` when `a < 0`; out-of-range/NaN → `undef`)
* `MultFloat64(c,a)` → `multFloat64`  (`negativeValue` when `a < 0`; then `Float64ToCoin(float64(c)*a)`)
* `Min` → `min`
* raw `c + b`, `c - b`, `c++` on uint64 → `wrapAdd`, `wrapSub`, `wrapAdd c 1`
* Go `int64` values are `Int`s with `Coin.I64 i` (`-2^63 ≤ i < 2^63`) as a hypothesis where it matters;
  `u64ToI64`/`i64ToU64` are the raw Go conversions `int64(u)` / `uint64(i)` (two's complement).
* `Err.tag` is the canonical error-class token printed by drivers and harnesses.
-/
namespace ZChain.Coin

def U64 : Nat := 18446744073709551616   -- 2^64
def I64max : Nat := 9223372036854775807 -- 2^63 − 1

theorem U64_eq : U64 = 2 ^ 64 := by decide

/-- the `uint64` range invariant of a `currency.Coin`. -/
def Valid (c : Nat) : Prop := c < U64
/-- the `int64` range. -/
def I64 (i : Int) : Prop := -9223372036854775808 ≤ i ∧ i < 9223372036854775808

inductive Err where
  | addOverflow        -- ErrUint64AddOverflow
  | minusOverflow      -- ErrUint64MinusOverflow
  | multOverflow       -- ErrUint64MultOverflow
  | u64OverflowsI64    -- ErrUint64OverflowsInt64
  | i64UnderflowsU64   -- ErrInt64UnderflowsUint64
  | f64UnderflowsU64   -- ErrFloat64UnderflowsUint64
  | negativeValue      -- ErrNegativeValue
  | u64OverflowsF64    -- ErrUint64OverflowsFloat64 (unreachable: a product of non-negatives is never < 0)
  | divZero            -- Go run-time panic: integer divide by zero
  | undef              -- float→uint64 conversion outside the range where Go defines it
deriving DecidableEq, Repr, Inhabited

def Err.tag : Err → String
  | .addOverflow => "add-overflow"
  | .minusOverflow => "minus-overflow"
  | .multOverflow => "mult-overflow"
  | .u64OverflowsI64 => "u64-overflows-i64"
  | .i64UnderflowsU64 => "i64-underflows-u64"
  | .f64UnderflowsU64 => "f64-underflows-u64"
  | .negativeValue => "negative-value"
  | .u64OverflowsF64 => "u64-overflows-f64"
  | .divZero => "panic-div-zero"
  | .undef => "undef"

/-! ## raw (wrapping) uint64 operators — only for the unchecked Go sites -/

def wrapAdd (a b : Nat) : Nat := (a + b) % U64
def wrapSub (a b : Nat) : Nat := (a + (U64 - b % U64)) % U64
def wrapMul (a b : Nat) : Nat := (a * b) % U64

/-- Go `int64(u)` for `u : uint64`. -/
def u64ToI64 (u : Nat) : Int := if u ≤ I64max then Int.ofNat u else Int.ofNat u - Int.ofNat U64
/-- Go `uint64(i)` for `i : int64`. -/
def i64ToU64 (i : Int) : Nat := (i % Int.ofNat U64).toNat

/-! ## checked operations -/

def addCoin (c b : Nat) : Except Err Nat :=
  if c + b < U64 then .ok (c + b) else .error .addOverflow

def minusCoin (c b : Nat) : Except Err Nat :=
  if c < b then .error .minusOverflow else .ok (c - b)

/-- as coded: `a := c * b` (wrapping); `if a != 0 && a/c != b { overflow }`. -/
def multCoin (c b : Nat) : Except Err Nat :=
  let a := wrapMul c b
  if a ≠ 0 ∧ a / c ≠ b then .error .multOverflow else .ok a

def toInt64 (c : Nat) : Except Err Int :=
  if c ≤ I64max then .ok (Int.ofNat c) else .error .u64OverflowsI64

def ofInt64 (a : Int) : Except Err Nat :=
  if a < 0 then .error .i64UnderflowsU64 else .ok a.toNat

def addInt64 (c : Nat) (a : Int) : Except Err Nat :=
  match ofInt64 a with
  | .error e => .error e
  | .ok b => addCoin c b

def minusInt64 (c : Nat) (a : Int) : Except Err Nat :=
  match ofInt64 a with
  | .error e => .error e
  | .ok b => minusCoin c b

/-- `DistributeCoin(c, a)`: `(c / a, c % a)`. -/
def distributeCoin (c : Nat) (a : Int) : Except Err (Nat × Nat) :=
  match ofInt64 a with
  | .error e => .error e
  | .ok d => if d = 0 then .error .divZero else .ok (c / d, c % d)

def min (a b : Nat) : Nat := if a < b then a else b

/-! ## float conversions -/

def toFloat64 (c : Nat) : F64 := F64.ofNat c

def float64ToCoin (a : F64) : Except Err Nat :=
  if F64.lt a F64.zero then .error .f64UnderflowsU64
  else match F64.toNatTrunc a with
    | some n => .ok n
    | none => .error .undef

def multFloat64 (c : Nat) (a : F64) : Except Err Nat :=
  if F64.lt a F64.zero then .error .negativeValue
  else
    let b := F64.mul (F64.ofNat c) a
    if F64.lt b F64.zero then .error .u64OverflowsF64 else float64ToCoin b

end ZChain.Coin
