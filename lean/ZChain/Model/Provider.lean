import ZChain.Base.Coin
import ZChain.Model.Ledger
import ZChain.Model.StakePool
/-!
# Model of provider kill / shut-down and of stake-pool lock / unlock / collect (C23, C11)

Transcribed Go code (module `0chain.net/smartcontract`):
* `provider/kill.go: Kill`, `provider/shutdown.go: ShutDown` — generic over the provider kind; **the key under
  which the stake pool is saved is an explicit parameter** (`SaveKey`): the code passes `req.ID` in `Kill` and `p.Id()`
  in `ShutDown` (the caller's `clientId` before repo commit d221d33), the pool being loaded under `p.Id()`;
* `storagesc/kill.go: killBlobber, killValidator`, `storagesc/shutdown.go: shutdownBlobber, shutdownValidator`
  (provider lookup, validators-partition removal, the `refreshProvider` closures, swallowing of the
  already-killed error by the blobber wrappers only, deletion of an empty provider);
* `minersc/kill.go: kill` (miner / sharder: own code, no slashing); `zcnsc` has no kill / shut-down entry point;
* `stakepool/stakepool.go: Kill, SlashFraction, StakePoolLock, validateLockRequest, StakePoolUnlock, MintRewards,
  MintServiceCharge, Empty`, `stakepool/lock.go: LockPool, CheckClientBalance`, `stakepool/unlock.go: UnlockPool,
  DeletePool`, `stakepool/collect_reward.go`, `storagesc/stakepool.go: (*stakePool).Empty` (offers must stay covered),
  the `collectReward` / stake-pool wrappers of `storagesc`, `minersc`, `zcnsc`;
* reward payment = `DistributeRewards` of `Model/StakePool.lean` applied to the pool the paying contract loads
  (`<kind>:stakepool:<provider id>`, or the miner/sharder node), which is where the `HasBeenKilled` gate sits.
* the engine (`chain.updateState`) is `Ledger.settle`: a failing call keeps only the nonce increment, a transfer that
  cannot be applied rejects the whole transaction.

State layout = the MPT leaves the mechanism touches: accounts, `provider:<id>` nodes, `<kind>:stakepool:<id>` nodes
(a miner's / sharder's pool is part of its provider node: `leafOf`), the validators partition.

Code quirks that are modelled because they are what the code does:
* (`ShutDown` authorises first, like `Kill`, since repo commit 40a4a9f; before, the already-shut-down branch with its
  refresh ran before any authorisation;)
* `shutdownValidator`'s refresh closure reads the **blobber** stake pool of the same id;
* `storagesc` reads `provider:<req.ID>` before any authorisation; when the id belongs to a miner or sharder the stored
  bytes are decoded as a storage record (since repo commit e59baf9; `GetTrieNode` used to panic on the cached
  `MinerNode`): `getBlobber` sees the provider type and answers "provider is miner should be blobber" (`wrongKind`);
  as a `ValidationNode` they decode to an EMPTY provider (the `Provider` field sits one level deeper in a `MinerNode`),
  whose stake pool does not exist (`notFound`). Nothing is written in either case;
* `killValidator` / `shutdownValidator` do not check the provider type of the node they load (`xkind`: the harness
  does not drive that branch with an authorised caller; the model stops with `Err.crossKind`);
* (until repo commit fc9e9de `zcnsc.StakePool` inherited `stakepool.StakePool.Save` and lock / unlock wrote a record
  layout `zcnsc` could not read back; it now has its own `Save`, authorizer pools behave like all others.)
Ids are naturals (the harness maps them to client ids); `order` lists the ids in the order of their hex form
(`OrderedPoolIds`). Core-only.
-/
namespace ZChain.Provider
open ZChain ZChain.Coin

abbrev Id := Nat

def minerSC : Id := 0
def storageSC : Id := 1
def zcnSC : Id := 2

inductive Kind where
  | miner | sharder | blobber | validator | authorizer
deriving DecidableEq, Repr, Inhabited

def Kind.tag : Kind → String
  | .miner => "miner" | .sharder => "sharder" | .blobber => "blobber"
  | .validator => "validator" | .authorizer => "authorizer"

def Kind.ofTag? : String → Option Kind
  | "miner" => some .miner | "sharder" => some .sharder | "blobber" => some .blobber
  | "validator" => some .validator | "authorizer" => some .authorizer | _ => none

/-- the contract a kind belongs to (= the wallet that holds its stakes and pays its rewards: `GetMinter`). -/
def Kind.sc : Kind → Id
  | .miner => minerSC | .sharder => minerSC
  | .blobber => storageSC | .validator => storageSC
  | .authorizer => zcnSC

/-! ## association lists -/

def kvGet {κ α} [DecidableEq κ] : List (κ × α) → κ → Option α
  | [], _ => none
  | (k, v) :: rest, i => if k = i then some v else kvGet rest i

/-- replace the first entry of `i` or append. -/
def kvSet {κ α} [DecidableEq κ] : List (κ × α) → κ → α → List (κ × α)
  | [], i, v => [(i, v)]
  | (k, w) :: rest, i, v => if k = i then (k, v) :: rest else (k, w) :: kvSet rest i v

def kvDel {κ α} [DecidableEq κ] : List (κ × α) → κ → List (κ × α)
  | [], _ => []
  | (k, w) :: rest, i => if k = i then kvDel rest i else (k, w) :: kvDel rest i

/-! ## records -/

structure DP where
  balance  : Nat
  reward   : Nat
  stakedAt : Nat
  deleted  : Bool      -- Status == spenum.Deleted (set by `Empty` and, without any refund, by zcnsc `DeleteAuthorizer`)
deriving DecidableEq, Repr, Inhabited

/-- `stakepool.StakePool` (+ `TotalOffers` of the storagesc wrapper, `0` elsewhere). -/
structure SP where
  pools        : List (Id × DP)
  reward       : Nat
  wallet       : Option Id      -- Settings.DelegateWallet (`none` = the empty string)
  maxDelegates : Nat            -- Settings.MaxNumDelegates
  minStake     : Nat            -- Settings.MinStake
  ratio        : F64            -- Settings.ServiceChargeRatio
  dead         : Bool           -- HasBeenKilled
  offers       : Nat            -- storagesc TotalOffers
deriving DecidableEq, Repr, Inhabited

structure Prov where
  kind     : Kind
  shutDown : Bool
  killed   : Bool
  hasData  : Bool     -- blobber: SavedData > 0
deriving DecidableEq, Repr, Inhabited

structure Cfg where
  owner     : Id
  killSlash : F64      -- storagesc stakepool.kill_slash
  demeter   : Bool     -- hard fork "demeter" active
  minStake  : Kind → Nat   -- ValidationSettings.MinStake of the kind's contract
  maxStake  : Kind → Nat
  minLock   : Nat      -- stakepool.min_lock_period in seconds
  spMinStake : Kind → Nat   -- min_stake_per_delegate of the kind's contract, copied into a new pool's Settings.MinStake

structure State where
  accts : Ledger.Accts
  provs : List (Id × Prov)
  sps   : List ((Kind × Id) × SP)
  vpart : List Id
  order : List Id

inductive Err where
  | noFunction | notFound | wrongKind | crossKind | unauthorized | already | noPool
  | badSlash | coin (e : Coin.Err) | reward (e : StakePool.Err)
  | lockZero | lockSmall | lockLarge | maxDelegates | noTokens | lowBalance | lockDeleted
  | tooEarly | offers | noRewards | exists
deriving DecidableEq, Repr, Inhabited

def Err.tag : Err → String
  | .noFunction => "no-function" | .notFound => "not-found" | .wrongKind => "wrong-kind"
  | .crossKind => "cross-kind" | .unauthorized => "unauthorized" | .already => "already"
  | .noPool => "no-pool" | .badSlash => "bad-slash" | .coin e => "coin:" ++ e.tag
  | .reward e => "reward:" ++ e.tag
  | .lockZero => "lock-zero" | .lockSmall => "lock-small" | .lockLarge => "lock-large"
  | .maxDelegates => "max-delegates" | .noTokens => "no-tokens" | .lowBalance => "low-balance"
  | .lockDeleted => "lock-deleted"
  | .tooEarly => "too-early" | .offers => "offers" | .noRewards => "no-rewards" | .exists => "exists"

def liftC {α} : Except Coin.Err α → Except Err α
  | .ok a => .ok a
  | .error e => .error (.coin e)

/-! ## stake-pool level -/

/-- the pools in `OrderedPoolIds` order. -/
def orderedPools (order : List Id) (pools : List (Id × DP)) : List (Id × DP) :=
  order.filterMap (fun i => (kvGet pools i).map (fun d => (i, d)))

/-- `sp.stake()`: checked left-to-right sum. -/
def stakeOf : List (Id × DP) → Nat → Except Err Nat
  | [], s => .ok s
  | (_, d) :: rest, s =>
    match addCoin s d.balance with
    | .error e => .error (.coin e)
    | .ok s' => stakeOf rest s'

/-- the loop of `SlashFraction`: `dp.Balance = MultFloat64(dp.Balance, reduction)` for every pool. -/
def slashPools (red : F64) : List (Id × DP) → Except Err (List (Id × DP))
  | [] => .ok []
  | (i, d) :: rest =>
    match multFloat64 d.balance red with
    | .error e => .error (.coin e)
    | .ok b =>
      match slashPools red rest with
      | .error e => .error e
      | .ok rest' => .ok ((i, { d with balance := b }) :: rest')

/-- the `reduction` of `SlashFraction`: `1 - slash`, clamped to `[0, 1]`. -/
def reduction (slash : F64) : F64 :=
  let r := F64.sub F64.one slash
  if F64.lt r F64.zero then F64.zero else if F64.gt r F64.one then F64.one else r

/-- `(sp *StakePool) SlashFraction(killSlashFraction, …)`. -/
def slashFraction (sp : SP) (slash : F64) : Except Err SP :=
  if F64.eq slash F64.zero then .ok sp
  else if F64.lt slash F64.zero || F64.gt slash F64.one then .error .badSlash
  else
    match slashPools (reduction slash) sp.pools with
    | .error e => .error e
    | .ok ps => .ok { sp with pools := ps }

/-- `(sp *StakePool) Kill(killSlash, …)`: `HasBeenKilled = true`, then `SlashFraction`. -/
def spKill (sp : SP) (slash : F64) : Except Err SP :=
  slashFraction { sp with dead := true } slash

def getSP (s : State) (k : Kind) (id : Id) : Option SP := kvGet s.sps (k, id)

/-- `Save(kind, id)` (`stakepool.StakePool.Save`, the storagesc and zcnsc wrappers' `Save`, `MinerNode.Save`). -/
def putSP (s : State) (k : Kind) (id : Id) (sp : SP) : State :=
  { s with sps := kvSet s.sps (k, id) sp }

/-- the save of the kind's reward / collect path (`zcnsc` uses its lower-case `save`: same record). -/
def saveSP (s : State) (k : Kind) (id : Id) (sp : SP) : State := putSP s k id sp

def delSP (s : State) (k : Kind) (id : Id) : State :=
  { s with sps := kvDel s.sps (k, id) }

/-! ## provider.Kill / provider.ShutDown and their wrappers -/

/-- the three id terms of the Go code that could name the stake-pool record. -/
inductive SaveKey where
  | reqId     -- `req.ID` (the request's provider_id)
  | caller    -- `clientId` (the transaction's sender)
  | provId    -- `p.Id()` (the id stored in the loaded provider record)
deriving DecidableEq, Repr

structure Req where
  caller : Id
  reqId  : Id
deriving DecidableEq, Repr

def SaveKey.eval (k : SaveKey) (r : Req) (provId : Id) : Id :=
  match k with
  | .reqId => r.reqId
  | .caller => r.caller
  | .provId => provId

/-- the save keys the code uses. -/
def killSaveKey : SaveKey := .reqId        -- provider/kill.go:70  `sp.Save(p.Type(), req.ID, balances)`
def shutDownSaveKey : SaveKey := .provId   -- provider/shutdown.go:52 `sp.Save(p.Type(), p.Id(), balances)` (since d221d33; before: `clientId` = `.caller`)

/-- result of a wrapper's `providerSpecific` closure: provider id (`p.Id()`), its record, the stake pool loaded under
`(p.Type(), p.Id())`, and the state after the closure's own writes (partition removal). -/
structure Loaded where
  pid  : Id
  p    : Prov
  sp   : SP
  st   : State

/-- `getBlobber(req.ID)` + `getStakePoolAdapter(blobber.Type(), blobber.Id())` (kill.go:44-63, shutdown.go:43-61).
The challenge-ready partition removal is a no-op for blobbers without stored data (the only ones driven). -/
def loadBlobber (s : State) (r : Req) : Except Err Loaded :=
  match kvGet s.provs r.reqId with
  | none => .error .notFound
  | some p =>
    if p.kind ≠ .blobber then .error .wrongKind
    else match getSP s .blobber r.reqId with
      | none => .error .notFound
      | some sp => .ok ⟨r.reqId, p, sp, s⟩

/-- `GetTrieNode(provider.GetKey(req.ID), validator)` (no type check), validators-partition removal (written back
when "demeter" is active), `getStakePoolAdapter(validator.Type(), validator.Id())` (kill.go:133-163). -/
def loadValidator (cfg : Cfg) (s : State) (r : Req) : Except Err Loaded :=
  match kvGet s.provs r.reqId with
  | none => .error .notFound
  | some p =>
    if p.kind = .miner ∨ p.kind = .sharder then .error .notFound   -- decodes to an empty provider: no such stake pool
    else
      let s1 := if cfg.demeter then { s with vpart := s.vpart.filter (· ≠ r.reqId) } else s
      match getSP s1 p.kind r.reqId with
      | none => .error .notFound
      | some sp => .ok ⟨r.reqId, p, sp, s1⟩

/-- the `refreshProvider` closure of killBlobber / shutdownBlobber / **shutdownValidator** (all three read the
*blobber* stake pool of `req.ID`): `TotalOffers = 0`, saved under `(blobber, req.ID)`. -/
def refreshBlobberOffers (s : State) (r : Req) : Except Err State :=
  match getSP s .blobber r.reqId with
  | none => .error .notFound
  | some sp => .ok (putSP s .blobber r.reqId { sp with offers := 0 })

/-- outcome of `provider.Kill` / `provider.ShutDown`. -/
inductive PRes where
  | err (e : Err)                                   -- any other error
  | already (st : State)                            -- `AlreadyKilledError` / `AlreadyShutdownError`, after the refresh
  | done (st : State) (pid : Id) (p : Prov) (sp : SP)   -- nil; `p`, `sp` are the mutated in-memory records

/-- `provider.Kill` (kill.go:31-82) with the save key as a parameter. -/
def provKill (load : State → Req → Except Err Loaded) (refresh : Option (State → Req → Except Err State))
    (owner : Id) (slash : F64) (key : SaveKey) (s : State) (r : Req) : PRes :=
  match load s r with
  | .error e => .err e
  | .ok L =>
    if owner ≠ r.caller then .err .unauthorized
    else if L.p.killed || L.p.shutDown then
      match refresh with
      | none => .already L.st
      | some f =>
        match f L.st r with
        | .error e => .err e
        | .ok st' => .already st'
    else
      let p' := { L.p with killed := true }
      match spKill L.sp slash with
      | .error e => .err e
      | .ok sp' => .done (putSP L.st p'.kind (key.eval r L.pid) sp') L.pid p' sp'

/-- `provider.ShutDown` (shutdown.go:17-69): load, authorise (owner or the loaded pool's delegate wallet), then the
already-killed-or-shut-down branch, else flag, `Kill` with the slash, save. -/
def provShutDown (load : State → Req → Except Err Loaded) (refresh : Option (State → Req → Except Err State))
    (owner : Id) (slash : F64) (key : SaveKey) (s : State) (r : Req) : PRes :=
  match load s r with
  | .error e => .err e
  | .ok L =>
    if ¬ (owner = r.caller ∨ L.sp.wallet = some r.caller) then .err .unauthorized
    else if L.p.killed || L.p.shutDown then
      match refresh with
      | none => .already L.st
      | some f =>
        match f L.st r with
        | .error e => .err e
        | .ok st' => .already st'
    else
      let p' := { L.p with shutDown := true }
      match spKill L.sp slash with
      | .error e => .err e
      | .ok sp' => .done (putSP L.st p'.kind (key.eval r L.pid) sp') L.pid p' sp'

def putProv (s : State) (id : Id) (p : Prov) : State := { s with provs := kvSet s.provs id p }
def delProv (s : State) (id : Id) : State := { s with provs := kvDel s.provs id }

/-- tail of the four storagesc wrappers: an empty provider is deleted together with the stake pool stored under
its OWN id, otherwise the provider record is saved. -/
def finishStorage (st : State) (pid : Id) (p : Prov) (sp : SP) (needNoData : Bool) : State :=
  if (!needNoData || !p.hasData) && sp.pools.isEmpty then delSP (delProv st pid) p.kind pid
  else putProv st pid p

def halfSlash (cfg : Cfg) : F64 := F64.div cfg.killSlash (F64.ofNat 2)

/-- `killBlobber` (storagesc/kill.go:20-106) with the save key of `provider.Kill` as a parameter. -/
def killBlobberK (key : SaveKey) (cfg : Cfg) (s : State) (r : Req) : Except Err State :=
  match provKill loadBlobber (some refreshBlobberOffers) cfg.owner cfg.killSlash key s r with
  | .err e => .error e
  | .already st => .ok st
  | .done st pid p sp => .ok (finishStorage st pid p sp true)

/-- `shutdownBlobber` (storagesc/shutdown.go:20-103). -/
def shutdownBlobberK (key : SaveKey) (cfg : Cfg) (s : State) (r : Req) : Except Err State :=
  match provShutDown loadBlobber (some refreshBlobberOffers) cfg.owner (halfSlash cfg) key s r with
  | .err e => .error e
  | .already st => .ok st
  | .done st pid p sp => .ok (finishStorage st pid p sp true)

/-- `killValidator` (storagesc/kill.go:111-192): no refresh, the already-killed error is NOT swallowed. -/
def killValidatorK (key : SaveKey) (cfg : Cfg) (s : State) (r : Req) : Except Err State :=
  match provKill (loadValidator cfg) none cfg.owner cfg.killSlash key s r with
  | .err e => .error e
  | .already _ => .error .already
  | .done st pid p sp => if p.kind ≠ .validator then .error .crossKind else .ok (finishStorage st pid p sp false)

/-- `shutdownValidator` (storagesc/shutdown.go:108-196): refresh closure on the blobber pool, error not swallowed. -/
def shutdownValidatorK (key : SaveKey) (cfg : Cfg) (s : State) (r : Req) : Except Err State :=
  match provShutDown (loadValidator cfg) (some refreshBlobberOffers) cfg.owner (halfSlash cfg) key s r with
  | .err e => .error e
  | .already _ => .error .already
  | .done st pid p sp => if p.kind ≠ .validator then .error .crossKind else .ok (finishStorage st pid p sp false)

/-- `minersc.kill` (minersc/kill.go:43-84), for `kill_miner` / `kill_sharder`: no slashing, pool flag inside the node. -/
def killMinerNode (k : Kind) (cfg : Cfg) (s : State) (r : Req) : Except Err State :=
  if cfg.owner ≠ r.caller then .error .unauthorized
  else
    match kvGet s.provs r.reqId with
    | none => .error .notFound
    | some p =>
      if p.kind ≠ k then .error .wrongKind
      else match kvGet s.sps (k, r.reqId) with
        | none => .error .notFound
        | some sp =>
          if p.killed && sp.dead then .error .already
          else .ok (putSP (putProv s r.reqId { p with killed := true }) k r.reqId { sp with dead := true })

/-- the contract entry points as the code has them. -/
def kill (cfg : Cfg) (k : Kind) (s : State) (r : Req) : Except Err State :=
  match k with
  | .blobber => killBlobberK killSaveKey cfg s r
  | .validator => killValidatorK killSaveKey cfg s r
  | .miner => killMinerNode .miner cfg s r
  | .sharder => killMinerNode .sharder cfg s r
  | .authorizer => .ok s        -- zcnsc.Execute answers an unknown function name with a nil error: success, no change

def shutdown (cfg : Cfg) (k : Kind) (s : State) (r : Req) : Except Err State :=
  match k with
  | .blobber => shutdownBlobberK shutDownSaveKey cfg s r
  | .validator => shutdownValidatorK shutDownSaveKey cfg s r
  | _ => .ok s                  -- minersc / zcnsc have no such function: their Execute returns (message, nil)

/-! ## stake-pool lock / unlock / collect / reward -/

structure Txn where
  client : Id
  value  : Nat
  now    : Nat      -- txn.CreationDate
deriving DecidableEq, Repr

/-- the stake pool the kind's contract loads for `(kind, id)`: storagesc and zcnsc read `<kind>:stakepool:<id>`,
minersc reads the miner / sharder node (checking its provider type). -/
def loadSP (s : State) (k : Kind) (pid : Id) : Except Err SP :=
  match k with
  | .miner | .sharder =>
    match kvGet s.provs pid with
    | none => .error .notFound
    | some p =>
      if p.kind ≠ k then .error .wrongKind
      else match getSP s k pid with
        | none => .error .notFound
        | some sp => .ok sp
  | _ =>
    match getSP s k pid with
    | none => .error .notFound
    | some sp => .ok sp

/-- `refreshProvider` after lock / unlock: storagesc needs the blobber record (`getBlobber`); the others add no
failure of their own. -/
def refreshAfter (s : State) (k : Kind) (pid : Id) : Except Err Unit :=
  match k with
  | .blobber =>
    match kvGet s.provs pid with
    | none => .error .notFound
    | some p =>
      if p.kind ≠ .blobber then .error .wrongKind else .ok ()
  | _ => .ok ()

/-- balance of an optional delegate pool (`poolStakeBefore` of `validateLockRequest`). -/
def balanceOf (o : Option DP) : Nat :=
  match o with
  | some d => d.balance
  | none => 0

/-- `LockPool`: a new delegate pool, or the existing one with the value added (`AddCoin`, already checked by
`validateLockRequest`) and `StakedAt` reset. -/
def lockedDP (o : Option DP) (v now : Nat) : DP :=
  match o with
  | none => { balance := v, reward := 0, stakedAt := now, deleted := false }
  | some d => { d with balance := d.balance + v, stakedAt := now }

/-- `LockPool` refuses to add to a pool whose status is neither Active nor Pending. -/
def isDeleted (o : Option DP) : Bool :=
  match o with
  | some d => d.deleted
  | none => false

/-- `StakePoolLock` = `validateLockRequest` + `LockPool` + `Save` + `EmitStakeEvent` + refresh. -/
def lock (cfg : Cfg) (s : State) (k : Kind) (pid : Id) (t : Txn) : Except Err (State × List Ledger.Transfer) :=
  match loadSP s k pid with
  | .error e => .error e
  | .ok sp =>
    if t.value = 0 then .error .lockZero
    else if t.value < cfg.minStake k then .error .lockSmall
    else
      match addCoin (balanceOf (kvGet sp.pools t.client)) t.value with
      | .error e => .error (.coin e)
      | .ok after =>
        if cfg.maxStake k < after then .error .lockLarge
        else if sp.maxDelegates ≤ sp.pools.length ∧ (kvGet sp.pools t.client).isNone then .error .maxDelegates
        else if !Ledger.present s.accts t.client then .error .noTokens
        else if (Ledger.get s.accts t.client).balance < t.value then .error .lowBalance
        else if isDeleted (kvGet sp.pools t.client) then .error .lockDeleted
        else
          let sp' := { sp with pools := kvSet sp.pools t.client (lockedDP (kvGet sp.pools t.client) t.value t.now) }
          match stakeOf (orderedPools s.order sp'.pools) 0 with
          | .error e => .error e
          | .ok _ =>
            match refreshAfter s k pid with
            | .error e => .error e
            | .ok _ => .ok (putSP s k pid sp', [{ src := t.client, dst := k.sc, amount := t.value }])

/-- the service charge `MintRewards` pays to `client`: the provider's accumulated reward when `client` is the pool's
delegate wallet (`clientId == sp.Settings.DelegateWallet && sp.Reward > 0`), else nothing. -/
def chargeOf (sp : SP) (client : Id) : Nat := if sp.wallet = some client ∧ 0 < sp.reward then sp.reward else 0

/-- `MintServiceCharge`: transfer `sp.Reward` from the contract to the delegate wallet, `sp.Reward = 0`. -/
def payCharge (sp : SP) (k : Kind) (client : Id) : SP × List Ledger.Transfer :=
  if sp.wallet = some client ∧ 0 < sp.reward then
    ({ sp with reward := 0 }, [{ src := k.sc, dst := client, amount := sp.reward }])
  else (sp, [])

/-- the delegate part of `MintRewards`: `if dPool.Reward > 0 { transfer; dPool.Reward = 0 }`. -/
def payDelegate (sp : SP) (k : Kind) (client : Id) (d : DP) : SP × List Ledger.Transfer :=
  if 0 < d.reward then
    ({ sp with pools := kvSet sp.pools client { d with reward := 0 } }, [{ src := k.sc, dst := client, amount := d.reward }])
  else (sp, [])

/-- `MintRewards(clientId, …)`: service charge to the delegate wallet, then the caller's own pool reward.
Returns the pool, the queued transfers and the total; `none` when there is nothing for the caller at all
(no pool of its own and no service charge: "cannot find rewards"). -/
def mintRewards (sp : SP) (k : Kind) (client : Id) : Option (SP × List Ledger.Transfer × Nat) :=
  let c := payCharge sp k client
  match kvGet sp.pools client with
  | none => if chargeOf sp client = 0 then none else some (c.1, c.2, chargeOf sp client)
  | some d =>
    let e := payDelegate c.1 k client d
    some (e.1, c.2 ++ e.2, wrapAdd d.reward (chargeOf sp client))

/-- the state part of `Empty`: `Balance = 0`, `Status = Deleted` (the refund transfer is queued by `unlock`). -/
def emptyPool (sp : SP) (client : Id) : SP :=
  match kvGet sp.pools client with
  | some d => { sp with pools := kvSet sp.pools client { d with balance := 0, deleted := true } }
  | none => sp

/-- `DeletePool`: the delegate pool is removed when its status is Deleted. -/
def deletePool (sp : SP) (client : Id) : SP :=
  match kvGet sp.pools client with
  | some d => if d.deleted then { sp with pools := kvDel sp.pools client } else sp
  | none => sp

/-- `StakePoolUnlock`; `wall` is the `time.Now()` the code reads (seconds). `Empty` refunds `dp.Balance` whatever the
pool's status is (a pool marked Deleted by `DeleteAuthorizer` still holds its stake). -/
def unlock (cfg : Cfg) (s : State) (k : Kind) (pid : Id) (t : Txn) (wall : Nat) :
    Except Err (State × List Ledger.Transfer) :=
  match loadSP s k pid with
  | .error e => .error e
  | .ok sp =>
    match kvGet sp.pools t.client with
    | none => .error .noPool
    | some dp =>
      if 0 < dp.stakedAt ∧ ¬ (dp.stakedAt + cfg.minLock < wall) then .error .tooEarly
      else
        match mintRewards sp k t.client with
        | none => .error .noRewards      -- unreachable: the caller's pool exists
        | some (sp1, trR, amount) =>
          match toInt64 dp.balance, toInt64 amount with
          | .error e, _ => .error (.coin e)
          | _, .error e => .error (.coin e)
          | .ok _, .ok _ =>
            -- Empty (storagesc: the remaining stake must still cover the offers)
            let guard : Except Err Unit :=
              if k = .blobber ∨ k = .validator then
                match addCoin sp1.offers dp.balance with
                | .error e => .error (.coin e)
                | .ok required =>
                  match stakeOf (orderedPools s.order sp1.pools) 0 with
                  | .error e => .error e
                  | .ok staked => if staked < required then .error .offers else .ok ()
              else .ok ()
            match guard with
            | .error e => .error e
            | .ok _ =>
              let sp2 := deletePool (emptyPool sp1 t.client) t.client
              match stakeOf (orderedPools s.order sp2.pools) 0 with
              | .error e => .error e
              | .ok _ =>
                match refreshAfter s k pid with
                | .error e => .error e
                | .ok _ => .ok (putSP s k pid sp2, trR ++ [{ src := k.sc, dst := t.client, amount := dp.balance }])

/-- `collectReward` of the three contracts. -/
def collect (s : State) (k : Kind) (pid : Id) (client : Id) : Except Err (State × List Ledger.Transfer) :=
  match loadSP s k pid with
  | .error e => .error e
  | .ok sp =>
    match mintRewards sp k client with
    | none => .error .noRewards
    | some (sp1, trs, _) =>
      .ok (saveSP s k pid sp1, trs)

/-- zcnsc `DeleteAuthorizer` (zcnsc/authorizer.go:259-346): the owner or the authorizer's delegate wallet removes the
authorizer record; every delegate pool is marked Deleted — nothing is paid back here, the stakers unlock afterwards. -/
def deleteAuthorizer (cfg : Cfg) (s : State) (r : Req) : Except Err State :=
  match kvGet s.provs r.reqId with
  | none => .error .notFound
  | some p =>
    if p.kind ≠ .authorizer then .error .wrongKind
    else match getSP s .authorizer r.reqId with
      | none => .error .notFound
      | some sp =>
        if ¬ (cfg.owner = r.caller ∨ sp.wallet = some r.caller) then .error .unauthorized
        else .ok (delProv (putSP s .authorizer r.reqId
          { sp with pools := sp.pools.map fun q => (q.1, { q.2 with deleted := true }) }) r.reqId)

/-- the rewards computed on the ordered pool list, keyed by pool id. -/
def rewardsById : List (Id × DP) → List StakePool.DP → List (Id × Nat)
  | (i, _) :: rest, r :: rs => (i, r.reward) :: rewardsById rest rs
  | _, _ => []

/-- write them back into the keyed pools (the pools keep their positions). -/
def writeRewards (pools : List (Id × DP)) (rs : List (Id × Nat)) : List (Id × DP) :=
  pools.map fun p =>
    match kvGet rs p.1 with
    | some r => (p.1, { p.2 with reward := r })
    | none => p

/-- a reward payment to `(k, pid)`: load as the paying contract does, `DistributeRewards`, save back. -/
def payReward (s : State) (k : Kind) (pid : Id) (value : Nat) : Except Err State :=
  match loadSP s k pid with
  | .error e => .error e
  | .ok sp =>
    let ord := orderedPools s.order sp.pools
    let m : StakePool.SP := { pools := ord.map (fun p => ⟨p.2.balance, p.2.reward⟩), reward := sp.reward,
                              minStake := sp.minStake, ratio := sp.ratio, killed := sp.dead }
    match StakePool.distributeRewards m value with
    | .error e => .error (.reward e)
    | .ok (_, none) => .ok (saveSP s k pid sp)      -- nothing moved: the record is written back as it was loaded
    | .ok (m', some _) =>
      let sp' := { sp with pools := writeRewards sp.pools (rewardsById ord m'.pools), reward := m'.reward }
      .ok (saveSP s k pid sp')

/-! ## registration (state construction only; the registration code itself is not the subject) -/

def register (cfg : Cfg) (s : State) (k : Kind) (pid wallet : Id) (maxDelegates : Nat) (ratio : F64) :
    Except Err State :=
  if (kvGet s.provs pid).isSome then .error .exists
  else if wallet = pid then .error .exists
  else
    let sp : SP := { pools := [], reward := 0, wallet := some wallet, maxDelegates := maxDelegates,
                     minStake := cfg.spMinStake k, ratio := ratio, dead := false, offers := 0 }
    let s1 := putProv s pid { kind := k, shutDown := false, killed := false, hasData := false }
    let s2 := { s1 with sps := kvSet s1.sps (k, pid) sp }
    .ok (if k = .validator then { s2 with vpart := s2.vpart ++ [pid] } else s2)

/-- the blobber stores data (`SavedData > 0`, what `commit_connection` brings about) or none. -/
def setData (s : State) (pid : Id) (has : Bool) : Except Err State :=
  match kvGet s.provs pid with
  | none => .error .notFound
  | some p => if p.kind ≠ .blobber then .error .wrongKind else .ok (putProv s pid { p with hasData := has })

/-- a new allocation on two blobbers: each one's `TotalOffers` grows by `offer` (everything else an allocation does is
outside this model). -/
def addOffers (s : State) (b1 b2 : Id) (offer : Nat) : Except Err State :=
  match getSP s .blobber b1, getSP s .blobber b2 with
  | some p1, some p2 =>
    let s1 := putSP s .blobber b1 { p1 with offers := p1.offers + offer }
    .ok (putSP s1 .blobber b2 { p2 with offers := p2.offers + offer })
  | _, _ => .error .notFound

/-! ## the engine around a contract call -/

inductive Status where
  | ok | fail (e : Err) | reject
deriving DecidableEq, Repr

def bumpNonce (a : Ledger.Accts) (i : Id) : Ledger.Accts :=
  let x := Ledger.get a i
  Ledger.set a i { x with nonce := x.nonce + 1 }

/-- `updateState` for a contract call without fee: a chargeable error keeps only the nonce increment; a queued transfer
that cannot be applied rejects the transaction. -/
def exec (s : State) (sender : Id) (r : Except Err (State × List Ledger.Transfer)) : State × Status :=
  match r with
  | .error e => ({ s with accts := bumpNonce s.accts sender }, .fail e)
  | .ok (s', trs) =>
    match Ledger.applyTransfers s.accts trs with
    | .error _ => (s, .reject)
    | .ok a => ({ s' with accts := bumpNonce a sender }, .ok)

def noTransfers (r : Except Err State) : Except Err (State × List Ledger.Transfer) :=
  match r with
  | .error e => .error e
  | .ok s => .ok (s, [])

/-- the transactions, as the engine runs them (what the line driver executes). -/
def killTxn (cfg : Cfg) (k : Kind) (s : State) (r : Req) : State × Status :=
  exec s r.caller (noTransfers (kill cfg k s r))

def shutdownTxn (cfg : Cfg) (k : Kind) (s : State) (r : Req) : State × Status :=
  exec s r.caller (noTransfers (shutdown cfg k s r))

def lockTxn (cfg : Cfg) (s : State) (k : Kind) (pid : Id) (t : Txn) : State × Status :=
  exec s t.client (lock cfg s k pid t)

def unlockTxn (cfg : Cfg) (s : State) (k : Kind) (pid : Id) (t : Txn) (wall : Nat) : State × Status :=
  exec s t.client (unlock cfg s k pid t wall)

def collectTxn (s : State) (k : Kind) (pid client : Id) : State × Status :=
  exec s client (collect s k pid client)

def deleteAuthorizerTxn (cfg : Cfg) (s : State) (r : Req) : State × Status :=
  exec s r.caller (noTransfers (deleteAuthorizer cfg s r))

/-! ## leaves -/

/-- MPT leaf names. A miner's / sharder's stake pool is stored inside its provider node. -/
inductive Leaf where
  | acct (i : Id)
  | prov (i : Id)
  | sp (k : Kind) (i : Id)
  | vpart
deriving DecidableEq, Repr

def leafOfSP (k : Kind) (i : Id) : Leaf :=
  match k with
  | .miner | .sharder => .prov i
  | _ => .sp k i

end ZChain.Provider
