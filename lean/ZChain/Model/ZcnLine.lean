import ZChain.Model.Zcn
/-!
Line protocol of the bridge-contract model (shared by the drivers `zdrv-C18` and `zdrv-C19`; the Go side is
`harness/cmd/c18/zcnw`). Core-only.

`init <fee> <minBurn> <minMint> <maxFee> <percentHex> <owner> <minStakePerDelegate> <maxDelegates> <otherValid 0|1>
      | <id:bal:nonce>* | <addr:nonce>* | <k:sk>* | <k:wallet:maxDel:ratioHex:reward:killed:minStake:pools>* | <count> | <nonce>*`
   (`killed` = `0|1` registered authorizer, `u0|u1` a stake pool without authorizer node; pools = `-` | `b.r/b.r/…`)
`burn    <sender> <value> <fee> <nonce> a<addr> | e<v> | m<v>`
`mint    <sender> <value> <fee> <nonce> !<v> | <eth>:<amountInt64>:<nonce>:<receiver>:<sigs>:<seed>~<i1.i2.…>`
   sigs = `-` | comma list of `<id>/<sig>`; id = `e` | `k<i>`; sig = `b<v>` | `<c>=` | `<c>*<eth>.<amountU64>.<nonce>.<recv>`
`addauth <sender> <value> <fee> <nonce> ! | <k>:<wallet|->:<maxDel>:<ratioHex>`
`delauth <sender> <value> <fee> <nonce> ! | <k>`
`updcfg  <sender> <value> <fee> <nonce> ! | - | <key>=<value>,…`   keys mb mm mf sd (coins), pa (hex), ow (id), md (int), bad
answer: `<status> <error class|-> <extra|-> g=<config in the state> a=… u=… c=… r=… p=… m=… x=0`.
-/
namespace ZChain.ZcnLine
open ZChain ZChain.Ledger ZChain.Zcn ZChain.Alg

structure DS where
  feeOn : Bool := true
  keys : List (Nat × Fr) := []       -- key universe: index ↦ secret (= public exponent)
  st : ZSt := { accts := [], cfg := ⟨0, 0, 0, F64.zero, 0, 0, 0, true⟩, users := [], auths := [], count := 0, pools := [], minted := [] }
  ready : Bool := false

/-! ### printing -/

def insertSorted (x : Int × String) : List (Int × String) → List (Int × String)
  | [] => [x]
  | y :: ys => if x.1 ≤ y.1 then x :: y :: ys else y :: insertSorted x ys

def sortByKey (l : List (Int × String)) : List (Int × String) := l.foldl (fun acc x => insertSorted x acc) []

def dedupFirst {α : Type} (a : List (Nat × α)) : List (Nat × α) :=
  a.foldl (fun acc p => if acc.any (fun q => q.1 = p.1) then acc else acc ++ [p]) []

def joinSorted (sep : String) (l : List (Int × String)) : String := sep.intercalate ((sortByKey l).map (·.2))

def showPools (ps : List StakePool.DP) : String :=
  if ps.isEmpty then "-" else "/".intercalate (ps.map fun d => s!"{d.balance}.{d.reward}")

def showState (s : ZSt) : String :=
  let as := (dedupFirst s.accts).map fun p => ((p.1 : Int), s!"{p.1}:{p.2.balance}:{p.2.nonce}")
  let us := (dedupFirst s.users).map fun p => ((p.1 : Int), s!"{p.1}:{p.2}")
  let rs := (dedupFirst s.auths).map fun p => ((p.1 : Int), s!"{p.1}")
  let ps := (dedupFirst s.pools).map fun p =>
    ((p.1 : Int), s!"{p.1}:{p.2.wallet}:{p.2.maxDel}:{F64.toHex p.2.sp.ratio}:{p.2.sp.reward}:{if p.2.sp.killed then 1 else 0}:{p.2.sp.minStake}:{showPools p.2.sp.pools}")
  let ms := s.minted.eraseDups.map fun n => (n, s!"{n}")
  let g := s!"{s.cfg.minBurn},{s.cfg.minMint},{s.cfg.maxFee},{F64.toHex s.cfg.percent},{s.cfg.owner},{s.cfg.minStakePerDelegate},{s.cfg.maxDelegates},{if s.cfg.otherValid then 1 else 0}"
  s!"g={g} a={joinSorted "," as} u={joinSorted "," us} c={s.count} r={joinSorted "," rs} p={joinSorted ";" ps} m={joinSorted "," ms} x=0"

def showStatus : Status → String
  | .rejected => "rejected" | .success => "success" | .failed => "failed"

/-! ### parsing -/

def splitBars (ws : List String) : List (List String) :=
  let r := ws.foldl (fun (acc : List (List String) × List String) w =>
    if w = "|" then (acc.1 ++ [acc.2], []) else (acc.1, acc.2 ++ [w])) ([], [])
  r.1 ++ [r.2]

def natTail? (s : String) : Option Nat := (String.ofList (s.toList.drop 1)).toNat?

def parseAccts (ws : List String) : Option Accts :=
  ws.mapM fun w => match w.splitOn ":" with
    | [i, b, n] => do pure ((← i.toNat?), (⟨← b.toNat?, ← n.toInt?⟩ : Acct))
    | _ => none

def parseUsers (ws : List String) : Option Users :=
  ws.mapM fun w => match w.splitOn ":" with
    | [a, n] => do pure ((← a.toNat?), (← n.toInt?))
    | _ => none

def parseKeys (ws : List String) : Option (List (Nat × Fr)) :=
  ws.mapM fun w => match w.splitOn ":" with
    | [k, sk] => do pure ((← k.toNat?), (← Fr.parse? sk))
    | _ => none

def parseDPs (s : String) : Option (List StakePool.DP) :=
  if s = "-" then some [] else
  (s.splitOn "/").mapM fun d => match d.splitOn "." with
    | [b, r] => do pure (⟨← b.toNat?, ← r.toNat?⟩ : StakePool.DP)
    | _ => none

structure Reg where
  k : Nat
  registered : Bool
  ap : APool

def parseReg (w : String) : Option Reg :=
  match w.splitOn ":" with
  | [k, wallet, md, ratio, rew, killed, ms, pools] => do
    let (reg, kl) ← (match killed with
      | "0" => some (true, false) | "1" => some (true, true)
      | "u0" => some (false, false) | "u1" => some (false, true) | _ => none)
    let sp : StakePool.SP := { pools := ← parseDPs pools, reward := ← rew.toNat?, minStake := ← ms.toNat?,
                               ratio := ← F64.ofHex? ratio, killed := kl }
    pure { k := ← k.toNat?, registered := reg, ap := { sp := sp, wallet := ← wallet.toNat?, maxDel := ← md.toInt? } }
  | _ => none

def parseInit (ws : List String) : Option DS :=
  match ws with
  | fee :: minBurn :: minMint :: maxFee :: pct :: owner :: minSPD :: maxDel :: ov :: rest =>
    match splitBars rest with
    | [[], accts, users, keys, regs, [count], minted] => do
      if fee ≠ "0" ∧ fee ≠ "1" then none
      if ov ≠ "0" ∧ ov ≠ "1" then none
      let cfg : Cfg := { minBurn := ← minBurn.toNat?, minMint := ← minMint.toNat?, maxFee := ← maxFee.toNat?,
                         percent := ← F64.ofHex? pct, owner := ← owner.toNat?,
                         minStakePerDelegate := ← minSPD.toNat?, maxDelegates := ← maxDel.toInt?, otherValid := ov = "1" }
      let keys ← parseKeys keys
      let regs ← regs.mapM parseReg
      let auths ← (regs.filter (·.registered)).mapM fun r => do
        let sk ← aGet keys r.k
        pure (r.k, sk)
      let minted ← minted.mapM (·.toInt?)
      pure { feeOn := fee = "1", keys := keys, ready := true,
             st := { accts := ← parseAccts accts, cfg := cfg, users := ← parseUsers users, auths := auths,
                     count := ← count.toInt?, pools := regs.map (fun r => (r.k, r.ap)), minted := minted } }
    | _ => none
  | _ => none

def parseCall (sender value fee nonce : String) : Option Call := do
  pure { sender := ← sender.toNat?, value := ← value.toNat?, fee := ← fee.toNat?, nonce := ← nonce.toInt? }

def parseBurnIn (s : String) : Option BurnIn :=
  match s.toList with
  | 'a' :: _ => (natTail? s).map BurnIn.addr
  | 'e' :: _ => (natTail? s).map fun _ => BurnIn.empty
  | 'm' :: _ => (natTail? s).map fun _ => BurnIn.malformed
  | _ => none

/-- the driver's concrete message-point function: an affine map with large constants (no collisions and
no accidental linear relations on the small tuples a case uses; the theorems hold for any function). -/
def hm (e a : Nat) (n : Int) (r : Nat) : Fr :=
  Fr.ofNat (7305608133456217771190453213395412094356118531640087346158097130941717293 +
    15018570141183949620303841265309203817402285127891734620113405531640087347 * e +
    11579208923731619542357098500868790785283756427907490438260516314151816149 * a +
    9346158097130941717293730560813345621777119045321339541209435611853164009 * Coin.i64ToU64 n +
    13407807929942597099574024998205846127479365820592393377723561443721764031 * r)

def u64 : Nat := 18446744073709551616

def parseSigId (s : String) : Option (Option Nat) :=
  if s = "e" then some none
  else match s.toList with
    | 'k' :: _ => (natTail? s).map some
    | _ => none

def parseSig (eth amt : Nat) (nonce : Int) (recv : Nat) (s : String) : Option Sig :=
  match s.splitOn "/" with
  | [id, sg] => do
    let id ← parseSigId id
    if sg.isEmpty then none
    match sg.toList with
    | 'b' :: _ => do let _ ← natTail? sg; pure { id := id, sig := none }
    | _ =>
      if sg.endsWith "=" then do
        let c ← Fr.parse? (String.ofList (sg.toList.dropLast))
        pure { id := id, sig := some (sign c (hm eth amt nonce recv)) }
      else match sg.splitOn "*" with
        | [c, t] => match t.splitOn "." with
          | [te, ta, tn, tr] => do
            let ta ← ta.toNat?
            if ta ≥ u64 then none
            let c ← Fr.parse? c
            pure { id := id, sig := some (sign c (hm (← te.toNat?) ta (← tn.toInt?) (← tr.toNat?))) }
          | _ => none
        | _ => none
  | _ => none

def i64ok (n : Int) : Bool := decide (-9223372036854775808 ≤ n) && decide (n ≤ 9223372036854775807)

/-- result: payload (or `none` = malformed), message point, pick function. -/
def parseMint (s : String) : Option (Option MintIn × Fr × (Nat → Nat)) :=
  match s.toList with
  | '!' :: _ => (natTail? s).map fun _ => (none, 0, fun _ => 0)
  | _ =>
    match s.splitOn ":" with
    | [eth, amt, nonce, recv, sigs, st] => do
      let eth ← eth.toNat?
      let amtI ← amt.toInt?
      let nonce ← nonce.toInt?
      let recv ← recv.toNat?
      if !(i64ok amtI) || !(i64ok nonce) then none
      let amt := Coin.i64ToU64 amtI
      let tbl ← (match st.splitOn "~" with
        | [seed, t] => do let _ ← seed.toInt?; (t.splitOn ".").mapM (·.toNat?)
        | _ => none)
      let sigs ← (if sigs = "-" then some [] else (sigs.splitOn ",").mapM (parseSig eth amt nonce recv))
      pure (some { eth := eth, amount := amt, nonce := nonce, sigs := sigs, receiver := recv },
            hm eth amt nonce recv, fun n => tbl.getD (n - 1) n)
    | _ => none

def parseAdd (keys : List (Nat × Fr)) (s : String) : Option (Option AddIn) :=
  if s = "!" then some none else
  match s.splitOn ":" with
  | [k, wallet, md, ratio] => do
    let k ← k.toNat?
    let pk ← aGet keys k
    let wallet ← (if wallet = "-" then some none else wallet.toNat?.map some)
    pure (some { key := k, pk := pk, wallet := wallet, maxDel := ← md.toInt?, ratio := ← F64.ofHex? ratio })
  | _ => none

def parseUpd (w : String) : Option Upd :=
  match w.splitOn "=" with
  | ["mb", v] => v.toNat?.map Upd.minBurn
  | ["mm", v] => v.toNat?.map Upd.minMint
  | ["mf", v] => v.toNat?.map Upd.maxFee
  | ["pa", v] => (F64.ofHex? v).map Upd.percent
  | ["ow", v] => v.toNat?.map Upd.owner
  | ["sd", v] => v.toNat?.map Upd.minSPD
  | ["md", v] => v.toInt?.map Upd.maxDel
  | ["bad", v] => v.toNat?.map fun _ => Upd.invalid
  | _ => none

/-- `!` (not JSON) or a comma list of `key=value` with pairwise distinct keys (a Go map). -/
def parseUpds (s : String) : Option (Option (List Upd)) :=
  if s = "!" then some none
  else if s = "-" then some (some [])
  else
    let ws := s.splitOn ","
    let ks := ws.map fun w => (w.splitOn "=").headD ""
    if ks.eraseDups.length ≠ ks.length then none
    else (ws.mapM parseUpd).map some

def parseDel (s : String) : Option (Option Nat) :=
  if s = "!" then some none else s.toNat?.map some

/-! ### error classes -/

def burnErrTag : BurnErr → String
  | .belowMin => "belowMin" | .decode => "decode" | .noAddr => "noAddr"

def mintErrTag : MintErr → String
  | .decode => "decode" | .noSigs => "noSigs" | .noAuth => "noAuth" | .undefThreshold => "undefThreshold"
  | .fewSigs => "fewSigs" | .receiver => "receiver" | .minMint => "minMint" | .maxFee => "maxFee"
  | .nonceExists => "nonceExists" | .verify => "verify" | .notEnough => "notEnough" | .coin => "coin"
  | .pickRange => "pickRange" | .noPool => "noPool" | .reward => "reward"

def cfgErrTag : CfgErr → String
  | .notOwner => "notOwner" | .decode => "decode" | .update => "update" | .validate => "validate"

def authErrTag : AuthErr → String
  | .decode => "decode" | .noWallet => "noWallet" | .notOwner => "notOwner" | .exists => "exists"
  | .settings => "settings" | .noChange => "noChange" | .notFound => "notFound" | .noPool => "noPool"
  | .notAuthorized => "notAuthorized" | .negCount => "negCount"

def answer (r : ZSt × Status) (errTag : Option String) (extra : String) : String :=
  let cls := match r.2, errTag with
    | .failed, some t => t
    | _, _ => "-"
  let ex := if r.2 = .success then extra else "-"
  s!"{showStatus r.2} {cls} {ex} {showState r.1}"

def step (d : DS) (ws : List String) : DS × String :=
  match ws with
  | "init" :: rest =>
    match parseInit rest with
    | some d' => (d', "ok " ++ showState d'.st)
    | none => ({ d with ready := false }, "bad-op")
  | [op, sender, value, fee, nonce, arg] =>
    if !d.ready then (d, "bad-op") else
    match parseCall sender value fee nonce with
    | none => (d, "bad-op")
    | some c =>
      match op with
      | "burn" =>
        match parseBurnIn arg with
        | none => (d, "bad-op")
        | some inp =>
          let r := burnStep d.feeOn d.st c inp
          let (tag, extra) := match burnRes d.st c inp with
            | .error e => (some (burnErrTag e), "-")
            | .ok o => (none, s!"n{o.nonce}")
          ({ d with st := r.1 }, answer r tag extra)
      | "mint" =>
        match parseMint arg with
        | none => (d, "bad-op")
        | some (p, h, pick) =>
          let r := mintStep true d.feeOn d.st c p h pick
          let (tag, extra) := match mint true d.st c.sender p h pick with
            | .error e => (some (mintErrTag e), "-")
            | .ok o => (none, s!"p{o.paid}")
          ({ d with st := r.1 }, answer r tag extra)
      | "addauth" =>
        match parseAdd d.keys arg with
        | none => (d, "bad-op")
        | some a =>
          let r := addAuthStep d.feeOn d.st c a
          let tag := match addAuth d.st c.sender a with
            | .error e => some (authErrTag e)
            | .ok _ => none
          ({ d with st := r.1 }, answer r tag "-")
      | "delauth" =>
        match parseDel arg with
        | none => (d, "bad-op")
        | some k =>
          let r := delAuthStep d.feeOn d.st c k
          let tag := match delAuth d.st c.sender k with
            | .error e => some (authErrTag e)
            | .ok _ => none
          ({ d with st := r.1 }, answer r tag "-")
      | "updcfg" =>
        match parseUpds arg with
        | none => (d, "bad-op")
        | some u =>
          let r := updCfgStep d.feeOn d.st c u
          let tag := match updCfg d.st c.sender u with
            | .error e => some (cfgErrTag e)
            | .ok _ => none
          ({ d with st := r.1 }, answer r tag "-")
      | _ => (d, "bad-op")
  | _ => (d, "bad-op")

end ZChain.ZcnLine
