import ZChain.Base.Alg
/-!
Model of the client signature schemes (`core/encryption/signature_scheme.go`, `bls0chain.go`, `ed25519.go`) and of
the client id (`chaincore/client/entity.go`: `computePublicKeyBytes`, `GetIDFromPublicKey`, `Client.Validate`;
`encryption.VerifyPublicKeyClientID`) — C47.

* BLS (`bls0chain`): `Base/Alg` — `sign s h = s·h`, `Verify` = `verifyLib` (the library's check incl. its refusal of the
  zero key / zero signature).
* ed25519: an **abstract** deterministic scheme `EdScheme`: key pairs, `sign`, `verify`, with *correctness* as its only
  law. That a signature does not verify under another key or hash is the unforgeability assumption of the scheme,
  recorded as such (`EdScheme.Unforgeable` is a named hypothesis, never an axiom). The executable instance the
  driver uses is the ideal scheme (a signature is the pair "who signed what").
* client id: `clientId H pk = H pk` for the (uninterpreted) hash `H` of the public-key bytes; a client record is
  valid iff its id is that hash.
Core-only.
-/
namespace ZChain.Sig
open ZChain.Alg

/-- an abstract signature scheme on keys `SK`/`PK`, messages `M`, signatures `S`. -/
structure EdScheme (SK PK M S : Type) where
  pub : SK → PK
  sign : SK → M → S
  verify : PK → M → S → Bool
  /-- the only law used: a signature verifies under the signer's public key for the signed message. -/
  correct : ∀ sk m, verify (pub sk) m (sign sk m) = true

/-- the negative half, as an explicit *assumption about the scheme* (EUF-CMA read on honestly produced signatures). -/
def EdScheme.Unforgeable {SK PK M S : Type} (E : EdScheme SK PK M S) : Prop :=
  ∀ sk sk' m m', (E.pub sk' ≠ E.pub sk ∨ m' ≠ m) → E.verify (E.pub sk') m' (E.sign sk m) = false

/-- the ideal scheme the driver computes with: the signature names its signer and message. -/
def ideal (K M : Type) [DecidableEq K] [DecidableEq M] : EdScheme K K M (K × M × Nat) where
  pub := id
  sign := fun sk m => (sk, m, 0)
  verify := fun pk m s => decide (s = (pk, m, 0))
  correct := by intro sk m; simp

section ClientId
variable {PK ID : Type}

/-- `GetIDFromPublicKey` / `computePublicKeyBytes`: the id is the hash of the public-key bytes. -/
def clientId (H : PK → ID) (pk : PK) : ID := H pk

/-- a client record. -/
structure Client (PK ID : Type) where
  id : ID
  publicKey : PK

/-- `client.SetPublicKey(key)`. -/
def Client.ofPublicKey (H : PK → ID) (pk : PK) : Client PK ID := { id := clientId H pk, publicKey := pk }

/-- setting a (new) public key on an existing client object — `SetPublicKey`, `SetSignatureScheme`, decoding a new
`public_key` followed by `ComputeProperties`: the id is recomputed from the key that is set. -/
def Client.setPublicKey (H : PK → ID) (_c : Client PK ID) (pk : PK) : Client PK ID := Client.ofPublicKey H pk

/-- `Client.Validate` / `encryption.VerifyPublicKeyClientID`: the id must be the hash of the public key. -/
def Client.validate [DecidableEq ID] (H : PK → ID) (c : Client PK ID) : Bool := decide (c.id = H c.publicKey)

end ClientId

/-! ### the id as a STRING

`Client.ID`, state keys and cache keys are the exact string `encryption.Hash(publicKeyBytes)`: 64 lower-case hex digits.
Every entry point that is handed a `(public key, client id)` pair — `encryption.VerifyPublicKeyClientID`,
`Transaction.ComputeClientID` / `ComputeProperties`, `Client.Validate`, the storage `ValidationTicket.Validate` —
compares **strings** (`Hash(pk) != clientID`). `hashHex` is the uninterpreted hash rendered as that string. -/
section IdString

def isLowerHex (c : Char) : Bool := ('0' ≤ c && c ≤ '9') || ('a' ≤ c && c ≤ 'f')

/-- the canonical form of an id: exactly 64 lower-case hex digits. -/
def CanonicalId (s : String) : Prop := s.toList.length = 64 ∧ s.toList.all isLowerHex = true

/-- the pair check as coded: string equality with the hash string. -/
def idOk {PK : Type} (hashHex : PK → String) (pk : PK) (id : String) : Bool := decide (id = hashHex pk)

/-- value of a hex digit, **either case** — what `hex.DecodeString` does. -/
def hexVal (c : Char) : Option Nat :=
  if '0' ≤ c ∧ c ≤ '9' then some (c.toNat - '0'.toNat)
  else if 'a' ≤ c ∧ c ≤ 'f' then some (c.toNat - 'a'.toNat + 10)
  else if 'A' ≤ c ∧ c ≤ 'F' then some (c.toNat - 'A'.toNat + 10)
  else none

/-- `hex.DecodeString`: an even number of hex digits of either case (the digit values, two per byte). -/
def hexDecode (s : String) : Option (List Nat) :=
  if s.toList.length % 2 = 0 then s.toList.mapM hexVal else none

/-- the check one must NOT make: decode both sides and compare bytes. -/
def idOkDecoded {PK : Type} (hashHex : PK → String) (pk : PK) (id : String) : Bool :=
  match hexDecode id with
  | some b => decide (some b = hexDecode (hashHex pk))
  | none => false

/-! spellings of an id a byzantine sender can try (named so that a line protocol can ask for them). -/
def isLowerLetter (c : Char) : Bool := 'a' ≤ c && c ≤ 'f'
def upperChar (c : Char) : Char := if isLowerLetter c then Char.ofNat (c.toNat - 32) else c

/-- upper-case the first letter at or after position `k` (nothing if there is none). -/
def flipFrom : Nat → List Char → List Char
  | _, [] => []
  | 0, c :: cs => if isLowerLetter c then upperChar c :: cs else c :: flipFrom 0 cs
  | k + 1, c :: cs => c :: flipFrom k cs

def flipLast (l : List Char) : List Char := (flipFrom 0 l.reverse).reverse

def spelling (variant : String) (id : String) : Option String :=
  let l := id.toList
  match variant with
  | "canon" => some id
  | "upper" => some (String.ofList (l.map upperChar))
  | "flipfirst" => some (String.ofList (flipFrom 0 l))
  | "flipmid" => some (String.ofList (flipFrom 32 l))
  | "fliplast" => some (String.ofList (flipLast l))
  | "0x" => some ("0x" ++ id)
  | "sptrail" => some (id ++ " ")
  | "splead" => some (" " ++ id)
  | "d63" => some (String.ofList (l.drop 1))
  | "odd" => some (String.ofList l.dropLast)
  | "d65" => some (id ++ "0")
  | "d65b" => some ("0" ++ id)
  | "d62" => some (String.ofList (l.drop 2))
  | _ => none

end IdString
end ZChain.Sig
