import ZChain.Base.Alg
/-!
Model of the client signature schemes (`core/encryption/signature_scheme.go`, `bls0chain.go`, `ed25519.go`) and of
the client id (`chaincore/client/entity.go`: `computePublicKeyBytes`, `GetIDFromPublicKey`, `Client.Validate`;
`encryption.VerifyPublicKeyClientID`) — C47.

* BLS (`bls0chain`): `Base/Alg` — `sign s h = s·h`, `Verify` = `verifyLib` (the library's check incl. its refusal of the
  zero key / zero signature).
* ed25519: an **abstract** deterministic scheme `EdScheme`: key pairs, `sign`, `verify`, with *correctness* as its only
  law. That a signature does not verify under another key or hash is the unforgeability assumption of the scheme,
  recorded as such (`EdScheme.Unforgeable` is a named hypothesis, never an axiom). The executable instance the
  driver uses is the ideal scheme (a signature is the pair "who signed what").
* client id: `clientId H pk = H pk` for the (uninterpreted) hash `H` of the public-key bytes; a client record is
  valid iff its id is that hash.
Core-only.
-/
namespace ZChain.Sig
open ZChain.Alg

/-- an abstract signature scheme on keys `SK`/`PK`, messages `M`, signatures `S`. -/
structure EdScheme (SK PK M S : Type) where
  pub : SK → PK
  sign : SK → M → S
  verify : PK → M → S → Bool
  /-- the only law used: a signature verifies under the signer's public key for the signed message. -/
  correct : ∀ sk m, verify (pub sk) m (sign sk m) = true

/-- the negative half, as an explicit *assumption about the scheme* (EUF-CMA read on honestly produced signatures). -/
def EdScheme.Unforgeable {SK PK M S : Type} (E : EdScheme SK PK M S) : Prop :=
  ∀ sk sk' m m', (E.pub sk' ≠ E.pub sk ∨ m' ≠ m) → E.verify (E.pub sk') m' (E.sign sk m) = false

/-- the ideal scheme the driver computes with: the signature names its signer and message. -/
def ideal (K M : Type) [DecidableEq K] [DecidableEq M] : EdScheme K K M (K × M × Nat) where
  pub := id
  sign := fun sk m => (sk, m, 0)
  verify := fun pk m s => decide (s = (pk, m, 0))
  correct := by intro sk m; simp

section ClientId
variable {PK ID : Type}

/-- `GetIDFromPublicKey` / `computePublicKeyBytes`: the id is the hash of the public-key bytes. -/
def clientId (H : PK → ID) (pk : PK) : ID := H pk

/-- a client record. -/
structure Client (PK ID : Type) where
  id : ID
  publicKey : PK

/-- `client.SetPublicKey(key)`. -/
def Client.ofPublicKey (H : PK → ID) (pk : PK) : Client PK ID := { id := clientId H pk, publicKey := pk }

/-- setting a (new) public key on an existing client object — `SetPublicKey`, `SetSignatureScheme`, decoding a new
`public_key` followed by `ComputeProperties`: the id is recomputed from the key that is set. -/
def Client.setPublicKey (H : PK → ID) (_c : Client PK ID) (pk : PK) : Client PK ID := Client.ofPublicKey H pk

/-- `Client.Validate` / `encryption.VerifyPublicKeyClientID`: the id must be the hash of the public key. -/
def Client.validate [DecidableEq ID] (H : PK → ID) (c : Client PK ID) : Bool := decide (c.id = H c.publicKey)

end ClientId
end ZChain.Sig
