/-
Shared, core-only building blocks of the two hash-binding models (C29 block hash, C30 transaction hash).

* `Str` — a Go `string` is a byte sequence; modelled as `List Nat` (every element `< 256`; the drivers only
  ever build such lists). `Nat` rather than `UInt8` keeps the arithmetic lemmas (`omega`) simple.
* `joinSep` — what a run of `strings.Builder.WriteString(x); WriteString(":")…` produces.
* `renderNat` / `renderInt` — `strconv.FormatUint(·,10)` / `strconv.FormatInt(·,10)` / `strconv.Itoa`
  (`common.TimeToString` is `FormatInt(int64(ts),10)`; checked by the translators).
* Merkle tree of `github.com/0chain/common/core/util/merkle_tree.go` (`ComputeTree`, `GetRoot`) over an
  arbitrary hash function `H : Str → Str` (`MHash(a,b) = Hash(a+b)`).

The hash function is a *parameter* everywhere: theorems quantify over all `H` (with `Function.Injective H`
as a hypothesis where needed); the drivers instantiate it with `Model/Sha3.lean`.
-/
namespace ZChain.HashBind

abbrev Str := List Nat

/-- kind of a struct field's Go type, as the translators classify it: `str` = `string`/`datastore.Key`;
`int` = signed integers (`int`, `int64`, `common.Timestamp`); `uint` = unsigned (`currency.Coin`);
`bytes` = `[]byte` (`util.Key`); `other` = slices, maps, pointers, interfaces, structs. -/
inductive Kind | str | int | uint | bytes | other
deriving DecidableEq, Repr

/-- the byte `':'` -/
def colon : Nat := 58

/-- `a ++ sep ++ b ++ sep ++ …` (no trailing separator); `joinSep sep [] = []`. -/
def joinSep (sep : Nat) : List Str → Str
  | [] => []
  | [x] => x
  | x :: y :: rest => x ++ sep :: joinSep sep (y :: rest)

/-- decimal digits of `n`, most significant first, accumulated in front of `acc`.
Structural recursion on fuel; `renderNat` supplies `n + 1` (`n / 10 < n` for `n ≥ 10`). -/
def decAux : Nat → Nat → Str → Str
  | 0, _, acc => acc
  | fuel + 1, n, acc =>
    let acc' := (48 + n % 10) :: acc
    if n / 10 = 0 then acc' else decAux fuel (n / 10) acc'

/-- `strconv.FormatUint(n, 10)` -/
def renderNat (n : Nat) : Str := decAux (n + 1) n []

/-- `strconv.FormatInt(i, 10)`: a leading `'-'` (45) for negative numbers. -/
def renderInt (i : Int) : Str :=
  if i < 0 then 45 :: renderNat i.natAbs else renderNat i.natAbs

/-! ### Merkle tree (`util.MerkleTree.ComputeTree` / `GetRoot`) -/

/-- `util.MHash(h1, h2) = Hash(h1 + h2)` -/
def mhash (H : Str → Str) (a b : Str) : Str := H (a ++ b)

/-- one level of `ComputeTree`: neighbours are paired; an unpaired last node is paired with itself
(`if plsize&1 == 1 { tree[..] = MHash(last, last) }`). -/
def level (H : Str → Str) : List Str → List Str
  | [] => []
  | [a] => [mhash H a a]
  | a :: b :: rest => mhash H a b :: level H rest

/-- the loop `for …; plsize > 1; … plsize = (plsize+1)/2`: levels are computed until one node is left.
Fuel: the number of nodes (each level at least halves it). -/
def iter (H : Str → Str) : Nat → List Str → List Str
  | 0, l => l
  | fuel + 1, l => if l.length ≤ 1 then l else iter H fuel (level H l)

/-- `GetRoot()` after `ComputeTree(leaves)`:
* no leaves: the tree is the one-element slice `[""]`, the root is the empty string;
* one leaf `a`: special-cased to `MHash(a, a)`;
* otherwise the last node of the level loop. -/
def merkleRoot (H : Str → Str) (leaves : List Str) : Str :=
  match leaves with
  | [] => []
  | _ => (iter H leaves.length (level H leaves)).headD []

/-- a string is free of the separator -/
def sepFree (sep : Nat) (s : Str) : Bool := !(s.contains sep)

/-! ### hex helpers for the line drivers (strings travel hex-encoded on the wire) -/

def hexDigit (n : Nat) : Char :=
  if n < 10 then Char.ofNat (48 + n) else Char.ofNat (87 + n)

def toHex (s : Str) : String :=
  String.ofList (s.flatMap fun b => [hexDigit (b / 16 % 16), hexDigit (b % 16)])

def hexVal (c : Char) : Option Nat :=
  let n := c.toNat
  if 48 ≤ n ∧ n ≤ 57 then some (n - 48)
  else if 97 ≤ n ∧ n ≤ 102 then some (n - 87)
  else if 65 ≤ n ∧ n ≤ 70 then some (n - 55)
  else none

def fromHexAux : List Char → Option Str
  | [] => some []
  | [_] => none
  | a :: b :: rest =>
    match hexVal a, hexVal b, fromHexAux rest with
    | some x, some y, some r => some ((x * 16 + y) :: r)
    | _, _, _ => none

/-- `-` stands for the empty string on the wire. -/
def fromHex (s : String) : Option Str :=
  if s = "-" then some [] else fromHexAux s.toList

def toWire (s : Str) : String := if s.isEmpty then "-" else toHex s

/-- ASCII string literal to bytes (model constants such as `":"`). -/
def ofAscii (s : String) : Str := s.toList.map Char.toNat

end ZChain.HashBind
