/-
Model of state pruning: what `finalizeBlock` persists and records per finalized block
(`chaincore/chain/protocol_block.go`: `SaveChanges` of the block's new nodes, `RecordDeadNodes(fb.ClientState.GetDeletes(),
fb.Round)`, the block-summary ring), `pruneClientState`'s choice of the version
(`chaincore/chain/state_pruning.go`), common's `PNodeDB.RecordDeadNodes / PruneBelowVersion`
(`core/util/mpt_pnodedb.go`) and `ChangeCollector.AddChange / DeleteChange` (`core/util/mpt_node_change.go`).

The node store is content addressed; a node hash covers the node's origin (the round that created it), so a
node created in round r can only ever be re-created — with the same hash — in round r. Hashes are opaque tokens
recorded from the real trie (DESIGN §3.3).
Core-only.
-/
namespace ZChain.Prune

abbrev Hash := String

/-- what one finalized block contributes -/
structure Fin where
  round : Nat
  new   : List Hash   -- nodes SaveChanges writes (the change collector's new nodes)
  dead  : List Hash   -- `ClientState.GetDeletes()` recorded at `round`
  nodes : List Hash   -- every node of the block's state (for the read-back check)
deriving Repr

structure DB where
  store   : List Hash := []                 -- default column family: the nodes
  deadRec : List (Nat × List Hash) := []    -- dead_nodes column family: round ↦ hashes (one record per round)
  ring    : List Nat := []                  -- finalized rounds, latest first (`c.BlockChain`, 10000 slots)
  lfb     : Nat := 0
  blocks  : List (Nat × List Hash) := []    -- round ↦ state nodes
deriving Repr

def addAll (s : List Hash) (xs : List Hash) : List Hash :=
  xs.foldl (fun acc h => if acc.contains h then acc else h :: acc) s

def removeAll (s : List Hash) (xs : List Hash) : List Hash := s.filter (fun h => !xs.contains h)

/-- `finalizeBlock`: persist the new nodes, record the dead nodes under the round (`PutCF` under the round key:
a second record for the same round REPLACES the first), append the summary to the ring, move the LFB. -/
def DB.finalize (d : DB) (f : Fin) : DB :=
  { store := addAll d.store f.new,
    deadRec := (f.round, f.dead) :: d.deadRec.filter (fun e => e.1 != f.round),
    ring := f.round :: d.ring,
    lfb := f.round,
    blocks := (f.round, f.nodes) :: d.blocks.filter (fun e => e.1 != f.round) }

/-- Recovering from an incorrectly finalized block (`finalizeRound`, protocol_round.go "rolling back finalized
block"): `SetLatestOwnFinalizedBlockRound(b.Round); SetLatestFinalizedBlock(b)` with the common ancestor `b`. The
node store, the dead-node records and the summary ring are NOT rewound: the records of the rolled-back blocks stay
until the blocks of the winning fork are finalized for the same rounds and `RecordDeadNodes` overwrites them. -/
def DB.rollback (d : DB) (r : Nat) : DB :=
  { d with lfb := r, blocks := d.blocks.filter (fun e => e.1 ≤ r) }

/-- `PNodeDB.PruneBelowVersion(v)`: delete every node listed in a dead-node record of a round `< v`, and those
records. Returns the number of deleted keys as `PruneStats.Deleted` counts them (listed keys, present or not). -/
def DB.pruneBelow (d : DB) (v : Nat) : DB × Nat :=
  let hit := d.deadRec.filter (fun e => e.1 < v)
  let keys := hit.flatMap (·.2)
  ({ d with store := removeAll d.store keys, deadRec := d.deadRec.filter (fun e => !(e.1 < v)) }, keys.length)

/-- ring slot relative to the current (empty) slot: `slot 0` and positive offsets are empty (the ring is far
larger than any history here), `slot (-j)` is the j-th latest finalized round. -/
def slot (ring : List Nat) (pos : Int) : Option Nat :=
  if pos ≥ 0 then none else ring[(-pos - 1).toNat]?

/-- `for i := 0; i < 10 && bc.Value == nil; i++ { bc = bc.Prev() }` -/
def skipEmpty (ring : List Nat) : Nat → Int → Int
  | 0, pos => pos
  | n + 1, pos => if (slot ring pos).isNone then skipEmpty ring n (pos - 1) else pos

/-- `for bs.Round%100 != 0 { bc = bc.Prev(); if bc.Value == nil { break }; bs = bc.Value }` (fuel = ring length) -/
def walkTo100 (ring : List Nat) : Nat → Int → Nat → Nat
  | 0, _, bs => bs
  | n + 1, pos, bs =>
    if bs % 100 != 0 then
      match slot ring (pos - 1) with
      | none => bs
      | some r => walkTo100 ring n (pos - 1) r
    else bs

inductive PruneOut where
  | skipped                     -- returned before choosing a version
  | abandoned (version : Nat)
  | pruned (version : Nat) (deleted : Nat)
deriving Repr, DecidableEq

/-- `pruneClientState` with `PruneStateBelowCount = count`. -/
def DB.prune (d : DB) (count : Nat) : DB × PruneOut :=
  if d.lfb ≤ count then (d, .skipped)
  else
    let pos := skipEmpty d.ring 10 (-(count : Int))
    let bs : Option Nat :=
      match slot d.ring pos with
      | some r => some (walkTo100 d.ring d.ring.length pos r)
      | none => none
    -- `bs == nil` ⇒ the LFB itself (lfb.Round == 0 cannot happen here: lfb > count ≥ 0)
    let version := bs.getD d.lfb
    if d.lfb - count < version then (d, .abandoned version)
    else
      let (d', n) := d.pruneBelow version
      (d', .pruned version n)

/-- full read of the state of the block of `round`: every node must still be in the store -/
def DB.check (d : DB) (round : Nat) : Option Bool :=
  match d.blocks.find? (fun e => e.1 == round) with
  | none => none
  | some e => some (e.2.all (fun h => d.store.contains h))

/-! ## the change collector (`mpt_node_change.go`) -/

structure Change where
  old : Option Hash
  new : Hash
deriving Repr, DecidableEq

/-- `Changes map[newHash]*NodeChange`, `Deletes map[hash]Node` -/
structure Collector where
  changes : List (Hash × Change) := []
  deletes : List Hash := []
deriving Repr

def Collector.getChange (c : Collector) (h : Hash) : Option Change :=
  (c.changes.find? (fun e => e.1 == h)).map (·.2)

def Collector.dropChange (c : Collector) (h : Hash) : Collector :=
  { c with changes := c.changes.filter (fun e => e.1 != h) }

def Collector.setChange (c : Collector) (h : Hash) (ch : Change) : Collector :=
  { c with changes := (h, ch) :: c.changes.filter (fun e => e.1 != h) }

/-- `AddChange(oldNode, newNode)` -/
def Collector.addChange (c : Collector) (old : Option Hash) (new : Hash) : Collector :=
  let c := { c with deletes := c.deletes.filter (· != new) }      -- delete(cc.Deletes, nhash)
  match old with
  | none => c.setChange new ⟨none, new⟩
  | some o =>
    match c.getChange o with
    | some prev =>
      let c := c.dropChange o
      if prev.old = some new then c                               -- back to the node it started from: no change
      else c.setChange new ⟨prev.old, new⟩
    | none =>
      let c := c.setChange new ⟨some o, new⟩
      { c with deletes := o :: c.deletes.filter (· != o) }

/-- `DeleteChange(oldNode)` -/
def Collector.deleteChange (c : Collector) (o : Hash) : Collector :=
  match c.getChange o with
  | some _ => c.dropChange o
  | none => { c with deletes := o :: c.deletes.filter (· != o) }

inductive CCall where
  | add (old : Option Hash) (new : Hash)
  | del (old : Hash)
deriving Repr

def Collector.step (c : Collector) : CCall → Collector
  | .add o n => c.addChange o n
  | .del o => c.deleteChange o

end ZChain.Prune
