import ZChain.Model.Reduce
import ZChain.Generated.C38
/-
Model of the miner contract's view-change (DKG) phase machine:
smartcontract/minersc/dkg.go (moveTo*, GetPhaseNode, setPhaseNode, createDKGMinersForContribute,
widdleDKGMinersForShare, reduceShardersList, createMagicBlockForWait, contributeMpk, shareSignsOrShares, wait,
createMagicBlock, RestartDKG, SetMagicBlock), fees.go (adjustViewChange and the view-change part of payFees),
models.go (PhaseNode, DKGMinerNodes.calculateTKN / reduceNodes, GlobalNode.hasPrev*), sharder.go (sharderKeep).

What is a parameter of the model rather than re-implemented:
* the validity of a shares-or-signs payload (`ShareOrSigns.Validate`, BLS) is the flag `valid` of the `sos` op (C34 is the
  property about that cryptography); the harness produces valid / invalid payloads with the real library;
* `rand.Perm` of the latest finalized magic block's seed (`perms`, as in `Model/Reduce`);
* the part of `payFees` after the view-change block (fees, rewards) is assumed to succeed (C22); the harness reports when
  it does not.
Ids are natural numbers; the harness maps its miners (sorted by id), sharders and outsiders to disjoint ranges.

A `node.Pool` is modelled with a `nodes` list (its `Nodes` slice) and a `vis` list (its `NodesMap`: what `HasNode`,
`Size` and `Keys` see). The msgp round trip through the MPT (`Pool.MarshalMsg` writes the `NodesMap`,
`Pool.UnmarshalMsg`, chaincore/node/node_pool.go:352, restores `NodesMap` and rebuilds `Nodes` from it — since commit
964b895; before it the map was lost and every stored pool looked empty) is `Pool.reloaded`. The harness prints both
lists of the stored magic block, so a pool that loses its visible members again is a disagreement and an oracle violation.
Core-only.
-/
namespace ZChain.ViewChange
open ZChain.Reduce

/-- Phase numbers as in models.go: Start=0, Contribute=1, Share=2, Publish=3, Wait=4. -/
abbrev Phase := Nat
def pStart : Phase := 0
def pContribute : Phase := 1
def pShare : Phase := 2
def pPublish : Phase := 3
def pWait : Phase := 4

structure Cfg where
  minN : Nat
  maxN : Nat
  minS : Nat
  maxS : Nat
  tbits : Nat
  kbits : Nat
  xbits : Nat
  /-- `PhaseRounds[phase]` for the five phases -/
  rounds : List Int
deriving Repr

structure PN where
  phase : Phase
  start : Int
  cur : Int
  restarts : Int
deriving Repr, DecidableEq

/-- a node pool: `nodes` = the `Nodes` slice, `vis` = the members `HasNode`/`Size`/`Keys` see (`NodesMap`). -/
structure Pool where
  nodes : List Nat
  vis : List Nat
deriving Repr, DecidableEq

/-- what a pool looks like after it was stored in and read back from the state: `MarshalMsg` writes the `NodesMap`,
`UnmarshalMsg` restores it and rebuilds `Nodes` from it. -/
def Pool.reloaded (p : Pool) : Pool := ⟨p.vis, p.vis⟩

structure MB where
  number : Int
  start : Int
  t : Int
  k : Int
  n : Nat
  miners : Pool
  sharders : Pool
deriving Repr, DecidableEq

/-- `DKGMinerNodes` -/
structure DKG where
  nodes : List Node
  minN : Nat       -- set by `setConfigs` (0 in a fresh `NewDKGMinerNodes`)
  t : Int
  k : Int
  n : Nat
  waited : List Nat
  startRound : Int
deriving Repr

def DKG.empty (startRound : Int) : DKG := ⟨[], 0, 0, 0, 0, [], startRound⟩

structure State where
  cfg : Cfg
  round : Int                       -- round of the open block
  pn : Option PN                    -- stored phase node
  miners : List Node                -- all_miners (registration order) with total stakes
  sharders : List Node              -- all_sharders
  dkg : DKG
  mpks : Option (List Nat)          -- ids (payload ids) that have an MPK; `none` = node absent
  gsos : Option (List Nat)
  keep : List Nat                   -- sharders_keep ids
  mb : Option MB                    -- the stored magic block
  viewChange : Int                  -- gn.ViewChange
  lastRound : Int                   -- gn.LastRound
  gnPrev : Option MB                -- gn.PrevMagicBlock
  lfmb : MB                         -- latest finalized magic block of the chain (= its current magic block)
  perms : List (List Nat)           -- rand.Perm(k) of the lfmb's RoundRandomSeed, k = 0..
deriving Repr

inductive Err where
  | phase | notMember | size | dup | few | invalid | unknown | other
deriving Repr, DecidableEq

def permOf (s : State) (k : Nat) : List Nat := s.perms.getD k []

def phaseRounds (c : Cfg) (p : Phase) : Int := c.rounds.getD p 0

/-- `int(math.Ceil(percent*float64(m)))` (K, T of `calculateTKN`, x of `reduce`); 0 outside the float domain
(the driver refuses such configurations). -/
def ceilPct (bits : Nat) (m : Nat) : Int := (quota bits m).getD 0

def ids (l : List Node) : List Nat := l.map (·.id)

/-- `GetPhaseNode`: the stored node with `CurrentRound` = the block's round, or a fresh Start node. -/
def getPhaseNode (s : State) : PN :=
  match s.pn with
  | some pn => { pn with cur := s.round }
  | none => ⟨pStart, s.round, s.round, 0⟩

/-- `gn.prevMagicBlock`: `gn.PrevMagicBlock` if set, else the latest finalized magic block. -/
def prevMB (s : State) : MB := s.gnPrev.getD s.lfmb

def hasPrevMinerIn (s : State) (l : List Nat) : Bool := l.any fun i => (prevMB s).miners.vis.contains i
def hasPrevSharderIn (s : State) (l : List Nat) : Bool := l.any fun i => (prevMB s).sharders.vis.contains i

/-! ### move functions (dkg.go:31-205): `true` = no error -/

def moveToContribute (s : State) : Bool :=
  !(decide (s.sharders.length < s.cfg.minS)) &&
  hasPrevSharderIn s (ids s.sharders) &&
  hasPrevMinerIn s (ids s.miners) &&
  !(decide ((s.miners.length : Int) < s.dkg.k))

def moveToShareOrPublish (s : State) : Bool :=
  !(decide (s.keep.length < s.cfg.minS)) &&
  hasPrevSharderIn s s.keep &&
  (match s.mpks with
   | none => false
   | some m => !m.isEmpty && hasPrevMinerIn s m && !(decide ((m.length : Int) < s.dkg.k)))

def moveToWait (s : State) : Bool :=
  match s.gsos with
  | none => false
  | some g => hasPrevMinerIn s g && !(decide ((g.length : Int) < s.dkg.k))

/-- table lookup as Go's map access. -/
def lookup (t : List (Nat × String)) (p : Nat) : Option String := (t.find? fun e => e.1 = p).map (·.2)

/-- the move function of a method name. -/
def moveFnByName (name : String) (s : State) : Bool :=
  if name = "moveToContribute" then moveToContribute s
  else if name = "moveToShareOrPublish" then moveToShareOrPublish s
  else if name = "moveToWait" then moveToWait s
  else if name = "moveToStart" then true
  else false

/-- `moveFunctions[pn.Phase](balances, pn, gn)`: the table is `Generated/C38.moveFunctions`, regenerated from
minersc.go on every run (the translator refuses a table without an entry for every phase). -/
def moveFn (p : Phase) (s : State) : Bool :=
  match lookup ZChain.Generated.C38.moveFunctions p with
  | some name => moveFnByName name s
  | none => false

/-! ### `reduceNodes` (models.go:872) -/

/-- `SimpleNodes.reduce` with the chain's latest finalized magic block as previous set; `none` = Go panics. -/
def reduceWith (s : State) (cands : List Node) (limit : Nat) (pool : List Nat) : Option (List Node) :=
  match reduceQ cands limit (ceilPct s.cfg.xbits (min limit cands.length)) (fun i => pool.contains i) (permOf s) with
  | none => none
  | some r => some r.selected

inductive Res (α : Type) where
  | ok (a : α)
  | err            -- an error return: setPhaseNode restarts the DKG
  | panic          -- a Go panic inside the contract
deriving Repr

/-- `dkgmn.reduceNodes(final, gn, balances)` on the node list `nodes` (with the DKG's own `MinN`). -/
def reduceNodes (s : State) (d : DKG) (final : Bool) : Res (List Node) :=
  if d.nodes.length < d.minN then .err
  else if !hasPrevMinerIn s (ids d.nodes) then .err
  else if final then
    match reduceWith s d.nodes s.cfg.maxN s.lfmb.miners.vis with
    | none => .panic
    | some l => .ok l
  else .ok d.nodes

/-! ### phase functions -/

/-- `createDKGMinersForContribute` (Start → Contribute). -/
def createDKGMinersForContribute (s : State) : Res State :=
  if s.miners.length < s.cfg.minN then .err
  else
    let num := s.lfmb.miners.vis.length
    let n := if num ≥ s.cfg.minN then num else s.miners.length
    let m := min s.cfg.maxN n
    let d : DKG := { nodes := s.miners, minN := s.cfg.minN, n := m,
                     k := ceilPct s.cfg.kbits m, t := ceilPct s.cfg.tbits m,
                     waited := [], startRound := s.lastRound }
    .ok { s with dkg := d, keep := [] }

/-- `widdleDKGMinersForShare` (Contribute → Share). -/
def widdleDKGMinersForShare (s : State) : Res State :=
  match s.mpks with
  | none => .err
  | some m =>
    let d := { s.dkg with nodes := s.dkg.nodes.filter fun nd => m.contains nd.id }
    match reduceNodes s d false with
    | .ok l => .ok { s with dkg := { d with nodes := l } }
    | .err => .err
    | .panic => .panic

/-- `reduceShardersList(keep, all)`: the keep list (in keep order) cut by `reduce`; `all` must hold every keep id. -/
def reduceShardersList (s : State) : Res (List Nat) :=
  let found := s.keep.map fun i => s.sharders.find? (·.id = i)
  if found.any (·.isNone) then .err
  else
    let nodes := found.filterMap id
    if nodes.length < s.cfg.minS then .err
    else
      match reduceWith s nodes s.cfg.maxS s.lfmb.sharders.vis with
      | none => .panic
      | some sel =>
        let out := (nodes.filter fun nd => (ids sel).contains nd.id).map (·.id)
        -- `hasPrevSharderInList` / `rankedPrevSharders` look at the same reduced list: no previous sharder ⇒ panic
        if out.any (fun i => s.lfmb.sharders.vis.contains i) then .ok out else .panic

/-- `createMagicBlockForWait` (Publish → Wait). -/
def createMagicBlockForWait (s : State) : Res State :=
  match s.mpks with
  | none => .err
  | some mpks =>
    let gsos := s.gsos.getD []
    -- miners that contributed but published nothing are dropped
    let dropped := mpks.filter fun i => !gsos.contains i
    let nodes1 := s.dkg.nodes.filter fun nd => !dropped.contains nd.id
    let shardersR : Res (List Nat) :=
      if s.keep.isEmpty then .ok (ids s.sharders) else reduceShardersList s
    match shardersR with
    | .err => .err
    | .panic => .panic
    | .ok shs =>
      match reduceNodes s { s.dkg with nodes := nodes1 } true with
      | .err => .err
      | .panic => .panic
      | .ok nodes2 =>
        if (nodes2.length : Int) < s.dkg.k then .err
        else
          let pn := getPhaseNode s
          let mb : MB := { number := s.lfmb.number + 1, start := pn.cur + phaseRounds s.cfg pWait,
                           t := s.dkg.t, k := s.dkg.k, n := s.dkg.n,
                           miners := (Pool.mk (ids nodes2) (ids nodes2)).reloaded,
                           sharders := (Pool.mk shs shs).reloaded }   -- as `getMagicBlock` reads it back
          -- the DKG list itself is NOT saved here (dkg.go:576-580 are commented out)
          .ok { s with viewChange := mb.start, mpks := some [], gsos := some [], mb := some mb, keep := [] }

def phaseFnByName (name : String) (s : State) : Res State :=
  if name = "createDKGMinersForContribute" then createDKGMinersForContribute s
  else if name = "widdleDKGMinersForShare" then widdleDKGMinersForShare s
  else if name = "createMagicBlockForWait" then createMagicBlockForWait s
  else .err

/-- `if phaseFunc, ok := phaseFuncs[pn.Phase]; ok { err = phaseFunc(balances, gn) }` with the generated table. -/
def phaseFn (p : Phase) (s : State) : Res State :=
  match lookup ZChain.Generated.C38.phaseFuncs p with
  | some name => phaseFnByName name s
  | none => .ok s      -- no phase function registered (Share, Wait)

/-- `RestartDKG`. -/
def restartDKG (s : State) (pn : PN) : State × PN :=
  ({ s with mpks := some [], gsos := some [], dkg := DKG.empty pn.cur, keep := [] },
   { pn with phase := pStart, restarts := pn.restarts + 1, start := pn.cur })

/-- `setPhaseNode` (view change enabled). `none` = a panic inside the contract. -/
def setPhaseNode (s : State) (pn : PN) : Option State :=
  if pn.cur - pn.start ≥ phaseRounds s.cfg pn.phase then
    if moveFn pn.phase s then
      match phaseFn pn.phase s with
      | .ok s' =>
        let pn' : PN := if pn.phase ≥ 4 then { pn with phase := 0, restarts := 0, start := pn.cur }
                        else { pn with phase := pn.phase + 1, start := pn.cur }
        some { s' with pn := some pn' }
      | .err =>
        let (s', pn') := restartDKG s pn
        some { s' with pn := some pn' }
      | .panic => none
    else
      let (s', pn') := restartDKG s pn
      some { s' with pn := some pn' }
  else some { s with pn := some pn }

/-- `adjustViewChange` (fees.go:190). -/
def adjustViewChange (s : State) : Option State :=
  if s.round ≠ s.viewChange then some s
  else
    let kept := s.dkg.nodes.filter fun nd => s.dkg.waited.contains nd.id
    let waited := kept.length
    let r := reduceNodes s { s.dkg with nodes := kept } true
    match r with
    | .panic => none
    | .ok _ =>
      if (waited : Int) < s.dkg.k then
        some { s with viewChange := (prevMB s).start, dkg := DKG.empty 0 }
      else some { s with dkg := DKG.empty 0 }
    | .err => some { s with viewChange := (prevMB s).start, dkg := DKG.empty 0 }


/-- the view-change part of `payFees` for the block of round `s.round` (then `gn.LastRound`).
`.err` = the transaction fails (its state changes are discarded), `.panic` = a Go panic inside the contract. -/
def payFees (s : State) : Res State :=
  match setPhaseNode s (getPhaseNode s) with
  | none => .panic
  | some s1 =>
    match adjustViewChange s1 with
    | none => .panic
    | some s2 =>
      if s2.round = s2.viewChange then
        match s2.mb with
        | none => .err            -- "can't set magic block": payFees fails
        | some mb =>
          -- gn.PrevMagicBlock = the stored magic block (read back; stored again with the global node)
          .ok { s2 with gnPrev := some { mb with miners := mb.miners.reloaded, sharders := mb.sharders.reloaded },
                        lastRound := s2.round }
      else .ok { s2 with lastRound := s2.round }

def nextRound (s : State) : State := { s with round := s.round + 1 }

/-! ### the DKG transactions -/

/-- `contributeMpk` from `sender` with an MPK of `size` entries. `payloadId` is the `ID` field of the payload when it
carries one: it is ignored — `mpk.ID = t.ClientID` is set after `mpk.Decode(inputData)` (commit 156160f; before it the
payload's id replaced the sender as the key). -/
def contributeMpk (s : State) (sender : Nat) (size : Nat) (_payloadId : Option Nat) : Except Err State :=
  if (getPhaseNode s).phase ≠ pContribute then .error .phase
  else if !(ids s.dkg.nodes).contains sender then .error .notMember
  else if (size : Int) ≠ s.dkg.t then .error .size
  else
    let mpks := s.mpks.getD []
    if mpks.contains sender then .error .dup
    else .ok { s with mpks := some (mpks ++ [sender]) }

/-- `shareSignsOrShares` from `sender` with `count` share entries; `valid` = what `ShareOrSigns.Validate` answers for
them against the MPK stored under the sender's id, when that MPK exists (`sos.ID = t.ClientID` is set before `Validate`,
and `Validate` refuses entries when `mpks.Mpks[sos.ID]` is missing: commit 2f3cfcd; before it the payload's id was used
and a missing MPK was a nil dereference that ended the process). The sender must be in the DKG miners list. -/
def shareSignsOrShares (s : State) (sender : Nat) (count : Nat) (valid : Bool) : Except Err State :=
  if (getPhaseNode s).phase ≠ pPublish then .error .phase
  else
    let gsos := s.gsos.getD []
    if gsos.contains sender then .error .dup
    else if !(ids s.dkg.nodes).contains sender then .error .notMember
    else if (count : Int) < s.dkg.k - 1 then .error .few
    else
      match s.mpks with
      | none => .error .other
      | some mpks =>
        if count ≥ 1 ∧ !mpks.contains sender then .error .invalid
        else if !valid then .error .invalid
        else .ok { s with gsos := some (gsos ++ [sender]) }

/-- `wait` from `sender`: only a member of the DKG miners list is accepted (commit 0a444b0). -/
def wait (s : State) (sender : Nat) : Except Err State :=
  if (getPhaseNode s).phase ≠ pWait then .error .phase
  else if !(ids s.dkg.nodes).contains sender then .error .notMember
  else if s.dkg.waited.contains sender then .error .dup
  else .ok { s with dkg := { s.dkg with waited := s.dkg.waited ++ [sender] } }

/-- `sharder_keep` for the sharder `sh` (the sender is not looked at). -/
def sharderKeep (s : State) (sh : Nat) : Except Err State :=
  if (getPhaseNode s).phase ≠ pContribute then .error .phase
  else if !(ids s.sharders).contains sh then .error .unknown
  else if s.keep.contains sh then .ok s
  else .ok { s with keep := s.keep ++ [sh] }

/-- effect of a registration on a node list: new id appended, known id: node (stake) replaced. -/
def register (l : List Node) (nd : Node) : List Node :=
  if (ids l).contains nd.id then l.map fun x => if x.id = nd.id then nd else x else l ++ [nd]

/-- the block carrying the stored magic block is finalized: the chain's latest finalized / current magic block
becomes the stored one (as read back from the state), with a new seed. -/
def finalize (s : State) (perms : List (List Nat)) : Option State :=
  match s.mb with
  | none => none
  | some mb => some { s with lfmb := { mb with miners := mb.miners.reloaded, sharders := mb.sharders.reloaded }, perms := perms }

end ZChain.ViewChange
