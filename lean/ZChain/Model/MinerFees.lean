import ZChain.Model.StakePool
/-!
# Model of the fee/reward payment of `smartcontract/minersc` (`fees.go`, `models.go`)

`payFees` (fees.go:248-427): generator check, round check, `sumFee` (:505-530), `blockReward =
MultFloat64(BlockReward, RewardRate)`, `splitByShareRatio` (models.go:567-580) for reward and fees, the rewarded
miner's two `DistributeRewardsRandN` calls, `payShardersAndDelegates` (fees.go:533-596) for fees and reward,
`setLastRound` / `epochDecline` (models.go:551-587).

* Everything that comes from the state or from `math/rand` is a parameter: the rewarded miner's stake pool (`none`:
  no live miner), the rewarded sharders **in the order the seeded shuffle produced** (`none`: there is no live sharder
  at all, the sharder branch is skipped) and, for every stake pool, the delegate indices the seeded `rand.Perm`
  selected (`Model/StakePool.distributeRewardsRandN`). The harness passes what the real code computed.
* `n = 0` rewarded sharders while live sharders exist makes `DistributeCoin(reward, 0)` divide by zero: a Go
  run-time panic (`Coin.Err.divZero`).
* view-change work (`setPhaseNode`, `adjustViewChange`, `SetMagicBlock`, `viewChangeDeleteNodes`) is not modelled:
  the harness runs with view change disabled, `ViewChange ≠ round`, `RewardRoundFrequency = 0`.
Core-only (no Mathlib).
-/
namespace ZChain.MinerFees
open ZChain ZChain.Coin ZChain.StakePool

structure GN where
  shareRatio  : F64
  blockReward : Nat
  rewardRate  : F64
  epoch       : Int
  decline     : F64
  nMinerDel   : Nat      -- NumMinerDelegatesRewarded
  nSharderDel : Nat      -- NumSharderDelegatesRewarded
  lastRound   : Int
deriving Repr, DecidableEq, Inhabited

inductive Err where
  | sp (e : StakePool.Err)
  | coin (e : Coin.Err)
  | notGenerator
  | badRound
deriving Repr, DecidableEq, Inhabited

def Err.tag : Err → String
  | .sp e => e.tag
  | .coin e => e.tag
  | .notGenerator => "not-generator"
  | .badRound => "bad-round"

def liftC {α} : Except Coin.Err α → Except Err α
  | .ok a => .ok a
  | .error e => .error (.coin e)

def liftS {α} : Except StakePool.Err α → Except Err α
  | .ok a => .ok a
  | .error e => .error (.sp e)

/-- `sumFee`: checked sum of the block's transaction fees, then the `Int64()` range check. -/
def sumFeeAux : List Nat → Nat → Except Err Nat
  | [], acc => .ok acc
  | f :: rest, acc => do
    let a ← liftC (addCoin acc f)
    sumFeeAux rest a

def sumFee (fees : List Nat) : Except Err Nat := do
  let total ← sumFeeAux fees 0
  let _ ← liftC (toInt64 total)
  .ok total

/-- `gn.splitByShareRatio(fees)`: `miner = Coin(float64(fees) * ShareRatio)`, `sharders = MinusCoin(fees, miner)`. -/
def split (ratio : F64) (fees : Nat) : Except Err (Nat × Nat) := do
  let miner ← liftC (float64ToCoin (F64.mul (toFloat64 fees) ratio))
  let sharders ← liftC (minusCoin fees miner)
  .ok (miner, sharders)

/-- a stake pool together with the delegate indices `rand.Perm` selects for it. -/
abbrev Sel := SP × List Nat

/-- `DistributeRewardsRandN` on a provider, keeping only the new pool. -/
def reward (n : Nat) (p : Sel) (value : Nat) : Except Err Sel := do
  let (sp', _) ← liftS (distributeRewardsRandN p.1 value n p.2)
  .ok (sp', p.2)

/-- the `rewardSharder` loop of `payShardersAndDelegates`. -/
def paySharderLoop (n share : Nat) : List Sel → Nat → Except Err (List Sel)
  | [], _ => .ok []
  | sh :: rest, left => do
    let extra := if 0 < left then 1 else 0
    let left' := if 0 < left then left - 1 else left
    let moveValue ← liftC (addCoin share extra)
    let sh' ← reward n sh moveValue
    let rest' ← paySharderLoop n share rest left'
    .ok (sh' :: rest')

/-- `payShardersAndDelegates(gn, rewardSharders, reward, seed, …)`. -/
def paySharders (nDel : Nat) (sharders : List Sel) (rewardV : Nat) : Except Err (List Sel) := do
  let k := sharders.length
  let (share0, left0) ← liftC (distributeCoin rewardV (Int.ofNat k))
  let (share, left) ← (if k < left0 then do        -- (never true: `left0 = reward % k`)
      let (clShare, cl) ← liftC (distributeCoin left0 (Int.ofNat k))
      let s ← liftC (addCoin share0 clShare)
      .ok (s, cl)
    else .ok (share0, left0) : Except Err (Nat × Nat))
  paySharderLoop nDel share sharders left

/-- `gn.setLastRound(round)` with `epochDecline` (`epoch ≠ 0`). -/
def setLastRound (gn : GN) (round : Int) : GN :=
  let gn1 := { gn with lastRound := round }
  if round % gn.epoch = 0 then { gn1 with rewardRate := F64.mul gn.rewardRate (F64.sub F64.one gn.decline) } else gn1

structure Out where
  gn       : GN
  miner    : Option Sel
  sharders : Option (List Sel)
  -- the four amounts, for the theorems and the evidence
  minerReward : Nat
  minerFees : Nat
  sharderReward : Nat
  sharderFees : Nat
deriving Repr, DecidableEq, Inhabited

/-- `payFees`. -/
def payFees (gn : GN) (isGenerator : Bool) (inputRound round : Int) (txnFees : List Nat)
    (miner : Option Sel) (sharders : Option (List Sel)) : Except Err Out := do
  if !isGenerator then .error .notGenerator
  else if inputRound ≠ round then .error .badRound
  else do
    let fees ← sumFee txnFees
    let blockReward ← liftC (multFloat64 gn.blockReward gn.rewardRate)
    let (mR, sR) ← split gn.shareRatio blockReward
    let (mF, sF) ← split gn.shareRatio fees
    let miner' ← (match miner with
      | none => .ok none
      | some m => do
        let m1 ← reward gn.nMinerDel m mR
        let m2 ← reward gn.nMinerDel m1 mF
        .ok (some m2) : Except Err (Option Sel))
    let sharders' ← (match sharders with
      | none => .ok none
      | some shs => do
        let s1 ← paySharders gn.nSharderDel shs sF
        let s2 ← paySharders gn.nSharderDel s1 sR
        .ok (some s2) : Except Err (Option (List Sel)))
    .ok { gn := setLastRound gn round, miner := miner', sharders := sharders',
          minerReward := mR, minerFees := mF, sharderReward := sR, sharderFees := sF }

/-! ## the verifier's duplicate built-in transaction check (`miner/protocol_block.go:496-508, 543-551`) -/

/-- a transaction as the check sees it: is it a smart-contract call, and its function name. -/
structure Txn where
  isSC : Bool
  fn   : String
deriving Repr, DecidableEq, Inhabited

/-- `mc.isBuildInTxn(txn)`: a smart-contract transaction whose function name is in `gBuildInTxnsMap`. -/
def isBuiltIn (builtins : List String) (t : Txn) : Bool := t.isSC && builtins.contains t.fn

/-- the `hasDuplicateBuildInTxns` closure folded over the block's transactions: `false` (block rejected) as soon as a
built-in function name repeats. (The Go code checks batches concurrently under one mutex; the verdict does not depend
on the interleaving: a name inserted twice is reported by whichever call comes second.) -/
def noDupBuiltIns (builtins : List String) : List Txn → List String → Bool
  | [], _ => true
  | t :: rest, seen =>
    if isBuiltIn builtins t then
      if seen.contains t.fn then false else noDupBuiltIns builtins rest (t.fn :: seen)
    else noDupBuiltIns builtins rest seen

end ZChain.MinerFees
