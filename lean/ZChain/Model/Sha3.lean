import ZChain.Model.HashBind
/-
SHA3-256 (FIPS 202), core-only, used ONLY by the line drivers `zdrv-C29` / `zdrv-C30` to instantiate the hash
parameter `H` of the hash-binding models with the function the Go code uses
(`core/encryption.Hash = hex.EncodeToString(sha3.New256().Sum(data))`), so that the model's block and
transaction hashes can be compared bit for bit with the real `ComputeHash`.
No theorem mentions this file: every theorem is stated for an arbitrary `H`.
-/
namespace ZChain.Sha3
open ZChain.HashBind

def rc : Array UInt64 := #[
  0x0000000000000001, 0x0000000000008082, 0x800000000000808A, 0x8000000080008000,
  0x000000000000808B, 0x0000000080000001, 0x8000000080008081, 0x8000000000008009,
  0x000000000000008A, 0x0000000000000088, 0x0000000080008009, 0x000000008000000A,
  0x000000008000808B, 0x800000000000008B, 0x8000000000008089, 0x8000000000008003,
  0x8000000000008002, 0x8000000000000080, 0x000000000000800A, 0x800000008000000A,
  0x8000000080008081, 0x8000000000008080, 0x0000000080000001, 0x8000000080008008]

/-- rotation offsets, index `x + 5*y` -/
def rot : Array UInt64 := #[
  0, 1, 62, 28, 27,
  36, 44, 6, 55, 20,
  3, 10, 43, 25, 39,
  41, 45, 15, 21, 8,
  18, 2, 61, 56, 14]

def rotl (v : UInt64) (n : UInt64) : UInt64 :=
  if n = 0 then v else (v <<< n) ||| (v >>> (64 - n))

def idx (x y : Nat) : Nat := x % 5 + 5 * (y % 5)

def round (a : Array UInt64) (k : UInt64) : Array UInt64 :=
  let g (s : Array UInt64) (i : Nat) : UInt64 := s.getD i 0
  -- theta
  let c : Array UInt64 := Array.ofFn (n := 5) fun x =>
    g a (idx x 0) ^^^ g a (idx x 1) ^^^ g a (idx x 2) ^^^ g a (idx x 3) ^^^ g a (idx x 4)
  let d : Array UInt64 := Array.ofFn (n := 5) fun x =>
    g c ((x.val + 4) % 5) ^^^ rotl (g c ((x.val + 1) % 5)) 1
  let a1 : Array UInt64 := Array.ofFn (n := 25) fun i => g a i.val ^^^ g d (i.val % 5)
  -- rho + pi: B[y, 2x+3y] = rotl(A[x,y], r[x,y])
  let b : Array UInt64 := Id.run do
    let mut b : Array UInt64 := Array.replicate 25 0
    for y in [0:5] do
      for x in [0:5] do
        b := b.set! (idx y (2 * x + 3 * y)) (rotl (g a1 (idx x y)) (g rot (idx x y)))
    return b
  -- chi
  let a2 : Array UInt64 := Array.ofFn (n := 25) fun i =>
    let x := i.val % 5
    let y := i.val / 5
    g b (idx x y) ^^^ ((~~~ g b (idx (x + 1) y)) &&& g b (idx (x + 2) y))
  -- iota
  a2.set! 0 (g a2 0 ^^^ k)

def keccakF (a : Array UInt64) : Array UInt64 := rc.foldl round a

/-- little-endian lane from 8 bytes -/
def lane (bs : List Nat) : UInt64 :=
  (bs.take 8).reverse.foldl (fun acc b => (acc <<< 8) ||| UInt64.ofNat (b % 256)) 0

def rateBytes : Nat := 136

/-- xor one 136-byte block into the state and permute -/
def absorbBlock (st : Array UInt64) (blk : List Nat) : Array UInt64 :=
  let st' := (List.range 17).foldl (fun s i => s.set! i (s.getD i 0 ^^^ lane (blk.drop (8 * i)))) st
  keccakF st'

/-- split into 136-byte blocks; fuel = length bound -/
def absorb : Nat → Array UInt64 → List Nat → Array UInt64
  | 0, st, _ => st
  | fuel + 1, st, msg =>
    if msg.isEmpty then st else absorb fuel (absorbBlock st (msg.take rateBytes)) (msg.drop rateBytes)

def pad (msg : List Nat) : List Nat :=
  let q := rateBytes - msg.length % rateBytes
  if q = 1 then msg ++ [0x86]
  else msg ++ [0x06] ++ List.replicate (q - 2) 0 ++ [0x80]

def laneBytes (v : UInt64) : List Nat :=
  (List.range 8).map fun i => ((v >>> (UInt64.ofNat (8 * i))) &&& 0xff).toNat

def sha3_256 (msg : List Nat) : List Nat :=
  let p := pad msg
  let st := absorb (p.length + 1) (Array.replicate 25 0) p
  ((List.range 4).flatMap fun i => laneBytes (st.getD i 0))

def hexByte (b : Nat) : List Nat :=
  let d (n : Nat) : Nat := if n < 10 then 48 + n else 87 + n
  [d (b / 16 % 16), d (b % 16)]

/-- `encryption.Hash(data)`: lower-case hex of SHA3-256, as bytes of the hex text -/
def hashHex (msg : Str) : Str := (sha3_256 msg).flatMap hexByte

/-- `encoding/hex.DecodeString` on a byte string holding hex text (both cases accepted, odd length or a
non-hex byte is an error). -/
def hexDecodeBytes : Str → Option Str
  | [] => some []
  | [_] => none
  | a :: b :: rest =>
    match hexVal (Char.ofNat a), hexVal (Char.ofNat b), hexDecodeBytes rest with
    | some x, some y, some r => if a < 128 ∧ b < 128 then some ((x * 16 + y) :: r) else none
    | _, _, _ => none

end ZChain.Sha3
