import ZChain.Model.Ledger
/-
Model of block generation and block verification in the miner (C45):
`miner/protocol_block.go`: `generateBlock`, `txnIterHandlerFunc`, `txnProcessorHandlerFunc`,
`validateTransaction`, `TxnIterInfo.checkForCurrent`, `buildInTxns`, `getCurrentSelfNonce`, `processTxn`,
`VerifyBlock`, `ValidateTransactions`; `chaincore/block/entity.go`: `Block.Validate` (duplicate test),
`Block.ComputeState`. Execution goes through the engine model `Ledger.step` (`Chain.UpdateState`).

What is an INPUT here (and an argument of every theorem):
* the iteration order of the transaction pool (a list; the redis sorted set is not modelled);
* per pool transaction: the cost estimate (`none` = `EstimateTransactionCost` failed), the fee estimate, whether its
  function is fee-exempt, `len(TransactionData)`, its creation date, whether its function NAME is one of the four built-in names, and the behaviour of the called contract as a
  FUNCTION OF THE STATE it runs on (`res`, `outLen`): contracts are deterministic (C06), nothing else is assumed;
* the built-in transactions the generator creates for this round (each kind at most once: `buildInTxns` appends
  every kind at most once), with their cost estimates and contract behaviour;
* `waitOver`, and a fuel bound for the loop over promoted transactions (running out of fuel = the proposal deadline
  fired, which the real loop also honours).
Not modelled: round change / timeout aborts, missing-node (`ErrInvalidState`) retries, signatures and hashes
(`Block.Validate` hash + signature, transaction signatures), the removal of transactions from the pool.

Quirks transcribed as coded (each exercised by the correspondence harness):
* all cost arithmetic is Go `int`: `tii.cost+cost` wraps at 2^63 (`wrap64`), an unknown function name has the
  estimate `math.MaxInt` with a nil error;
* the cost test is `>=` in the generator and `>` in the verifier; the generator starts from the cost of ALL built-in
  transactions, the verifier sums the transactions that are in the block;
* `validateTransaction` computes `txn.Nonce - state.Nonce` in int64; its time test and the verifier's are both relative to
  the block's creation date (`max(now, previous block's date)`), not to the node's clock;
* the future list of a sender is stable-sorted by (nonce ascending, fee descending) after every append;
  `checkForCurrent` promotes the longest gap-free run, drops equal nonces as "past", and the promoted list is
  stable-sorted by nonce over ALL senders; the loop over the promoted list indexes a list that grows while it runs;
* the `InsufficientTxns` test sits inside the loop over built-in transactions (no built-in ⇒ never tested) and counts
  built-in transactions that failed to execute;
* the verifier's `ValidateWrtTimeForBlock` refuses a transaction whose recipient is its sender; the generator has no such
  test (the admission handler has), and the engine applies a self-addressed `send` of value 0 or `data` transaction;
* built-in transactions are appended without consulting the duplicate map, the cost total or the byte size;
* the verifier's duplicate test for built-in transactions looks at the function NAME of every transaction of the block
  (`isBuildInTxn`), not at the sender or the called contract; since the repair 3af329c the generator's pool iteration
  skips a pool transaction with such a name (same predicate) before any other test.
Core-only (linked into `zdrv-C45`).
-/
namespace ZChain.BlockGen
open ZChain.Ledger

def two63 : Int := 9223372036854775808

/-- Go `int` / `int64` wrap-around. -/
def wrap64 (x : Int) : Int := (x + two63) % (2 * two63) - two63

inductive BuiltinKind where
  | payFees | challenge | rewards | settings
deriving DecidableEq, Repr

inductive Key where
  | pool (n : Nat)                 -- hash of a pool transaction
  | builtin (k : BuiltinKind)      -- the generator's own transaction of that kind
deriving DecidableEq, Repr

/-- a transaction together with everything generator and verifier look at. -/
structure PTxn where
  key    : Nat
  txn    : Txn
  res    : St → CResult
  outLen : St → Nat
  cost   : Option Int
  estFee : Nat
  exempt : Bool
  bytes  : Nat
  created : Int               -- CreationDate (seconds)
  bname  : Option BuiltinKind

structure Cfg where
  feeOn        : Bool
  maxBlockCost : Int
  maxByteSize  : Int
  minBlockSize : Int
  minTxnFee    : Nat
  miner        : Id
  tol          : Int          -- `transaction.TXN_TIME_TOLERANCE` (seconds)

/-- one transaction of a block. -/
structure Entry where
  key    : Key
  p      : PTxn
  status : Status

/-- `clientNonceTxns`. -/
structure Fut where
  nonce : Int
  txns  : List PTxn

/-- `TxnIterInfo` + the block under construction + its state. `trace` is a ghost field: the block state after every
accepted transaction. -/
structure GS where
  st       : St
  incl     : List Entry
  trace    : List St
  past     : List Nat
  invalid  : List Nat
  future   : List (Id × Fut)
  current  : List PTxn
  cost     : Int
  byteSize : Int
  failed   : Nat

def GS.init (s : St) (cost : Int) : GS :=
  { st := s, incl := [], trace := [], past := [], invalid := [], future := [], current := [], cost := cost, byteSize := 0, failed := 0 }

inductive Cls where
  | current | past | future | late
deriving DecidableEq, Repr

/-- `common.WithinTime(o, ts, seconds)`. -/
def within (o ts seconds : Int) : Bool := decide (ts ≥ o - seconds) && decide (ts ≤ o + seconds)

/-- the transaction's creation date is outside the tolerance of the BLOCK's creation date `date`. Generator
(`validateTransaction`) and verifier (`ValidateWrtTimeForBlock(ctx, b.CreationDate, …)`) both measure against the block's
date, never against their own clocks. -/
def lateAt (tol date : Int) (p : PTxn) : Bool := !within date p.created tol

/-- `b.CreationDate = common.Now(); if b.CreationDate < b.PrevBlock.CreationDate { b.CreationDate = b.PrevBlock.CreationDate }`. -/
def blockDate (now prevDate : Int) : Int := if now < prevDate then prevDate else now

/-- `validateTransaction`: class and the state nonce it returns. -/
def classify (tol date : Int) (s : St) (p : PTxn) : Cls × Int :=
  if lateAt tol date p then (.late, 0)
  else if !present s.accts p.txn.sender then
    if p.txn.nonce > 1 then (.future, 0) else if p.txn.nonce < 1 then (.past, 0) else (.current, 0)
  else
    let n := (get s.accts p.txn.sender).nonce
    let d := wrap64 (p.txn.nonce - n)
    if d > 1 then (.future, n) else if d < 1 then (.past, n) else (.current, n)

/-- insert `x` before the first element it is strictly less than: one step of a stable insertion sort. -/
def insertStable {α : Type} (less : α → α → Bool) (x : α) : List α → List α
  | [] => [x]
  | e :: es => if less x e then x :: e :: es else e :: insertStable less x es

/-- `sort.SliceStable` (any stable sort gives the same result for a strict weak order). -/
def sortStable {α : Type} (less : α → α → Bool) (l : List α) : List α :=
  l.foldl (fun acc x => insertStable less x acc) []

def futLess (a b : PTxn) : Bool :=
  if a.txn.nonce = b.txn.nonce then decide (a.txn.fee > b.txn.fee) else decide (a.txn.nonce < b.txn.nonce)

def nonceLess (a b : PTxn) : Bool := decide (a.txn.nonce < b.txn.nonce)

def futGet (f : List (Id × Fut)) (i : Id) : Option Fut :=
  match f with
  | [] => none
  | (k, v) :: rest => if k = i then some v else futGet rest i

def futSet (f : List (Id × Fut)) (i : Id) (v : Fut) : List (Id × Fut) :=
  match f with
  | [] => [(i, v)]
  | (k, w) :: rest => if k = i then (k, v) :: rest else (k, w) :: futSet rest i v

structure Scan where
  cur  : List PTxn
  past : List Nat
  rest : List PTxn
  cn   : Int

/-- the loop of `checkForCurrent` over the sender's future list. -/
def scan : List PTxn → Int → Scan
  | [], cn => ⟨[], [], [], cn⟩
  | f :: fs, cn =>
    let d := wrap64 (f.txn.nonce - cn)
    if d > 1 then ⟨[], [], f :: fs, cn⟩
    else if d < 1 then
      let r := scan fs cn
      { r with past := f.key :: r.past }
    else
      let r := scan fs f.txn.nonce
      { r with cur := f :: r.cur }

/-- `TxnIterInfo.checkForCurrent(txn)`. -/
def checkForCurrent (g : GS) (p : PTxn) : GS :=
  match futGet g.future p.txn.sender with
  | none => g
  | some l =>
    match l.txns with
    | [] => g
    | _ :: _ =>
      let r := scan l.txns p.txn.nonce
      { g with
        past := g.past ++ r.past,
        current := sortStable nonceLess (g.current ++ r.cur),
        future := futSet g.future p.txn.sender ⟨r.cn, r.rest⟩ }

/-- `txnProcessorHandlerFunc`: the new state and whether the transaction was put into the block. -/
def txnProcessor (cfg : Cfg) (date : Int) (g : GS) (p : PTxn) : GS × Bool :=
  if g.incl.any (fun e => e.key = Key.pool p.key) then (g, false)
  else
    match classify cfg.tol date g.st p with
    | (.past, _) => ({ g with past := g.past ++ [p.key] }, false)
    | (.future, n) =>
      let l := (futGet g.future p.txn.sender).getD ⟨0, []⟩
      let l' : Fut := ⟨if l.nonce < n then n else l.nonce, sortStable futLess (l.txns ++ [p])⟩
      ({ g with future := futSet g.future p.txn.sender l' }, false)
    | (.late, _) => ({ g with invalid := g.invalid ++ [p.key] }, false)
    | (.current, _) =>
      let r := step cfg.feeOn g.st p.txn (p.res g.st)
      if r.2 = Status.rejected then ({ g with failed := g.failed + 1 }, false)
      else
        let g' : GS := { g with
          st := r.1,
          incl := g.incl ++ [⟨Key.pool p.key, p, r.2⟩],
          trace := g.trace ++ [r.1],
          byteSize := g.byteSize + p.bytes + p.outLen g.st }
        (checkForCurrent g' p, true)

inductive Ctl where
  | continue | stop | error
deriving DecidableEq, Repr

/-- `txnIterHandlerFunc`. -/
def iterHandler (cfg : Cfg) (date : Int) (g : GS) (p : PTxn) : GS × Ctl :=
  if p.bname.isSome then (g, .continue)     -- `isBuildInTxn(txn)`: left to the generator's own transaction of that name
  else if p.txn.value > maxTokenSupply then ({ g with invalid := g.invalid ++ [p.key] }, .error)
  else
    match p.cost with
    | none => (g, .continue)
    | some c =>
      if cfg.feeOn && !p.exempt && decide (p.txn.fee < max cfg.minTxnFee p.estFee) then
        ({ g with invalid := g.invalid ++ [p.key] }, .continue)
      else if wrap64 (g.cost + c) ≥ cfg.maxBlockCost then (g, .continue)
      else
        let r := txnProcessor cfg date g p
        if !r.2 then (r.1, .continue)
        else
          let g' : GS := { r.1 with cost := wrap64 (r.1.cost + c) }
          if g'.byteSize ≥ cfg.maxByteSize then (g', .stop) else (g', .continue)

/-- `IterateCollection` over the pool in the given order; `true` = the handler returned an error. -/
def iterate (cfg : Cfg) (date : Int) : GS → List PTxn → GS × Bool
  | g, [] => (g, false)
  | g, p :: ps =>
    match iterHandler cfg date g p with
    | (g', .continue) => iterate cfg date g' ps
    | (g', .stop) => (g', false)
    | (g', .error) => (g', true)

/-- the loop over `iterInfo.currentTxns` (an index into a list that `checkForCurrent` extends and re-sorts). -/
def currentLoop (cfg : Cfg) (date : Int) : Nat → Nat → GS → GS
  | 0, _, g => g
  | fuel + 1, i, g =>
    if g.cost < cfg.maxBlockCost ∧ g.byteSize < cfg.maxByteSize then
      match g.current[i]? with
      | none => g
      | some p =>
        match p.cost with
        | none => g
        | some c =>
          if wrap64 (g.cost + c) ≥ cfg.maxBlockCost then g
          else
            let r := txnProcessor cfg date g p
            if r.2 then
              let g' : GS := { r.1 with cost := wrap64 (r.1.cost + c) }
              if g'.byteSize ≥ cfg.maxByteSize then g' else currentLoop cfg date fuel (i + 1) g'
            else currentLoop cfg date fuel (i + 1) r.1
    else g

/-- the built-in transactions of the round (`buildInTxns`): every kind at most once, in this order. -/
structure Builtins where
  payFees   : Option PTxn
  challenge : Option PTxn
  rewards   : Option PTxn
  settings  : Option PTxn

def tag (k : BuiltinKind) (o : Option PTxn) : List (BuiltinKind × PTxn) :=
  match o with
  | none => []
  | some p => [(k, { p with bname := some k })]

def Builtins.list (b : Builtins) : List (BuiltinKind × PTxn) :=
  tag .payFees b.payFees ++ tag .challenge b.challenge ++ tag .rewards b.rewards ++ tag .settings b.settings

inductive GenErr where
  | builtinCost | iterError | insufficient
deriving DecidableEq, Repr

/-- `getCurrentSelfNonce`. -/
def selfNonce (s : St) (miner : Id) : Int :=
  if present s.accts miner then (get s.accts miner).nonce + 1 else 1

/-- the built-in transaction as it is executed: sent by the generator with its next nonce. -/
def builtinTxn (cfg : Cfg) (date : Int) (s : St) (b : PTxn) : PTxn :=
  { b with txn := { b.txn with sender := cfg.miner, nonce := selfNonce s cfg.miner }, created := date }   -- `CreationDate = b.CreationDate`

/-- the loop over the built-in transactions at the end of `generateBlock`. -/
def builtinLoop (cfg : Cfg) (date : Int) (waitOver : Bool) : List (BuiltinKind × PTxn) → GS → Int → Except GenErr GS
  | [], g, _ => .ok g
  | (k, b) :: bs, g, n =>
    if !waitOver && decide (n + 1 < cfg.minBlockSize) then .error .insufficient
    else if (step cfg.feeOn g.st (builtinTxn cfg date g.st b).txn ((builtinTxn cfg date g.st b).res g.st)).2 = Status.rejected then
      builtinLoop cfg date waitOver bs g (n + 1)          -- `processTxn` failed: logged, not in the block, still counted
    else
      builtinLoop cfg date waitOver bs
        { g with
          st := (step cfg.feeOn g.st (builtinTxn cfg date g.st b).txn ((builtinTxn cfg date g.st b).res g.st)).1,
          incl := g.incl ++ [⟨Key.builtin k, builtinTxn cfg date g.st b, (step cfg.feeOn g.st (builtinTxn cfg date g.st b).txn ((builtinTxn cfg date g.st b).res g.st)).2⟩],
          trace := g.trace ++ [(step cfg.feeOn g.st (builtinTxn cfg date g.st b).txn ((builtinTxn cfg date g.st b).res g.st)).1] }
        (n + 1)

def builtinsCost : List (BuiltinKind × PTxn) → Int
  | [] => 0
  | (_, b) :: bs => wrap64 (b.cost.getD 0 + builtinsCost bs)

/-- pool iteration followed by the loop over the promoted transactions; `true` = the iteration returned an error. -/
def poolPhase (cfg : Cfg) (date : Int) (prior : St) (pool : List PTxn) (bi : Builtins) (fuel : Nat) : GS × Bool :=
  if (iterate cfg date (GS.init prior (builtinsCost bi.list)) pool).2 then ((iterate cfg date (GS.init prior (builtinsCost bi.list)) pool).1, true)
  else (currentLoop cfg date fuel 0 (iterate cfg date (GS.init prior (builtinsCost bi.list)) pool).1, false)

/-- `generateBlock`. -/
def generateAt (cfg : Cfg) (date : Int) (prior : St) (pool : List PTxn) (bi : Builtins) (waitOver : Bool) (fuel : Nat) : Except GenErr GS :=
  if bi.list.any (fun b => b.2.cost.isNone) then .error .builtinCost
  else if (poolPhase cfg date prior pool bi fuel).2 then .error .iterError
  else builtinLoop cfg date waitOver bi.list (poolPhase cfg date prior pool bi fuel).1 (poolPhase cfg date prior pool bi fuel).1.incl.length

/-- `generateBlock` on a node whose clock shows `now`, on top of a previous block dated `prevDate`. -/
def generate (cfg : Cfg) (now prevDate : Int) (prior : St) (pool : List PTxn) (bi : Builtins) (waitOver : Bool) (fuel : Nat) : Except GenErr GS :=
  generateAt cfg (blockDate now prevDate) prior pool bi waitOver fuel

/-! ## the verifier -/

structure Block where
  date  : Int          -- CreationDate
  txns  : List Entry
  final : St

def blockOf (date : Int) (g : GS) : Block := ⟨date, g.incl, g.st⟩

inductive VErr where
  | dup          -- `Block.Validate`: duplicate transactions
  | txn          -- `ValidateTransactions`: time tolerance / ToClientID = ClientID / duplicated built-in transaction
  | costErr      -- cost estimate failed
  | costTooBig   -- `ErrCostTooBig`
  | stateReject  -- `ComputeState`: a transaction cannot be applied
  | rootMismatch -- `ErrStateMismatch`
  | outputMismatch
deriving DecidableEq, Repr

def hasDup {α : Type} [DecidableEq α] : List α → Bool
  | [] => false
  | x :: xs => xs.contains x || hasDup xs

def blockCost : List Entry → Option Int
  | [] => some 0
  | e :: es =>
    match e.p.cost, blockCost es with
    | some c, some r => some (wrap64 (c + r))
    | _, _ => none

/-- `Block.ComputeState`: re-execution in block order; `none` = some transaction is rejected. -/
def reexec (feeOn : Bool) : St → List Entry → Option (St × List Status × List St)
  | s, [] => some (s, [], [])
  | s, e :: es =>
    let r := step feeOn s e.p.txn (e.p.res s)
    if r.2 = Status.rejected then none
    else
      match reexec feeOn r.1 es with
      | none => none
      | some (s', sts, tr) => some (s', r.2 :: sts, r.1 :: tr)

/-- `VerifyBlock` (the parts listed in the header). -/
def verify (cfg : Cfg) (prior : St) (b : Block) : Except VErr Unit :=
  if hasDup (b.txns.map (·.key)) then .error .dup
  else if b.txns.any (fun e => lateAt cfg.tol b.date e.p) || b.txns.any (fun e => decide (e.p.txn.sender = e.p.txn.to))
      || hasDup (b.txns.filterMap (fun e => e.p.bname)) then .error .txn
  else
    match blockCost b.txns with
    | none => .error .costErr
    | some c =>
      if c > cfg.maxBlockCost then .error .costTooBig
      else
        match reexec cfg.feeOn prior b.txns with
        | none => .error .stateReject
        | some (s, sts, _) =>
          if s ≠ b.final then .error .rootMismatch
          else if sts ≠ b.txns.map (·.status) then .error .outputMismatch
          else .ok ()

end ZChain.BlockGen
