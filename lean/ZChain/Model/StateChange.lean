/-
Model of block state-change synchronisation:
`chaincore/block/block_state_change_entity.go` (`NewBlockStateChange`), `chaincore/state/partial_state.go`
(`ComputeProperties`, run on every received change set), common's `MemoryNodeDB.ComputeRoot/reachable/validate`
and `MerklePatriciaTrie.MergeDB/insertNode`, and `chaincore/block/entity.go` `ApplyBlockStateChange`.

State nodes are content addressed. What the model keeps of a node is what these functions look at:
its hash, whether it is a leaf, the hashes of its children, and `rehash` — the hash the node has after `MergeDB`
re-stamps it with the round of the block being synced (`insertNode: newNode.SetOrigin(mpt.Version)`; every node
hash covers the node's origin). Hashes are opaque tokens computed by the real code and recorded in the op lines
(DESIGN §3.3); theorems that need it assume that a hash determines the node (stated as hypotheses).

The checks of `ApplyBlockStateChange` are in the order of the code:
already computed → nil; block hash; state hash vs `bsc.Hash`; `root == nil` special case; node count vs
`StateChangesCount`; `MergeDB`; final root comparison; set state, status `StateSynched`.
Core-only.
-/
namespace ZChain.StateChange

abbrev Hash := String

structure Node where
  hash     : Hash
  leaf     : Bool
  rehash   : Hash
  children : List Hash
deriving Repr, DecidableEq

/-- `mndb.getNode(key)` over the nodes of a change set (a map keyed by node hash) -/
def lookup (ns : List Node) (h : Hash) : Option Node := ns.find? (fun n => n.hash == h)

/-- `MemoryNodeDB.reachable(node, node2)`: is `b` strictly below `a`, going only through nodes present in the db.
Fuel = number of nodes (the depth of an acyclic graph over them cannot exceed it). -/
def reachable (ns : List Node) : Nat → Hash → Hash → Bool
  | 0, _, _ => false
  | fuel + 1, a, b =>
    match lookup ns a with
    | none => false
    | some n => n.children.any (fun c => (lookup ns c).isSome && (c == b || reachable ns fuel c b))

/-- one turn of the loop of `ComputeRoot` (the iteration order is Go's map order: see `Proofs/StateChange`) -/
def rootStep (reach : Hash → Hash → Bool) (root : Option Node) (n : Node) : Option Node :=
  match root with
  | none => some n
  | some r =>
    if n.leaf then some r
    else if reach r.hash n.hash then some r
    else if reach n.hash r.hash then some n
    else some r

def computeRootWith (reach : Hash → Hash → Bool) (order : List Node) : Option Node :=
  order.foldl (rootStep reach) none

/-- `validate(root)`: every node of the db is the root or reachable from it -/
def validate (ns : List Node) (r : Node) : Bool :=
  ns.all (fun n => n.hash == r.hash || reachable ns ns.length r.hash n.hash)

def distinctHashes : List Node → Bool
  | [] => true
  | n :: rest => !(rest.any (fun m => m.hash == n.hash)) && distinctHashes rest

structure ChangeSet where
  block : String
  root  : Hash
  nodes : List Node
deriving Repr

/-- `PartialState.ComputeProperties`: `some root` = accepted. Errors: no nodes; `dbSize != nodesNum`
(a node twice); `ComputeRoot` (nodes outside the tree); root hash ≠ declared hash. -/
def computeProperties (cs : ChangeSet) : Option Node :=
  if cs.nodes.isEmpty then none
  else if !distinctHashes cs.nodes then none
  else
    match computeRootWith (reachable cs.nodes cs.nodes.length) cs.nodes with
    | none => none
    | some r => if validate cs.nodes r && r.hash == cs.root then some r else none

structure Blk where
  hash         : String
  stateHash    : Hash
  count        : Nat
  prev         : Option Hash   -- `PrevBlock.ClientStateHash` when the previous block is known
  prevComputed : Bool
  status       : Nat           -- StatePending 0 … StateSuccessful 4, StateSynched 5
  round        : Nat
deriving Repr

inductive ErrClass where
  | blockHash | stateHash | rootNil | count | stateMismatch
deriving Repr, DecidableEq

inductive Res where
  | applied | noop | err (c : ErrClass)
deriving Repr, DecidableEq

/-- the client state a block gets from an accepted change set: the root, over the nodes merged in (keyed by
their re-stamped hash) on top of the receiver's node DB -/
structure BState where
  root    : Hash
  overlay : List Node
deriving Repr

/-- The state the new client state is built ON (entity.go:1098-1104):
`if pb != nil && pb.IsStateComputed() { CreateStateWithPreviousBlock(pb, stateDB, round) } else { CreateState(stateDB, …) }`.
`IsStateComputed` is `stateStatus >= StateSuccessful`, so it holds for a previous block that was itself SYNCED
(status 5) and not saved yet: its merged nodes live only in its in-memory level DB, and the new state must sit on
top of them. `CreateStateWithPreviousBlock` falls back to the state DB when the previous block has no client state.
The result is the list of in-memory nodes under the new state (`[]` = the persistent DB only). -/
def baseOverlay (prevStatus : Option Nat) (prevState : Option BState) : List Node :=
  match prevStatus with
  | none => []                                   -- pb == nil
  | some st => if st ≥ 4 then (prevState.map (·.overlay)).getD [] else []

/-- `ApplyBlockStateChange(bsc)`; `rootOf` is `bsc.GetRoot()` (what `ComputeProperties` left, `none` if it never
ran); `base` is `baseOverlay` of the previous block. Returns the result, the block's client state afterwards
(`none` = not set: untouched) and its status. -/
def apply (b : Blk) (cs : ChangeSet) (rootOf : Option Node) (base : List Node := []) : Res × Option BState × Nat :=
  if b.status ≥ 4 then (.noop, none, b.status)
  else if b.hash ≠ cs.block then (.err .blockHash, none, b.status)
  else if b.stateHash ≠ cs.root then (.err .stateHash, none, b.status)
  else
    match rootOf with
    | none =>
      if b.prev = some b.stateHash then (.noop, none, b.status) else (.err .rootNil, none, b.status)
    | some r =>
      if cs.nodes.length ≠ b.count then (.err .count, none, b.status)
      else
        -- MergeDB(nodes, root.hash): the final comparison `ClientStateHash == clientState.GetRoot()` compares
        -- b.stateHash with r.hash; after `computeProperties` r.hash = cs.root = b.stateHash
        if b.stateHash ≠ r.hash then (.err .stateMismatch, none, b.status)
        else (.applied, some { root := r.hash, overlay := cs.nodes ++ base }, 5)

/-- reading a node of the synced state: the merged nodes first (under their re-stamped hash), then the receiver's DB -/
def getNode (db : List Node) (st : BState) (h : Hash) : Option Node :=
  match st.overlay.find? (fun n => n.rehash == h) with
  | some n => some n
  | none => lookup db h

/-- full iteration from the root: `true` iff no node is missing. Fuel bounds the depth. -/
def readable (db : List Node) (st : BState) : Nat → Hash → Bool
  | 0, _ => false
  | fuel + 1, h =>
    match getNode db st h with
    | none => false
    | some n => n.children.all (fun c => readable db st fuel c)

def complete (db : List Node) (st : BState) : Bool :=
  readable db st (db.length + st.overlay.length + 1) st.root

end ZChain.StateChange
