import ZChain.Base.Alg
import ZChain.Model.Agg
/-!
Model of block notarization at one miner (C31): `chaincore/chain/protocol_block.go`
(`VerifyTickets`, `VerifyNotarization`, `reachedNotarization` in count mode, `UpdateBlockNotarization`,
`AddVerificationTicket`, `MergeVerificationTickets`), `chaincore/block/entity.go`
(`AddVerificationTicket`, `MergeVerificationTickets`, `UnknownTickets`) and the message handlers of
`miner/protocol_receive.go` / `protocol_round.go` (`processVerifyBlock`, `handleVerificationTicketMessage` →
`ProcessVerifiedTicket`, `notarizationProcess` → `MergeNotarization`, `handleNotarizedBlockMessage`,
`checkBlockNotarization` → `AddNotarizedBlock`).

A ticket is `(verifier, signature, encoding)`: verifiers are numbers — `pks[v]` is the key of node `v` when the process
knows such a node; the miners of a round are the pool of the magic block in force for that round (`Node.pool slot` =
miners of `mbOf (round of the slot)` — ONE function, `GetMagicBlock` with its view-change offset, gives both the signer
set and the threshold; a block
belongs to the round of its `slot`), every other number is foreign *for that round* (a node of another magic block, a
non-miner). `enc` tags the textual encoding of the signature (lower/upper-case hex …): the real code compares
signature *strings* where it keys a map by signature (the round's ticket store), and curve points where it verifies.
The message point of a block (hash-to-curve of its hash) is `h`.
`VerifyTickets` is the aggregate check of `Model/Agg` in one batch, after the membership test of each verifier.
Not modelled: stake mode of `reachedNotarization`, network, timers, state computation of the block
(`AddNotarizedBlock` records the block in the round's notarized list before it computes state), magic-block presence
test (holds in the fixture). Core-only, generic over the scalar type.
-/
namespace ZChain.Notarize
open ZChain.Alg ZChain.Agg

section Generic
variable {F : Type} [Add F] [Mul F] [Sub F] [Div F] [Zero F] [One F] [DecidableEq F]

structure Ticket (F : Type) where
  verifier : Nat
  sig : F
  enc : Nat := 0
deriving DecidableEq

/-- a block as the node holds it. -/
structure Blk (F : Type) where
  id : Nat
  gen : Nat                   -- the generator (its rank in the round decides `RoundRank`)
  slot : Nat := 0             -- which round (and hence which magic block) the block belongs to
  h : F                       -- message point of the block hash
  tickets : List (Ticket F)   -- `b.VerificationTickets`
  notarized : Bool            -- `b.isNotarized`

structure Node (F : Type) where
  pks : List F                               -- public keys of the nodes the process knows, by number
  mbs : List (Nat × List Nat)                -- installed magic blocks: (starting round, miner set), ascending
  rounds : List Nat                          -- the round number of each slot
  pct : Nat                                  -- `threshold_by_count` (percent)
  blocks : List (Blk F)                      -- blocks known to the chain (`mc.GetBlock`)
  store : List (Nat × Ticket F)              -- the round's verified tickets (`r.verificationTickets`, keyed by signature)
  roundNotarized : List Nat                  -- the round's notarized blocks
  complete : List Nat                        -- slots whose round is past verification (`IsVerificationComplete`)

def Node.block? (nd : Node F) (id : Nat) : Option (Blk F) := nd.blocks.find? (·.id == id)

def Node.setBlock (nd : Node F) (b : Blk F) : Node F :=
  if nd.blocks.any (·.id == b.id) then { nd with blocks := nd.blocks.map (fun x => if x.id == b.id then b else x) }
  else { nd with blocks := nd.blocks ++ [b] }

/-- `chain.mbRoundOffset`: a magic block starting at round `S` is in force from round `S + ViewChangeOffset` (4). -/
def mbRoundOffset (rn : Nat) : Nat := if rn < 5 then rn else rn - 4

/-- `Chain.GetMagicBlock(round)`: the last installed magic block whose starting round is `≤ mbRoundOffset round`
(index into `mbs`; the first one if none qualifies). THE function that says which magic block a round belongs to. -/
def mbOf (mbs : List (Nat × List Nat)) (round : Nat) : Nat :=
  ((List.range mbs.length).filter (fun i => decide ((mbs.getD i (0, [])).1 ≤ mbRoundOffset round))).getLastD 0

/-- the miner pool of the magic block in force for the slot's round. -/
def Node.pool (nd : Node F) (slot : Nat) : List Nat := (nd.mbs.getD (mbOf nd.mbs (nd.rounds.getD slot 0)) (0, [])).2

/-- `c.GetMiners(round).GetNode(id)`: membership in the pool of the ROUND's magic block. -/
def Node.pk? (nd : Node F) (slot : Nat) (v : Nat) : Option F :=
  if (nd.pool slot).contains v then nd.pks[v]? else none

/-- `GetNotarizationThresholdCount(GetMagicBlock(round).Miners.Size())` = `ceil(pct% · size)` — of the SAME magic block. -/
def Node.threshold (nd : Node F) (slot : Nat) : Nat := ((nd.pool slot).length * nd.pct + 99) / 100

/-- `VerifyTickets(blockHash, bvts)`: every verifier must be a miner (first failure ends the call), then the aggregate
check; `none` = empty list (the scheme is created with batch size 0: division by zero inside a goroutine). -/
def verifyTickets (nd : Node F) (slot : Nat) (h : F) (ts : List (Ticket F)) : Option Bool :=
  if ts.isEmpty then none
  else if ts.all (fun t => (nd.pk? slot t.verifier).isSome) then
    let items := ts.filterMap (fun t => (nd.pk? slot t.verifier).map (fun pk => (⟨pk, h, t.sig⟩ : AggItem F)))
    some (decide (aggSig items = aggPair items))
  else some false

/-- `reachedNotarization` (count mode). -/
def reached (nd : Node F) (slot : Nat) (ts : List (Ticket F)) : Bool := decide (nd.threshold slot ≤ ts.length)

/-- `UpdateBlockNotarization`. -/
def updateNotarization (nd : Node F) (b : Blk F) : Blk F :=
  if b.notarized then b else if reached nd b.slot b.tickets then { b with notarized := true } else b

/-- `Block.MergeVerificationTickets`: union by verifier id, existing order kept; an empty list on either side returns the
other side unchanged (no de-duplication inside it). -/
def mergeTickets (have_ recv : List (Ticket F)) : List (Ticket F) :=
  if have_.isEmpty then recv
  else if recv.isEmpty then have_
  else recv.foldl (fun acc t => if acc.any (·.verifier == t.verifier) then acc else acc ++ [t]) have_

/-- `Block.AddVerificationTicket`: refused if the verifier already has a ticket. -/
def addTicket (b : Blk F) (t : Ticket F) : Option (Blk F) :=
  if b.tickets.any (·.verifier == t.verifier) then none else some { b with tickets := b.tickets ++ [t] }

/-- `Block.UnknownTickets`. -/
def unknownTickets (b : Blk F) (ts : List (Ticket F)) : List (Ticket F) :=
  (ts.foldl (fun (acc : List (Ticket F) × List Nat) t =>
    if acc.2.contains t.verifier then acc else (acc.1 ++ [t], acc.2 ++ [t.verifier]))
    ([], b.tickets.map (·.verifier))).1

/-- `VerifyNotarization(hash, bvt, round)`: no verifier ID twice (whatever the signatures), threshold reached,
tickets verify. -/
def verifyNotarization (nd : Node F) (slot : Nat) (h : F) (ts : List (Ticket F)) : Bool :=
  if hasDupNat (ts.map (·.verifier)) then false
  else if !reached nd slot ts then false
  else (verifyTickets nd slot h ts).getD false
where
  hasDupNat : List Nat → Bool
    | [] => false
    | x :: xs => xs.contains x || hasDupNat xs

def Node.storeFor (nd : Node F) (id : Nat) : List (Ticket F) := (nd.store.filter (·.1 == id)).map (·.2)

/-- `Round.AddVerificationTickets`: the map is keyed by the signature STRING (signature and its encoding). (The map is
per round; stored tickets are verified, so equal signatures for blocks of different rounds do not occur and one list
serves all rounds.) -/
def Node.storeAdd (nd : Node F) (id : Nat) (t : Ticket F) : Node F :=
  { nd with store := (nd.store.filter (fun e => !(decide (e.2.sig = t.sig) && decide (e.2.enc = t.enc)))) ++ [(id, t)] }

/-- `Chain.addBlock` (under `AddBlock` / `AddRoundBlock`): a second object of a known block has its tickets merged into
the chain's copy **without verification** (`c.MergeVerificationTickets(eb, b.GetVerificationTickets())`, which also
updates the notarized flag); returns the chain's copy. -/
def Node.addBlock (nd : Node F) (b : Blk F) : Node F × Blk F :=
  match nd.block? b.id with
  | some eb =>
    let eb' := updateNotarization nd { eb with tickets := mergeTickets eb.tickets b.tickets }
    (nd.setBlock eb', eb')
  | none => (nd.setBlock b, b)

/-- `AddNotarizedBlockToRound` → `round.AddNotarizedBlock`: the block enters the round's notarized list (replacing a
notarized block of the same rank, i.e. of the same generator) and its notarized flag is set. -/
def Node.addNotarizedToRound (nd : Node F) (id : Nat) : Node F :=
  match nd.block? id with
  | none => nd
  | some b =>
    if nd.roundNotarized.contains id then nd
    else
      let others := nd.roundNotarized.filter (fun j => ((nd.block? j).map (fun x => (x.slot, x.gen))) != some (b.slot, b.gen))
      let nd1 := nd.setBlock { b with notarized := true }
      { nd1 with roundNotarized := others ++ [id], complete := nd1.complete ++ [b.slot] }

/-- `checkBlockNotarization`: only a block whose flag is set is added to the round. -/
def Node.noteNotarized (nd : Node F) (b : Blk F) : Node F :=
  if b.notarized then nd.addNotarizedToRound b.id else nd

/-- `processVerifyBlock` for a received proposal `b` (carrying whatever tickets the sender attached): the round's
collected tickets are merged into it, **its own tickets are not verified**, and the count decides. Either way the object
reaches `Chain.addBlock` (directly when it counts as notarized, through `AddToRoundVerification` otherwise). Once a block
of the round was notarized (`round.AddNotarizedBlock` moves the phase to `Share`) further proposals are ignored. -/
def processVerifyBlock (nd : Node F) (b : Blk F) : Node F :=
  if nd.complete.contains b.slot then nd else   -- "received block for round with finished verification phase"
  let b1 := { b with tickets := mergeTickets b.tickets (nd.storeFor b.id) }
  let b2 := updateNotarization nd b1
  let (nd1, cb) := nd.addBlock b2
  if b2.notarized then nd1.noteNotarized cb else nd1

/-- the block object reaches the chain through `AddRoundBlock` (e.g. after the node's own verification). -/
def know (nd : Node F) (b : Blk F) : Node F := (nd.addBlock b).1

/-- `handleVerificationTicketMessage`: the single ticket is verified; for a chain block `ProcessVerifiedTicket`, otherwise
it is kept in the round. -/
def handleTicket (nd : Node F) (id : Nat) (slot : Nat) (h : F) (t : Ticket F) : Node F :=
  if (verifyTickets nd slot h [t]).getD false then
    match nd.block? id with
    | none => nd.storeAdd id t
    | some b =>
      match addTicket b t with
      | none => nd
      | some b1 =>
        let b2 := updateNotarization nd b1
        let nd1 := nd.setBlock b2
        if b.notarized then nd1 else nd1.noteNotarized b2
  else nd

/-- `notarizationProcess` for a chain block: only the tickets unknown to the block are verified (in aggregate), then
merged; tickets the block already carried are counted as they are. -/
def handleNotarization (nd : Node F) (id : Nat) (ts : List (Ticket F)) : Node F :=
  match nd.block? id with
  | none => nd
  | some b =>
    if b.notarized then nd.addNotarizedToRound id
    else
      let vts := unknownTickets b ts
      if vts.isEmpty then
        if verifyNotarization nd b.slot b.h b.tickets then nd.addNotarizedToRound id else nd
      else if (verifyTickets nd b.slot b.h vts).getD false then
        let b2 := updateNotarization nd { b with tickets := mergeTickets b.tickets vts }
        let nd1 := nd.setBlock b2
        if b2.notarized then nd1.addNotarizedToRound id else nd1
      else nd

/-- `handleNotarizedBlockMessage`: the block's own tickets go through `VerifyNotarization`; then `AddRoundBlock` and
`AddNotarizedBlock`. -/
def handleNotarizedBlock (nd : Node F) (nb : Blk F) : Node F :=
  if verifyNotarization nd nb.slot nb.h nb.tickets then
    let (nd1, _) := nd.addBlock nb
    nd1.addNotarizedToRound nb.id
  else nd

end Generic
end ZChain.Notarize
