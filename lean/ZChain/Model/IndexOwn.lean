import ZChain.Model.LockSet
/-!
# Ownership by index (C44, second discipline)

Some shared slices are written by goroutines WITHOUT a lock and are race-free only because different goroutines touch
different indices. `harness/cmd/xc44` (own.go) extracts, for each such site, the arithmetic this rests on — as canonical
source text — into `Generated/C44.lean`; `Props/C44.lean` proves the disjointness over it.

The site of the property (miner.Chain.ValidateTransactions + encryption.BLS0ChainAggregateSignatureScheme):

* the spawning loop `for start := 0; start < LIMIT; start += STRIDE { end := start + BOUND; if end > LIMIT { end = LIMIT };
  go validate(ctx, X[start:end], start) }` makes worker `k` the owner of the indices `[k·STRIDE, min(k·STRIDE + BOUND, LIMIT))`
  (it calls `Aggregate(…, start + i, …)` with `i` an index into a sub-list of its transactions);
* the aggregator has no lock; `Aggregate(…, idx, …)` reads and writes only slot `idx / DIV` of its two arrays, `DIV` being
  the batch size it was constructed with.

Two workers must never share a slot. `owns` / `slot` / `SlotsDisjoint` state that; expressions are compared as texts
(`nm!` numbers), a valuation gives them values: the SAME text has the SAME value within one call (an assumption, listed in
checks/C44.json: `mc.ValidationBatchSize()` is a configuration getter).

Core-only (linked into `zdrv-C44`).
-/
namespace ZChain.IndexOwn

/-- worker `k` of a strided partition (stride `S`, bound `E`, limit `n`) may pass index `idx` to the aggregator -/
def owns (S E n k idx : Nat) : Prop := k * S ≤ idx ∧ idx < k * S + E ∧ idx < n

/-- the aggregator slot of an index -/
def slot (D idx : Nat) : Nat := idx / D

/-- no two different workers ever touch one slot -/
def SlotsDisjoint (S E D n : Nat) : Prop :=
  ∀ k k' i i', k ≠ k' → owns S E n k i → owns S E n k' i' → slot D i ≠ slot D i'

/-- what the translator extracts for one site; the expressions are canonical source texts -/
structure StridedSite where
  name : Nat
  stride : Nat
  bound : Nat
  limit : Nat
  total : Nat
  div : Nat
  shapeOK : Bool
  deriving DecidableEq, Repr

/-- the decidable condition under which the site is proved disjoint: the shape was recognised and stride, bound and the
aggregator's batch size are one and the same expression -/
def StridedSite.sameBatch (s : StridedSite) : Bool :=
  s.shapeOK && Nat.beq s.stride s.bound && Nat.beq s.stride s.div && Nat.beq s.limit s.total

/-- the site is race-free for a valuation of its expressions -/
def StridedSite.Disjoint (s : StridedSite) (val : Nat → Nat) : Prop :=
  ∀ n, SlotsDisjoint (val s.stride) (val s.bound) (val s.div) n

/-- verdict of the driver -/
def siteVerdict (sites : List StridedSite) (name : Nat) : String :=
  match sites.find? (fun s => Nat.beq s.name name) with
  | some s => if s.sameBatch then "disjoint" else "shared"
  | none => "none"

end ZChain.IndexOwn
