/-
Types of the generated governance tables (`Generated/C48.lean`, written by `harness/cmd/xc48`).
Core-only.
-/
namespace ZChain.Gov

open Lean in
/-- `str% "abc"` is the list literal of the UTF-8 bytes of the string (`[97, 98, 99] : List Nat`), built at
elaboration time: `String` functions do not reduce in the kernel, list literals do. -/
macro "str%" s:str : term => do
  let elems := (s.getString.toUTF8.toList.map fun b => Syntax.mkNumLit (toString b.toNat)).toArray
  `(([$elems,*] : List Nat))

/-- `core/config/utils.go: ConfigType` (same order as the Go `iota` block). -/
inductive CT where
  | int | int64 | int32 | duration | float64 | boolean | string | coin | key | cost | strings
deriving DecidableEq, Repr, Inhabited

/-- One row of a settings table: `config.GlobalSettingInfo` (globals: `setter = ""`),
`minersc.Settings`, `storagesc.Settings`. `setter` is the `setXxx` method whose `switch` has a case
for this setting ("" when none has). -/
structure Entry where
  name : String
  key : List Nat     -- the bytes of `name`
  ct : CT
  mutable : Bool
  setter : String
deriving Repr, Inhabited

/-- What is done to a value string before it is stored: the combination of parser / conversion calls found in
the Go source (`harness/cmd/xc48` maps the call list to one of these and fails on an unknown combination). -/
inductive PK where
  | atoi        -- strconv.Atoi
  | int64       -- strconv.ParseInt(_, 10, 64)
  | uint64coin  -- strconv.ParseUint, currency.Coin(_)
  | float       -- strconv.ParseFloat
  | zcn         -- strconv.ParseFloat, currency.ParseZCN
  | mult1e10    -- strconv.ParseFloat, currency.MultFloat64(1e10, _)
  | rawCoin     -- strconv.ParseFloat, currency.Coin(_)
  | dur         -- time.ParseDuration
  | bool        -- strconv.ParseBool
  | hex         -- hex.DecodeString (the string itself is stored)
  | raw         -- no call: the string is stored as it is
deriving DecidableEq, Repr, Inhabited

/-- One case of the `switch settings.ConfigType` in `GlobalNode.set` / `Config.set`:
the parser calls made on the value, and the setter called with the result. -/
structure Dispatch where
  ct : CT
  parse : PK
  setter : String
deriving Repr, Inhabited

/-- One case of the `switch key` in faucetsc `updateConfig`, vestingsc `config.update`,
zcnsc `GlobalNode.UpdateConfig`: parser calls on the value and receiver methods called. -/
structure KeyCase where
  name : String
  key : List Nat     -- the bytes of `name`
  parse : PK
  calls : List String
deriving Repr, Inhabited

end ZChain.Gov
