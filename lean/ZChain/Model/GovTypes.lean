/-
Types of the generated governance tables (`Generated/C48.lean`, written by `harness/cmd/xc48`).
Core-only.
-/
namespace ZChain.Gov

/-- `core/config/utils.go: ConfigType` (same order as the Go `iota` block). -/
inductive CT where
  | int | int64 | int32 | duration | float64 | boolean | string | coin | key | cost | strings
deriving DecidableEq, Repr, Inhabited

/-- One row of a settings table: `config.GlobalSettingInfo` (globals: `setter = ""`),
`minersc.Settings`, `storagesc.Settings`. `setter` is the `setXxx` method whose `switch` has a case
for this setting ("" when none has). -/
structure Entry where
  name : String
  ct : CT
  mutable : Bool
  setter : String
deriving Repr, Inhabited

/-- One case of the `switch settings.ConfigType` in `GlobalNode.set` / `Config.set`:
the parser calls made on the value, and the setter called with the result. -/
structure Dispatch where
  ct : CT
  parse : List String
  setter : String
deriving Repr, Inhabited

/-- One case of the `switch key` in faucetsc `updateConfig`, vestingsc `config.update`,
zcnsc `GlobalNode.UpdateConfig`: parser calls on the value and receiver methods called. -/
structure KeyCase where
  name : String
  parse : List String
  calls : List String
deriving Repr, Inhabited

end ZChain.Gov
