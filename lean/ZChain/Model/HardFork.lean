/-
Model of `chaincore/chain/state/activator.go`: `HardFork.GetKey`, `GetRoundByName`, `WithActivation`.

* the state is what `GetTrieNode("hardfork:"+name, fork)` can answer for a name: a decoded record (`present r`),
  `util.ErrValueNotPresent` (`absent`: the fork was never recorded), `util.ErrNodeNotFound` (`nodeNotFound`: a trie node
  on the path is missing from the node DB) or any other error (`otherErr`, e.g. the stored bytes do not decode).
* rounds are int64 values (`Int`); the code only compares them; `math.MaxInt64` is `maxInt64`.
* `before`/`after` are the two closures; the model says WHICH one runs and hands back its result.
Core-only.
-/
namespace ZChain.HardFork

def maxInt64 : Int := 9223372036854775807

inductive Lookup where
  | present (round : Int)
  | absent          -- util.ErrValueNotPresent
  | nodeNotFound    -- util.ErrNodeNotFound
  | otherErr        -- any other error of GetTrieNode
deriving DecidableEq, Repr

inductive Err where
  | valueNotPresent | nodeNotFound | other
deriving DecidableEq, Repr

/-- `GetRoundByName`: `(math.MaxInt64, err)` on any error. -/
def getRoundByName : Lookup → Int × Option Err
  | .present r => (r, none)
  | .absent => (maxInt64, some .valueNotPresent)
  | .nodeNotFound => (maxInt64, some .nodeNotFound)
  | .otherErr => (maxInt64, some .other)

inductive Ran where
  | before | after | neither
deriving DecidableEq, Repr

/-- which closure `WithActivation` runs (`neither`: it returns the lookup error). -/
def branch (l : Lookup) (blockRound : Int) : Ran :=
  let (round, err) := getRoundByName l
  if err = some .nodeNotFound then .neither
  else if blockRound < round then .before else .after

/-- `WithActivation`: the branch that ran and the error it returned (`true` = the closure returned an error; for
`neither` the returned error is the lookup's `ErrNodeNotFound`). -/
def withActivation (l : Lookup) (blockRound : Int) (beforeErr afterErr : Bool) : Ran × Bool :=
  match branch l blockRound with
  | .before => (.before, beforeErr)
  | .after => (.after, afterErr)
  | .neither => (.neither, true)

/-- the recorded forks: name ↦ what is stored under `hardfork:<name>`; `broken` = the trie's nodes are missing. -/
structure St where
  broken : Bool
  forks  : List (String × Lookup)

def findFork (name : String) : List (String × Lookup) → Option Lookup
  | [] => none
  | (k, v) :: t => if k = name then some v else findFork name t

def lookup (s : St) (name : String) : Lookup :=
  if s.broken then .nodeNotFound
  else match findFork name s.forks with
    | some l => l
    | none => .absent

/-- `InsertTrieNode(h.GetKey(), h)` (what `minersc.add_hardfork` does per entry). -/
def record (s : St) (name : String) (l : Lookup) : St :=
  { s with forks := (name, l) :: s.forks.filter (fun p => p.1 ≠ name) }

end ZChain.HardFork
