import ZChain.Base.Alg
import ZChain.Model.DKG
/-!
The executable "crypto world" behind the line drivers of C31–C34 and C47 (`F := Alg.Fr`).

It holds what a correspondence case builds up — message points, client keys, DKG parties, signature
registers — and answers every operation with a scalar, a Boolean, an error class or the *label* of a
group element (`K<n>` for G2 points/public keys, `S<n>` for G1 points/signatures; `n` = index of first
occurrence in the case, see `Alg.Registry`). The Go harness performs the same operation on the real
library and labels the serialised points the same way.
Core-only.
-/
namespace ZChain.AlgWorld
open ZChain.Alg ZChain.DKG

structure World where
  t : Nat := 0
  n : Nat := 0
  regK : Registry := {}
  regS : Registry := {}
  msgs : List (String × Fr) := []
  sigs : Array Fr := #[]
  keys : List (String × Fr) := []
  parties : List (Nat × Party Fr) := []
  tshares : Array (Fr × Fr) := #[]
deriving Inhabited

def labK (w : World) (x : Fr) : World × String :=
  let (g, i) := w.regK.label x
  ({ w with regK := g }, s!"K{i}")

def labS (w : World) (x : Fr) : World × String :=
  let (g, i) := w.regS.label x
  ({ w with regS := g }, s!"S{i}")

/-- store a signature in the next register and answer `sig <idx> S<label>`. -/
def pushSig (w : World) (x : Fr) : World × String :=
  let idx := w.sigs.size
  let (w, l) := labS { w with sigs := w.sigs.push x } x
  (w, s!"sig {idx} {l}")

def msg? (w : World) (m : String) : Option Fr := (w.msgs.find? (·.1 == m)).map (·.2)
def key? (w : World) (k : String) : Option Fr := (w.keys.find? (·.1 == k)).map (·.2)
def party? (w : World) (j : Nat) : Option (Party Fr) := (w.parties.find? (·.1 == j)).map (·.2)
def setParty (w : World) (j : Nat) (p : Party Fr) : World :=
  if w.parties.any (·.1 == j) then { w with parties := w.parties.map (fun e => if e.1 == j then (j, p) else e) }
  else { w with parties := w.parties ++ [(j, p)] }
def sig? (w : World) (i : Nat) : Option Fr := w.sigs[i]?

def splitList (s : String) : List String := if s == "-" then [] else s.splitOn ","

def natList? (s : String) : Option (List Nat) := (splitList s).mapM (·.toNat?)
def frList? (s : String) : Option (List Fr) := (splitList s).mapM Fr.parse?

def showBool (b : Bool) : String := if b then "true" else "false"

def showNats (l : List Nat) : String :=
  if l.isEmpty then "-" else ",".intercalate (l.map toString)

/-- insertion sort (canonical output of Go map key sets). -/
def sortNats (l : List Nat) : List Nat :=
  l.foldr (fun x acc => (acc.takeWhile (· < x)) ++ x :: (acc.dropWhile (· < x))) []

def bad (w : World) : Option (World × String) := some (w, "bad-op")

/-- parse one `sos` entry: `n:<i>` | `s:<i>:<delta>` | `g:<i>:<keyname or ->:<sigidx>:<m>`. -/
def sosEntry? (w : World) (sender : Party Fr) (e : String) : Option (SosEntry Fr) :=
  match e.splitOn ":" with
  | ["n", i] => i.toNat?.map SosEntry.nil
  | ["s", i, d] => do
    let i ← i.toNat?
    let d ← Fr.parse? d
    let pi ← party? w i
    let s ← computeShare sender pi.id
    pure (SosEntry.share i pi.id (s + d))
  | ["g", i, k, si, m] => do
    let i ← i.toNat?
    let si ← si.toNat?
    let σ ← sig? w si
    let h ← msg? w m
    if k == "-" then pure (SosEntry.sign i none h σ)
    else
      let sk ← key? w k
      pure (SosEntry.sign i (some (pubKey sk)) h σ)
  | _ => none

/-- `reconstruct <shareidx:sigidx,…>`: `BLS0ChainReconstruction.Add` for every pair, then `Reconstruct`. -/
def reconstructOp (w : World) (pairs : String) : Option (World × String) :=
    let ps := (splitList pairs).mapM (fun e => match e.splitOn ":" with
      | [a, b] => do
        let sh ← a.toNat?.bind (w.tshares[·]?)
        let σ ← b.toNat?.bind (sig? w)
        pure (sh.1, σ)
      | _ => none)
    match ps with
    | some ps => match reconstruct ps with
      | some x => some (pushSig w x)
      | none => some (w, "err")
    | none => bad w

/-- the operations shared by all crypto drivers. `none` = not one of these. -/
def step (w : World) (ws : List String) : Option (World × String) :=
  match ws with
  | ["order"] => some (w, s!"order {r}")
  | ["msg", m, h] => match Fr.parse? h with
    | some h => some ({ w with msgs := (w.msgs.filter (·.1 != m)) ++ [(m, h)] }, "ok")
    | none => bad w
  | ["msgb", m, hx, h] =>
    -- a message given by its bytes (hex, any length); the bytes themselves do not matter to the model: distinct byte
    -- strings are distinct messages with unrelated message points
    let okHex := hx == "-" || (hx.length % 2 == 0 && hx.toList.all (fun c => (ZChain.DKG.hexDigit? c).isSome))
    match Fr.parse? h with
    | some h => if okHex then some ({ w with msgs := (w.msgs.filter (·.1 != m)) ++ [(m, h)] }, "ok") else bad w
    | none => bad w
  | ["rawmsg", m, h] => match Fr.parse? h with
    | some h => if (msg? w m).isSome then some (w, "ok") else some ({ w with msgs := w.msgs ++ [(m, h)] }, "ok")
    | none => bad w
  /- client keys (`core/encryption/bls0chain.go`) -/
  | ["key", name, sk] => match Fr.parse? sk with
    | some sk =>
      let (w, l) := labK { w with keys := (w.keys.filter (·.1 != name)) ++ [(name, sk)] } (pubKey sk)
      some (w, l)
    | none => bad w
  | ["ksign", name, m] => match key? w name, msg? w m with
    | some sk, some h => some (pushSig w (sign sk h))
    | _, _ => bad w
  | ["kverify", name, si, m] => match key? w name, si.toNat?.bind (sig? w), msg? w m with
    | some sk, some σ, some h => some (w, showBool (verifyLib (pubKey sk) h σ))
    | _, _, _ => bad w
  | ["sigadd", a, b] => match a.toNat?.bind (sig? w), b.toNat?.bind (sig? w) with
    | some x, some y => some (pushSig w (x + y))
    | _, _ => bad w
  | ["sigsub", a, b] => match a.toNat?.bind (sig? w), b.toNat?.bind (sig? w) with
    | some x, some y => some (pushSig w (x - y))
    | _, _ => bad w
  | ["sigzero"] => some (pushSig w 0)
  | ["kpkadd", names] => match (splitList names).mapM (key? w) with
    | some sks => some (labK w ((sks.map pubKey).sum))
    | none => bad w
  | ["aggsigs", name, idxs] => match key? w name, (natList? idxs).bind (·.mapM (sig? w)) with
    | some _, some ss => some (pushSig w (aggregateSignatures ss))
    | _, _ => bad w
  | ["split", name, ks] => match key? w name, frList? ks with
    | some sk, some ks =>
      let parts := splitKeys sk ks
      let named := (List.range parts.length).zip parts |>.map (fun (i, k) => (s!"{name}.{i}", k))
      let names := named.map (·.1)
      some ({ w with keys := (w.keys.filter (fun e => !names.contains e.1)) ++ named }, s!"ok {parts.length}")
    | _, _ => bad w
  /- client threshold keys (`bls0chain_threshold.go`) -/
  | ["tks", t, n, name, cs] => match t.toNat?, n.toNat?, key? w name, frList? cs with
    | some t, some n, some sk, some cs =>
      if t = 0 ∨ cs.length + 1 ≠ t then bad w
      else some ({ w with tshares := (thresholdShares n (sk :: cs) (fun i => Fr.ofNat i)).toArray }, s!"ok {n}")
    | _, _, _, _ => bad w
  | ["tsign", i, m] => match i.toNat?.bind (w.tshares[·]?), msg? w m with
    | some sh, some h => some (pushSig w (sign sh.2 h))
    | _, _ => bad w
  | ["tverify", i, si, m] => match i.toNat?.bind (w.tshares[·]?), si.toNat?.bind (sig? w), msg? w m with
    | some sh, some σ, some h => some (w, showBool (verifyLib (pubKey sh.2) h σ))
    | _, _, _ => bad w
  | ["tid", i] => match i.toNat?.bind (w.tshares[·]?) with
    -- the share's id survives the string round trip GetID → SetID (`DKG.idRoundTrip`: parse ∘ show = id)
    | some sh => match i.toNat?.bind (fun k => ZChain.DKG.idRoundTrip (k + 1)) with
      | some k => if Fr.ofNat k == sh.1 then some (w, s!"id {k}") else some (w, "err")
      | none => some (w, "err")
    | none => bad w
  | ["reconstructs", pairs] => reconstructOp w pairs
  | ["reconstruct", pairs] => reconstructOp w pairs
  /- DKG (`chaincore/threshold/bls/dkg.go`) -/
  | ["dkg", t, n] => match t.toNat?, n.toNat? with
    | some t, some n => some ({ t := t, n := n }, "ok")
    | _, _ => bad w
  | ["party", j, minerId, cs] => match j.toNat?, computeIdDkg minerId, frList? cs with
    | some j, some id, some cs => some (setParty w j (mkParty w.t w.n id cs), s!"id {id} t={cs.length}")
    | _, _, _ => bad w
  | ["share", j, i] => match j.toNat?.bind (party? w), i.toNat?.bind (party? w) with
    | some pj, some pi => match computeShare pj pi.id with
      | some s => some (w, s!"s {s}")
      | none => some (w, "err")
    | _, _ => bad w
  | ["validate", i, j, k, d] =>
    match i.toNat?.bind (party? w), j.toNat?.bind (party? w), k.toNat?.bind (party? w), Fr.parse? d with
    | some pi, some pj, some pk, some d => match computeShare pj pi.id with
      | some s => some (w, showBool (validateShare (mpk pk) (s + d) pi.id))
      | none => some (w, "err")
    | _, _, _, _ => bad w
  | ["recv", i, j, d, force] =>
    match i.toNat?, i.toNat?.bind (party? w), j.toNat?.bind (party? w), Fr.parse? d with
    | some ii, some pi, some pj, some d => match computeShare pj pi.id with
      | some s => match addSecretShare pi pj.id (s + d) (force == "1") with
        | some pi' => some (setParty w ii pi', "ok")
        | none => some (w, "err")
      | none => some (w, "err")
    | _, _, _, _ => bad w
  | ["aggsk", i] => match i.toNat?, i.toNat?.bind (party? w) with
    | some ii, some p =>
      let p' := aggregateSecretKeyShares p
      let (w, l) := labK (setParty w ii p') (pi p')
      some (w, s!"s {p'.si} {l}")
    | _, _ => bad w
  | ["aggpk", i, js] => match i.toNat?, i.toNat?.bind (party? w), (natList? js).bind (·.mapM (party? w)) with
    | some ii, some p, some ps => match aggregatePublicKeyShares p (ps.map (fun q => (q.id, mpk q))) with
      | some p' => some (setParty w ii p', "ok")
      | none => some (w, "err")
    | _, _, _ => bad w
  | ["rundkg"] =>
    -- the honest run: every party receives every party's share, aggregates, and derives all group public keys
    let all := w.parties.map (·.2)
    let step1 (w : World) (e : Nat × Party Fr) : Option World := do
      let p ← all.foldlM (fun acc q => (computeShare q acc.id).bind (fun s => addSecretShare acc q.id s false)) e.2
      let p := aggregateSecretKeyShares p
      let p ← aggregatePublicKeyShares p (all.map (fun q => (q.id, mpk q)))
      pure (setParty w e.1 p)
    match w.parties.foldlM step1 w with
    | some w => some (w, "ok")
    | none => some (w, "err")
  | ["gpk", i, k] => match i.toNat?.bind (party? w), k.toNat?.bind (party? w) with
    | some p, some q => some (labK w (publicKeyById p q.id))
    | _, _ => bad w
  | ["sign", i, m] => match i.toNat?.bind (party? w), msg? w m with
    | some p, some h => some (pushSig w (signShare p h))
    | _, _ => bad w
  | ["verify", i, k, si, m] =>
    match i.toNat?.bind (party? w), k.toNat?.bind (party? w), si.toNat?.bind (sig? w), msg? w m with
    | some p, some q, some σ, some h => some (w, showBool (verifySignature p σ h q.id))
    | _, _, _, _ => bad w
  | ["recover", sis, ks] =>
    match (natList? sis).bind (·.mapM (sig? w)), (natList? ks).bind (·.mapM (party? w)) with
    | some ss, some ps => match calBlsGpSign ss (ps.map (·.id)) with
      | some x => some (pushSig w x)
      | none => some (w, "err")
    | _, _ => bad w
  | ["gverify", si, m, js] =>
    match si.toNat?.bind (sig? w), msg? w m, (natList? js).bind (·.mapM (party? w)) with
    | some σ, some h, some ps =>
      some (w, showBool (verifyLib ((ps.map (fun p => (mpk p).headD 0)).sum) h σ))
    | _, _, _ => bad w
  | ["sos", j, entries] => match j.toNat?.bind (party? w) with
    | some pj => match (splitList entries).mapM (sosEntry? w pj) with
      | some es => match sosValidate (mpk pj) es with
        | some keys => some (w, s!"ok {showNats (sortNats keys)}")
        | none => some (w, "fail")
      | none => bad w
    | none => bad w
  | _ => none

end ZChain.AlgWorld
