import ZChain.Model.DetTypes
/-!
# Loop shapes over Go maps and goroutine results — executable models for C06

Every function takes the enumeration (the order in which the Go runtime visits the map entries, or in which goroutine
results arrive) as an explicit list argument; determinism obligations are of the form
`∀ o₁ o₂, o₁.Perm o₂ → f o₁ = f o₂` (`Proofs/Det.lean`, `Props/C06.lean`). Core-only.
-/
namespace ZChain.Det

variable {α κ ν σ ε : Type}

/-- `x, err = currency.AddCoin(x, e); if err != nil { return err }`: a checked sum (`none` = the error return). -/
def checkedAdd (bound : Nat) : Option Nat → Nat → Option Nat
  | none, _ => none
  | some a, x => if a + x ≤ bound then some (a + x) else none

/-- `for … { if p(x) { return true } }; return false` -/
def existsLoop (p : α → Bool) : List α → Bool
  | [] => false
  | x :: r => if p x then true else existsLoop p r

/-- a Go map as a function -/
abbrev GMap (κ ν : Type) := κ → Option ν

def GMap.set [DecidableEq κ] (m : GMap κ ν) (k : κ) (v : ν) : GMap κ ν := fun k' => if k' = k then some v else m k'
def GMap.del [DecidableEq κ] (m : GMap κ ν) (k : κ) : GMap κ ν := fun k' => if k' = k then none else m k'

/-- **error-first loop** (`for k, v := range m { if err := check(k, v); err != nil { return err } }`):
the error of the first offending element in enumeration order. Shape of `GlobalNode.update`, `GlobalSettings.update`,
storagesc `Config.update`, faucetsc/vestingsc/zcnsc update loops, `ShareOrSigns.Validate`, `node.Pool.UnmarshalMsg`. -/
def firstError (check : α → Option ε) : List α → Option ε
  | [] => none
  | x :: r => match check x with
    | some e => some e
    | none => firstError check r

/-- **emit-per-element loop** (`for _, e := range m { emit(e) }`): the emitted list, in enumeration order.
Shape of the user-event loop at the end of `Chain.updateState` and of `createMagicBlock`'s `emitAddMiner`. -/
def emitAll (mk : α → β) (o : List α) : List β := o.map mk

/-- `state.GetItemsByIDs`: goroutine `i` delivers `(i, item)` or `(i, notPresent)`; arrival order is the scheduler's.
Items are stored at their index; of the "not present" errors the one with the smallest index is reported. -/
inductive Arrival (ι : Type) where
  | item (idx : Nat) (v : ι)
  | notPresent (idx : Nat)
deriving DecidableEq, Repr

def Arrival.idx {ι} : Arrival ι → Nat
  | .item i _ => i
  | .notPresent i => i

/-- the smallest index among the `notPresent` arrivals (`sort.SliceStable(errIdxs …)[0]`) -/
def minNotPresent {ι} : List (Arrival ι) → Option Nat
  | [] => none
  | .notPresent i :: r => match minNotPresent r with
    | some j => some (min i j)
    | none => some i
  | .item _ _ :: r => minNotPresent r

/-- `items[item.index] = v` for every arrived item -/
def placeItems {ι} (arr : List (Arrival ι)) : GMap Nat ι :=
  arr.foldl (fun m a => match a with
    | .item i v => m.set i v
    | .notPresent _ => m) (fun _ => none)

/-- result of `GetItemsByIDs` without internal (state) errors: `inl idx` = "could not get item ids[idx]", `inr items` -/
def getItems {ι} (arr : List (Arrival ι)) : Nat ⊕ GMap Nat ι :=
  match minNotPresent arr with
  | some i => .inl i
  | none => .inr (placeItems arr)

/-! ### `storagesc.verifyChallengeTickets`: one goroutine per ticket

Worker `i` looks at ticket `i` only (`check i`, a function of the ticket list), writes `errors[i]` (and `validators[i]`,
and adds to the atomic counters); after `wg.Wait()` the errors are scanned in index order and the first one is returned.
`π` is the order in which the workers complete. -/

/-- the `errors` slice after the workers have run in completion order `π` -/
def workerStep (check : Nat → Option ε) (m : GMap Nat ε) (i : Nat) : GMap Nat ε :=
  match check i with
  | some e => m.set i e
  | none => m

def runWorkers (check : Nat → Option ε) (π : List Nat) : GMap Nat ε := π.foldl (workerStep check) (fun _ => none)

/-- `for _, err := range errors { if err != nil { return nil, err } }` over `n` tickets -/
def pickFirst (n : Nat) (errs : GMap Nat ε) : Option ε := (List.range n).findSome? errs

/-- the variant with a shared "already rejected" flag that every worker tests first (an early-out optimisation):
the state is (flag, errors). Not what the code does — kept as the recorded reason why the closure's shared variables
are pinned in `Props/C06.lean`. -/
def runWorkersEarlyOut (check : Nat → Option ε) (π : List Nat) : Bool × GMap Nat ε :=
  π.foldl (fun st i =>
    if st.1 then st
    else match check i with
      | some e => (true, st.2.set i e)
      | none => st) (false, fun _ => none)

end ZChain.Det
