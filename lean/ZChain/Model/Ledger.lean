/-
Model of the transaction engine `chaincore/chain/state.go: (*Chain).updateState` together with
`transferAmount`, `validateNonce`, `incrementNonce` and the parts of
`chaincore/chain/state/state_context.go` it uses (`AddTransfer`, `GetClientState`, `SetClientState`).

The smart contract is NOT modelled here: its whole behaviour enters `step` as the parameter
`CResult` (what it wrote, which transfers it queued, whether it failed and how), so every theorem
about `step` quantifies over **all possible contract behaviours**.

Faithfulness notes (each is exercised by the correspondence harness `harness/cmd/ledger`):
* accounts: id ↦ (balance, nonce); an absent account reads as (0, 0) (`GetClientState` returns an
  empty `State` with `ErrValueNotPresent`, which `isValid` accepts);
* `txn.Value > MaxTokenSupply` (4·10^18) rejects before anything else; then the nonce test
  `state.nonce + 1 = txn.nonce`; the early `sctx.Validate()` runs on an empty transfer queue and
  can never fail, so it is omitted;
* send: a sender with no leaf in the trie is rejected (`GetClientBalance` returns value-not-present);
  `balance < fee + value` is computed with Go's wrapping `uint64` addition (`addWrap`);
* a chargeable contract error discards the contract's writes, transfers and events (a fresh state
  context is created) and sets status `failed`; the fee transfer and the nonce increment still apply;
* transfers are applied in queue order, then the signed transfers; `amount = 0` is skipped,
  `from = to` is an error, `balance < amount` is an error, `AddCoin` overflow (≥ 2^64) is an error;
  ANY error rejects the whole transaction: the transaction MPT is dropped, nothing changes;
* `AddTransfer` refuses a destination that is not a 64-hex id (`toValid = false`);
* `transferAmount` refuses a destination id that is not canonical lower-case hex (`dstCanon = false`):
  this is the repaired behaviour (`fix:` commit in /repo, see known_findings.jsonl C01) — before the repair
  such a transfer debited the source and credited nobody, because the trie walks children case-insensitively
  but compares leaf paths byte-wise.
Core-only (linked into the `zdrv-LEDGER` driver).
-/
namespace ZChain.Ledger

abbrev Id := Nat

/-- the miner smart contract's address (receiver of fees). -/
def minerSC : Id := 0

def maxTokenSupply : Nat := 4000000000000000000
def u64 : Nat := 18446744073709551616

structure Acct where
  balance : Nat
  nonce   : Int
deriving DecidableEq, Repr, Inhabited

def Acct.zero : Acct := ⟨0, 0⟩

/-- association list; the first entry for an id is the live one. -/
abbrev Accts := List (Id × Acct)

def get (a : Accts) (i : Id) : Acct :=
  match a with
  | [] => Acct.zero
  | (k, v) :: rest => if k = i then v else get rest i

/-- replace the first entry for `i`, or append a new one. -/
def set (a : Accts) (i : Id) (v : Acct) : Accts :=
  match a with
  | [] => [(i, v)]
  | (k, w) :: rest => if k = i then (k, v) :: rest else (k, w) :: set rest i v

/-- the account has a leaf in the trie (an absent account reads as (0,0) but `GetClientBalance`
reports `ErrValueNotPresent` for it). -/
def present (a : Accts) (i : Id) : Bool := a.any (fun p => p.1 = i)

def total (a : Accts) : Nat := (a.map (fun p => p.2.balance)).sum

/-- `dstCanon = false`: the destination id string is a NON-canonical spelling (upper-case hex digits) of the
account `dst`. As a Go string it differs from every canonical id, but the trie addresses children
case-insensitively, so it collides with `dst`'s path. Reads of such a path find nothing (balance 0). -/
structure Transfer where
  src : Id
  dst : Id
  amount : Nat
  dstCanon : Bool := true
  /-- only meaningful with `dstCanon = false`: the non-canonical spelling differs from the canonical id only in
  characters the trie has already branched on (e.g. the leading hex letter upper-cased), so READS of that path
  resolve to `dst`'s own leaf (`sumOfFromToBalance` sees `dst`'s balance); an all-upper-case spelling does not
  (its leaf path differs byte-wise: reads find nothing). `transferAmount` refuses both. -/
  dstSameLeaf : Bool := false
deriving DecidableEq, Repr

/-- a read of the destination path finds `dst`'s leaf. -/
def Transfer.dstReadable (t : Transfer) : Bool := t.dstCanon || t.dstSameLeaf

inductive TErr where
  | sameClient | insufficient | overflow | sumOverflow | nonCanonical
deriving DecidableEq, Repr

/-- `transferAmount` without the canonical-id test (the code before the `fix:` commit; kept as the core
that the exactness lemmas are proved about). -/
def transferCore0 (a : Accts) (t : Transfer) : Except TErr Accts :=
  if t.amount = 0 then .ok a
  else if t.src = t.dst then .error .sameClient
  else
    let fs := get a t.src
    if fs.balance < t.amount then .error .insufficient
    else
      let ts := get a t.dst
      let a1 := set a t.src { fs with balance := fs.balance - t.amount }
      if ts.balance + t.amount ≥ u64 then .error .overflow
      else .ok (set a1 t.dst { ts with balance := ts.balance + t.amount })

/-- `transferAmount`: amount 0 is skipped; (repaired behaviour, `fix:` commit) a destination id that is not
canonical lower-case hex is refused; then the checks of `transferCore0`. -/
def transferCore (a : Accts) (t : Transfer) : Except TErr Accts :=
  if t.amount ≠ 0 ∧ t.dstCanon = false then .error .nonCanonical
  else transferCore0 a t

/-- `transferAmountWithAssert` = `sumOfFromToBalance` (an `AddCoin` of the two balances, which is an
error when the sum is ≥ 2^64 — even for amount 0; a destination path that no leaf answers reads as 0) followed by `transferAmount`. The assertion after
the transfer panics only if the sum of the two balances changed, which `transfer_get` excludes. -/
def transfer (a : Accts) (t : Transfer) : Except TErr Accts :=
  if (get a t.src).balance + (if t.dstReadable then (get a t.dst).balance else 0) ≥ u64 then .error .sumOverflow
  else transferCore a t

def applyTransfers (a : Accts) : List Transfer → Except TErr Accts
  | [] => .ok a
  | t :: ts =>
    match transfer a t with
    | .error e => .error e
    | .ok a' => applyTransfers a' ts

/-- contract storage: key ↦ value (both abstract numbers). -/
abbrev Store := List (Nat × Nat)

def storeGet (s : Store) (k : Nat) : Option Nat :=
  match s with
  | [] => none
  | (k', v) :: rest => if k' = k then some v else storeGet rest k

def storeSet (s : Store) (k v : Nat) : Store :=
  match s with
  | [] => [(k, v)]
  | (k', w) :: rest => if k' = k then (k', v) :: rest else (k', w) :: storeSet rest k v

def storeDel (s : Store) (k : Nat) : Store := s.filter (fun p => p.1 ≠ k)

inductive Write where
  | put (k v : Nat)
  | del (k : Nat)
deriving DecidableEq, Repr

def applyWrites (s : Store) : List Write → Store
  | [] => s
  | .put k v :: ws => applyWrites (storeSet s k v) ws
  | .del k :: ws => applyWrites (storeDel s k) ws

/-- everything a contract call can do, as seen by the engine. -/
inductive CResult where
  | internal                      -- deadline / SC-context timeout / node-not-found / cancelled: txn rejected
  | chargeable (attemptedWrites : List Write) (attemptedTransfers attemptedSigned : List Transfer)
  | ok (writes : List Write) (transfers signed : List Transfer)
deriving Repr

inductive TxnType where
  | send | data | sc | invalid
deriving DecidableEq, Repr

structure Txn where
  sender  : Id
  to      : Id
  toValid : Bool        -- `encryption.IsHash(txn.ToClientID)`
  toCanon : Bool := true  -- the recipient id is spelled in canonical lower-case hex
  toSameLeaf : Bool := false  -- (with `toCanon = false`) the spelling still resolves to the recipient's leaf
  value   : Nat
  fee     : Nat
  nonce   : Int
  typ     : TxnType
deriving Repr

structure St where
  accts : Accts
  store : Store
deriving DecidableEq, Repr

inductive Status where
  | rejected     -- `updateState` returned an error: the transaction is not applied at all
  | success
  | failed       -- chargeable contract error: status `TxnError`
deriving DecidableEq, Repr

def addWrap (a b : Nat) : Nat := (a + b) % u64

/-- the part of `updateState` after the contract ran: optional fee transfer, queued transfers in
order, signed transfers, nonce increment. `none` = some transfer failed (whole txn rejected). -/
def settle (feeOn : Bool) (a : Accts) (t : Txn) (transfers signed : List Transfer) : Option Accts :=
  let q := if feeOn then transfers ++ [⟨t.sender, minerSC, t.fee, true, false⟩] else transfers
  match applyTransfers a (q ++ signed) with
  | .error _ => none
  | .ok a' =>
    let s := get a' t.sender
    some (set a' t.sender { s with nonce := s.nonce + 1 })

def step (feeOn : Bool) (s : St) (t : Txn) (r : CResult) : St × Status :=
  if t.value > maxTokenSupply then (s, .rejected)
  else if (get s.accts t.sender).nonce + 1 ≠ t.nonce then (s, .rejected)
  else
    match t.typ with
    | .invalid => (s, .rejected)
    | .data =>
      match settle feeOn s.accts t [] [] with
      | none => (s, .rejected)
      | some a => ({ s with accts := a }, .success)
    | .send =>
      if !present s.accts t.sender then (s, .rejected)   -- `GetClientBalance` fails: value not present
      else if (get s.accts t.sender).balance < addWrap t.fee t.value then (s, .rejected)
      else if !t.toValid then (s, .rejected)
      else
        match settle feeOn s.accts t [⟨t.sender, t.to, t.value, t.toCanon, t.toSameLeaf⟩] [] with
        | none => (s, .rejected)
        | some a => ({ s with accts := a }, .success)
    | .sc =>
      match r with
      | .internal => (s, .rejected)
      | .chargeable _ _ _ =>
        match settle feeOn s.accts t [] [] with
        | none => (s, .rejected)
        | some a => ({ s with accts := a }, .failed)
      | .ok ws tr sg =>
        match settle feeOn s.accts t tr sg with
        | none => (s, .rejected)
        | some a => ({ accts := a, store := applyWrites s.store ws }, .success)

/-- a history: transactions with the behaviour the called contract showed on each. -/
def run (feeOn : Bool) (s : St) : List (Txn × CResult) → St
  | [] => s
  | (t, r) :: rest => run feeOn (step feeOn s t r).1 rest

end ZChain.Ledger
