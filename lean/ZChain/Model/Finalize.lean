/-
Model of `Chain.ComputeFinalizedBlock` (chaincore/chain/protocol_round.go:59-132) and of the decision
`finalizeRound` takes with its result (protocol_round.go:236-260, 434-470) — C36.

A block is `(hash, round, prevHash)`. What a node holds is
* `blocks`: the blocks whose record it has — `b.PrevBlock` resolves iff a block with hash `b.prev` is in the store
  (otherwise `GetPreviousBlock` fails and the computation answers nil: "null prev block");
* `rounds`: its round objects, `number ↦ notarized blocks` in list order; a number without entry is a round
  object that does not exist (`c.GetRound` returns nil).

`computeFinalizedBlock` is transcribed loop by loop:
1. walk back from round `r` to the latest round `> lfbr` that has notarized blocks, stopping at a missing
   round object (`findNotarized`, fuel = r + 1);
2. repeatedly replace the set by the de-duplicated parents (`isIn` compares the hashes already collected with
   `b.PrevHash`; the first occurrence is kept, order preserved) until exactly one block is left — at least one
   step is always taken (`climb`, with explicit fuel; `Proofs/Finalize.climb_total` shows the fuel
   `maxRound + 1` is never used up on trees whose parents lie in strictly earlier rounds);
3. answer nil if that block is in round `r` itself.
Core-only.
-/
namespace ZChain.Finalize

structure Blk where
  hash : Nat
  round : Nat
  prev : Nat
deriving DecidableEq, Repr, Inhabited

structure Chain where
  blocks : List Blk
  rounds : List (Nat × List Blk)
deriving Repr

def Chain.block? (c : Chain) (h : Nat) : Option Blk := c.blocks.find? (fun b => b.hash == h)

/-- `b.PrevBlock` (after `GetPreviousBlock`) -/
def Chain.parent? (c : Chain) (b : Blk) : Option Blk := c.block? b.prev

/-- `c.GetRound(n).GetNotarizedBlocks()`; `none` = no such round object -/
def Chain.round? (c : Chain) (n : Nat) : Option (List Blk) := (c.rounds.find? (fun p => p.1 == n)).map (·.2)

/-- the first loop. `rn` is `roundNumber`; the round object of `rn` is looked up (for the start round the caller
passes an existing round). Result: the notarized blocks found (`[]` = none found) and the round they were found in. -/
def findNotarized (c : Chain) (lfbr : Nat) : Nat → Nat → List Blk × Nat
  | 0, rn => ([], rn)
  | fuel + 1, rn =>
    if rn ≤ lfbr then ([], rn)
    else match c.round? rn with
      | none => ([], rn)                                   -- `rd == nil`: break
      | some nbs => if nbs ≠ [] then (nbs, rn) else
          match rn with
          | 0 => ([], 0)
          | rn' + 1 => findNotarized c lfbr fuel rn'

/-- one turn of the inner `for _, b := range notarizedBlocks`: `none` = a previous block is missing -/
def parentsAux (c : Chain) : List Blk → List Blk → Option (List Blk)
  | [], acc => some acc
  | b :: bs, acc =>
    match c.parent? b with
    | none => none
    | some p => if acc.any (fun x => x.hash == b.prev) then parentsAux c bs acc else parentsAux c bs (acc ++ [p])

def parents (c : Chain) (nbs : List Blk) : Option (List Blk) := parentsAux c nbs []

inductive Climb where
  | outOfFuel
  | missingPrev
  | found (b : Blk)
deriving DecidableEq, Repr

/-- the second loop -/
def climb (c : Chain) : Nat → List Blk → Climb
  | 0, _ => .outOfFuel
  | fuel + 1, nbs =>
    match parents c nbs with
    | none => .missingPrev
    | some ps => match ps with
      | [p] => .found p
      | _ => climb c fuel ps

def maxRound (l : List Blk) : Nat := l.foldl (fun m b => max m b.round) 0

/-- `ComputeFinalizedBlock(ctx, lfbr, r)` for an existing round object `r`. -/
def computeFinalizedBlock (c : Chain) (lfbr r : Nat) : Option Blk :=
  match findNotarized c lfbr (r + 1) r with
  | ([], _) => none                                        -- "no notarized blocks"
  | (nbs, _) =>
    match climb c (maxRound nbs + 1) nbs with
    | .found fb => if fb.round = r then none else some fb
    | _ => none

/-! ### what `finalizeRound` does with the result (protocol_round.go:236-260 and 434-470) -/

inductive Decision where
  | none                       -- nothing to finalize (nil, or the same block as before)
  | forward (lfb : Blk)        -- `lfb.Round > plfb.Round`: walk back to plfb and finalize the blocks in between
  | rollback (to : Option Blk) -- `lfb.Round <= plfb.Round`, other hash: LFB is SET BACK to the common ancestor
deriving DecidableEq, Repr

/-- `commonAncestor(b1, b2)` (protocol_block.go:895): bring the block of the later round down to the round of the
other (`for b2.Round != b1.Round { b2 = prev(b2) }`), then step both until they meet. `none` = a previous block is
missing (or the fuel, `b1.round + b2.round + 2` steps, ran out — not possible when parents lie in earlier rounds). -/
def levelDown (c : Chain) (target : Nat) : Nat → Blk → Option Blk
  | 0, _ => none
  | fuel + 1, b => if b.round = target then some b else
      match c.parent? b with
      | none => none
      | some p => levelDown c target fuel p

def meet (c : Chain) : Nat → Blk → Blk → Option Blk
  | 0, _, _ => none
  | fuel + 1, b1, b2 => if b1.hash = b2.hash then some b1 else
      match c.parent? b1, c.parent? b2 with
      | some p1, some p2 => meet c fuel p1 p2
      | _, _ => none

def commonAncestor (c : Chain) (b1 b2 : Blk) : Option Blk :=
  if b1.hash = b2.hash then some b1 else
  let (b1, b2) := if b2.round < b1.round then (b2, b1) else (b1, b2)
  match levelDown c b1.round (b2.round + 2) b2 with
  | none => none
  | some b2' => meet c (b1.round + 2) b1 b2'

/-- the branch `finalizeRound` takes for round `r` when the latest finalized block is `plfb` -/
def finalizeDecision (c : Chain) (plfb : Blk) (r : Nat) : Decision :=
  if r ≤ plfb.round then .none
  else match computeFinalizedBlock c plfb.round r with
    | none => .none
    | some lfb =>
      if lfb.hash = plfb.hash then .none
      else if lfb.round > plfb.round then .forward lfb
      else .rollback (commonAncestor c plfb lfb)

end ZChain.Finalize
