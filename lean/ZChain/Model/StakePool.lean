import ZChain.Base.Coin
/-!
# Model of the reward arithmetic of `smartcontract/stakepool/stakepool.go`

`DistributeRewards` (stakepool.go:556-683), `DistributeRewardsRandN` (:395-500), `getRandPools` /
`getRandStakePools` (:502-554), `stake` (:685-695), `equallyDistributeRewards` (:697-749).

* A stake pool's delegate pools are a list **in `OrderedPoolIds` order** (ascending pool id; pool id =
  `DelegateID`, as `LockPool` creates them), so `spUpdate.DelegateRewards` (a map keyed by `DelegateID`) is the
  list `Upd.dr` aligned with the pools (an absent key is `0`).
* Every `currency` call is the checked `Coin.*` function; the **unchecked** Go operators are wrapping exactly
  where the Go code has them: `valueLeft := value - serviceCharge` (`wrapSub`; since the charge is capped at `value` it can no longer wrap), `pools[i].Reward++` and
  `spUpdate.DelegateRewards[..]++` (`wrapAdd _ 1`), and the `totalRewards += p` of the deferred assertion.
* floats are `F64` (exact binary64): `ServiceChargeRatio * float64(value)`, `float64(balance)/float64(stake)`,
  `MultFloat64(valueLeft, ratio)`.
* `rand.Perm` is NOT modelled: `distributeRewardsRandN` takes the selected indices (into the ordered pool list)
  as an argument; the harness passes what the real seeded generator produced (pre-`demeter`: `Perm(n)`,
  else `Perm(len)[:n]`).
* Events (`spUpdate.Emit`) carry exactly `Upd`; they are compared by the harness, not modelled further.
* On an error the Go code may already have mutated the in-memory pool; the failing transaction discards it,
  so the model returns only the error class.
Core-only (no Mathlib).
-/
namespace ZChain.StakePool
open ZChain ZChain.Coin

structure DP where
  balance : Nat
  reward  : Nat
deriving Repr, DecidableEq, Inhabited

structure SP where
  pools    : List DP
  reward   : Nat
  minStake : Nat
  ratio    : F64      -- Settings.ServiceChargeRatio
  killed   : Bool     -- HasBeenKilled
deriving Repr, DecidableEq, Inhabited

/-- what `spUpdate` (the emitted `StakePoolReward`) records: the provider's reward and one entry per pool. -/
structure Upd where
  reward : Nat
  dr     : List Nat
deriving Repr, DecidableEq, Inhabited

inductive Err where
  | coin (e : Coin.Err)
  | noStake                 -- `fmt.Errorf("no stake")`
  | assertPanic             -- the deferred `totalRewards != value` panic
deriving Repr, DecidableEq, Inhabited

def Err.tag : Err → String
  | .coin e => e.tag
  | .noStake => "no-stake"
  | .assertPanic => "panic-assert"

def liftC {α} : Except Coin.Err α → Except Err α
  | .ok a => .ok a
  | .error e => .error (.coin e)

/-- `sp.stake()`: checked left-to-right sum of the balances (stakepool.go:685-695). -/
def stakeAux : List DP → Nat → Except Err Nat
  | [], s => .ok s
  | dp :: rest, s => do
    let s' ← liftC (addCoin s dp.balance)
    stakeAux rest s'

def stakeOf (ps : List DP) : Except Err Nat := stakeAux ps 0

def sumBalances (ps : List DP) : Nat := (ps.map (·.balance)).sum

/-- The proportional loop (`for _, id := range orderedPoolIds { … }`), stakepool.go:647-667 / :463-481.
Returns the updated pools, the per-pool `DelegateRewards` entries and the final `valueBalance`. -/
def distLoop (valueLeft stake : Nat) : List DP → Nat → Except Err (List DP × List Nat × Nat)
  | [], vb => .ok ([], [], vb)
  | dp :: rest, vb =>
    if vb = 0 then .ok (dp :: rest, (dp :: rest).map (fun _ => 0), 0)   -- `break`
    else do
      let ratio := F64.div (F64.ofNat dp.balance) (F64.ofNat stake)
      let r0 ← liftC (multFloat64 valueLeft ratio)
      let reward := if vb < r0 then vb else r0
      let vb' := if vb < r0 then 0 else vb - r0
      let nr ← liftC (addCoin dp.reward reward)
      let (rest', drs, vbf) ← distLoop valueLeft stake rest vb'
      .ok ({ dp with reward := nr } :: rest', reward :: drs, vbf)

/-- `pools[i].Reward++; spUpdate.DelegateRewards[id]++` for the first `k` pools (unchecked `++`). -/
def bumpFirst : Nat → List DP → List Nat → List DP × List Nat
  | 0, ps, ds => (ps, ds)
  | _ + 1, [], ds => ([], ds)
  | _ + 1, ps, [] => (ps, [])
  | k + 1, p :: ps, d :: ds =>
    let (ps', ds') := bumpFirst k ps ds
    ({ p with reward := wrapAdd p.reward 1 } :: ps', wrapAdd d 1 :: ds')

/-- `for i := range pools { pools[i].Reward = AddCoin(.., share); DelegateRewards[id] = AddInt64(.., iShare) }`. -/
def addShare (share : Nat) (iShare : Int) : List DP → List Nat → Except Err (List DP × List Nat)
  | p :: ps, d :: ds => do
    let nr ← liftC (addCoin p.reward share)
    let nd ← liftC (addInt64 d iShare)
    let (ps', ds') ← addShare share iShare ps ds
    .ok ({ p with reward := nr } :: ps', nd :: ds')
  | ps, ds => .ok (ps, ds)

/-- `equallyDistributeRewards(coins, pools, spUpdate)`, stakepool.go:701-749. -/
def equally (coins : Nat) (ps : List DP) (ds : List Nat) : Except Err (List DP × List Nat) := do
  let (share, r) ← liftC (distributeCoin coins (Int.ofNat ps.length))
  let c ← liftC (toInt64 coins)
  if share = 0 then
    .ok (bumpFirst c.toNat ps ds)
  else do
    let iShare ← liftC (toInt64 share)
    let (ps', ds') ← addShare share iShare ps ds
    .ok (bumpFirst r ps' ds')

/-- the deferred assertion's wrapping sum. -/
def wrapSum (u : Upd) : Nat := u.dr.foldl wrapAdd u.reward

/-- common prefix of both functions up to `valueLeft`: `.ok none` = early return (nothing moved / all to the
provider), else the service charge has been credited and `valueLeft ≠ 0` is returned. -/
inductive Pre where
  | done (sp : SP) (u : Option Upd)
  | go (sp : SP) (serviceCharge valueLeft : Nat)

/-- `serviceCharge := Float64ToCoin(ServiceChargeRatio * float64(value))`, then (repair 20328ad, stakepool.go:436/621)
`if serviceCharge > value { serviceCharge = value }`: `float64(value)` may round up for `value ≥ 2^53`. -/
def serviceChargeOf (sp : SP) (value : Nat) : Except Err Nat := do
  let sc ← liftC (float64ToCoin (F64.mul sp.ratio (toFloat64 value)))
  .ok (if value < sc then value else sc)

def prefixPart (sp : SP) (value : Nat) : Except Err Pre := do
  let total ← stakeOf sp.pools
  if value = 0 ∨ sp.killed = true ∨ total < sp.minStake then .ok (.done sp none)
  else if sp.pools = [] then do
    let nr ← liftC (addCoin sp.reward value)
    .ok (.done { sp with reward := nr } (some { reward := value, dr := [] }))
  else do
    let sc ← serviceChargeOf sp value
    let sp1 ← (if 0 < sc then do
        let nr ← liftC (addCoin sp.reward sc)
        .ok { sp with reward := nr }
      else .ok sp : Except Err SP)
    let valueLeft := wrapSub value sc            -- UNCHECKED in Go
    if valueLeft = 0 then .ok (.done sp1 (some { reward := sc, dr := sp.pools.map (fun _ => 0) }))
    else .ok (.go sp1 sc valueLeft)

/-- `(sp *StakePool) DistributeRewards(value, …)`. `.ok (sp', none)`: nothing moved (no event). -/
def distributeRewards (sp : SP) (value : Nat) : Except Err (SP × Option Upd) := do
  match ← prefixPart sp value with
  | .done sp' u => .ok (sp', u)
  | .go sp1 sc valueLeft =>
    let stake ← stakeOf sp1.pools
    if stake = 0 then .error .noStake
    else do
      let (ps, ds, vb) ← distLoop valueLeft stake sp1.pools valueLeft
      let (ps', ds') ← (if 0 < vb then equally vb ps ds else .ok (ps, ds))
      let u : Upd := { reward := sc, dr := ds' }
      if wrapSum u ≠ value then .error .assertPanic
      else .ok ({ sp1 with pools := ps' }, some u)

/-- write the updated selected pools back to their positions. -/
def writeBack (ps : List DP) : List Nat → List DP → List DP
  | i :: is, p :: sel => writeBack (ps.set i p) is sel
  | _, _ => ps

def writeBackN (ds : List Nat) : List Nat → List Nat → List Nat
  | i :: is, d :: sel => writeBackN (ds.set i d) is sel
  | _, _ => ds

/-- `getRandPools`: all pools when `n ≥ len`, else the pools at the given (distinct, in-range) indices. -/
def selectIdx (ps : List DP) (n : Nat) (idxs : List Nat) : List Nat :=
  if ps.length ≤ n then List.range ps.length else idxs

/-- `(sp *StakePool) DistributeRewardsRandN(value, …, seed, randN, …)` with the index list the seeded
`rand.Perm` produced. No exactness assertion in the Go code; selected stake `0` returns **nil** (no error). -/
def distributeRewardsRandN (sp : SP) (value : Nat) (n : Nat) (idxs : List Nat) : Except Err (SP × Option Upd) := do
  match ← prefixPart sp value with
  | .done sp' u => .ok (sp', u)
  | .go sp1 sc valueLeft =>
    let sel := selectIdx sp1.pools n idxs
    let selPools := sel.map (fun i => sp1.pools.getD i default)
    let stake ← stakeOf selPools
    let zeros := sp1.pools.map (fun _ => 0)
    if stake = 0 then .ok (sp1, some { reward := sc, dr := zeros })
    else do
      let (ps, ds, vb) ← distLoop valueLeft stake selPools valueLeft
      let (ps', ds') ← (if 0 < vb then equally vb ps ds else .ok (ps, ds))
      .ok ({ sp1 with pools := writeBack sp1.pools sel ps' }, some { reward := sc, dr := writeBackN zeros sel ds' })

end ZChain.StakePool
