import ZChain.Generated.C48
/-!
# Model of the governance (settings-update) entry points — C48, and the C06 map-order sites in them

Go sources transcribed (the *code that exists*, quirks included):

* `smartcontract/minersc/globals.go`   `updateGlobals`, `GlobalSettings.update`, `save` (version + 1)
* `smartcontract/minersc/settings.go`  `updateSettings`, `GlobalNode.update/set/setCost/isCost`, `models.go validate`
* `smartcontract/storagesc/config_settigns.go` `updateSettings` (stages the changes; after the `demeter`
  fork also saves the config — without `validate`), `commitSettingChanges` (no owner check; validates),
  `Config.update` (TrimSpace on key and value), `set`, `setCost`, `config.go validate`
* `smartcontract/faucetsc/sc.go updateSettings`, `models.go updateConfig/setCostValue/validate`
* `smartcontract/vestingsc/config.go updateConfig` (saves **without** validate), `update`, `setCostValue`, `validate`
* `smartcontract/zcnsc/config.go UpdateGlobalConfig`, `nodes.go UpdateConfig/setCostValue/Validate`
* `core/config/utils.go StringToInterface`; `chaincore/chain/config.go ConfigImpl.Update` (version gate and
  the node-local fallback of `GlobalSettings.GetXxx`)

The settings tables (name ↦ type, mutable?, setter), the type dispatch of `set`, the key switches of
faucet/vesting/zcn, the call order of every entry point and the source text of every `validate` condition
come from `Generated/C48.lean` (translator `harness/cmd/xc48`); `Props/C48.lean` pins the parts of the generated
file this hand-written model relies on.

**Go map iteration is an explicit argument**: every function that ranges over a map takes
`ord : MapOrder`, the enumeration the runtime happens to choose; the only fact ever assumed about it is
`ord m` is a permutation of `m`.

Strings are `List Nat` (bytes; ASCII semantics for `TrimSpace`/`ToLower`) because `String` functions do
not reduce in the kernel. Value parsing (`strconv`, `time.ParseDuration`, `hex`, `currency.ParseZCN`) is Go
library code: the model is parametric in a `Parsers` record (theorems quantify over all of them) and
`Parsers.go` is the concrete instance used by the driver, exact on the grammar the harness generates:
decimal integers, decimals with ≤ 15 significant digits and no exponent, durations without fractions.
Core-only (linked into `zdrv-C48`).
-/
namespace ZChain.Gov

abbrev Str := List Nat

def S (s : String) : Str := s.toList.map Char.toNat

/-! ## small string library (ASCII) -/

def isSpace (c : Nat) : Bool := c == 32 || (9 ≤ c && c ≤ 13)

def trimLeft : Str → Str
  | [] => []
  | c :: cs => if isSpace c then trimLeft cs else c :: cs

/-- `strings.TrimSpace` (ASCII white space). -/
def trimSpace (s : Str) : Str := (trimLeft (trimLeft s).reverse).reverse

/-- `strings.ToLower` (ASCII). -/
def toLower (s : Str) : Str := s.map fun c => if 65 ≤ c && c ≤ 90 then c + 32 else c

def hasPrefix : Str → Str → Bool
  | _, [] => true
  | [], _ :: _ => false
  | c :: cs, p :: ps => c == p && hasPrefix cs ps

/-- `strings.TrimPrefix`. -/
def trimPrefix (s p : Str) : Str := if hasPrefix s p then s.drop p.length else s

/-! ## association lists standing for Go maps -/

abbrev SMap (α : Type) := List (Str × α)

def SMap.find {α} (m : SMap α) (k : Str) : Option α :=
  match m with
  | [] => none
  | (k', v) :: r => if k' = k then some v else SMap.find r k

/-- `m[k] = v`. -/
def SMap.insert {α} (m : SMap α) (k : Str) (v : α) : SMap α := (k, v) :: m.filter (fun p => p.1 ≠ k)

def SMap.keys {α} (m : SMap α) : List Str := m.map (·.1)

/-- observational equality of two maps -/
def SMap.Equiv {α} (a b : SMap α) : Prop := ∀ k, a.find k = b.find k

/-- The enumeration order the Go runtime picks for `range m`. -/
abbrev MapOrder := SMap Str → SMap Str

def MapOrder.Valid (ord : MapOrder) : Prop := ∀ m, (ord m).Perm m

/-! ## values -/

/-- A decimal `(-1)^neg · m / 10^e`, standing for the `float64` nearest to it (≤ 15 significant digits, so
comparisons with integers agree). -/
structure Dec where
  neg : Bool
  m : Nat
  e : Nat
deriving DecidableEq, Repr, Inhabited

def Dec.normAux : Nat → Nat → Nat → Nat × Nat
  | 0, m, e => (m, e)
  | f + 1, m, e => if e = 0 then (m, e) else if m % 10 = 0 then Dec.normAux f (m / 10) (e - 1) else (m, e)

/-- strip trailing zeros of the fraction -/
def Dec.norm (d : Dec) : Dec := let r := Dec.normAux d.e d.m d.e; { d with m := r.1, e := r.2 }

/-- the signed numerator: value = `num / 10^e` -/
def Dec.num (d : Dec) : Int := if d.neg then - (d.m : Int) else d.m

/-- `d < k`, `k < d` for an integer `k` -/
def Dec.ltInt (d : Dec) (k : Int) : Bool := decide (d.num < k * (10 : Int) ^ d.e)
def Dec.gtInt (d : Dec) (k : Int) : Bool := decide (k * (10 : Int) ^ d.e < d.num)
def Dec.leInt (d : Dec) (k : Int) : Bool := !d.gtInt k

/-- A typed setting value. Coins, durations (ns) and all integer kinds are `int`. -/
inductive Val where
  | none
  | int (i : Int)
  | dec (d : Dec)
  | bool (b : Bool)
  | str (s : Str)
deriving DecidableEq, Repr, Inhabited

def Val.toInt : Val → Int
  | .int i => i
  | _ => 0

def Val.toDec : Val → Dec
  | .dec d => d
  | .int i => ⟨decide (i < 0), i.natAbs, 0⟩
  | _ => ⟨false, 0, 0⟩

def Val.toStr : Val → Str
  | .str s => s
  | _ => []

/-! ## parsers (Go library functions; a parameter of the model) -/

structure Parsers where
  atoi : Str → Option Int          -- strconv.Atoi
  int64 : Str → Option Int         -- strconv.ParseInt(s, 10, 64)
  int32 : Str → Option Int         -- strconv.ParseInt(s, 10, 32)
  uint64 : Str → Option Int        -- strconv.ParseUint(s, 10, 64)
  float : Str → Option Dec         -- strconv.ParseFloat(s, 64)
  dur : Str → Option Int           -- time.ParseDuration, nanoseconds
  bool : Str → Option Bool         -- strconv.ParseBool
  hex : Str → Bool                 -- hex.DecodeString succeeds
  zcn : Dec → Option Int           -- currency.ParseZCN
  mult1e10 : Dec → Option Int      -- currency.MultFloat64(1e10, f)
  rawCoin : Dec → Option Int       -- currency.Coin(f)   (float64 → uint64 conversion)

def isDigit (c : Nat) : Bool := 48 ≤ c && c ≤ 57

def digitsVal : Str → Option Nat
  | [] => none
  | s => if s.all isDigit then some (s.foldl (fun a c => a * 10 + (c - 48)) 0) else none

def parseSigned (s : Str) : Option Int :=
  match s with
  | 43 :: r => (digitsVal r).map Int.ofNat
  | 45 :: r => (digitsVal r).map fun n => - Int.ofNat n
  | _ => (digitsVal s).map Int.ofNat

def parseIntBits (bits : Nat) (s : Str) : Option Int :=
  (parseSigned s).bind fun i =>
    if - (2 : Int) ^ (bits - 1) ≤ i ∧ i < (2 : Int) ^ (bits - 1) then some i else none

def parseUint64 (s : Str) : Option Int :=
  (digitsVal s).bind fun n => if n < 2 ^ 64 then some (Int.ofNat n) else none

def sigDigits (s : Str) : Nat := (s.dropWhile (· == 48)).length

/-- `[+-]? digits [ '.' digits ]`, `[+-]? '.' digits`, `[+-]? digits '.'`; at most 15 significant digits. -/
def parseDec (s : Str) : Option Dec :=
  let (neg, r) := match s with
    | 43 :: r => (false, r)
    | 45 :: r => (true, r)
    | _ => (false, s)
  let ip := r.takeWhile isDigit
  let rest := r.dropWhile isDigit
  let (fp, ok) := match rest with
    | [] => (([] : Str), true)
    | 46 :: f => (f, f.all isDigit)
    | _ => ([], false)
  if !ok || (ip.isEmpty && fp.isEmpty) then none
  else if sigDigits (ip ++ fp) > 15 then none
  else
    let m := (ip ++ fp).foldl (fun a c => a * 10 + (c - 48)) 0
    some (Dec.norm ⟨neg, m, fp.length⟩)

/-- unit table of `time.ParseDuration` (`µs` with U+00B5 and U+03BC, as UTF-8 bytes) -/
def durUnit (u : Str) : Option Nat :=
  if u = str% "ns" then some 1
  else if u = str% "us" || u = [194, 181, 115] || u = [206, 188, 115] then some 1000
  else if u = str% "ms" then some 1000000
  else if u = str% "s" then some 1000000000
  else if u = str% "m" then some 60000000000
  else if u = str% "h" then some 3600000000000
  else none

/-- the `for s != ""` loop of `time.ParseDuration` for groups `digits unit` (a `.` is outside the modelled grammar) -/
def durGroups : Nat → Str → Nat → Option Nat
  | 0, _, _ => none
  | fuel + 1, s, acc =>
    if s.isEmpty then some acc
    else
      let ds := s.takeWhile isDigit
      let r := s.dropWhile isDigit
      if ds.isEmpty then none
      else
        let v := ds.foldl (fun a c => a * 10 + (c - 48)) 0
        if v > 2 ^ 63 then none
        else
          let u := r.takeWhile (fun c => !(isDigit c) && c != 46)
          let r' := r.dropWhile (fun c => !(isDigit c) && c != 46)
          match durUnit u with
          | none => none
          | some unit =>
            if v > 2 ^ 63 / unit then none
            else
              let acc' := acc + v * unit
              if acc' > 2 ^ 63 then none else durGroups fuel r' acc'

def parseDur (s : Str) : Option Int :=
  let (neg, r) := match s with
    | 43 :: r => (false, r)
    | 45 :: r => (true, r)
    | _ => (false, s)
  if r = [48] then some 0
  else if r.isEmpty then none
  else match durGroups (r.length + 1) r 0 with
    | none => none
    | some d => if neg then some (- Int.ofNat d) else if d > 2 ^ 63 - 1 then none else some (Int.ofNat d)

def parseBool (s : Str) : Option Bool :=
  if s = str% "1" || s = str% "t" || s = str% "T" || s = str% "TRUE" || s = str% "true" || s = str% "True" then some true
  else if s = str% "0" || s = str% "f" || s = str% "F" || s = str% "FALSE" || s = str% "false" || s = str% "False" then some false
  else none

def isHexDigit (c : Nat) : Bool := isDigit c || (97 ≤ c && c ≤ 102) || (65 ≤ c && c ≤ 70)

def hexOk (s : Str) : Bool := s.length % 2 == 0 && s.all isHexDigit

/-- `currency.ParseZCN`: negative → error; more than 10 decimals → error; `> MaxInt64` → error. -/
def zcnOf (d : Dec) : Option Int :=
  if d.neg && d.m ≠ 0 then none
  else if d.e > 10 then none
  else
    let v := d.m * 10 ^ (10 - d.e)
    if v > 2 ^ 63 - 1 then none else some (Int.ofNat v)

/-- `currency.MultFloat64(1e10, f)`: exact for non-negative integers below 2^53 / 1e10; other inputs are
outside the modelled grammar (binary64 rounding of the product matters) and answered `none`. -/
def mult1e10Of (d : Dec) : Option Int :=
  if d.neg && d.m ≠ 0 then none
  else if d.e ≠ 0 then none
  else if d.m * 10 ^ 10 < 2 ^ 53 then some (Int.ofNat (d.m * 10 ^ 10)) else none

/-- `currency.Coin(f)` for `0 ≤ f < 2^63` is truncation. Negative `f`: the Go spec leaves the conversion
implementation-defined; amd64 yields `uint64(int64(f))`, i.e. `2^64 - ⌊|f|⌋` — modelled as such for `|f| < 2^63`. -/
def rawCoinOf (d : Dec) : Option Int :=
  let t := d.m / 10 ^ d.e
  if t ≥ 2 ^ 63 then none
  else if d.neg && t ≠ 0 then some (Int.ofNat (2 ^ 64 - t)) else some (Int.ofNat t)

def Parsers.go : Parsers where
  atoi := parseIntBits 64
  int64 := parseIntBits 64
  int32 := parseIntBits 32
  uint64 := parseUint64
  float := parseDec
  dur := parseDur
  bool := parseBool
  hex := hexOk
  zcn := zcnOf
  mult1e10 := mult1e10Of
  rawCoin := rawCoinOf

/-! ## results -/

inductive KeyErr where
  | unknown      -- not a setting of this contract
  | immutable    -- globals: `Mutable = false`
  | unparsable   -- the value does not parse as the setting's type
  | notImpl      -- the type's setter has no case for this setting
  | unsupported  -- `set`: no case for this config type
  | negative     -- faucet/vesting/zcn cost < 0
  | panic        -- the Go code panics on this key
deriving DecidableEq, Repr, Inhabited

inductive Res where
  | ok (out : Bool)                  -- success; `out` = the transaction output is non-empty
  | unauthorized
  | decode
  | key (k : Str) (e : KeyErr)        -- first offending key in iteration order
  | invalid (check : Nat)             -- index of the first failing `validate` condition
deriving DecidableEq, Repr, Inhabited

def Res.isOk : Res → Bool
  | .ok _ => true
  | _ => false

/-- What an accepted key does to the configuration. -/
inductive Write where
  | field (name : Str) (v : Val)
  | cost (name : Str) (v : Int)
  | nothing
deriving DecidableEq, Repr, Inhabited

structure Cfg where
  get : SMap Val
  cost : SMap Int
deriving Repr, Inhabited

def Cfg.val (c : Cfg) (name : Str) : Val := (c.get.find name).getD .none
def Cfg.int (c : Cfg) (name : Str) : Int := (c.val name).toInt
def Cfg.dec (c : Cfg) (name : Str) : Dec := (c.val name).toDec
def Cfg.owner (c : Cfg) : Str := (c.val (str% "owner_id")).toStr

def Cfg.apply (c : Cfg) : Write → Cfg
  | .field n v => { c with get := c.get.insert n v }
  | .cost n v => { c with cost := c.cost.insert n v }
  | .nothing => c

/-! ## key resolution per contract: `(key, value) ↦ error | write` (independent of the state) -/

open ZChain.Generated.C48 in
def findEntry (tbl : List Entry) (k : Str) : Option Entry := tbl.find? fun e => e.key = k

/-- the value produced by the parser / conversion calls of a `set` case or key-switch case (`none` = error) -/
def parseBy (P : Parsers) (pk : PK) (v : Str) : Option Val :=
  match pk with
  | .atoi => (P.atoi v).map .int
  | .int64 => (P.int64 v).map .int
  | .uint64coin => (P.uint64 v).map .int
  | .float => (P.float v).map .dec
  | .zcn => ((P.float v).bind P.zcn).map .int
  | .mult1e10 => ((P.float v).bind P.mult1e10).map .int
  | .rawCoin => ((P.float v).bind P.rawCoin).map .int
  | .dur => (P.dur v).map .int
  | .bool => (P.bool v).map .bool
  | .hex => if P.hex v then some (.str v) else none
  | .raw => some (.str v)

/-- `isCost` of minersc/storagesc: `len(key) > len("cost.") && key[:5] == "cost."` -/
def isCost (k : Str) : Bool := decide (k.length > 5) && hasPrefix k (str% "cost.")

/-- `GlobalNode.set` (minersc) / `Config.set` (storagesc): table-driven. -/
def setKey (P : Parsers) (tbl : List Entry) (disp : List Dispatch) (k v : Str) : Except KeyErr Write :=
  if isCost k then
    match P.atoi v with
    | none => .error .unparsable
    | some i => .ok (.cost (k.drop 5) i)
  else match findEntry tbl k with
    | none => .error .unknown
    | some e =>
      match disp.find? fun d => d.ct = e.ct with
      | none => .error .unsupported
      | some d =>
        match parseBy P d.parse v with
        | none => .error .unparsable
        | some x =>
          if d.setter = e.setter then .ok (.field k x)
          else if d.setter = "setKey" then .error .panic
          else .error .notImpl

def minerKey (P : Parsers) (k v : Str) : Except KeyErr Write :=
  setKey P Generated.C48.miner Generated.C48.minerDispatch k v

/-- storagesc `Config.update` trims key and value first. -/
def storageKey (P : Parsers) (k v : Str) : Except KeyErr Write :=
  setKey P Generated.C48.storage Generated.C48.storageDispatch (trimSpace k) (trimSpace v)

/-- `strings.ToLower(strings.TrimPrefix(key, "cost."))` -/
def costKeyOf (k : Str) : Str := toLower (trimPrefix k (str% "cost."))

/-- `setCostValue` of faucetsc / vestingsc (`prefix = "cost"`) and zcnsc (`prefix = "cost."`). -/
def costValue (P : Parsers) (pfx : Str) (fns : List String) (k v : Str) : Except KeyErr Write :=
  if !hasPrefix k pfx then .error .unknown
  else if fns.any fun f => toLower (S f) = costKeyOf k then
    match P.atoi v with
    | none => .error .unparsable
    | some i => if i < 0 then .error .negative else .ok (.cost (costKeyOf k) i)
  else .error .unknown

/-- the `switch key` of faucetsc `updateConfig`, vestingsc `update`, zcnsc `UpdateConfig` -/
def switchKey (P : Parsers) (cases : List KeyCase) (deflt : List String) (costPfx : Str) (fns : List String)
    (k v : Str) : Except KeyErr Write :=
  match cases.find? fun c => c.key = k with
  | some c =>
    if c.calls = ["setCostValue"] then costValue P costPfx fns k v
    else match parseBy P c.parse v with
      | none => .error .unparsable
      | some x => .ok (.field k x)
  | none =>
    if deflt = ["setCostValue"] ∨ deflt = ["return", "setCostValue"] then costValue P costPfx fns k v else .error .unknown

/-- `default: return x.setCostValue(key, value)` (faucetsc, vestingsc) leaves the whole `for … range` loop — also when
the cost was set successfully: the keys the runtime would have enumerated later are silently dropped. -/
def switchStops (cases : List KeyCase) (deflt : List String) (k : Str) : Bool :=
  (cases.find? fun c => c.key = k).isNone && deflt.head? = some "return"

open Generated.C48 in
def faucetKey (P : Parsers) (k v : Str) : Except KeyErr Write :=
  switchKey P faucet faucetDefault (str% "cost") faucetCostFns k v

open Generated.C48 in
def vestingKey (P : Parsers) (k v : Str) : Except KeyErr Write :=
  switchKey P vesting vestingDefault (str% "cost") vestingCostFns k v

open Generated.C48 in
def zcnKey (P : Parsers) (k v : Str) : Except KeyErr Write :=
  switchKey P zcn zcnDefault (str% "cost.") zcnCostFns k v

/-- `config.StringToInterface(value, type)` succeeds? (`Key`/`Cost` panic) -/
def stringToInterfaceOk (P : Parsers) (ct : CT) (v : Str) : Except KeyErr Unit :=
  let chk (b : Bool) : Except KeyErr Unit := if b then .ok () else .error .unparsable
  match ct with
  | .int => chk (P.atoi v).isSome
  | .int32 => chk (P.int32 v).isSome
  | .int64 => chk (P.int64 v).isSome
  | .duration => chk (P.dur v).isSome
  | .float64 => chk (P.float v).isSome
  | .boolean => chk (P.bool v).isSome
  | .string => .ok ()
  | .coin => chk (match P.int64 v with | some i => decide (0 ≤ i) | none => false)
  | .strings => .ok ()
  | .key => .error .panic
  | .cost => .error .panic

/-- one turn of the loop of `GlobalSettings.update` -/
def globalsKey (P : Parsers) (k v : Str) : Except KeyErr Unit :=
  match findEntry Generated.C48.globals k with
  | none => .error .unknown
  | some e => if !e.mutable then .error .immutable else stringToInterfaceOk P e.ct v

/-! ## the update loops: first error in iteration order, else all writes applied -/

/-- `for key, value := range m { if err := set(key, value); err != nil { return err } }` over the enumeration `o`.
`stops k`: the accepted key `k` ends the loop (see `switchStops`). -/
def applyAll (keyf : Str → Str → Except KeyErr Write) (stops : Str → Bool) : SMap Str → Cfg → Except (Str × KeyErr) Cfg
  | [], c => .ok c
  | (k, v) :: r, c =>
    match keyf k v with
    | .error e => .error (k, e)
    | .ok w => if stops k then .ok (c.apply w) else applyAll keyf stops r (c.apply w)

/-- all offending keys of a change map (what the first error can be, over all iteration orders) -/
def badKeys (keyf : Str → Str → Except KeyErr Write) (m : SMap Str) : List (Str × KeyErr) :=
  m.filterMap fun (k, v) => match keyf k v with
    | .error e => some (k, e)
    | .ok _ => none

/-! ## validate, per contract: index of the first failing condition (order of the Go source) -/

def firstFailing (checks : List Bool) : Option Nat :=
  let rec go : List Bool → Nat → Option Nat
    | [], _ => none
    | b :: r, i => if b then some i else go r (i + 1)
  go checks 0

/-- `minersc GlobalNode.validate` -/
def minerChecks (c : Cfg) : List Bool := [
  decide (c.int (str% "min_n") < 1),
  decide (c.int (str% "max_n") < c.int (str% "min_n")),
  decide (c.int (str% "min_s") < 1),
  decide (c.int (str% "max_s") < c.int (str% "min_s")),
  decide (c.int (str% "max_delegates") ≤ 0),
  decide (c.int (str% "num_sharder_delegates_rewarded") < 0),
  decide (c.int (str% "num_miner_delegates_rewarded") < 0),
  decide (c.int (str% "num_sharders_rewarded") < 0)]

/-- `storagesc Config.validate` -/
def storageChecks (c : Cfg) : List Bool := [
  decide (c.int (str% "time_unit") ≤ 1000000000),
  (c.dec (str% "validator_reward")).ltInt 0 || (c.dec (str% "validator_reward")).gtInt 1,
  (c.dec (str% "blobber_slash")).ltInt 0 || (c.dec (str% "blobber_slash")).gtInt 1,
  (c.dec (str% "cancellation_charge")).ltInt 0 || (c.dec (str% "cancellation_charge")).gtInt 1,
  decide (c.int (str% "max_blobbers_per_allocation") ≤ 0),
  decide (c.int (str% "min_blobber_capacity") < 0),
  decide (c.int (str% "max_challenge_completion_rounds") < 0),
  decide (c.int (str% "health_check_period") ≤ 0),
  decide (c.int (str% "min_alloc_size") < 0),
  decide (c.int (str% "max_write_price") < c.int (str% "min_write_price")),
  (c.dec (str% "stakepool.kill_slash")).ltInt 0 || (c.dec (str% "stakepool.kill_slash")).gtInt 1,
  decide (c.int (str% "free_allocation_settings.data_shards") < 0),
  decide (c.int (str% "free_allocation_settings.parity_shards") < 0),
  decide (c.int (str% "free_allocation_settings.size") < 0),
  !decide (c.int (str% "free_allocation_settings.read_price_range.min") ≤ c.int (str% "free_allocation_settings.read_price_range.max")),
  !decide (c.int (str% "free_allocation_settings.write_price_range.min") ≤ c.int (str% "free_allocation_settings.write_price_range.max")),
  (c.dec (str% "free_allocation_settings.read_pool_fraction")).ltInt 0 || (c.dec (str% "free_allocation_settings.read_pool_fraction")).gtInt 1,
  decide (c.int (str% "validators_per_challenge") ≤ 0),
  decide (c.int (str% "num_validators_rewarded") ≤ 0),
  decide (c.int (str% "max_blobber_select_for_challenge") ≤ 0),
  decide (c.int (str% "max_stake") < c.int (str% "min_stake")),
  decide (c.int (str% "max_delegates") < 1),
  (c.dec (str% "max_charge")).ltInt 0,
  (c.dec (str% "max_charge")).gtInt 1,
  (c.owner).isEmpty,
  (c.dec (str% "block_reward.gamma.a")).leInt 0,
  (c.dec (str% "block_reward.gamma.b")).leInt 0,
  (c.dec (str% "block_reward.gamma.alpha")).leInt 0,
  (c.dec (str% "block_reward.zeta.mu")).leInt 0,
  (c.dec (str% "block_reward.zeta.i")).leInt 0,
  (c.dec (str% "block_reward.zeta.k")).leInt 0]

/-- `toSeconds(d) = d / time.Second` (Go integer division truncates toward zero) -/
def toSeconds (ns : Int) : Int := Int.tdiv ns 1000000000

/-- `faucetsc GlobalNode.validate` -/
def faucetChecks (c : Cfg) : List Bool := [
  decide (c.int (str% "pour_amount") < 1),
  decide (c.int (str% "pour_amount") > c.int (str% "max_pour_amount")),
  decide (c.int (str% "max_pour_amount") > c.int (str% "periodic_limit")),
  decide (c.int (str% "periodic_limit") > c.int (str% "global_limit")),
  decide (toSeconds (c.int (str% "individual_reset")) < 1),
  decide (c.int (str% "global_rest") < c.int (str% "individual_reset"))]

/-- `vestingsc config.validate` (never called by `updateConfig`) -/
def vestingChecks (c : Cfg) : List Bool := [
  decide (toSeconds (c.int (str% "min_duration")) < 1),
  decide (toSeconds (c.int (str% "max_duration")) ≤ toSeconds (c.int (str% "min_duration"))),
  decide (c.int (str% "max_destinations") < 1),
  decide (c.int (str% "max_description_length") < 1),
  (c.owner).isEmpty]

/-- `zcnsc GlobalNode.Validate` -/
def zcnChecks (c : Cfg) : List Bool := [
  decide (c.int (str% "min_stake") < 1),
  decide (c.int (str% "max_stake") < 1),
  decide (c.int (str% "min_mint") < 1),
  decide (c.int (str% "max_fee") < 1),
  decide (c.int (str% "min_authorizers") < 1),
  decide (c.int (str% "min_burn") < 1),
  (c.dec (str% "percent_authorizers")).ltInt 0,
  (c.owner).isEmpty,
  decide (c.int (str% "max_delegates") ≤ 0),
  decide (c.int (str% "health_check_period") ≤ 0)]

/-! ## contracts -/

inductive Contract where
  | miner | storage | faucet | vesting | zcn
deriving DecidableEq, Repr, Inhabited

def Contract.keyf (P : Parsers) : Contract → Str → Str → Except KeyErr Write
  | .miner => minerKey P
  | .storage => storageKey P
  | .faucet => faucetKey P
  | .vesting => vestingKey P
  | .zcn => zcnKey P

def Contract.stops : Contract → Str → Bool
  | .faucet => switchStops Generated.C48.faucet Generated.C48.faucetDefault
  | .vesting => switchStops Generated.C48.vesting Generated.C48.vestingDefault
  | .zcn => switchStops Generated.C48.zcn Generated.C48.zcnDefault
  | _ => fun _ => false

def Contract.checks : Contract → Cfg → List Bool
  | .miner => minerChecks
  | .storage => storageChecks
  | .faucet => faucetChecks
  | .vesting => vestingChecks
  | .zcn => zcnChecks

def Contract.validate (ct : Contract) (c : Cfg) : Option Nat := firstFailing (ct.checks c)

def flowOf (name : String) : List String :=
  match Generated.C48.flows.find? fun p => p.1 = name with
  | some p => p.2
  | none => []

def idxOf (xs : List String) (p : String → Bool) : Nat := (xs.takeWhile fun x => !p x).length

/-- does the entry point call `validate` before its (first) save of the configuration? — read off the generated call order -/
def validatesBeforeSave (flow : List String) (isSave : String → Bool) : Bool :=
  decide (idxOf flow (· = "validate") < idxOf flow isSave)

def Contract.flowName : Contract → String
  | .miner => "minersc.updateSettings"
  | .storage => "storagesc.commitSettingChanges"
  | .faucet => "faucetsc.updateSettings"
  | .vesting => "vestingsc.updateConfig"
  | .zcn => "zcnsc.UpdateGlobalConfig"

/-- whether the direct-update entry point of the contract validates before saving (storagesc: `commit`) -/
def Contract.validates (ct : Contract) : Bool :=
  validatesBeforeSave (flowOf ct.flowName) (fun s => s.toList.take 4 = "save".toList)

/-- the transaction output of a successful update is the encoded node (faucet, zcn) or empty -/
def Contract.hasOutput : Contract → Bool
  | .faucet | .zcn => true
  | _ => false

/-- decoded transaction input: `none` = `StringMap.Decode` failed -/
abbrev Input := Option (SMap Str)

/-- The direct-update entry points: minersc `updateSettings`, faucetsc `updateSettings`, vestingsc `updateConfig`,
zcnsc `UpdateGlobalConfig` (and the shape storagesc would have without staging):
authorize → decode → update (map order `ord`) → [validate] → save. -/
def update (P : Parsers) (ct : Contract) (validates : Bool) (ord : MapOrder) (caller : Str) (input : Input) (c : Cfg) : Res × Cfg :=
  if c.owner ≠ caller then (.unauthorized, c)
  else match input with
    | none => (.decode, c)
    | some m =>
      match applyAll (ct.keyf P) ct.stops (ord m) c with
      | .error (k, e) => (.key k e, c)
      | .ok c' =>
        if validates then
          match ct.validate c' with
          | some i => (.invalid i, c)
          | none => (.ok ct.hasOutput, c')
        else (.ok ct.hasOutput, c')

/-! ## minersc global settings (`update_globals`) and the chain configuration read from them -/

structure Globals where
  version : Int
  fields : SMap Str
deriving Repr, Inhabited

def globalsApply : SMap Str → SMap Str → Except (Str × KeyErr) (SMap Str)
  | [], f => .ok f
  | (k, v) :: r, f => globalsApply r (f.insert k v)

def globalsAll (P : Parsers) : SMap Str → SMap Str → Except (Str × KeyErr) (SMap Str)
  | [], f => .ok f
  | (k, v) :: r, f =>
    match globalsKey P k v with
    | .error e => .error (k, e)
    | .ok () => globalsAll P r (f.insert k v)

/-- `updateGlobals`: the owner is the miner contract's `owner_id`; no validate; `save` bumps the version. -/
def updateGlobals (P : Parsers) (ord : MapOrder) (caller : Str) (input : Input) (minerCfg : Cfg) (g : Globals) : Res × Globals :=
  if minerCfg.owner ≠ caller then (.unauthorized, g)
  else match input with
    | none => (.decode, g)
    | some m =>
      match globalsAll P (ord m) g.fields with
      | .error (k, e) => (.key k e, g)
      | .ok f => (.ok false, { version := g.version + 1, fields := f })

/-- the type with which the code reads a global setting from the state (`chain.ConfigImpl.Update`: `cf.GetInt32(…)` …,
`config.DbSettings.Update`: `StringToInterface(v, Int64)` …; table generated by xc48). `none`: never read from the state. -/
def globalReaderCT (k : Str) : Option CT :=
  (Generated.C48.globalReaders.find? fun r => r.2.1 = k).map (·.2.2.1)

/-- `GlobalSettings.GetXxx(field)`: the stored string if present and parsable as the field's type, else the
node-local configuration value (`viper`). `local` is that node-local value. -/
def globalInForce (P : Parsers) (g : Globals) (name : Str) (ct : CT) (loc : Str) : Str :=
  match g.fields.find name with
  | none => if ct = .strings then [] else loc   -- `GetStrings` splits `Fields[key]` (the empty string when absent) and never falls back
  | some v => match stringToInterfaceOk P ct v with
    | .ok () => v
    | .error _ => loc

/-! ## storagesc: staged changes, fork-gated save, commit -/

structure Storage where
  conf : Cfg
  staged : SMap Str
deriving Repr, Inhabited

def mergeStaged (staged new : SMap Str) : SMap Str := new.foldl (fun s p => s.insert p.1 p.2) staged

/-- the calls inside the `before[ … ]` / `after[ … ]` branch of the `WithActivation` entry of a generated flow -/
def branchCalls (flow : List String) (tag : String) : List String :=
  ((flow.dropWhile (· ≠ tag)).drop 1).takeWhile (· ≠ "]")

/-- what the fork-gated tail of storagesc `updateSettings` does in the branch in force: (saves the config?, validates before?) -/
def storageBranch (postDemeter : Bool) : Bool × Bool :=
  let b := branchCalls (flowOf "storagesc.updateSettings") (if postDemeter then "after[" else "before[")
  (b.any (fun x => x.toList.take 4 = "save".toList), validatesBeforeSave b (fun x => x.toList.take 4 = "save".toList))

/-- `updateSettings`: merge the new changes into the staged map, apply the *whole* staged map to the configuration
(map order `ord`), store the staged map, and — in the branch of `WithActivation("demeter")` in force — `saves`
the configuration, `validates` first or not (`storageBranch`: today `before` does nothing and `after` saves
without validating). -/
def storageUpdate (P : Parsers) (saves validates : Bool) (ord : MapOrder) (caller : Str) (input : Input) (s : Storage) : Res × Storage :=
  if s.conf.owner ≠ caller then (.unauthorized, s)
  else match input with
    | none => (.decode, s)
    | some m =>
      if m.isEmpty then (.ok false, s)
      else
        match applyAll (storageKey P) (fun _ => false) (ord (mergeStaged s.staged m)) s.conf with
        | .error (k, e) => (.key k e, s)
        | .ok c' =>
          if saves then
            if validates then
              match Contract.validate .storage c' with
              | some i => (.invalid i, s)
              | none => (.ok false, { conf := c', staged := mergeStaged s.staged m })
            else (.ok false, { conf := c', staged := mergeStaged s.staged m })
          else (.ok false, { conf := s.conf, staged := mergeStaged s.staged m })

/-- `commitSettingChanges`: any caller. -/
def storageCommit (P : Parsers) (validates : Bool) (ord : MapOrder) (s : Storage) : Res × Storage :=
  if s.staged.isEmpty then (.ok false, s)
  else match applyAll (storageKey P) (fun _ => false) (ord s.staged) s.conf with
    | .error (k, e) => (.key k e, s)
    | .ok c' =>
      if validates then
        match Contract.validate .storage c' with
        | some i => (.invalid i, s)
        | none => (.ok false, { s with conf := c' })
      else (.ok false, { s with conf := c' })

end ZChain.Gov
