/-
Types of the generated table of map-iteration sites (`Generated/C06.lean`, written by `harness/cmd/xc06`). Core-only.
-/
namespace ZChain.Det

/-- the shape of the body of a `for k, v := range m` over a Go map (assigned by the translator from the AST):
* `s1` only writes/deletes entries keyed by the iteration key, builds a set, or copies entries
* `s2` accumulates with a commutative-associative operation (integer `+`, `||`, `&&`, max/min, checked coin add,
  exists/for-all with early return of a constant)
* `s3` collects into a slice that is sorted before any other use in the same function
* `s4` anything else -/
inductive Shape where
  | s1 | s2 | s3 | s4
deriving DecidableEq, Repr, Inhabited

structure Site where
  file : String
  line : Nat
  func : String
  key : List Nat        -- bytes of "<file>:<function name>"
  shape : Shape
  generated : Bool       -- in a `*_gen.go` file (msgp)
deriving Repr, Inhabited

/-- a clock read, an unseeded random call, a `go` statement or a `select` in a reachable function -/
structure Other where
  kind : String          -- "time.Now" | "time.Timer" | "math/rand" | "go" | "select"
  file : String
  line : Nat
  func : String
  key : List Nat         -- bytes of "<kind>@<file>:<function name>"
deriving Repr, Inhabited

/-- a `go` statement in a reachable function, with the variables its closure shares with the spawning function and how
the goroutine uses each ("<var>:<use>", use ∈ read | write | index-write[<index>] | atomic.<Fn> | send | recv | call <Method> | addr) -/
structure GoSite where
  file : String
  line : Nat
  func : String
  key : List Nat               -- bytes of "<file>:<function name>"
  captures : List String
  ckeys : List (List Nat)      -- the same as byte lists (String functions do not reduce in the kernel)
deriving Repr, Inhabited

end ZChain.Det
