import ZChain.Base.Alg
import ZChain.Model.DKG
/-!
Model of the round-random-beacon part of `miner/protocol_bls.go` and of the per-round share map of
`chaincore/round/entity.go` (C33):

* `blsMessage`           — `GetBlsMessageForRound`: `fmt.Sprintf("%v%v%v", round, timeoutCount, hex(prevSeed))`;
* `verifyVRFShare`       — `verifyVRFShare`: the share must verify under the sender's group-derived public key
                           (`dkg.VerifySignature(&share, blsMsg, ComputeIDdkg(party.ID))`);
* `Round.addShare`       — `round.Round.AddVRFShare(share, threshold)`: at most `threshold` shares, one per party;
* `addVRFShare`          — `Chain.AddVRFShare`: timeout-count test (later counts are parked in the cache), duplicate
                           and cap tests, message availability, re-verification of the parked shares
                           (`verifyCachedVRFShares`), verification, storing, threshold test;
* `thresholdReceived`    — `ThresholdNumBLSSigReceived`: once `T` shares are stored and the VRF is not complete,
                           `CalBlsGpSign` over the stored shares and the senders' DKG ids; the seed is the first 16
                           hex digits of `Hash(groupSignature.GetHexString())`;
* `restart`              — `miner.Round.Restart` + the next timeout count.
The group signature stands for the seed (`seed = f(groupSignature)` for a fixed function `f`).
Core-only, generic over the scalar type.
-/
namespace ZChain.VRF
open ZChain.Alg ZChain.DKG

/-- hexadecimal of a natural number, lower case, as `strconv.FormatInt(_, 16)`. -/
def hexDigits : Nat → Nat → List Char
  | 0, _ => []
  | fuel + 1, n =>
    let d := n % 16
    let c := if d < 10 then Char.ofNat (48 + d) else Char.ofNat (87 + d)
    if n < 16 then [c] else hexDigits fuel (n / 16) ++ [c]

def formatHex (i : Int) : String :=
  if i < 0 then "-" ++ String.ofList (hexDigits 20 i.natAbs) else String.ofList (hexDigits 20 i.natAbs)

/-- `GetBlsMessageForRound`. -/
def blsMessage (round : Int) (timeoutCount : Nat) (prevSeed : Int) : String :=
  s!"{round}{timeoutCount}{formatHex prevSeed}"

section Generic
variable {F : Type} [Add F] [Mul F] [Sub F] [Div F] [Zero F] [One F] [DecidableEq F]

/-- a VRF share message: sender (index of the node and its DKG id), the timeout count it was made for, the share. -/
structure VRFShare (F : Type) where
  party : Nat
  pid : F
  tc : Nat
  share : F

/-- the part of a miner round the beacon uses. `groupSig = some σ` ⇔ the VRF is complete (random seed set),
`σ` being the recovered group signature the seed is computed from. -/
structure Round (F : Type) where
  tc : Nat
  shares : List (VRFShare F)
  cache : List (VRFShare F)
  groupSig : Option F

def Round.empty (tc : Nat) : Round F := { tc := tc, shares := [], cache := [], groupSig := none }

def Round.hasShare (r : Round F) (party : Nat) : Bool := r.shares.any (·.party == party)

/-- `round.Round.AddVRFShare(share, threshold)`. -/
def Round.addShare (r : Round F) (s : VRFShare F) (threshold : Nat) : Round F :=
  if r.shares.length ≥ threshold then r
  else if r.hasShare s.party then r
  else { r with shares := r.shares ++ [s] }

/-- `vrfSharesCache.add`: first share per party is kept. -/
def Round.park (r : Round F) (s : VRFShare F) : Round F :=
  if r.cache.any (·.party == s.party) then r else { r with cache := r.cache ++ [s] }

/-- `verifyVRFShare`. -/
def verifyVRFShare (dkg : Party F) (h : F) (s : VRFShare F) : Bool := verifySignature dkg s.share h s.pid

/-- `verifyCachedVRFShares`: parked shares of the current timeout count that verify are stored (subject to the
cap) and leave the cache; the others stay. -/
def verifyCached (dkg : Party F) (h : F) (r : Round F) : Round F :=
  let r' := r.cache.foldl (fun acc s =>
    if s.tc = r.tc ∧ verifyVRFShare dkg h s then acc.addShare s dkg.t else acc) r
  { r' with cache := r.cache.filter (fun s => !(decide (s.tc = r.tc) && verifyVRFShare dkg h s)) }

/-- `ThresholdNumBLSSigReceived`: when the error of `CalBlsGpSign` is only logged, the zero signature is used. -/
def thresholdReceived (dkg : Party F) (r : Round F) : Round F × Bool :=
  if r.groupSig.isSome then (r, false)
  else if r.shares.length < dkg.t then (r, false)
  else
    let g := (calBlsGpSign (r.shares.map (·.share)) (r.shares.map (·.pid))).getD 0
    ({ r with groupSig := some g }, true)

/-- `Chain.AddVRFShare(ctx, mr, vrfs)`; `dkg = none`: no DKG for the round; `h = none`: the BLS message cannot be
formed yet (previous round or its seed missing). -/
def addVRFShare (dkg : Option (Party F)) (h : Option F) (r : Round F) (s : VRFShare F) : Round F × Bool :=
  match dkg with
  | none => (r, false)
  | some dkg =>
    if s.tc ≠ r.tc then (if s.tc > r.tc then r.park s else r, false)
    else if r.hasShare s.party then (r, false)
    else if r.shares.length ≥ dkg.t then (r, false)
    else match h with
      | none => (r.park s, false)
      | some h =>
        let r1 := verifyCached dkg h r
        if !verifyVRFShare dkg h s then (r1, false)
        else
          let r2 := r1.addShare s dkg.t
          ((thresholdReceived dkg r2).1, true)

/-- `miner.Round.Restart` + the new timeout count: shares, seed and the cache of parked shares are dropped. -/
def restart (_r : Round F) (tc : Nat) : Round F := Round.empty tc

end Generic
end ZChain.VRF
