import ZChain.Model.NodePool
/-
Model of `core/encryption/hash_score.go` (`XORHashScorer.Score`), `chaincore/node/node_pool_scorer.go`
(`HashPoolScorer.ScoreHash`/`ScoreHashString`, `Node.IsInTop`, `Node.IsInTopWithNodes`) and of the callers in
`chaincore/chain/entity.go` (`IsBlockSharder`, `IsBlockSharderFromHash`, `CanShardBlockWithReplicators`).

* `scoreBytes` is the loop of `Score`: for every byte of `hash1` (the node's `idBytes`) the popcount of
  `b ^ hash2[idx]`; `none` = Go panics (index out of range: the block hash is shorter than the id).
* `scoreHash`: one `Score{Node, Score}` per pool node in `Nodes` order, then `sort.SliceStable` with
  `score desc, SetIndex desc`.
* node identity `ns.Node == n` (pointer comparison) is key equality (keys are unique in a pool; the harness
  passes the pool's own node object).
Core-only.
-/
namespace ZChain.Replicators
open ZChain.NodePool

/-- `for i := 0; i < 8; i++ { score += int32(x & 1); x >>= 1 }`. -/
def popcount : Nat → Nat → Nat
  | 0, _ => 0
  | k + 1, x => x % 2 + popcount k (x / 2)

/-- `XORHashScorer.Score(hash1, hash2)`. -/
def scoreBytes : List Nat → List Nat → Option Nat
  | [], _ => some 0
  | _ :: _, [] => none
  | b :: bs, h :: hs => match scoreBytes bs hs with
    | some s => some (popcount 8 (b ^^^ h) + s)
    | none => none

structure Score where
  node     : Node
  score    : Nat
  setIndex : Nat
deriving DecidableEq, Repr, Inhabited

/-- the first loop of `ScoreHash` (`i` = position of the head = its `SetIndex`). -/
def scoreAll (hash : List Nat) : List Node → Nat → Option (List Score)
  | [], _ => some []
  | nd :: nds, i => match scoreBytes nd.idBytes hash, scoreAll hash nds (i + 1) with
    | some s, some rest => some (⟨nd, s, i⟩ :: rest)
    | _, _ => none

/-- the `less` of `ScoreHash`. -/
def scoreLess (a b : Score) : Bool :=
  if a.score = b.score then decide (a.setIndex > b.setIndex) else decide (a.score > b.score)

/-- `HashPoolScorer.ScoreHash`. -/
def scoreHash (pool : List Node) (hash : List Nat) : Option (List Score) :=
  match scoreAll hash pool 0 with
  | some l => some (sortStable scoreLess l)
  | none => none

/-- the loop of `IsInTop`. -/
def topLoop (minScore : Nat) (key : Nat) : List Score → Bool
  | [] => false
  | ns :: rest => if ns.score < minScore then false else if ns.node.key = key then true else topLoop minScore key rest

/-- `Node.IsInTop(nodeScores, topN)`; `none` = Go panics (`nodeScores[topN-1]` with `topN ≤ 0`). -/
def isInTop (scores : List Score) (topN : Int) (key : Nat) : Option Bool :=
  if topN ≤ scores.length then
    if topN ≤ 0 then none
    else some (topLoop (scores.getD (topN.toNat - 1) default).score key scores)
  else some false

/-- the loop of `IsInTopWithNodes`. -/
def topNodesLoop (minScore : Nat) (key : Nat) : List Score → Bool × List Node
  | [] => (false, [])
  | ns :: rest =>
    if ns.score < minScore then (false, [])
    else
      let r := topNodesLoop minScore key rest
      (r.1 || decide (ns.node.key = key), ns.node :: r.2)

/-- `Node.IsInTopWithNodes`. -/
def isInTopWithNodes (scores : List Score) (topN : Int) (key : Nat) : Option (Bool × List Node) :=
  if topN ≤ scores.length then
    if topN ≤ 0 then none
    else some (topNodesLoop (scores.getD (topN.toNat - 1) default).score key scores)
  else some (false, [])

/-- `ScoreHashString`: `hash = none` is a hash string that is not hex (`nil` scores, an error is logged). -/
def scoreHashString (pool : List Node) (hash : Option (List Nat)) : Option (List Score) :=
  match hash with
  | none => some []
  | some h => scoreHash pool h

/-- `Chain.IsBlockSharder` / `IsBlockSharderFromHash` (`nrepl = NumReplicators()`, `pool` = sharders of the magic
block of the round). -/
def isBlockSharder (nrepl : Int) (pool : List Node) (hash : Option (List Nat)) (key : Nat) : Option Bool :=
  if nrepl ≤ 0 then some true
  else match scoreHashString pool hash with
    | none => none
    | some sc => isInTop sc nrepl key

/-- `Chain.CanShardBlockWithReplicators`. -/
def canShardBlockWithReplicators (nrepl : Int) (pool : List Node) (hash : Option (List Nat)) (key : Nat) :
    Option (Bool × List Node) :=
  if nrepl ≤ 0 then some (true, pool)
  else match scoreHashString pool hash with
    | none => none
    | some sc => isInTopWithNodes sc nrepl key

end ZChain.Replicators
