import ZChain.Model.HashBind
/-
Model of the transaction hash / acceptance mechanism of `chaincore/transaction/entity.go` (C30):
`HashData`, `ComputeHash`, `VerifyHash`, `VerifySignature` + `GetSignatureScheme` (with the client cache),
`ComputeClientID` (`encryption.VerifyPublicKeyClientID`, `client.GetIDFromPublicKey`), `ComputeProperties`,
`ComputeOutputHash`/`VerifyOutputHash` and the acceptance path `ValidateWrtTimeForBlock`.

As for C29, WHAT is read — ordered hash-data terms, separator, ordered checks of `ValidateWrtTimeForBlock`, the steps
of `ComputeProperties` and `ComputeClientID`, the arguments of `Verify`, the struct fields — is the `Table` that
`harness/cmd/xc30` regenerates from the Go AST into `Generated/C30.lean`; this file is the interpreter.

`H` = `encryption.Hash`; `jsonOk` = "`json.Unmarshal(data, &SmartContractData{})` succeeds" (recorded from the real
code by the harness); signatures are idealised as in C29 (`Env.signed`).
Core-only (linked into `zdrv-C30`).
-/
namespace ZChain.TxnHash
open ZChain.HashBind

/-- exported fields of `transaction.Transaction` (`HashIDField`, `VersionField` flattened) -/
inductive Field
  | hash | collectionMemberField | version | smartContractData | clientID | publicKey | toClientID | chainID
  | transactionData | value | signature | creationDate | fee | nonce | transactionType | transactionOutput
  | outputHash | status
deriving DecidableEq, Repr

def Field.all : List Field :=
  [.hash, .collectionMemberField, .version, .smartContractData, .clientID, .publicKey, .toClientID, .chainID,
   .transactionData, .value, .signature, .creationDate, .fee, .nonce, .transactionType, .transactionOutput,
   .outputHash, .status]

def Field.name : Field → String
  | .hash => "Hash" | .collectionMemberField => "CollectionMemberField" | .version => "Version"
  | .smartContractData => "SmartContractData" | .clientID => "ClientID" | .publicKey => "PublicKey"
  | .toClientID => "ToClientID" | .chainID => "ChainID" | .transactionData => "TransactionData"
  | .value => "Value" | .signature => "Signature" | .creationDate => "CreationDate" | .fee => "Fee"
  | .nonce => "Nonce" | .transactionType => "TransactionType" | .transactionOutput => "TransactionOutput"
  | .outputHash => "OutputHash" | .status => "Status"

def Field.ofName (s : String) : Option Field := Field.all.find? (fun f => f.name = s)

/-- one piece written into the hash data -/
inductive Term
  /-- `WriteString(t.<f>)` -/
  | str (f : Field)
  /-- `strconv.FormatInt(t.<f>, 10)` / `common.TimeToString(t.<f>)` -/
  | dec (f : Field)
  /-- `strconv.FormatUint(uint64(t.<f>), 10)` -/
  | udec (f : Field)
  /-- `encryption.Hash(t.<f>)` -/
  | hashOf (f : Field)
deriving DecidableEq, Repr

/-- the checks of `ValidateWrtTimeForBlock(ctx, ts, validateSignature)`, in source order -/
inductive Check
  /-- `!encryption.IsHash(t.ToClientID) && t.ToClientID != ""` → error -/
  | toHashOrEmpty
  /-- `config.ValidChain(t.ChainID)` -/
  | chainValid
  /-- `t.Hash == ""` → error -/
  | hashNonEmpty
  /-- `!common.WithinTime(ts, t.CreationDate, TXN_TIME_TOLERANCE)` → error -/
  | withinTime
  /-- `t.ClientID == t.ToClientID` → error -/
  | senderNotRecipient
  /-- `t.VerifyHash`: `t.Hash != t.ComputeHash()` → error -/
  | hashMatches
  /-- `if validateSignature { t.VerifySignature }` -/
  | sigIfRequested
  /-- `if t.OutputHash != "" { t.VerifyOutputHash }` -/
  | outputHashIfSet
deriving DecidableEq, Repr

def Check.name : Check → String
  | .toHashOrEmpty => "toHashOrEmpty" | .chainValid => "chainValid" | .hashNonEmpty => "hashNonEmpty"
  | .withinTime => "withinTime" | .senderNotRecipient => "senderNotRecipient" | .hashMatches => "hashMatches"
  | .sigIfRequested => "sigIfRequested" | .outputHashIfSet => "outputHashIfSet"

/-- the steps of `ComputeProperties`, in source order (assignments of derived, non-serialised fields left out) -/
inductive PropStep
  /-- `if t.ChainID == "" { t.ChainID = server chain }` -/
  | chainDefault
  /-- `if t.TransactionType == TxnTypeSmartContract { json.Unmarshal(t.TransactionData, …) }` error → error -/
  | scDataJson
  /-- `return t.ComputeClientID()` -/
  | computeClientID
deriving DecidableEq, Repr

/-- the steps of `ComputeClientID`, in source order -/
inductive IdStep
  /-- `t.PublicKey == ""` → error -/
  | pkNonEmpty
  /-- `if t.ClientID != "" { return encryption.VerifyPublicKeyClientID(t.PublicKey, t.ClientID) }` -/
  | verifyIfSet
  /-- `t.ClientID = client.GetIDFromPublicKey(t.PublicKey)` (error when the key is not hex) -/
  | deriveIfEmpty
deriving DecidableEq, Repr

/-- rejection classes of the acceptance path -/
inductive Reject
  | check (c : Check)
  | scDataJson
  | pkNonEmpty
  | pkClientID      -- public key not hex, or `Hash(pk bytes) ≠ ClientID`
deriving DecidableEq, Repr

def Reject.name : Reject → String
  | .check c => c.name
  | .scDataJson => "scDataJson"
  | .pkNonEmpty => "pkNonEmpty"
  | .pkClientID => "pkClientID"

structure Table where
  sep : Nat
  terms : List Term
  checks : List Check
  propSteps : List PropStep
  idSteps : List IdStep
  /-- the fields passed to `sigScheme.Verify(signature, hash)` -/
  sigArg : Field
  msgArg : Field
  /-- `TxnTypeSmartContract` -/
  scType : Int
  fields : List (Field × Kind)

def Table.kindOf (tbl : Table) (f : Field) : Option Kind := (tbl.fields.find? (·.1 = f)).map (·.2)

def Table.termOk (tbl : Table) : Term → Bool
  | .str f => tbl.kindOf f = some .str
  | .dec f => tbl.kindOf f = some .int
  | .udec f => tbl.kindOf f = some .uint
  | .hashOf f => tbl.kindOf f = some .str

def Table.wellTyped (tbl : Table) : Bool := tbl.terms.all tbl.termOk && (tbl.terms.length ≥ 1)

/-- a transaction: string fields and integer fields (signed and unsigned) by name -/
structure Txn where
  str : Field → Str
  int : Field → Int

def Txn.setStr (t : Txn) (f : Field) (v : Str) : Txn := { t with str := fun g => if g = f then v else t.str g }
def Txn.setInt (t : Txn) (f : Field) (v : Int) : Txn := { t with int := fun g => if g = f then v else t.int g }

def render (H : Str → Str) (t : Txn) : Term → Str
  | .str f => t.str f
  | .dec f => renderInt (t.int f)
  | .udec f => renderNat (t.int f).toNat
  | .hashOf f => H (t.str f)

/-- `Transaction.HashData()` -/
def hashData (tbl : Table) (H : Str → Str) (t : Txn) : Str := joinSep tbl.sep (tbl.terms.map (render H t))

/-- `Transaction.ComputeHash()` -/
def computeHash (tbl : Table) (H : Str → Str) (t : Txn) : Str := H (hashData tbl H t)

/-- `Transaction.ComputeOutputHash()`: `encryption.EmptyHash = Hash("")` for an empty output -/
def computeOutputHash (H : Str → Str) (t : Txn) : Str :=
  if t.str .transactionOutput = [] then H [] else H (t.str .transactionOutput)

/-! ### hex -/

def hexNibble (c : Nat) : Option Nat :=
  if 48 ≤ c ∧ c ≤ 57 then some (c - 48)
  else if 97 ≤ c ∧ c ≤ 102 then some (c - 87)
  else if 65 ≤ c ∧ c ≤ 70 then some (c - 55)
  else none

/-- `encoding/hex.DecodeString` on the bytes of a Go string: both letter cases; odd length or a non-hex byte fails -/
def hexDecode : Str → Option Str
  | [] => some []
  | [_] => none
  | a :: b :: rest =>
    match hexNibble a, hexNibble b, hexDecode rest with
    | some x, some y, some r => some ((x * 16 + y) :: r)
    | _, _, _ => none

/-- `encryption.IsHash`: hex of exactly 32 bytes -/
def isHash (s : Str) : Bool :=
  match hexDecode s with
  | some b => b.length = 32
  | none => false

def lowerHex (s : Str) : Str := s.map fun c => if 65 ≤ c ∧ c ≤ 70 then c + 32 else c

/-! ### environment -/

structure Env where
  serverChain : Str
  mainChain : Str
  /-- `TXN_TIME_TOLERANCE` -/
  tolerance : Int
  /-- `(public key, message, signature)` triples the real `Sign` produced -/
  signed : List (Str × Str × Str)
  /-- the client cache: client id ↦ public key, as `GetSignatureScheme` fills it (key = `Hash(pk bytes)`) -/
  cache : List (Str × Str)
  /-- data strings for which `json.Unmarshal` into `SmartContractData` succeeds (recorded) -/
  jsonOk : List Str

def validChain (env : Env) (c : Str) : Bool :=
  c = env.serverChain || (c = [] && env.serverChain = env.mainChain)

/-- `common.WithinTime(now, ts, tol)` -/
def withinTime (now ts tol : Int) : Bool := decide (now - tol ≤ ts) && decide (ts ≤ now + tol)

/-- signature check under a public key given as hex text: the key is compared as decoded bytes, the signature
up to hex letter case -/
def sigOk (env : Env) (pk msg sig : Str) : Bool :=
  env.signed.any fun e => hexDecode e.1 = hexDecode pk && (hexDecode pk).isSome && e.2.1 = msg && lowerHex e.2.2 = lowerHex sig

/-- `GetSignatureScheme` + `Verify`: the cached key of `ClientID` if there is one, else the transaction's own
`PublicKey` (which must be hex; the client is then cached under `Hash(pk bytes)`). Returns the verdict and the
cache afterwards. -/
def verifySignature (tbl : Table) (H : Str → Str) (env : Env) (t : Txn) : Bool × List (Str × Str) :=
  match env.cache.find? (·.1 = t.str .clientID) with
  | some (_, pk) => (sigOk env pk (t.str tbl.msgArg) (t.str tbl.sigArg), env.cache)
  | none =>
    match hexDecode (t.str .publicKey) with
    | none => (false, env.cache)
    | some bytes =>
      let id := H bytes
      let cache' := if env.cache.any (·.1 = id) then env.cache else (id, t.str .publicKey) :: env.cache
      (sigOk env (t.str .publicKey) (t.str tbl.msgArg) (t.str tbl.sigArg), cache')

def checkOk (tbl : Table) (H : Str → Str) (env : Env) (now : Int) (vsig : Bool) (t : Txn) : Check → Bool
  | .toHashOrEmpty => isHash (t.str .toClientID) || t.str .toClientID = []
  | .chainValid => validChain env (t.str .chainID)
  | .hashNonEmpty => t.str .hash ≠ []
  | .withinTime => withinTime now (t.int .creationDate) env.tolerance
  | .senderNotRecipient => t.str .clientID ≠ t.str .toClientID
  | .hashMatches => t.str .hash = computeHash tbl H t
  | .sigIfRequested => !vsig || (verifySignature tbl H env t).1
  | .outputHashIfSet => t.str .outputHash = [] || t.str .outputHash = computeOutputHash H t

/-- `ValidateWrtTimeForBlock`: first failing check (`none` = accepted) -/
def validate (tbl : Table) (H : Str → Str) (env : Env) (now : Int) (vsig : Bool) (t : Txn) : Option Check :=
  tbl.checks.find? (fun c => !checkOk tbl H env now vsig t c)

/-- the cache after `ValidateWrtTimeForBlock`: `VerifySignature` runs only when every earlier check passed -/
def cacheAfter (tbl : Table) (H : Str → Str) (env : Env) (now : Int) (vsig : Bool) (t : Txn) : List (Str × Str) :=
  let before := tbl.checks.takeWhile (· ≠ .sigIfRequested)
  if vsig && tbl.checks.contains .sigIfRequested && before.all (checkOk tbl H env now vsig t) then
    (verifySignature tbl H env t).2
  else env.cache

/-- the steps of `ComputeClientID`, interpreted in order -/
def idGo (H : Str → Str) (t : Txn) : List IdStep → Except Reject Txn
  | [] => .ok t
  | .pkNonEmpty :: rest => if t.str .publicKey = [] then .error .pkNonEmpty else idGo H t rest
  | .verifyIfSet :: rest =>
    if t.str .clientID ≠ [] then
      match hexDecode (t.str .publicKey) with
      | none => .error .pkClientID
      | some bytes => if H bytes = t.str .clientID then .ok t else .error .pkClientID
    else idGo H t rest
  | .deriveIfEmpty :: _ =>
    match hexDecode (t.str .publicKey) with
    | none => .error .pkClientID
    | some bytes => .ok (t.setStr .clientID (H bytes))

/-- `ComputeClientID` -/
def computeClientID (tbl : Table) (H : Str → Str) (t : Txn) : Except Reject Txn := idGo H t tbl.idSteps

/-- `config.GetServerChainID()` -/
def serverChainOrMain (env : Env) : Str := if env.serverChain = [] then env.mainChain else env.serverChain

/-- the steps of `ComputeProperties`, interpreted in order -/
def propGo (tbl : Table) (H : Str → Str) (env : Env) (t : Txn) : List PropStep → Except Reject Txn
  | [] => .ok t
  | .chainDefault :: rest =>
    propGo tbl H env (if t.str .chainID = [] then t.setStr .chainID (serverChainOrMain env) else t) rest
  | .scDataJson :: rest =>
    if t.int .transactionType = tbl.scType && !env.jsonOk.contains (t.str .transactionData) then .error .scDataJson
    else propGo tbl H env t rest
  | .computeClientID :: _ => computeClientID tbl H t

/-- `ComputeProperties` -/
def computeProperties (tbl : Table) (H : Str → Str) (env : Env) (t : Txn) : Except Reject Txn :=
  propGo tbl H env t tbl.propSteps

/-- the acceptance path of a received transaction: decoding runs `ComputeProperties`, then
`ValidateWrtTimeForBlock`. `none` = accepted. -/
def accept (tbl : Table) (H : Str → Str) (env : Env) (now : Int) (vsig : Bool) (t : Txn) : Option Reject :=
  match computeProperties tbl H env t with
  | .error r => some r
  | .ok t' => (validate tbl H env now vsig t').map .check

def acceptCache (tbl : Table) (H : Str → Str) (env : Env) (now : Int) (vsig : Bool) (t : Txn) : List (Str × Str) :=
  match computeProperties tbl H env t with
  | .error _ => env.cache
  | .ok t' => cacheAfter tbl H env now vsig t'

end ZChain.TxnHash
