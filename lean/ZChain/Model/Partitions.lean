/-
Model of `smartcontract/partitions` (partitions.go, partition.go, location.go) — complete:
every exported method of `Partitions` and every helper it calls, with the persisted nodes and the
in-memory object kept apart.

* Persisted state (`Store`): what the partitions code reads/writes through
  `StateContextI.GetTrieNode / InsertTrieNode / DeleteTrieNode` for ONE partitions name:
  the header node (`Partitions{Name, PartitionSize, Last}` — the last partition lives INSIDE the header),
  the partition nodes `name+Hash(":partition:"+i)` (`partition{Loc, Items}`; `Key`/`Changed` are `msg:"-"`),
  and the location nodes `Hash(name:id)` (`location{Location}`).
  The state context is a plain key-value map here: "a read returns the last value written" is
  property C07 (state cache vs trie), MPT errors other than `ErrValueNotPresent` are not modelled.
  Distinct names use distinct keys (the driver keeps one `Store` per name).
* In-memory object (`Mem`): `PartitionSize`, `Last` (pointer), `Partitions map[int]*partition`
  (loaded partitions with their `Changed` flags), `locations map[string]int` (location cache).
  Pointers: a `*partition` is referred to by `Ref` (`last` or the map slot `at i`); the code never keeps
  two live references to one partition across a re-assignment of `p.Last` (pack installs a new `Last`,
  `loadLastFromPrev` deletes the map slot it promotes).
* Item ids are `Nat` (Go: strings), item data is `Nat` (Go: the msgp bytes of the item) — the
  harness uses items whose bytes are determined by (id, value).
* Errors are classes (`Err`); a failing method keeps the partial mutations it made before failing,
  exactly like the Go code (every function returns the state it reached).
* `GetRandomItems`: the value of `r.Intn(totalElements)` is an explicit argument.
* `Update`: the callback is a function `Nat → Option Nat` (`none` = the callback's error).
* `ForEach`/`ForEachPart`: the callback stops at a given id (`stop`), or never.

Core-only (no Mathlib): this file is linked into the `zdrv-C25` driver.
-/
namespace ZChain.Partitions

/-! ### finite maps as association lists (`map[...]` in memory, trie keys in the store) -/
abbrev KV (β : Type) := List (Nat × β)

namespace KV
variable {β : Type}

def get : KV β → Nat → Option β
  | [], _ => none
  | (k', v) :: r, k => if k' = k then some v else get r k

def del (m : KV β) (k : Nat) : KV β := m.filter (fun p => p.1 != k)

def set (m : KV β) (k : Nat) (v : β) : KV β := (k, v) :: del m k

def insertKey (k : Nat) : List Nat → List Nat
  | [] => [k]
  | x :: xs => if k ≤ x then k :: x :: xs else x :: insertKey k xs

/-- sorted keys (`sortedmap.NewFromMap(p.Partitions).GetKeys()`) -/
def keys (m : KV β) : List Nat := (m.map (·.1)).foldr insertKey []

end KV

/-! ### partition.go -/

/-- `item{ID, Data}` -/
structure Item where
  id : Nat
  data : Nat
deriving DecidableEq, Repr, Inhabited

/-- `partition{Key, Loc, Items, Changed}`; `key` is the index whose `partitionKey` the Go field holds. -/
structure Part where
  key : Nat
  loc : Nat
  items : List Item
  changed : Bool
deriving DecidableEq, Repr, Inhabited

/-- `partition.find` / `findIndex`: first entry with the id. -/
def findItem : List Item → Nat → Option Item
  | [], _ => none
  | x :: r, id => if x.id = id then some x else findItem r id

def findIdx : List Item → Nat → Option Nat
  | [], _ => none
  | x :: r, id => if x.id = id then some 0 else (findIdx r id).map (· + 1)

/-- `Items[idx] = Items[len-1]; Items = Items[:len-1]` -/
def swapRemove (items : List Item) (idx : Nat) : List Item :=
  match items.getLast? with
  | none => items
  | some t => (items.set idx t).dropLast

/-- `partition.update`: replace the data of the first entry with the id. -/
def replaceData : List Item → Nat → Nat → List Item
  | [], _, _ => []
  | x :: r, id, d => if x.id = id then ⟨id, d⟩ :: r else x :: replaceData r id d

inductive Err
  | exists_      -- common.Error "item already exist"
  | notFound     -- common.Error "item not found"
  | empty        -- GetRandomItems: "empty list, no items to return"
  | overflow     -- getPartition: "partition id %d overflow %d"
  | load         -- partition.load: node absent
  | prev         -- loadLastFromPrev: "could not get previous partition"
  | notPresent   -- get: "item not present"
  | partNotFound -- partition.update: "item not found" (plain error)
  | emptyPart    -- partition.remove: "searching empty partition"
  | noIndex      -- partition.remove: "cannot findIndex id"
  | emptyLast    -- removeItem: "empty last partitions, currpt data"
  | dup          -- partition.add / addRaw: "item already exists"
  | range        -- itemRange: "invalid index"
  | ferr         -- the error of the Update callback
  | absent       -- GetPartitions: header node absent
  | locDel       -- removeItemLoc: "remove item location failed" (DeleteTrieNode of an absent node)
  | partDel      -- loadLastFromPrev: "could not remove prev partition" (DeleteTrieNode of an absent node)
  | hang         -- model fuel exhausted (never: see `randFuel`)
  | panic        -- Go run-time panic (nil dereference / division by zero)
deriving DecidableEq, Repr

abbrev Res (α : Type) := Except Err α

/-! ### persisted nodes and the in-memory object -/

/-- header node: `PartitionSize`, `Last.Loc`, `Last.Items` -/
structure Hdr where
  size : Nat
  lastLoc : Nat
  lastItems : List Item
deriving DecidableEq, Repr

structure Store where
  hdr : Option Hdr := none
  /-- partition nodes: index of the key ↦ (`Loc`, `Items`) -/
  parts : KV (Nat × List Item) := []
  /-- location nodes: item id ↦ `Location` -/
  locs : KV Nat := []
deriving Repr

structure Mem where
  size : Nat
  last : Part
  parts : KV Part := []
  locs : KV Nat := []
deriving Repr

structure S where
  st : Store
  m : Mem
deriving Repr

/-- a `*partition` held by the code -/
inductive Ref
  | last
  | at (i : Nat)
deriving DecidableEq, Repr

def readRef (s : S) : Ref → Part
  | .last => s.m.last
  | .at i => (s.m.parts.get i).getD default

def writeRef (s : S) (r : Ref) (p : Part) : S :=
  match r with
  | .last => { s with m := { s.m with last := p } }
  | .at i => { s with m := { s.m with parts := s.m.parts.set i p } }

/-! ### location.go -/

/-- `getItemPartIndex`: the cache first, then the location node. -/
def getItemPartIndex (s : S) (id : Nat) : Option Nat :=
  match s.m.locs.get id with
  | some l => some l
  | none => s.st.locs.get id

/-- `saveItemLoc`: write the node, then the cache. -/
def saveItemLoc (s : S) (id idx : Nat) : S :=
  { st := { s.st with locs := s.st.locs.set id idx }, m := { s.m with locs := s.m.locs.set id idx } }

/-- `removeItemLoc`: delete the node (`DeleteTrieNode` of an absent key fails: the MPT reports
"value not present", and the cache entry is then left alone), then the cache entry. -/
def removeItemLoc (s : S) (id : Nat) : S × Res Unit :=
  match s.st.locs.get id with
  | none => (s, .error .locDel)
  | some _ => ({ st := { s.st with locs := s.st.locs.del id }, m := { s.m with locs := s.m.locs.del id } }, .ok ())

/-- `for _, it := range prev.Items { removeItemLoc(it.ID) }`, leaving at the first failure. -/
def removeItemLocs : List Item → S → S × Res Unit
  | [], s => (s, .ok ())
  | it :: r, s =>
    match removeItemLoc s it.id with
    | (s1, .error e) => (s1, .error e)
    | (s1, .ok _) => removeItemLocs r s1

/-- `loadLocations(idx)`: for `idx > 0` and a LOADED partition `idx`, cache `id ↦ idx` for its items. -/
def loadLocations (s : S) (idx : Nat) : S :=
  if idx = 0 then s
  else match s.m.parts.get idx with
    | none => s
    | some p => { s with m := { s.m with locs := p.items.foldl (fun c it => c.set it.id idx) s.m.locs } }

/-! ### partitions.go -/

/-- `getPartition(i)`: `Last`, a loaded partition, or load the node into the map. -/
def getPartition (s : S) (i : Nat) : S × Res Ref :=
  if i > s.m.last.loc then (s, .error .overflow)
  else if i = s.m.last.loc then (s, .ok .last)
  else match s.m.parts.get i with
    | some _ => (s, .ok (.at i))
    | none =>
      match s.st.parts.get i with
      | none => (s, .error .load)
      | some (loc, items) =>
        ({ s with m := { s.m with parts := s.m.parts.set i ⟨i, loc, items, false⟩ } }, .ok (.at i))

/-- `pack`: save `Last` as a partition node, write a location node per item, keep it in the map,
install a fresh empty `Last`. -/
def pack (s : S) : S :=
  let last := s.m.last
  let s1 : S := { s with st := { s.st with parts := s.st.parts.set last.key (last.loc, last.items) } }
  let s2 := last.items.foldl (fun acc it => saveItemLoc acc it.id last.loc) s1
  { s2 with m := { s2.m with parts := s2.m.parts.set last.loc last,
                             last := ⟨last.loc + 1, last.loc + 1, [], false⟩ } }

/-- `add` (after the duplicate check of `Add`/`AddX`). -/
def addCore (s : S) (it : Item) : S × Res Nat :=
  match findItem s.m.last.items it.id with
  | some _ => (s, .error .exists_)
  | none =>
    let s1 := if s.m.last.items.length = s.m.size then pack s else s
    match findItem s1.m.last.items it.id with
    | some _ => (s1, .error .dup)
    | none =>
      ({ s1 with m := { s1.m with last := { s1.m.last with items := s1.m.last.items ++ [it], changed := true } } },
       .ok s1.m.last.loc)

/-- `AddX` (and `Add`, which drops the location). -/
def addX (s : S) (it : Item) : S × Res Nat :=
  match getItemPartIndex s it.id with
  | some _ => (s, .error .exists_)
  | none => addCore s it

/-- `Get`: location and data. -/
def get (s : S) (id : Nat) : S × Res (Nat × Nat) :=
  match findItem s.m.last.items id with
  | some it => (s, .ok (s.m.last.loc, it.data))
  | none =>
    match getItemPartIndex s id with
    | none => (s, .error .notFound)
    | some loc =>
      match getPartition s loc with
      | (s1, .error e) => (s1, .error e)
      | (s1, .ok r) =>
        match findItem (readRef s1 r).items id with
        | none => (s1, .error .notPresent)
        | some it => (loadLocations s1 loc, .ok (loc, it.data))

/-- `partition.update` on a reference. -/
def partUpdate (s : S) (r : Ref) (it : Item) : S × Res Unit :=
  let p := readRef s r
  match findItem p.items it.id with
  | none => (s, .error .partNotFound)
  | some _ => (writeRef s r { p with items := replaceData p.items it.id it.data, changed := true }, .ok ())

/-- `UpdateItem` -/
def updateItem (s : S) (it : Item) : S × Res Unit :=
  match findItem s.m.last.items it.id with
  | some _ => partUpdate s .last it
  | none =>
    match getItemPartIndex s it.id with
    | none => (s, .error .notFound)
    | some loc =>
      match getPartition s loc with
      | (s1, .error e) => (s1, .error e)
      | (s1, .ok r) =>
        match partUpdate s1 r it with
        | (s2, .error e) => (s2, .error e)
        | (s2, .ok _) => (loadLocations s2 loc, .ok ())

/-- `Update(key, f)`; `Last` is changed without setting `Changed` (it is saved with the header). -/
def update (s : S) (id : Nat) (f : Nat → Option Nat) : S × Res Nat :=
  match findItem s.m.last.items id with
  | some v =>
    match f v.data with
    | none => (s, .error .ferr)
    | some d => ({ s with m := { s.m with last := { s.m.last with items := replaceData s.m.last.items id d } } },
                 .ok s.m.last.loc)
  | none =>
    match getItemPartIndex s id with
    | none => (s, .error .notFound)
    | some l =>
      match getPartition s l with
      | (s1, .error e) => (s1, .error e)
      | (s1, .ok r) =>
        let p := readRef s1 r
        match findItem p.items id with
        | none => (s1, .error .notFound)
        | some v =>
          match f v.data with
          | none => (s1, .error .ferr)
          | some d =>
            (loadLocations (writeRef s1 r { p with items := replaceData p.items id d, changed := true }) l, .ok l)

/-- `loadLastFromPrev`: promote partition `Last.Loc-1` to `Last`, delete its location nodes and its node. -/
def loadLastFromPrev (s : S) : S × Res Unit :=
  if s.m.last.loc = 0 then (s, .ok ())
  else
    match getPartition s (s.m.last.loc - 1) with
    | (s1, .error _) => (s1, .error .prev)
    | (s1, .ok r) =>
      let prev := readRef s1 r
      let s2 : S := { s1 with m := { s1.m with last := prev } }
      match removeItemLocs prev.items s2 with
      | (s3, .error e) => (s3, .error e)
      | (s3, .ok _) =>
        -- `state.DeleteTrieNode(prev.Key)` fails on an absent node, before `delete(p.Partitions, …)`
        match s3.st.parts.get prev.key with
        | none => (s3, .error .partDel)
        | some _ =>
          let s4 : S := { s3 with st := { s3.st with parts := s3.st.parts.del prev.key } }
          ({ s4 with m := { s4.m with parts := s4.m.parts.del prev.loc } }, .ok ())

/-- `removeFromLast(idx)` -/
def removeFromLast (s : S) (idx : Nat) : S × Res Unit :=
  let s1 : S := { s with m := { s.m with last := { s.m.last with items := swapRemove s.m.last.items idx } } }
  if s1.m.last.items.length > 0 then (s1, .ok ()) else loadLastFromPrev s1

/-- `removeItem(id, index)` -/
def removeItem (s : S) (id index : Nat) : S × Res Unit :=
  match getPartition s index with
  | (s1, .error e) => (s1, .error e)
  | (s1, .ok r) =>
    let p := readRef s1 r
    -- part.remove(id)
    if p.items.length = 0 then (s1, .error .emptyPart)
    else match findIdx p.items id with
      | none => (s1, .error .noIndex)
      | some i =>
        let p1 : Part := { p with items := swapRemove p.items i, changed := true }
        let s2 := writeRef s1 r p1
        if index = s2.m.last.loc then (s2, .ok ())
        else
          -- replace := p.Last.cutTail()
          match s2.m.last.items.getLast? with
          | none => (s2, .error .emptyLast)
          | some t =>
            let s3 : S := { s2 with m := { s2.m with last := { s2.m.last with items := s2.m.last.items.dropLast, changed := true } } }
            -- part.addRaw(replace)
            match findItem p1.items t.id with
            | some _ => (s3, .error .dup)
            | none =>
              let s4 := writeRef s3 r { p1 with items := p1.items ++ [t], changed := true }
              let s5 := saveItemLoc s4 t.id index
              if s5.m.last.items.length > 0 then (s5, .ok ()) else loadLastFromPrev s5

/-- what `RemoveX` reports: `From`, `Replace`, `ReplaceItem` (data of the tail of `Last` BEFORE the removal) -/
structure RemoveLocs where
  from_ : Nat
  replace : Nat
  replaceData : Nat
deriving DecidableEq, Repr

/-- `RemoveX` (and `Remove`, which drops the report). `replaceItem.Data` of a nil tail is a nil dereference. -/
def removeX (s : S) (id : Nat) : S × Res RemoveLocs :=
  let replaceLoc := s.m.last.loc
  let replaceItem := s.m.last.items.getLast?
  let report (s' : S) (fromLoc : Nat) : S × Res RemoveLocs :=
    match replaceItem with
    | none => (s', .error .panic)
    | some t => (s', .ok ⟨fromLoc, replaceLoc, t.data⟩)
  match findIdx s.m.last.items id with
  | some idx =>
    match removeFromLast s idx with
    | (s1, .error e) => (s1, .error e)
    | (s1, .ok _) => report s1 replaceLoc
  | none =>
    match getItemPartIndex s id with
    | none => (s, .error .notFound)
    | some loc =>
      match removeItem s id loc with
      | (s1, .error e) => (s1, .error e)
      | (s1, .ok _) =>
        match removeItemLoc (loadLocations s1 loc) id with
        | (s2, .error e) => (s2, .error e)
        | (s2, .ok _) => report s2 loc

/-- `Remove`: same transition as `RemoveX`; the report (and its nil dereference) does not exist. -/
def remove (s : S) (id : Nat) : S × Res Unit :=
  match findIdx s.m.last.items id with
  | some idx => removeFromLast s idx
  | none =>
    match getItemPartIndex s id with
    | none => (s, .error .notFound)
    | some loc =>
      match removeItem s id loc with
      | (s1, .error e) => (s1, .error e)
      | (s1, .ok _) => removeItemLoc (loadLocations s1 loc) id

/-- `Exist` -/
def exist (s : S) (id : Nat) : Bool :=
  match findItem s.m.last.items id with
  | some _ => true
  | none => (getItemPartIndex s id).isSome

/-- `Size` -/
def size (s : S) : Nat :=
  if s.m.last.items.length = 0 then 0 else s.m.last.loc * s.m.size + s.m.last.items.length

/-- the callback's visits inside one partition: up to and including the entry it stops at
(`break` leaves only the inner loop: `ForEach` goes on with the next partition). -/
def visitPart (i : Nat) (stop : Option Nat) : List Item → List (Nat × Item)
  | [] => []
  | it :: r => (i, it) :: (if stop = some it.id then [] else visitPart i stop r)

/-- `ForEachPart` -/
def forEachPart (s : S) (i : Nat) (stop : Option Nat) : S × Res (List (Nat × Item)) :=
  match getPartition s i with
  | (s1, .error e) => (s1, .error e)
  | (s1, .ok r) => (s1, .ok (visitPart i stop (readRef s1 r).items))

def forEachAux (stop : Option Nat) : Nat → Nat → S → List (Nat × Item) → S × Res (List (Nat × Item))
  | 0, _, s, acc => (s, .ok acc)
  | n + 1, i, s, acc =>
    match forEachPart s i stop with
    | (s1, .error e) => (s1, .error e)
    | (s1, .ok v) => forEachAux stop n (i + 1) s1 (acc ++ v)

/-- `ForEach`: partitions `0 … Last.Loc`, each loaded into the map on the way. -/
def forEach (s : S) (stop : Option Nat) : S × Res (List (Nat × Item)) :=
  forEachAux stop (s.m.last.loc + 1) 0 s []

/-- `itemRange(start, end)` -/
def itemRange (items : List Item) (start end_ : Nat) : Res (List Item) :=
  if start > end_ ∨ end_ > items.length then .error .range
  else .ok ((items.drop start).take (end_ - start))

/-- the `for requiredCount != 0` loop of `GetRandomItems`, with fuel. -/
def randLoop : Nat → S → Nat → Nat → Nat → List Item → S × Res (List Item)
  | 0, s, _, _, _, _ => (s, .error .hang)
  | fuel + 1, s, req, pi, ii, acc =>
    if req = 0 then (s, .ok acc)
    else
      match getPartition s pi with
      | (s1, .error e) => (s1, .error e)
      | (s1, .ok r) =>
        let items := (readRef s1 r).items
        if ii + req > items.length then
          match itemRange items ii items.length with
          | .error e => (s1, .error e)
          | .ok res =>
            randLoop fuel s1 (req - (items.length - ii)) (if pi = s1.m.last.loc then 0 else pi + 1) 0 (acc ++ res)
        else
          match itemRange items ii (ii + req) with
          | .error e => (s1, .error e)
          | .ok res => (s1, .ok (acc ++ res))

/-- every turn that does not end the loop either fails or, at the latest when it reaches the (non-empty)
last partition, takes an item: `(req + 1) * (Last.Loc + 2)` turns are enough. -/
def randFuel (s : S) (req : Nat) : Nat := (req + 1) * (s.m.last.loc + 2) + 1

/-- `GetRandomItems`; `elementIdx` is the value `r.Intn(totalElements)` returned. -/
def getRandomItems (s : S) (elementIdx : Nat) : S × Res (List Item) :=
  if s.m.last.items.length = 0 then (s, .error .empty)
  else
    let total := s.m.last.loc * s.m.size + s.m.last.items.length
    let req := if total < s.m.size then total else s.m.size
    if s.m.size = 0 then (s, .error .panic)   -- integer division by zero
    else randLoop (randFuel s req) s req (elementIdx / s.m.size) (elementIdx % s.m.size) []

/-- `totalElements` of `GetRandomItems` (the argument of `r.Intn`). -/
def totalElements (s : S) : Nat := s.m.last.loc * s.m.size + s.m.last.items.length

/-- the partition-saving loop of `Save` over the sorted keys of the map. -/
def saveParts (m : KV Part) : List Nat → KV (Nat × List Item) → KV (Nat × List Item)
  | [], st => st
  | k :: ks, st =>
    match m.get k with
    | some p => saveParts m ks (if p.changed then st.set p.key (p.loc, p.items) else st)
    | none => saveParts m ks st

/-- `Save`: the changed loaded partitions, then the header (with `Last` inside). `Changed` stays set. -/
def save (s : S) : S :=
  { s with st := { s.st with parts := saveParts s.m.parts s.m.parts.keys s.st.parts,
                             hdr := some ⟨s.m.size, s.m.last.loc, s.m.last.items⟩ } }

/-- `newPartitions(name, size)` -/
def newMem (size : Nat) : Mem := { size := size, last := ⟨0, 0, [], false⟩ }

/-- the object `GetTrieNode(name, &p)` yields (`UnmarshalMsg`, or `CopyFrom` of a cached clone):
`Last` from the header with its key recomputed from `Loc`, nothing loaded, empty location cache. -/
def memOfHdr (h : Hdr) : Mem := { size := h.size, last := ⟨h.lastLoc, h.lastLoc, h.lastItems, false⟩ }

/-- `GetPartitions` -/
def load (st : Store) : Res Mem :=
  match st.hdr with
  | none => .error .absent
  | some h => .ok (memOfHdr h)

/-- `CreateIfNotExists(name, size)`: an existing header wins (the size argument is ignored then). -/
def createIfNotExists (st : Store) (size : Nat) : S :=
  match st.hdr with
  | some h => ⟨st, memOfHdr h⟩
  | none => save ⟨st, newMem size⟩

/-- the inner loop of `RepairPartitionLoc` over the items of one partition. -/
def repairItems (loc : Nat) : List Item → S → S
  | [], s => s
  | it :: r, s =>
    repairItems loc r (match s.st.locs.get it.id with
      | some _ => s
      | none => saveItemLoc s it.id loc)

def repairAux : Nat → Nat → S → S × Res Unit
  | 0, _, s => (s, .ok ())
  | n + 1, i, s =>
    match getPartition s i with
    | (s1, .error e) => (s1, .error e)
    | (s1, .ok r) =>
      let p := readRef s1 r
      repairAux n (i + 1) (repairItems p.loc p.items s1)

/-- `RepairPartitionLoc`: re-create missing location nodes of partitions `0 … Last.Loc-1`. -/
def repairPartitionLoc (s : S) : S × Res Unit := repairAux s.m.last.loc 0 s

/-! ### operations as data (for histories) -/

inductive Op
  | add (id data : Nat)
  | get (id : Nat)
  | updateItem (id data : Nat)
  | updateAdd (id k : Nat)       -- `Update` with the callback `d ↦ d + k`
  | updateFail (id : Nat)        -- `Update` with a failing callback
  | remove (id : Nat)
  | exist (id : Nat)
  | size
  | forEach
  | random (elementIdx : Nat)
  | save
  | saveReload                   -- `Save`, then `GetPartitions` into a fresh object
deriving Repr

/-- the answers a caller sees -/
inductive Out
  | unit (r : Res Unit)
  | loc (r : Res Nat)
  | item (r : Res (Nat × Nat))
  | bool (b : Bool)
  | nat (n : Nat)
  | visits (r : Res (List (Nat × Item)))
  | items (r : Res (List Item))
deriving Repr

def reload (s : S) : S :=
  match s.st.hdr with
  | some h => ⟨s.st, memOfHdr h⟩
  | none => s

def step (s : S) : Op → S × Out
  | .add id d => let (s', r) := addX s ⟨id, d⟩; (s', .loc r)
  | .get id => let (s', r) := get s id; (s', .item r)
  | .updateItem id d => let (s', r) := updateItem s ⟨id, d⟩; (s', .unit r)
  | .updateAdd id k => let (s', r) := update s id (fun d => some (d + k)); (s', .loc r)
  | .updateFail id => let (s', r) := update s id (fun _ => none); (s', .loc r)
  | .remove id => let (s', r) := remove s id; (s', .unit r)
  | .exist id => (s, .bool (exist s id))
  | .size => (s, .nat (size s))
  | .forEach => let (s', r) := forEach s none; (s', .visits r)
  | .random e => let (s', r) := getRandomItems s (e % totalElements s); (s', .items r)
  | .save => (save s, .unit (.ok ()))
  | .saveReload => (reload (save s), .unit (.ok ()))

def run (s : S) : List Op → S
  | [] => s
  | op :: ops => run (step s op).1 ops

/-- a fresh partitions object created on an empty store (`CreateIfNotExists`). -/
def init (size : Nat) : S := createIfNotExists {} size

end ZChain.Partitions
