/-
Model of the free-storage marker book of the storage contract
(`smartcontract/storagesc/free_allocation.go`: `addFreeStorageAssigner`, `freeStorageAssigner.validate`,
the bookkeeping part of `freeAllocationRequest`). Core-only (linked into `zdrv-C04`).

An assigner record holds the public key the owner registered, the two limits, the sum redeemed so far
(`CurrentRedeemed`) and the nonces of the redeemed markers (`RedeemedNonces`, in redemption order — NOT
sorted). `addFreeStorageAssigner` on an EXISTING record overwrites key and limits and KEEPS
`CurrentRedeemed` and `RedeemedNonces` (get-or-create: a fresh record only when none is stored).
Signature validity is abstract: a marker is signed by key number `signKey`, and the signature verifies iff
that is the key registered for the assigner and the signed text was not altered afterwards (`intact`).
-/
namespace ZChain.FreeMarkers

def maxTotal : Nat := 100000000000000       -- max_total_free_allocation 10000 ZCN
def maxIndividual : Nat := 1000000000000    -- max_individual_free_allocation 100 ZCN

structure Assigner where
  name : Nat
  key : Nat
  individual : Nat
  total : Nat
  redeemed : Nat
  nonces : List Int
deriving DecidableEq, Repr

abbrev Book := List Assigner

def find (b : Book) (n : Nat) : Option Assigner :=
  match b with
  | [] => none
  | a :: rest => if a.name = n then some a else find rest n

def put (b : Book) (a : Assigner) : Book :=
  match b with
  | [] => [a]
  | x :: rest => if x.name = a.name then a :: rest else x :: put rest a

/-- the redeemed nonces of assigner `n` ([] when it is not registered). -/
def redeemedOf (b : Book) (n : Nat) : List Int :=
  match find b n with
  | some a => a.nonces
  | none => []

inductive RegAns where
  | ok | notOwner | totalCap | individualCap
deriving DecidableEq, Repr

/-- `addFreeStorageAssigner`: owner only; limits within the configured maxima; an existing record keeps
what it has redeemed. -/
def register (b : Book) (byOwner : Bool) (n key individual total : Nat) : Book × RegAns :=
  if !byOwner then (b, .notOwner)
  else if total > maxTotal then (b, .totalCap)
  else if individual > maxIndividual then (b, .individualCap)
  else
    match find b n with
    | some a => (put b { a with key := key, individual := individual, total := total }, .ok)
    | none => (put b ⟨n, key, individual, total, 0, []⟩, .ok)

inductive RedeemAns where
  | accept            -- the grant is paid and the nonce recorded
  | passedFailedLater -- the marker passed validation, the rest of the call failed: nothing is recorded
  | notRecipient | unknownAssigner | badSignature | overTotal | overIndividual | nonceUsed
deriving DecidableEq, Repr

/-- `freeAllocationRequest` as far as the book is concerned; checks in the order of the code.
`later` = the remainder of the call (allocation, transfers, settlement) went through. -/
def redeem (b : Book) (n signKey : Nat) (intact recipientOk : Bool) (coins : Nat) (nonce : Int) (later : Bool) :
    Book × RedeemAns :=
  if !recipientOk then (b, .notRecipient)
  else
    match find b n with
    | none => (b, .unknownAssigner)
    | some a =>
      if !(signKey = a.key && intact) then (b, .badSignature)
      else if a.redeemed + coins > a.total then (b, .overTotal)
      else if coins > a.individual then (b, .overIndividual)
      else if a.nonces.contains nonce then (b, .nonceUsed)
      else if !later then (b, .passedFailedLater)
      else (put b { a with redeemed := a.redeemed + coins, nonces := a.nonces ++ [nonce] }, .accept)

inductive Op where
  | reg (byOwner : Bool) (n key individual total : Nat)
  | red (n signKey : Nat) (intact recipientOk : Bool) (coins : Nat) (nonce : Int) (later : Bool)
deriving Repr

def apply (b : Book) : Op → Book
  | .reg o n k i t => (register b o n k i t).1
  | .red n k i r c x l => (redeem b n k i r c x l).1

def run (b : Book) : List Op → Book
  | [] => b
  | o :: rest => run (apply b o) rest

/-- does this op honour marker (n, x)? -/
def honours (b : Book) (n : Nat) (x : Int) : Op → Bool
  | .reg _ _ _ _ _ => false
  | .red m k i r c y l => m = n && y = x && (redeem b m k i r c y l).2 = .accept

/-- how many times marker (n, x) is honoured along a history. -/
def timesHonoured (b : Book) (n : Nat) (x : Int) : List Op → Nat
  | [] => 0
  | o :: rest => (if honours b n x o then 1 else 0) + timesHonoured (apply b o) n x rest

end ZChain.FreeMarkers
