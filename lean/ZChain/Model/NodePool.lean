/-
Model of `chaincore/node/node_pool.go`: `Pool.AddNode` (append or replace by key) and `computeNodePositions`
(`sort.SliceStable` by `GetKey()`, then `SetIndex = position`). Shared by C42 (replicators) and C35 (miner ranks).

* a node is its key and its `idBytes`. The key is the node id, the lowercase hex of a 32-byte hash
  (`Client.computePublicKeyBytes`: `ID = Hash(publicKeyBytes)`, forced by `AddNode → SetPublicKey`); Go compares the
  hex strings, which for equal-length lowercase hex is the order of the numbers they denote, so `key : Nat`.
  `idBytes` are the 32 bytes (`SetID`), used by the hash scorer only.
* `sortStable` is a stable insertion sort. For a strict weak order the result of a stable sort is unique, so it is
  `sort.SliceStable` (and, for keys that are pairwise different, also `sort.Slice`).
* `SetIndex` is a field of the node object, rewritten by every `computeNodePositions` of every pool the object is in.
  The model reads it as the node's position in THIS pool (the harness uses fresh node objects per pool).
Core-only.
-/
namespace ZChain.NodePool

structure Node where
  key     : Nat
  idBytes : List Nat
deriving DecidableEq, Repr, Inhabited

/-- insert `x` before the first element that is not `less` than it (keeps earlier equal elements in front). -/
def insertBy {α : Type} (less : α → α → Bool) (x : α) : List α → List α
  | [] => [x]
  | y :: ys => if less y x then y :: insertBy less x ys else x :: y :: ys

/-- stable sort: `sort.SliceStable(l, less)`. -/
def sortStable {α : Type} (less : α → α → Bool) (l : List α) : List α := l.foldr (insertBy less) []

/-- `for i, nd := range np.Nodes { if nd.GetKey() == node.GetKey() { np.Nodes[i] = node; break } }`. -/
def replaceFirst (n : Node) : List Node → List Node
  | [] => []
  | x :: xs => if x.key = n.key then n :: xs else x :: replaceFirst n xs

def keyLess (a b : Node) : Bool := a.key < b.key

/-- `Pool.AddNode` (the `Nodes` slice; `NodesMap` has the same keys). -/
def addNode (nodes : List Node) (n : Node) : List Node :=
  let nodes' := if nodes.any (fun x => x.key = n.key) then replaceFirst n nodes else nodes ++ [n]
  sortStable keyLess nodes'

/-- the pool after adding the nodes of `l` in this order. -/
def poolOf (l : List Node) : List Node := l.foldl addNode []

/-- `SetIndex` of the node with this key: its position in `Nodes`. -/
def setIndexOf (nodes : List Node) (key : Nat) : Option Nat :=
  match nodes.findIdx? (fun x => x.key = key) with
  | some i => some i
  | none => none

end ZChain.NodePool
