import ZChain.Base.Coin
/-!
# Model of `smartcontract/faucetsc` (`sc.go`, `models.go` validate)

`Execute` → `getGlobalVariables` (global window reset), `pour` → `getUserVariables` (user window reset) →
amount = `t.Value` if `0 < t.Value < MaxPourAmount` else `PourAmount` → `validPourRequest` (all three checks use that
amount, repair 4b549c9) → transfer faucet→client, `Used += amount` (user and global), save both; `refill`
(`clientBalance ≥ t.Value` → transfer client→faucet, save the global node — including a window reset);
`GlobalNode.validate`.

* clients are naturals; times are Unix seconds (`Int`); reset periods are `time.Duration` nanoseconds (`Int`);
  `time.Time.Sub` saturates at ±(2^63−1) ns (`elapsedGE`). A never-started global window (`StartTime` the zero
  `time.Time`) is `none`: `Sub` saturates, so the first call always resets.
* the transfer queued by the contract is applied by the engine after the call: if the paying account holds less than
  the amount, the WHOLE transaction is rejected (`Res.rejected`, state unchanged, nonce not consumed); a transfer of 0
  is skipped.
* a contract error (`Res.err`) leaves the contract state unchanged (the engine discards the writes); the failed
  transaction still consumes the sender's nonce, which creates the sender's account (balance 0) if it had none
  (`touch`); the same holds for a successful transaction.
* `update-settings` is modelled for well-formed requests that give all six amounts/durations (the harness sends
  exactly those): owner check, the new configuration must pass `validate`, the global node is saved — with the window
  reset of `getGlobalVariables` applied and `Used` KEPT. Not modelled: malformed field values, owner_id and cost
  changes, cost tables, REST handlers.
Core-only (no Mathlib).
-/
namespace ZChain.Faucet
open ZChain ZChain.Coin

structure Conf where
  pour        : Nat
  maxPour     : Nat
  periodic    : Nat
  global      : Nat
  indivReset  : Int   -- ns
  globalReset : Int   -- ns
deriving Repr, DecidableEq, Inhabited

/-- `GlobalNode.validate()`. -/
def Conf.valid (c : Conf) : Bool :=
  decide (1 ≤ c.pour) && decide (c.pour ≤ c.maxPour) && decide (c.maxPour ≤ c.periodic) && decide (c.periodic ≤ c.global) &&
  decide (1000000000 ≤ c.indivReset) && decide (c.indivReset ≤ c.globalReset)

structure User where
  start : Int
  used  : Nat
deriving Repr, DecidableEq, Inhabited

structure St where
  conf     : Conf
  gUsed    : Nat
  gStart   : Option Int
  users    : List (Nat × User)        -- faucet user nodes, by client
  faucet   : Option Nat               -- balance of the faucet account (`none`: no state node)
  accounts : List (Nat × Nat)         -- client balances (absent = no state node)
deriving Repr, DecidableEq, Inhabited

inductive Err where
  | coin (e : Coin.Err)
  | noFaucetState | pourGtBalance | periodicLimit | globalLimit | broke | noClientState | notOwner | invalidConfig
deriving Repr, DecidableEq, Inhabited

def Err.tag : Err → String
  | .coin e => e.tag
  | .noFaucetState => "no-faucet-state" | .pourGtBalance => "pour-gt-balance" | .periodicLimit => "periodic-limit"
  | .globalLimit => "global-limit" | .broke => "broke" | .noClientState => "no-client-state"
  | .notOwner => "not-owner" | .invalidConfig => "invalid-config"

inductive Res where
  | ok (st : St) (amount : Nat)
  | err (e : Err)
  | rejected
deriving Repr, DecidableEq, Inhabited

def I64MAX : Int := 9223372036854775807

/-- `now.Sub(start) >= reset` with Go's saturating `Sub` (seconds → nanoseconds). -/
def elapsedGE (now start reset : Int) : Bool :=
  let d := (now - start) * 1000000000
  let d := if I64MAX < d then I64MAX else if d < -I64MAX - 1 then -I64MAX - 1 else d
  decide (reset ≤ d)

def lookup {α} (l : List (Nat × α)) (k : Nat) : Option α := (l.find? (fun p => p.1 = k)).map (·.2)

def upsert {α} (l : List (Nat × α)) (k : Nat) (v : α) : List (Nat × α) :=
  match l with
  | [] => [(k, v)]
  | (k', v') :: rest => if k' = k then (k, v) :: rest else (k', v') :: upsert rest k v

/-- `getGlobalVariables`: the global window as seen by this transaction. -/
def globalVars (st : St) (now : Int) : Nat × Int :=
  match st.gStart with
  | none => (0, now)
  | some s => if elapsedGE now s st.conf.globalReset then (0, now) else (st.gUsed, s)

/-- `getUserVariables`. -/
def userVars (st : St) (c : Nat) (now : Int) : User :=
  let u := match lookup st.users c with
    | some u => u
    | none => { start := now, used := 0 }
  if elapsedGE now u.start st.conf.indivReset || elapsedGE now u.start st.conf.globalReset then { start := now, used := 0 } else u

/-- the amount chosen by `pour`. -/
def pourAmount (conf : Conf) (value : Nat) : Nat :=
  if 0 < value ∧ value < conf.maxPour then value else conf.pour

def credit (accounts : List (Nat × Nat)) (c amount : Nat) : List (Nat × Nat) :=
  if amount = 0 then accounts else upsert accounts c ((lookup accounts c).getD 0 + amount)

/-- the `pour` transaction. Since repair 4b549c9 the amount that will be poured is computed FIRST and
`validPourRequest` checks the faucet balance, the periodic limit and the global limit against THAT amount
(before: against `PourAmount`, while `t.Value` was poured). -/
def pour (st : St) (c value : Nat) (now : Int) : Res :=
  let (gUsed, gStart) := globalVars st now
  let u := userVars st c now
  let amount := pourAmount st.conf value
  match st.faucet with
  | none => .err .noFaucetState
  | some bal =>
    if bal < amount then .err .pourGtBalance
    else match addCoin amount u.used with
    | .error e => .err (.coin e)
    | .ok t =>
      if st.conf.periodic < t then .err .periodicLimit
      else match addCoin amount gUsed with
      | .error e => .err (.coin e)
      | .ok tg =>
        if st.conf.global < tg then .err .globalLimit
        else
          -- (`user.Used = AddCoin(user.Used, amount)` and the global one repeat the two sums: they cannot fail;
          --  the queued transfer of `amount ≤ bal` can always be applied by the engine)
          .ok { st with gUsed := tg, gStart := some gStart, users := upsert st.users c { u with used := t },
                        faucet := some (bal - amount), accounts := credit st.accounts c amount } amount

/-- the `refill` transaction. -/
def refill (st : St) (c value : Nat) (now : Int) : Res :=
  let (gUsed, gStart) := globalVars st now
  match lookup st.accounts c with
  | none => .err .noClientState
  | some cb =>
    if value ≤ cb then
      let st1 := { st with gUsed := gUsed, gStart := some gStart }
      if value = 0 then .ok st1 0
      else .ok { st1 with faucet := some (st.faucet.getD 0 + value), accounts := upsert st.accounts c (cb - value) } value
    else .err .broke

/-- the faucet owner (`FaucetConfig.OwnerId`; the harness makes client 7 the owner). -/
def ownerId : Nat := 7

/-- the `update-settings` transaction with a complete, well-formed set of new values: only the owner; the new
configuration must validate; the saved global node carries the (possibly reset) window and its `Used` unchanged. -/
def updateSettings (st : St) (c : Nat) (conf' : Conf) (now : Int) : Res :=
  let (gUsed, gStart) := globalVars st now
  if c ≠ ownerId then .err .notOwner
  else if conf'.valid then .ok { st with conf := conf', gUsed := gUsed, gStart := some gStart } 0
  else .err .invalidConfig

/-- the engine's nonce increment creates the sender's state node. -/
def touch (accounts : List (Nat × Nat)) (c : Nat) : List (Nat × Nat) :=
  match lookup accounts c with
  | some _ => accounts
  | none => upsert accounts c 0

/-- the state after the transaction (`rejected`: nothing at all happens). -/
def apply (st : St) (c : Nat) : Res → St
  | .ok st' _ => { st' with accounts := touch st'.accounts c }
  | .err _ => { st with accounts := touch st.accounts c }
  | .rejected => st

inductive Op where
  | pour (c value : Nat) (now : Int)
  | refill (c value : Nat) (now : Int)
deriving Repr

def step (st : St) : Op → St
  | .pour c v now => apply st c (pour st c v now)
  | .refill c v now => apply st c (refill st c v now)

def run (st : St) (ops : List Op) : St := ops.foldl step st

def init (conf : Conf) (faucet : Option Nat) (accounts : List (Nat × Nat)) : St :=
  { conf := conf, gUsed := 0, gStart := none, users := [], faucet := faucet, accounts := accounts }

end ZChain.Faucet
