/-
Vocabulary of the generated table `Generated/C04.lean` (written by `harness/cmd/xc04` from the Go sources):
one `Site` per call of `AddTransfer` / `AddSignedTransfer` / `AddMint` and per construction of a
`state.Transfer` / `state.SignedTransfer` / `state.Mint`, with the class of the expression that becomes the
transfer's SOURCE (`ClientID`) and of the expression that becomes its AMOUNT. Core-only.
-/
namespace ZChain.TransferSites

/-- where the tokens of a queued transfer come from. -/
inductive Src where
  | txnSender        -- `X.ClientID` of the executing transaction
  | contractAddress  -- `X.ToClientID` of the executing transaction, the package's own `ADDRESS`, `sc.ID`
  | approvedMinter   -- result of `chain/state.GetMinter` (table `minters`: each is a contract address)
  | signed           -- inside a `SignedTransfer` (authorised by the signature it carries)
  | freeGrant        -- the storage contract owner's wallet, under a validated free-storage marker (allow-list)
  | tool             -- benchmark / test-helper code that no transaction reaches
  | unreachable      -- a parameter of a function that nobody calls
  | foreignContract  -- the `ADDRESS` constant of ANOTHER contract package
  | mint             -- `AddMint` / `state.NewMint`
  | other            -- anything else (an arbitrary id)
deriving DecidableEq, Repr

inductive Amt where
  | txnValue | txnFee | poolBalance | computed | unreachable
deriving DecidableEq, Repr

inductive Kind where
  | add | addSigned | addMint | construct | constructSigned | constructMint
deriving DecidableEq, Repr

structure Site where
  pkg : String      -- package, relative to code/go/0chain.net
  fn : String       -- enclosing function (`Recv.Name`)
  kind : Kind
  src : Src
  amt : Amt
  inLoop : Bool     -- the call (or a call site on the chase path) is inside a `for`
  guard : String    -- the dominating check an allow-listed class relies on (verified syntactically)
  expr : String     -- source text of the call / construction
  via : String      -- how the class was reached (call sites / struct literals followed)
deriving Repr

/-- the classes the property allows a contract to debit. -/
def Src.allowed : Src → Bool
  | .txnSender | .contractAddress | .approvedMinter | .signed | .freeGrant | .tool | .unreachable => true
  | .foreignContract | .mint | .other => false

/-- a row is acceptable: its source is in an allowed class; a transfer out of the SENDER's wallet moves exactly
`txn.Value` and is not queued in a loop (so the sender-sourced transfers of one call sum to at most the value —
the once-per-call part is what the dynamic oracle of `harness/cmd/c04` watches), the only other sender debit being
the engine's own fee transfer; a free grant names the guard it relies on. -/
def Site.ok (s : Site) : Bool :=
  s.src.allowed &&
  (s.src != .txnSender || ((s.amt == .txnValue && !s.inLoop) || (s.amt == .txnFee && s.pkg == "chaincore/chain"))) &&
  (s.src != .freeGrant || s.guard == "freeStorageAssigner.validate")

end ZChain.TransferSites
