import ZChain.Base.F64
import ZChain.Base.Coin
import ZChain.Base.Alg
import ZChain.Generated.C24
/-!
# Model of free-storage grants (`smartcontract/storagesc/free_allocation.go`) — C24

Transcribed: `freeStorageAssigner.validate` (96-125), `addFreeStorageAssigner` (127-196),
`verifyFreeAllocationRequestNew` (198-214), `freeAllocationRequest` (216-337), together with what they use:
`currency.ParseZCN`, `Float64ToCoin`, `MinusCoin`, `AddCoin`, the funding part of `newAllocationRequestInternal`
(`Transfer.transfer` from the contract owner's wallet, `checkFunding`) and `readPoolLockInternal` with the mint flag.

Conventions
* ids are naturals; a public-key *string* is named by a key index, `Crypto.pkOf` is `SetPublicKey` (`none` = refused);
  signatures live in the exponent (`Base/Alg`), `Crypto.Hm` is the message point of the marker string.
* The signed string is `fmt.Sprintf(<format>, <args>)` with format and arguments **extracted** from
  `verifyFreeAllocationRequestNew` (`Generated/C24.lean`); the model's message is the list of the argument values, the
  amount entering as `%f` renders it: **rounded (half-even on the exact binary value) to 6 decimals** — `fmt6`.
  The assigner's name is not part of the string (the key it is verified with is the assigner's).
* A JSON number is a decimal `Dec = (−1)^neg · n / 10^k`. `Dec.toF64` is the correctly rounded double
  (`strconv.ParseFloat`). `parseZCN` is `currency.ParseZCN(float64)`, which goes through the *shortest* decimal
  that round-trips the double (`decimal.NewFromFloat`): for a literal of at most 15 significant digits that is the
  literal itself, so `parseZCN` works on the literal. **Assumed: amounts are written with ≤ 15 significant digits**
  (the driver refuses longer ones; the correspondence run validates the rest).
* allocation creation is reduced to what decides success and moves tokens: the blobber list must name enough
  registered blobbers (`blobbersOk`, a parameter of the world), the owner's wallet must cover the write-pool share, and
  that share must cover the allocation's cost (`Cfg.allocCost`, a constant of the fixed free-allocation settings).
* not modelled: events, the contents of the created allocation beyond (owner, write pool), partitions, stake-pool offers.
Core-only.
-/
namespace ZChain.FreeStorage
open ZChain ZChain.Generated.C24

def aGet {κ α : Type} [DecidableEq κ] : List (κ × α) → κ → Option α
  | [], _ => none
  | (k, v) :: rest, a => if k = a then some v else aGet rest a

def aSet {κ α : Type} [DecidableEq κ] : List (κ × α) → κ → α → List (κ × α)
  | [], a, v => [(a, v)]
  | (k, w) :: rest, a, v => if k = a then (k, v) :: rest else (k, w) :: aSet rest a v

/-! ## decimal literals, `ParseZCN`, `%f` -/

structure Dec where
  neg : Bool
  n : Nat
  k : Nat
deriving DecidableEq, Repr

/-- `strconv.ParseFloat` of the literal: the nearest double (ties to even). -/
def Dec.toF64 (d : Dec) : F64 := F64.roundDiv d.neg (d.n * 2 ^ 1074) (10 ^ d.k)

/-- strip trailing zeros of the fraction. -/
def normDec : Nat → Nat → Nat × Nat
  | n, 0 => (n, 0)
  | n, k + 1 => if n % 10 = 0 then normDec (n / 10) k else (n, k + 1)

inductive AmtErr where
  | negative | decimals | tooLarge
deriving DecidableEq, Repr

def maxInt64 : Nat := 9223372036854775807

/-- `currency.ParseZCN` (on the literal, see the header). -/
def parseZCN (d : Dec) : Except AmtErr Nat :=
  if d.neg = true ∧ d.n ≠ 0 then .error .negative
  else
    let (n', k') := normDec d.n d.k
    if 10 < k' then .error .decimals
    else
      let v := n' * 10 ^ (10 - k')
      if maxInt64 < v then .error .tooLarge else .ok v

/-- `%f`: the exact binary value rounded half-even to 6 decimals, in millionths (`none` for ±∞/NaN). -/
def fmt6 : F64 → Option Int
  | .fin s m E =>
    let q := F64.rne (m * 2 ^ E * 1000000) (2 ^ 1074)
    some (if s then -(q : Int) else (q : Int))
  | _ => none

/-! ## markers -/

structure Crypto (F : Type) where
  pkOf : Nat → Option F
  Hm : List Int → F

structure Marker (F : Type) where
  assigner : Nat
  recipient : Nat
  amount : Dec           -- FreeTokens, as written
  nonce : Int
  sig : Option F
  blobbers : List Nat
deriving Repr

/-- the values one argument of the `Sprintf` contributes to the signed message, by the verb it is printed with. -/
def argVals {F : Type} (m : Marker F) : MField × Verb → Option (List Int)
  | (.Recipient, _) => some [(m.recipient : Int)]
  | (.Assigner, _) => some [(m.assigner : Int)]
  | (.Nonce, _) => some [m.nonce]
  | (.Blobbers, _) => some (m.blobbers.map (fun b => Int.ofNat b))
  | (.FreeTokens, .f) => (fmt6 m.amount.toF64).map (fun x => [x])
  | (.FreeTokens, .v) => some [(F64.toBits m.amount.toF64 : Int)]
  | (.FreeTokens, _) => none
  | (.Signature, _) => none

/-- the marker string `verifyFreeAllocationRequestNew` builds, as the list of its components. -/
def markerMsg {F : Type} (m : Marker F) : Option (List Int) :=
  ((markerArgs.zip markerVerbs).mapM (argVals m)).map List.flatten

/-! ## state -/

/-- `freeStorageAssigner` (the record is stored under the assigner's name). -/
structure Assigner where
  pk : Nat
  indLimit : Nat
  totLimit : Nat
  redeemed : Nat
  nonces : List Int
deriving Repr, DecidableEq

structure Cfg where
  owner : Nat
  maxInd : Nat
  maxTot : Nat
  readFraction : F64
  allocCost : Nat
deriving Repr

structure St where
  cfg : Cfg
  assigners : List (Nat × Assigner)
  wallets : List (Nat × Nat)
  scWallet : Nat
  pools : List (Nat × Nat)            -- read pools
  allocs : List (Nat × Nat)           -- created allocations, newest last: (owner, write pool)
deriving Repr

inductive Err where
  | recipient | noAssigner | amount | sig | total | individual | nonce | overflow | conv
  | blobbers | ownerBalance | funding | unauthorized | limitConv | maxTotal | maxIndividual
deriving DecidableEq, Repr

def need (c : Bool) (e : Err) : Except Err Unit := if c then .ok () else .error e

def getOr {α : Type} (o : Option α) (e : Err) : Except Err α :=
  match o with
  | some a => .ok a
  | none => .error e

def mapErr {ε α : Type} (x : Except ε α) (e : Err) : Except Err α :=
  match x with
  | .ok a => .ok a
  | .error _ => .error e

section
variable {F : Type} [Mul F] [Zero F] [DecidableEq F]

/-- `verifyFreeAllocationRequestNew(marker, assigner.PublicKey)`. -/
def verifySig (cr : Crypto F) (a : Assigner) (m : Marker F) : Bool :=
  match cr.pkOf a.pk, m.sig, markerMsg m with
  | some pk, some σ, some msg => Alg.verifyLib pk (cr.Hm msg) σ
  | _, _, _ => false

/-- `freeStorageAssigner.validate`, in the order of its checks. -/
def validate (cr : Crypto F) (a : Assigner) (m : Marker F) (value : Nat) : Except Err Unit := do
  need (verifySig cr a m) .sig
  let newTotal ← mapErr (Coin.addCoin a.redeemed value) .overflow
  need (decide (newTotal ≤ a.totLimit)) .total
  need (decide (value ≤ a.indLimit)) .individual
  need (!decide (m.nonce ∈ a.nonces)) .nonce

/-- `freeAllocationRequest` after input decoding. `blobbersOk` is whether the marker's blobber list lets
`newAllocationRequestInternal` find enough registered blobbers. -/
def freeAlloc (cr : Crypto F) (blobbersOk : List Nat → Bool) (s : St) (sender : Nat) (m : Marker F) : Except Err St := do
  need (decide (sender = m.recipient)) .recipient
  let a ← getOr (aGet s.assigners m.assigner) .noAssigner
  let coin ← mapErr (parseZCN m.amount) .amount
  validate cr a m coin
  let newRedeemed ← mapErr (Coin.addCoin a.redeemed coin) .overflow
  let readTokens ← mapErr (Coin.float64ToCoin (F64.mul (Coin.toFloat64 coin) s.cfg.readFraction)) .conv
  let writeTokens ← mapErr (Coin.minusCoin coin readTokens) .conv
  need (blobbersOk m.blobbers) .blobbers
  let ow := (aGet s.wallets s.cfg.owner).getD 0
  need (decide (writeTokens = 0 ∨ (aGet s.wallets s.cfg.owner).isSome ∧ writeTokens ≤ ow)) .ownerBalance
  need (decide (s.cfg.allocCost ≤ writeTokens)) .funding
  let pool ← mapErr (Coin.addCoin ((aGet s.pools m.recipient).getD 0) readTokens) .overflow
  let a' := { a with redeemed := newRedeemed, nonces := a.nonces ++ [m.nonce] }
  return { s with
    assigners := aSet s.assigners m.assigner a'
    wallets := if writeTokens = 0 then s.wallets else aSet s.wallets s.cfg.owner (ow - writeTokens)
    scWallet := s.scWallet + writeTokens
    pools := aSet s.pools m.recipient pool
    allocs := s.allocs ++ [(m.recipient, writeTokens)] }

end

/-- `Float64ToCoin(limit * floatToBalance)`. -/
def limitCoin (d : Dec) : Except Unit Nat :=
  match Coin.float64ToCoin (F64.mul d.toF64 (F64.ofNat floatToBalance)) with
  | .ok v => .ok v
  | .error _ => .error ()

/-- `addFreeStorageAssigner`. -/
def addAssigner (s : St) (sender name pk : Nat) (ind tot : Dec) : Except Err St := do
  need (decide (sender = s.cfg.owner)) .unauthorized
  let newTot ← mapErr (limitCoin tot) .limitConv
  need (decide (newTot ≤ s.cfg.maxTot)) .maxTotal
  let newInd ← mapErr (limitCoin ind) .limitConv
  need (decide (newInd ≤ s.cfg.maxInd)) .maxIndividual
  let a := (aGet s.assigners name).getD { pk := pk, indLimit := 0, totLimit := 0, redeemed := 0, nonces := [] }
  return { s with assigners := aSet s.assigners name { a with pk := pk, totLimit := newTot, indLimit := newInd } }

/-! ## histories -/

inductive Op (F : Type) where
  | free (sender : Nat) (m : Marker F)
  | add (sender name pk : Nat) (ind tot : Dec)

section
variable {F : Type} [Mul F] [Zero F] [DecidableEq F]

/-- a failed transaction leaves the state as it was. The Boolean says whether the operation succeeded. -/
def step (cr : Crypto F) (bok : List Nat → Bool) (s : St) : Op F → St × Bool
  | .free sender m => match freeAlloc cr bok s sender m with
    | .ok s' => (s', true)
    | .error _ => (s, false)
  | .add sender name pk ind tot => match addAssigner s sender name pk ind tot with
    | .ok s' => (s', true)
    | .error _ => (s, false)

def run (cr : Crypto F) (bok : List Nat → Bool) : St → List (Op F) → St
  | s, [] => s
  | s, op :: ops => run cr bok (step cr bok s op).1 ops

/-- the successful grants of a history, in order: (assigner, nonce, amount in coins, recipient). -/
def grants (cr : Crypto F) (bok : List Nat → Bool) : St → List (Op F) → List (Nat × Int × Nat × Nat)
  | _, [] => []
  | s, op :: ops =>
    let r := step cr bok s op
    let rest := grants cr bok r.1 ops
    match op, r.2 with
    | .free _ m, true =>
      match parseZCN m.amount with
      | .ok c => (m.assigner, m.nonce, c, m.recipient) :: rest
      | .error _ => rest
    | _, _ => rest

end

end ZChain.FreeStorage
