/-
Model of `sharder/blockdb` (db.go, index.go) at the level of the bytes of its two files.

* `<file>.dat` is the concatenation of records `len32(LE) ‖ payload` appended by `WriteData`
  (`payload` = what `Record.Encode` produced, compressed when the database compresses).
* the index built while writing is `mapIndex` (a Go map `Key → int64`, modelled as an association list
  with unique keys); `Save` writes `<file>.idx` = `numKeys int32(LE) ‖ entries sorted by key`, each entry
  `int8(len key) ‖ key ‖ offset int64(LE)` (`mapIndex.Encode`).
* `Open` loads the `.idx` into `fixedKeyArrayIndex.buffer` (`Decode`: one `Read` of
  `numKeys * getKeySize()` bytes); `GetOffset` is the binary search over that buffer **with the control
  flow of the code**: inside `case -1` / `case 1` the statement `if lo == hi { break }` leaves the
  `switch`, not the `for`, so the loop goes round again with the same `lo, hi` (index.go:147-185).
  The loop therefore needs fuel; `Lookup.timeout` is "fuel used up".
* `Read` = `GetOffset`, `Seek`, `int32` length, `io.ReadFull`, decompress, `Record.Decode`.
* zstd is not re-implemented: the compressed bytes of every record are a recorded parameter of `write`
  and decompression is the recorded inverse table (`codec`), see DESIGN §3.3.

**The one-line switch for a repaired tree**: `codeIsFixed` below. `false` = the `break` leaves only the
`switch` (the pinned code); `true` = that statement leaves the loop (`return -1, ErrKeyNotFound` or a
labelled break). Nothing else changes.
Core-only (no Mathlib): linked into `zdrv-C26`.
-/
namespace ZChain.BlockDB

abbrev Bytes := List Nat

/-- THE SWITCH: does `if lo == hi { break }` leave the `for` loop (repaired) or only the `switch` (pinned code)? -/
def codeIsFixed : Bool := true

/-- little-endian encoding of `v` on `w` bytes (`binary.Write(..., binary.LittleEndian, ...)`). -/
def le : Nat → Nat → Bytes
  | 0, _ => []
  | w + 1, v => (v % 256) :: le w (v / 256)

/-- little-endian decoding (unsigned). -/
def unle : Bytes → Nat
  | [] => 0
  | b :: bs => b + 256 * unle bs

/-- two's-complement reading of an unsigned `bits`-bit value (`int32`, `int64`, `int8`). -/
def toSigned (bits : Nat) (v : Nat) : Int :=
  if v < 2 ^ (bits - 1) then (v : Int) else (v : Int) - (2 ^ bits : Nat)

/-- `bytes.Compare` / Go string `<`: lexicographic on bytes, a proper prefix is smaller. -/
def cmpBytes : Bytes → Bytes → Ordering
  | [], [] => .eq
  | [], _ :: _ => .lt
  | _ :: _, [] => .gt
  | a :: as, b :: bs => if a < b then .lt else if b < a then .gt else cmpBytes as bs

/-! ## mapIndex -/

abbrev MapIdx := List (Bytes × Nat)

/-- `mi.index[key] = offset` -/
def MapIdx.set : MapIdx → Bytes → Nat → MapIdx
  | [], k, o => [(k, o)]
  | (k', o') :: rest, k, o => if k' = k then (k, o) :: rest else (k', o') :: MapIdx.set rest k o

def MapIdx.get : MapIdx → Bytes → Option Nat
  | [], _ => none
  | (k', o') :: rest, k => if k' = k then some o' else MapIdx.get rest k

/-- insertion into a list sorted by key (`sort.SliceStable(keyos, k[i] < k[j])`; keys of a map are distinct,
so the result does not depend on the iteration order of the Go map — `Proofs/BlockDB.sortEntries_perm`). -/
def insertEntry (e : Bytes × Nat) : List (Bytes × Nat) → List (Bytes × Nat)
  | [] => [e]
  | x :: xs => if cmpBytes e.1 x.1 = .lt then e :: x :: xs else x :: insertEntry e xs

def sortEntries : List (Bytes × Nat) → List (Bytes × Nat)
  | [] => []
  | e :: es => insertEntry e (sortEntries es)

/-- one index entry: `int8(len(key)) ‖ key ‖ int64 offset`. -/
def encodeEntry (e : Bytes × Nat) : Bytes := (e.1.length % 256) :: (e.1 ++ le 8 e.2)

def encodeEntries : List (Bytes × Nat) → Bytes
  | [] => []
  | e :: es => encodeEntry e ++ encodeEntries es

/-- `mapIndex.Encode`: the bytes of the `.idx` file (no DB header). -/
def encodeIndex (m : MapIdx) : Bytes := le 4 m.length ++ encodeEntries (sortEntries m)

/-! ## fixedKeyArrayIndex -/

/-- `getKeySize()`: `int8(keylen) + 1 + 8` evaluated in `int8` (wraps for keylen ≥ 119). -/
def keySize (klen : Nat) : Int := toSigned 8 ((klen + 9) % 256)

inductive DecodeRes where
  | ok (buf : Bytes)
  | err
  | panic
deriving Repr, DecidableEq

/-- `fixedKeyArrayIndex.Decode` on the bytes of the `.idx` file: `numKeys` as int32, then ONE `Read` into a
buffer of `numKeys*ksz` bytes (a negative size panics in `make`); fewer bytes than that is an error. -/
def decodeFixed (klen : Nat) (file : Bytes) : DecodeRes :=
  if file.length < 4 then .err
  else
    let numKeys := toSigned 32 (unle (file.take 4))
    let sz := numKeys * keySize klen
    if sz < 0 then .panic
    else
      let rest := file.drop 4
      let szn := sz.toNat
      if szn = 0 then .ok []
      else if rest.length = 0 then .err
      else if rest.length < szn then .err
      else .ok (rest.take szn)

inductive Lookup where
  | found (off : Int)
  | notFound
  | timeout
deriving Repr, DecidableEq

/-- `fkai.buffer[start+1 : start+1+klen]` with `start = ksz*mid`. -/
def entryKey (buf : Bytes) (ksz klen : Nat) (mid : Nat) : Bytes := (buf.drop (ksz * mid + 1)).take klen

/-- `binary.Read(bytes.NewBuffer(fkai.buffer[start+1+klen:]), LittleEndian, &offset)` (int64). -/
def entryOff (buf : Bytes) (ksz klen : Nat) (mid : Nat) : Int :=
  toSigned 64 (unle ((buf.drop (ksz * mid + 1 + klen)).take 8))

/-- The loop of `GetOffset`, `for lo, hi := 0, numKeys-1; lo <= hi; { ... }`, generic in how an entry is read.
`fixed = false` is the code as written: when `lo == hi` and the entry differs from the key, `break` leaves
the `switch` only and the next turn starts with the same `lo, hi`. -/
def searchAux (fixed : Bool) (keyAt : Nat → Bytes) (offAt : Nat → Int) (key : Bytes) : Nat → Int → Int → Lookup
  | 0, _, _ => .timeout
  | fuel + 1, lo, hi =>
    if lo ≤ hi then
      let mid := (lo + hi) / 2
      match cmpBytes (keyAt mid.toNat) key with
      | .eq => .found (offAt mid.toNat)
      | .lt =>
        if lo = hi then (if fixed then .notFound else searchAux fixed keyAt offAt key fuel lo hi)
        else searchAux fixed keyAt offAt key fuel (mid + 1) hi
      | .gt =>
        if lo = hi then (if fixed then .notFound else searchAux fixed keyAt offAt key fuel lo hi)
        else searchAux fixed keyAt offAt key fuel lo (mid - 1)
    else .notFound

/-- number of keys `len(buffer) / ksz` (Go `int` division; the buffer is empty whenever `ksz ≤ 0`). -/
def numKeysOf (buf : Bytes) (klen : Nat) : Int := Int.tdiv (buf.length : Int) (keySize klen)

/-- `fixedKeyArrayIndex.GetOffset` with explicit fuel. -/
def getOffsetFuel (fixed : Bool) (buf : Bytes) (klen : Nat) (key : Bytes) (fuel : Nat) : Lookup :=
  let ksz := (keySize klen).toNat
  searchAux fixed (entryKey buf ksz klen) (entryOff buf ksz klen) key fuel 0 (numKeysOf buf klen - 1)

/-- Fuel that is enough for every terminating run (`Proofs/BlockDB.searchAux_timeout_forever`: a run that
is still going after `numKeys + 1` turns never ends). -/
def enoughFuel (buf : Bytes) (klen : Nat) : Nat := (numKeysOf buf klen).toNat + 2

def getOffset (buf : Bytes) (klen : Nat) (key : Bytes) : Lookup :=
  getOffsetFuel codeIsFixed buf klen key (enoughFuel buf klen)

/-- `fixedKeyArrayIndex.GetKeys` -/
def fixedKeys (buf : Bytes) (klen : Nat) : List Bytes :=
  let ksz := (keySize klen).toNat
  (List.range (numKeysOf buf klen).toNat).map (fun i => entryKey buf ksz klen i)

/-! ## mapIndex.Decode (used when the caller supplies a map index before `Open`) -/

inductive MapDecode where
  | ok (m : List (Bytes × Int))
  | err
  | panic
deriving Repr, DecidableEq

/-- entries of `mapIndex.Decode`: `klen int8`, `klen` bytes (one `Read`), `offset int64`; later entries
overwrite earlier ones with the same key. A negative `klen` panics in `make`. -/
def decodeMapEntries : Nat → Bytes → List (Bytes × Int) → MapDecode
  | 0, _, acc => .ok acc
  | n + 1, bs, acc =>
    match bs with
    | [] => .err
    | kl :: rest =>
      let k := toSigned 8 kl
      if k < 0 then .panic
      else
        let kn := k.toNat
        -- `reader.Read(buf)` on a file: up to kn bytes; 0 bytes at EOF is an error unless kn = 0
        if kn ≠ 0 ∧ rest.length = 0 then .err
        else if rest.length < kn then .err
        else
          let key := rest.take kn
          let rest2 := rest.drop kn
          if rest2.length < 8 then .err
          else
            let off := toSigned 64 (unle (rest2.take 8))
            let acc' := (acc.filter (fun e => e.1 ≠ key)) ++ [(key, off)]
            decodeMapEntries n (rest2.drop 8) acc'

def decodeMap (file : Bytes) : MapDecode :=
  if file.length < 4 then .err
  else
    let numKeys := toSigned 32 (unle (file.take 4))
    -- make(map, negative hint) does not panic (the runtime resets the hint); the loop then runs 0 times
    decodeMapEntries numKeys.toNat (file.drop 4) []

def mapGet : List (Bytes × Int) → Bytes → Lookup
  | [], _ => .notFound
  | (k', o') :: rest, k => if k' = k then .found o' else mapGet rest k

/-- insertion sort by offset (`GetKeys` of the map index: `sort.SliceStable` by offset). -/
def insertByOff (e : Bytes × Int) : List (Bytes × Int) → List (Bytes × Int)
  | [] => [e]
  | x :: xs => if e.2 < x.2 then e :: x :: xs else x :: insertByOff e xs

def sortByOff : List (Bytes × Int) → List (Bytes × Int)
  | [] => []
  | e :: es => insertByOff e (sortByOff es)

/-! ## the data file -/

inductive ReadRes where
  | got (payload : Bytes) (rest : Bytes)
  | eof        -- io.EOF exactly (nothing could be read where something was expected)
  | err        -- any other error (io.ErrUnexpectedEOF, Seek error)
  | panic      -- make([]byte, negative)
deriving Repr, DecidableEq

/-- `bdb.read`: int32 length, then `io.ReadFull`. `src` is the file content from the current position. -/
def readRecord (src : Bytes) : ReadRes :=
  if src.length = 0 then .eof
  else if src.length < 4 then .err
  else
    let dlen := toSigned 32 (unle (src.take 4))
    if dlen < 0 then .panic
    else
      let n := dlen.toNat
      let body := src.drop 4
      if n = 0 then .got [] body
      else if body.length = 0 then .eof
      else if body.length < n then .err
      else .got (body.take n) (body.drop n)

/-- `Seek(offset, 0)` then `bdb.read`: a negative offset is a Seek error; beyond the end reads EOF. -/
def readAt (dat : Bytes) (off : Int) : ReadRes :=
  if off < 0 then .err else readRecord (dat.drop off.toNat)

/-- recorded decompression table: stored bytes ↦ content. -/
abbrev Codec := List (Bytes × Bytes)

def Codec.decompress : Codec → Bytes → Option Bytes
  | [], _ => none
  | (s, c) :: rest, x => if s = x then some c else Codec.decompress rest x

/-- the record `WriteData` appends for the stored payload `p`. -/
def encodeRecord (p : Bytes) : Bytes := le 4 p.length ++ p

/-! ## the database -/

inductive Phase where
  | none | creating | closed | opened
deriving Repr, DecidableEq

inductive OpenIdx where
  | fixed (buf : Bytes)
  | map (m : List (Bytes × Int))
deriving Repr

structure DB where
  klen     : Nat := 0
  compress : Bool := false
  phase    : Phase := .none
  dat      : Bytes := []
  midx     : MapIdx := []
  idx      : Option Bytes := none
  oidx     : OpenIdx := .fixed []
  pos      : Nat := 0         -- write cursor of the data file while creating (`Seek(0,1)`)
  atStart  : Bool := false   -- data file position is 0 (nothing read since Open)
  codec    : Codec := []
deriving Repr

def DB.create (klen : Nat) (compress : Bool) : DB := { klen := klen, compress := compress, phase := .creating }

/-- a `write` of `bs` at offset `pos` of a file: the bytes there are replaced, the file grows if needed, what
lies behind the written bytes stays (no truncation) -/
def overwriteAt (file : Bytes) (pos : Nat) (bs : Bytes) : Bytes :=
  file.take pos ++ bs ++ file.drop (pos + bs.length)

/-- `NewBlockDB(file …).Create()` over files that are ALREADY THERE — what a retry after a crash does:
`os.OpenFile(…, O_RDWR|O_CREATE)` neither truncates nor appends, so the leftover bytes stay and the write
cursor starts at 0; the map index starts empty; the old index file (if any) stays until `Save` overwrites it. -/
def DB.recreate (d : DB) (klen : Nat) (compress : Bool) : DB :=
  { DB.create klen compress with dat := d.dat, idx := d.idx }

/-- `WriteData`: offset = the write cursor (`Seek(0,1)`; on a fresh file that is its end), index entry, then
`len32 ‖ stored` written AT the cursor. `content` is what `Decode` will have to give back. -/
def DB.write (d : DB) (key content stored : Bytes) : DB :=
  { d with midx := d.midx.set key d.pos,
           dat := overwriteAt d.dat d.pos (encodeRecord stored),
           pos := d.pos + (encodeRecord stored).length,
           codec := (stored, content) :: d.codec }

/-- `Save`: write the index file from its start (`O_RDWR|O_CREATE`, no truncation: a longer old file keeps its
tail), close the data file. -/
def DB.save (d : DB) : DB :=
  { d with idx := some (overwriteAt (d.idx.getD []) 0 (encodeIndex d.midx)), phase := .closed }

inductive OpenRes where
  | ok | err | panic
deriving Repr, DecidableEq

/-- `Open` with the default (fixed key array) index. -/
def DB.openFixed (d : DB) : DB × OpenRes :=
  match d.idx with
  | none => (d, .err)
  | some f =>
    match decodeFixed d.klen f with
    | .ok buf => ({ d with oidx := .fixed buf, phase := .opened, atStart := true }, .ok)
    | .err => (d, .err)
    | .panic => (d, .panic)

/-- `SetIndex(newMapIndex()); Open()`. -/
def DB.openMap (d : DB) : DB × OpenRes :=
  match d.idx with
  | none => (d, .err)
  | some f =>
    match decodeMap f with
    | .ok m => ({ d with oidx := .map m, phase := .opened, atStart := true }, .ok)
    | .err => (d, .err)
    | .panic => (d, .panic)

def DB.lookup (d : DB) (key : Bytes) : Lookup :=
  match d.oidx with
  | .fixed buf => getOffset buf d.klen key
  | .map m => mapGet m key

inductive ReadOut where
  | data (content : Bytes)
  | notFound
  | hang
  | err
  | panic
deriving Repr, DecidableEq

def DB.decodePayload (d : DB) (p : Bytes) : Option Bytes :=
  if d.compress then d.codec.decompress p else some p

/-- `BlockDB.Read` -/
def DB.read (d : DB) (key : Bytes) : ReadOut :=
  match d.lookup key with
  | .notFound => .notFound
  | .timeout => .hang
  | .found off =>
    match readAt d.dat off with
    | .got p _ => match d.decodePayload p with
      | some c => .data c
      | none => .err
    | .eof => .err
    | .err => .err
    | .panic => .panic

def DB.keys (d : DB) : List Bytes :=
  match d.oidx with
  | .fixed buf => fixedKeys buf d.klen
  | .map m => (sortByOff m).map (·.1)

/-- `ReadAll` from position 0: as many sequential records as the index has keys; `io.EOF` stops quietly. -/
inductive ReadAllRes where
  | ok (recs : List Bytes)
  | err
  | panic
deriving Repr, DecidableEq

def readSeq (d : DB) : Nat → Bytes → List Bytes → ReadAllRes
  | 0, _, acc => .ok acc.reverse
  | n + 1, src, acc =>
    match readRecord src with
    | .eof => .ok acc.reverse
    | .err => .err
    | .panic => .panic
    | .got p rest =>
      match d.decodePayload p with
      | some c => readSeq d n rest (c :: acc)
      | none => .err

def DB.readAll (d : DB) : ReadAllRes := readSeq d d.keys.length d.dat []

/-- crash simulation: the file keeps its first `n` bytes (`Truncate` also extends with zeros). -/
def truncTo (b : Bytes) (n : Nat) : Bytes := (b ++ List.replicate (n - b.length) 0).take n

end ZChain.BlockDB
