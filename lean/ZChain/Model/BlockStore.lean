/-
Model of `sharder/blockstore/fs_store.go` (`BlockStore.Write/Read`, `writeToDisk/readFromDisk`,
`getBlockFilePath`) over an abstract injective block codec (`zlib ∘ msgpack`, trusted; msgpack is C08's).

* a block with hash `h` is stored in the file `base/h₀/h₁/h₂/h₃/h₄/<h[5:]>.dat.zlib`
  (`getBlockFilePath`; fewer than five characters is an error). The path is modelled as the pair
  `(h.take 5, h.drop 5)`; for hashes without a path separator (hex) it is in bijection with the real path.
* `os.Create` truncates: writing a hash again replaces the file.
* `Write` stores the block a second time under its magic block's hash when
  `b.MagicBlock != nil && b.Round == b.MagicBlock.StartingRound`.
* the cache is `noOpCache` (what `Init` installs without a cache section in the configuration).
The content type `β` stands for the whole serialised block (hash, header, transactions with outputs, magic block).
Core-only.
-/
namespace ZChain.BlockStore

abbrev Path := List Char × List Char

/-- `getBlockFilePath` -/
def path (h : List Char) : Option Path :=
  if h.length < 5 then none else some (h.take 5, h.drop 5)

abbrev Files (β : Type) := List (Path × β)

def Files.get {β : Type} : Files β → Path → Option β
  | [], _ => none
  | (p', b) :: rest, p => if p' = p then some b else Files.get rest p

def Files.set {β : Type} : Files β → Path → β → Files β
  | [], p, b => [(p, b)]
  | (p', b') :: rest, p, b => if p' = p then (p, b) :: rest else (p', b') :: Files.set rest p b

/-- `bStore.write(hash, b)` → `writeToDisk` (the cache write is a no-op). `none` = error, nothing written. -/
def writeFile {β : Type} (s : Files β) (h : List Char) (b : β) : Option (Files β) :=
  match path h with
  | none => none
  | some p => some (s.set p b)

/-- `BlockStore.Write(b)`: under the block hash, and under the magic block hash when the block starts it.
Returns the files afterwards and whether an error was reported (the first file stays written when only the
second write fails). -/
def write {β : Type} (s : Files β) (h : List Char) (b : β) (mbAlias : Option (List Char)) : Files β × Bool :=
  match writeFile s h b with
  | none => (s, false)
  | some s1 =>
    match mbAlias with
    | none => (s1, true)
    | some mh =>
      match writeFile s1 mh b with
      | none => (s1, false)
      | some s2 => (s2, true)

/-- `BlockStore.Read(hash)` → `readFromDisk`: `none` = error (bad hash, no such file). -/
def read {β : Type} (s : Files β) (h : List Char) : Option β :=
  match path h with
  | none => none
  | some p => s.get p

end ZChain.BlockStore
