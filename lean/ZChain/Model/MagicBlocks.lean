/-
Model of `chaincore/round/round_storage.go` (`roundStartingStorage`: complete — Put, putToSlice, Get,
calcNearestRound, FindRoundIndex, GetLatest, Prune, Count, GetRounds, GetRound) and of the magic-block
lookups of `chaincore/chain/entity.go` built on it (`mbRoundOffset`, `GetMagicBlock`,
`GetMagicBlockNoOffset`, `GetLatestMagicBlock`, `GetPrevMagicBlock`, `SetMagicBlock`).

* `items` is the Go map `map[int64]RoundStorageEntity` as an association list (at most one pair per key is kept
  by `mapPut`/`mapDel`); an entity is a `Nat` tag (the harness uses the magic block number).
* `rounds` is the Go slice. `max` is the Go field: raised by `Put`; `Prune` resets it to the last retained round (0 when
  nothing is left) — repo commit 582e5a1; before that commit `Prune` left it alone (finding C40:stale-max-after-prune).
* the loops are transcribed as they are coded: `scan`/`scanIdx` = the ascending scan with `break` of
  `calcNearestRound`/`FindRoundIndex`; `putRev` = the descending scan of `putToSlice` (on the reversed slice);
  `splitAt` = the collecting loop of `Prune` (`pruneRounds`, `pruneIndex`).
* rounds are `Int`; the Go code only compares them, and subtracts `ViewChangeOffset` from a value ≥ 5, so there
  is no int64 wrap-around to model for inputs in the int64 range.
* every method holds `mu` (and the chain methods `mbMutex`) for its whole body: one call = one atomic step.
Core-only (no Mathlib): linked into `zdrv-C40`.
-/
namespace ZChain.MagicBlocks

abbrev Ent := Nat

/-- Go map lookup `items[k]`. -/
def mapGet (k : Int) : List (Int × Ent) → Option Ent
  | [] => none
  | (k', v) :: m => if k' = k then some v else mapGet k m

/-- `delete(items, k)`. -/
def mapDel (k : Int) (m : List (Int × Ent)) : List (Int × Ent) := m.filter (fun p => p.1 ≠ k)

/-- `items[k] = v`. -/
def mapPut (k : Int) (v : Ent) (m : List (Int × Ent)) : List (Int × Ent) := (k, v) :: mapDel k m

structure Store where
  max    : Int
  items  : List (Int × Ent)
  rounds : List Int
deriving Repr

/-- `NewRoundStartingStorage()`. -/
def new : Store := { max := 0, items := [], rounds := [] }

/-- the loop of `calcNearestRound`: `for i … { if round >= rounds[i] { found = rounds[i] } else { break } }`. -/
def scan : List Int → Int → Int → Int
  | [], _, found => found
  | x :: xs, r, found => if r ≥ x then scan xs r x else found

/-- the loop of `FindRoundIndex` (same loop, keeps the index; `i` is the index of the head). -/
def scanIdx : List Int → Int → Int → Int → Int
  | [], _, _, found => found
  | x :: xs, r, i, found => if r ≥ x then scanIdx xs r (i + 1) i else found

/-- `calcNearestRound`. -/
def calcNearest (s : Store) (r : Int) : Int :=
  if r > s.max ∧ s.max > 0 then s.max else scan s.rounds r (-1)

/-- `Get`. -/
def get (s : Store) (r : Int) : Option Ent :=
  let found := calcNearest s r
  if found = -1 then none else mapGet found s.items

/-- `FindRoundIndex`. -/
def findRoundIndex (s : Store) (r : Int) : Int :=
  if r > s.max ∧ s.max > 0 then (s.rounds.length : Int) - 1 else scanIdx s.rounds r 0 (-1)

/-- `GetLatest`. -/
def getLatest (s : Store) : Option Ent :=
  if s.items.length = 0 then none else mapGet s.max s.items

/-- `putToSlice` on the reversed slice: walk down from the last element, stop at the first one `< round`
and insert behind it (i.e. before it in the reversed list); at the front when there is none. -/
def putRev : List Int → Int → List Int
  | [], r => [r]
  | x :: xs, r => if x < r then r :: x :: xs else x :: putRev xs r

def putToSlice (rounds : List Int) (r : Int) : List Int := (putRev rounds.reverse r).reverse

/-- `Put`. -/
def put (s : Store) (e : Ent) (r : Int) : Store :=
  let max' := if r > s.max then r else s.max
  let found := (mapGet r s.items).isSome
  { max := max', items := mapPut r e s.items,
    rounds := if found then s.rounds else putToSlice s.rounds r }

/-- the collecting loop of `Prune`: `(pruneRounds, rounds[pruneIndex+1:])`, `none` when `pruneIndex == -1`. -/
def splitAt (p : Int) : List Int → Option (List Int × List Int)
  | [] => none
  | x :: xs =>
    if p = x then some ([x], xs)
    else match splitAt p xs with
      | none => none
      | some (a, b) => some (x :: a, b)

def delAll (ks : List Int) (m : List (Int × Ent)) : List (Int × Ent) := ks.foldl (fun m k => mapDel k m) m

/-- `s.rounds[n-1]`, or `d` for the empty slice. -/
def lastOr (d : Int) : List Int → Int
  | [] => d
  | x :: t => lastOr x t

/-- `Prune`: `none` = `ErrRoundEntityNotFound` (state unchanged). Ends with
`if n := len(s.rounds); n > 0 { s.max = s.rounds[n-1] } else { s.max = 0 }`. -/
def prune (s : Store) (p : Int) : Option Store :=
  match mapGet p s.items with
  | none => none
  | some _ =>
    match splitAt p s.rounds with
    | none => none
    | some (a, b) => some { max := lastOr 0 b, items := delAll a s.items, rounds := b }

def count (s : Store) : Nat := s.items.length

/-- `GetRound(i)`: `none` = index out of range (Go panics). -/
def getRound (s : Store) (i : Int) : Option Int :=
  if i < 0 then none else s.rounds[i.toNat]?

/-! ### chain/entity.go -/

def viewChangeOffset : Int := 4

/-- `mbRoundOffset`. -/
def mbRoundOffset (rn : Int) : Int := if rn < viewChangeOffset + 1 then rn else rn - viewChangeOffset

/-- `GetMagicBlockNoOffset`: `none` = `Logger.Panic`. -/
def getMagicBlockNoOffset (s : Store) (r : Int) : Option Ent :=
  match get s r with
  | some e => some e
  | none => getLatest s

/-- `GetMagicBlock`. -/
def getMagicBlock (s : Store) (rn : Int) : Option Ent := getMagicBlockNoOffset s (mbRoundOffset rn)

/-- `GetPrevMagicBlock`: `some none` = the chain's `PreviousMagicBlock` field is returned, `some (some e)` = a stored
magic block, `none` = `GetRound` indexed out of range (Go would panic; `Props/C40.getPrevMagicBlock_spec` shows it
does not happen on a good storage). -/
def getPrevMagicBlock (s : Store) (rn : Int) : Option (Option Ent) :=
  let r := mbRoundOffset rn
  let idx := findRoundIndex s r
  if idx ≤ 0 then some none
  else match getRound s (idx - 1) with
    | none => none            -- index out of range: panic
    | some pr => some (get s pr)

inductive Op where
  | put (r : Int) (e : Ent)
  | prune (p : Int)
deriving Repr

def step (s : Store) : Op → Store
  | .put r e => put s e r
  | .prune p => (prune s p).getD s

def run (s : Store) (ops : List Op) : Store := ops.foldl step s

end ZChain.MagicBlocks
