/-!
# Lockset model (C44: shared protocol structures are free of data races)

A *table* of memory accesses, call edges and entry points is extracted from the Go source by
`harness/cmd/xc44` (`Generated/C44.lean`). This file says what the table means and gives the executable
check that `Props/C44.lean` decides over it.

* `Access`: function `fn` reads/writes location `loc` (a field of `round.Round` / `block.Block`, the elements
  `f[]` of a slice/map field, a closure variable of `ValidateTransactions`) while holding `locks` of the SAME object
  (`own`), possibly through `sync/atomic`.
* `Call`: `caller` calls `callee` holding `locks`; the callee inherits them only when it runs on the same object.
* `Entry`: a function the miner/sharder workers may call concurrently; entries of one `group` may run concurrently,
  an entry runs concurrently with itself only if `selfConc`.
* `Runs t e f L`: starting at entry `e`, some call path reaches function `f` with the locks `L` inherited from its
  callers (inductive: ANY path length).

Go memory model reading used here (trusted, see checks/C44.json): two accesses of one location, at least one of
them a write, by concurrently running goroutines are NOT a data race if both are `sync/atomic` operations or if both
hold one mutex and at least one of them holds it exclusively (`Lock`; two `RLock` holders do not exclude each other).

Names (functions, locations, mutexes) are natural numbers: the UTF-8 bytes of the name, base 256 (`nm! "Round.mutex"`),
so that the kernel compares them as GMP numbers instead of strings.

Core-only (no Mathlib): this file is linked into the driver `zdrv-C44`.
-/
namespace ZChain.LockSet

/-- the bytes of a name as one number, most significant byte first -/
def encodeName (s : String) : Nat := s.toUTF8.foldl (fun a b => a * 256 + b.toNat) 0

open Lean in
/-- `nm! "abc"` is the numeral `encodeName "abc"` (computed at elaboration time). -/
macro "nm!" s:str : term => do
  let n := s.getString.toUTF8.foldl (fun a b => a * 256 + b.toNat) 0
  return Syntax.mkNumLit (toString n)

/-- inverse of `encodeName` on ASCII names (for the driver's output); `fuel` = number of bytes at most -/
def decodeAux : Nat → Nat → List Char → List Char
  | 0, _, acc => acc
  | fuel + 1, n, acc => if n = 0 then acc else decodeAux fuel (n / 256) (Char.ofNat (n % 256) :: acc)

def decodeName (n : Nat) : String := String.ofList (decodeAux 200 n [])

structure Lock where
  name : Nat
  excl : Bool
  deriving DecidableEq, Repr

structure Access where
  fn : Nat
  loc : Nat
  write : Bool
  locks : List Lock
  atomic : Bool
  own : Bool
  line : Nat
  deriving DecidableEq, Repr

structure Call where
  caller : Nat
  callee : Nat
  same : Bool
  locks : List Lock
  deriving DecidableEq, Repr

structure Entry where
  fn : Nat
  group : Nat
  selfConc : Bool
  deriving DecidableEq, Repr

structure Table where
  accesses : List Access
  calls : List Call
  entries : List Entry

/-- a function running with inherited locks, on behalf of an entry of `group`; `origin = none` stands for any
self-concurrent entry, `some e` for the entry `e` that cannot run twice at once -/
structure Ctx where
  group : Nat
  origin : Option Nat
  fn : Nat
  locks : List Lock
  deriving DecidableEq, Repr

/-! `allB` / `anyB` / `Nat.beq`: the kernel evaluates these several times faster than `List.all` / `&&` / `==`
(measured; the table check is decided by kernel evaluation). -/
def allB {α : Type} : List α → (α → Bool) → Bool
  | [], _ => true
  | h :: t, p => if p h then allB t p else false

def anyB {α : Type} : List α → (α → Bool) → Bool
  | [], _ => false
  | h :: t, p => if p h then true else anyB t p

/-! Explicit Boolean equality tests (cheap for the kernel to evaluate; `same… = true → =` is proved in Proofs). -/
def boolSame (a b : Bool) : Bool := (a && b) || (!a && !b)

def Lock.same (a b : Lock) : Bool := if Nat.beq a.name b.name then boolSame a.excl b.excl else false

def locksSame : List Lock → List Lock → Bool
  | [], [] => true
  | a :: as, b :: bs => if Lock.same a b then locksSame as bs else false
  | _, _ => false

def optSame : Option Nat → Option Nat → Bool
  | none, none => true
  | some a, some b => Nat.beq a b
  | _, _ => false

def Ctx.same (c d : Ctx) : Bool :=
  if Nat.beq c.fn d.fn then
    if Nat.beq c.group d.group then
      if optSame c.origin d.origin then locksSame c.locks d.locks else false
    else false
  else false

/-- locks the callee starts with -/
def inherit (L : List Lock) (c : Call) : List Lock := if c.same then L ++ c.locks else []

/-- entry `e` can reach function `f` holding (inherited) locks `L` — along a call path of any length -/
inductive Runs (t : Table) (e : Entry) : Nat → List Lock → Prop
  | entry : Runs t e e.fn []
  | call {f : Nat} {L : List Lock} (c : Call) : Runs t e f L → c ∈ t.calls → c.caller = f →
      Runs t e c.callee (inherit L c)

/-- the locks that guard access `a` when its function runs with inherited locks `L` -/
def effLocks (a : Access) (L : List Lock) : List Lock := if a.own then L ++ a.locks else a.locks

/-- two entries may run at the same time -/
def concurrent (e₁ e₂ : Entry) : Prop := e₁.group = e₂.group ∧ (e₁.fn ≠ e₂.fn ∨ e₁.selfConc = true)

/-- one common mutex, held exclusively by at least one side -/
def guards (l₁ l₂ : List Lock) : Bool :=
  anyB l₁ fun a => anyB l₂ fun b => if Nat.beq a.name b.name then (if a.excl then true else b.excl) else false

def synchronised (a₁ : Access) (l₁ : List Lock) (a₂ : Access) (l₂ : List Lock) : Bool :=
  (a₁.atomic && a₂.atomic) || guards l₁ l₂

/-- an unsynchronised conflicting pair: same location, at least one write, neither both atomic nor commonly locked -/
def conflict (a₁ : Access) (l₁ : List Lock) (a₂ : Access) (l₂ : List Lock) : Bool :=
  if Nat.beq a₁.loc a₂.loc then
    if (if a₁.write then true else a₂.write) then !synchronised a₁ l₁ a₂ l₂ else false
  else false

/-- a known-racy pair list entry: (location, function, function), unordered -/
abbrev Known := List (Nat × Nat × Nat)

def listed (k : Known) (loc f g : Nat) : Bool :=
  anyB k fun x =>
    if Nat.beq x.1 loc then
      if Nat.beq x.2.1 f then (if Nat.beq x.2.2 g then true else (if Nat.beq x.2.1 g then Nat.beq x.2.2 f else false))
      else (if Nat.beq x.2.1 g then Nat.beq x.2.2 f else false)
    else false

/-- THE PROPERTY over a table, minus the pairs in `k`: whatever two concurrently callable entries do, along any call
paths, every conflicting pair of accesses is synchronised or one of the listed pairs. `k = []` is the full property. -/
def NoConflictExcept (t : Table) (k : Known) : Prop :=
  ∀ e₁ ∈ t.entries, ∀ e₂ ∈ t.entries, concurrent e₁ e₂ →
  ∀ f₁ L₁ f₂ L₂, Runs t e₁ f₁ L₁ → Runs t e₂ f₂ L₂ →
  ∀ a₁ ∈ t.accesses, ∀ a₂ ∈ t.accesses, a₁.fn = f₁ → a₂.fn = f₂ →
  conflict a₁ (effLocks a₁ L₁) a₂ (effLocks a₂ L₂) = true → listed k a₁.loc a₁.fn a₂.fn = true

/-! ## The executable check -/

def tagOf (e : Entry) : Option Nat := if e.selfConc then none else some e.fn

/-- contexts may belong to concurrently running entries -/
def concTags (g₁ : Nat) (o₁ : Option Nat) (g₂ : Nat) (o₂ : Option Nat) : Bool :=
  if Nat.beq g₁ g₂ then
    match o₁, o₂ with
    | some a, some b => !(Nat.beq a b)
    | _, _ => true
  else false

def concCtx (c₁ c₂ : Ctx) : Bool := concTags c₁.group c₁.origin c₂.group c₂.origin

/-- `cs` contains every entry's start context and is closed under the call edges -/
def closedB (t : Table) (cs : List Ctx) : Bool :=
  (allB t.entries fun e => anyB cs (Ctx.same ⟨e.group, tagOf e, e.fn, []⟩)) &&
  (allB cs fun c => allB t.calls fun cl =>
      if Nat.beq cl.caller c.fn then anyB cs (Ctx.same ⟨c.group, c.origin, cl.callee, inherit c.locks cl⟩) else true)

/-- the accesses each context performs -/
def effs (t : Table) (cs : List Ctx) : List (Ctx × Access) :=
  cs.flatMap fun c => (t.accesses.filter fun a => a.fn == c.fn).map fun a => (c, a)

/-- an access together with the context it runs in, flattened (what the pairwise check looks at) -/
structure Eff where
  group : Nat
  origin : Option Nat
  fn : Nat
  loc : Nat
  write : Bool
  atomic : Bool
  locks : List Lock
  deriving DecidableEq, Repr

def effOf (c : Ctx) (a : Access) : Eff := ⟨c.group, c.origin, a.fn, a.loc, a.write, a.atomic, effLocks a c.locks⟩

def Eff.same (p q : Eff) : Bool :=
  if Nat.beq p.fn q.fn then
    if Nat.beq p.loc q.loc then
      if Nat.beq p.group q.group then
        if optSame p.origin q.origin then
          if boolSame p.write q.write then
            if boolSame p.atomic q.atomic then locksSame p.locks q.locks else false
          else false
        else false
      else false
    else false
  else false

def concEff (p q : Eff) : Bool := concTags p.group p.origin q.group q.origin

def conflictEff (p q : Eff) : Bool :=
  if Nat.beq p.loc q.loc then
    if (if p.write then true else q.write) then !((p.atomic && q.atomic) || guards p.locks q.locks) else false
  else false

def pairOK (k : Known) (p q : Eff) : Bool :=
  if conflictEff p q then (if concEff p q then listed k p.loc p.fn q.fn else true) else true

/-- effective accesses grouped by location (a certificate, like the context list: `coveredB` re-checks it) -/
abbrev Groups := List (Nat × List Eff)

/-- every access of every context appears in a group with its location as key -/
def coveredB (t : Table) (cs : List Ctx) (gs : Groups) : Bool :=
  allB cs fun c => allB t.accesses fun a =>
    if Nat.beq a.fn c.fn then (anyB gs fun g => if Nat.beq g.1 a.loc then anyB g.2 (Eff.same (effOf c a)) else false)
    else true

/-- within (and across equal-keyed) groups every pair is fine -/
def groupsOKB (k : Known) (gs : Groups) : Bool :=
  allB gs fun g => allB gs fun g' =>
    if Nat.beq g.1 g'.1 then (allB g.2 fun p => allB g'.2 fun q => pairOK k p q) else true

def checkB (t : Table) (cs : List Ctx) (gs : Groups) (k : Known) : Bool :=
  coveredB t cs gs && groupsOKB k gs

/-- the conflicting pairs of a table (for the driver and for reports): (location, function, function) -/
def conflictsOf (t : Table) (cs : List Ctx) : List (Nat × Nat × Nat) :=
  let es := effs t cs
  es.flatMap fun p => (es.filter fun q =>
      conflict p.2 (effLocks p.2 p.1.locks) q.2 (effLocks q.2 q.1.locks) && concCtx p.1 q.1).map
    fun q => (p.2.loc, p.2.fn, q.2.fn)

/-- verdict on one (location, function, function) triple:
`racy` some concurrent pair of effective accesses conflicts; `sync` there are concurrent pairs with a write and all are
synchronised; `none` no such pair at all. -/
inductive Verdict | racy | sync | none
  deriving DecidableEq, Repr

def verdictOn (es : List (Ctx × Access)) (loc f g : Nat) : Verdict :=
  let ps := es.filter fun p => p.2.loc == loc && p.2.fn == f
  let qs := es.filter fun q => q.2.loc == loc && q.2.fn == g
  let cand := ps.flatMap fun p => (qs.filter fun q => concCtx p.1 q.1 && (p.2.write || q.2.write)).map fun q => (p, q)
  if cand.isEmpty then .none
  else if cand.any fun pq => conflict pq.1.2 (effLocks pq.1.2 pq.1.1.locks) pq.2.2 (effLocks pq.2.2 pq.2.1.locks) then .racy
  else .sync

def verdict (t : Table) (cs : List Ctx) (loc f g : Nat) : Verdict := verdictOn (effs t cs) loc f g

end ZChain.LockSet
