import ZChain.Model.HashBind
/-
Model of the block-hash mechanism of `chaincore/block/entity.go` (C29):
`getHashData`, `ComputeHash`, `GetMerkleTree`, `GetReceiptsMerkleTree`, `ComputeTxnMap`/`ComputeProperties`
(only the `TxnsMap` part) and `Validate`.

WHAT the functions read — the ordered list of hash-data terms, the separator, the conditional magic-block
suffix, what a Merkle leaf is, the ordered list of `Validate` checks, the struct's fields and their kinds — is
NOT written here: it is the `Table` that `harness/cmd/xc29` regenerates from the Go AST into
`Generated/C29.lean` on every run. This file only gives each table entry its meaning (an interpreter), so that
a source edit that drops a field from `getHashData` changes the generated table, hence the model, hence the
theorems in `Props/C29.lean` that are decided against the table.

Hash functions are parameters: `H` = `encryption.Hash` (hex SHA3-256), `Hmb` = `MagicBlock.GetHash` applied to an
abstract rendering of everything it reads.
Core-only (linked into `zdrv-C29`).
-/
namespace ZChain.BlockHash
open ZChain.HashBind

/-- exported fields of `block.Block`, embedded structs flattened (`UnverifiedBlockBody`, `HashIDField`,
`VersionField`, `CreationDateField`; the embedded `*MagicBlock` counts as one field). The translator emits the
list it finds in the struct type; a field unknown here makes the generated file fail to compile. -/
inductive Field
  | version | creationDate | latestFinalizedMagicBlockHash | latestFinalizedMagicBlockRound | prevHash
  | prevBlockVerificationTickets | minerID | round | roundRandomSeed | roundTimeoutCount | clientStateHash
  | txns | verificationTickets | hash | signature | chainID | roundRank | prevBlock | events | txnsMap
  | clientState | runningTxnCount | magicBlock | stateChangesCount
deriving DecidableEq, Repr

def Field.all : List Field :=
  [.version, .creationDate, .latestFinalizedMagicBlockHash, .latestFinalizedMagicBlockRound, .prevHash,
   .prevBlockVerificationTickets, .minerID, .round, .roundRandomSeed, .roundTimeoutCount, .clientStateHash,
   .txns, .verificationTickets, .hash, .signature, .chainID, .roundRank, .prevBlock, .events, .txnsMap,
   .clientState, .runningTxnCount, .magicBlock, .stateChangesCount]

/-- Go field name -/
def Field.name : Field → String
  | .version => "Version" | .creationDate => "CreationDate"
  | .latestFinalizedMagicBlockHash => "LatestFinalizedMagicBlockHash"
  | .latestFinalizedMagicBlockRound => "LatestFinalizedMagicBlockRound" | .prevHash => "PrevHash"
  | .prevBlockVerificationTickets => "PrevBlockVerificationTickets" | .minerID => "MinerID"
  | .round => "Round" | .roundRandomSeed => "RoundRandomSeed" | .roundTimeoutCount => "RoundTimeoutCount"
  | .clientStateHash => "ClientStateHash" | .txns => "Txns" | .verificationTickets => "VerificationTickets"
  | .hash => "Hash" | .signature => "Signature" | .chainID => "ChainID" | .roundRank => "RoundRank"
  | .prevBlock => "PrevBlock" | .events => "Events" | .txnsMap => "TxnsMap" | .clientState => "ClientState"
  | .runningTxnCount => "RunningTxnCount" | .magicBlock => "MagicBlock"
  | .stateChangesCount => "StateChangesCount"

def Field.ofName (s : String) : Option Field := Field.all.find? (fun f => f.name = s)

/-- one piece written into the hash data -/
inductive Term
  /-- `WriteString(b.<f>)`, `f` string-typed -/
  | str (f : Field)
  /-- `WriteString(strconv.FormatInt(b.<f>,10))` / `strconv.Itoa(b.<f>)` / `common.TimeToString(b.<f>)`,
  also through a getter that returns the field -/
  | dec (f : Field)
  /-- `b.GetMerkleTree().GetRoot()` -/
  | txnRoot
  /-- `b.GetReceiptsMerkleTree().GetRoot()` -/
  | receiptRoot
  /-- `b.MagicBlock.Hash`, first filled with `b.MagicBlock.GetHash()` when it is the empty string -/
  | mbHashOrComputed
deriving DecidableEq, Repr

/-- what `GetHash()` of a Merkle leaf returns -/
inductive Leaf
  /-- `Transaction.GetHash() = t.Hash` -/
  | txnHash
  /-- `TxnReceipt.GetHash() = rh.Transaction.OutputHash` -/
  | txnOutputHash
deriving DecidableEq, Repr

/-- the checks of `Block.Validate`, in source order; the first one that fails is the answer -/
inductive Check
  /-- `config.ValidChain(datastore.ToString(b.ChainID))` -/
  | chainValid
  /-- `b.Hash == ""` → error -/
  | hashNonEmpty
  /-- `datastore.IsEmpty(b.MinerID)` → error -/
  | minerNonEmpty
  /-- `node.GetNode(b.MinerID) == nil` → error -/
  | minerKnown
  /-- `b.TxnsMap != nil && len(b.Txns) != len(b.TxnsMap)` → error -/
  | noDupTxnsIfMap
  /-- `b.Hash != b.ComputeHash()` → error -/
  | hashMatches
  /-- `miner.Verify(b.Signature, b.Hash)` error or false → error -/
  | sigVerifies
deriving DecidableEq, Repr

def Check.name : Check → String
  | .chainValid => "chainValid" | .hashNonEmpty => "hashNonEmpty" | .minerNonEmpty => "minerNonEmpty"
  | .minerKnown => "minerKnown" | .noDupTxnsIfMap => "noDupTxnsIfMap" | .hashMatches => "hashMatches"
  | .sigVerifies => "sigVerifies"

/-- everything the translator extracts from the source -/
structure Table where
  /-- byte written between two terms -/
  sep : Nat
  /-- unconditional terms, in order -/
  terms : List Term
  /-- terms appended (each preceded by the separator) when `b.MagicBlock != nil` -/
  mbSuffix : List Term
  txnLeaf : Leaf
  receiptLeaf : Leaf
  /-- the transaction field `ComputeTxnMap` / `ComputeProperties` use as the `TxnsMap` key -/
  mapKey : Leaf
  checks : List Check
  /-- exported fields of the struct with the kind of their type -/
  fields : List (Field × Kind)

def Table.kindOf (tbl : Table) (f : Field) : Option Kind := (tbl.fields.find? (·.1 = f)).map (·.2)

/-- a term only makes sense for a field of the matching kind -/
def Table.termOk (tbl : Table) : Term → Bool
  | .str f => tbl.kindOf f = some .str
  | .dec f => tbl.kindOf f = some .int
  | _ => true

def Table.wellTyped (tbl : Table) : Bool :=
  (tbl.terms ++ tbl.mbSuffix).all tbl.termOk && (tbl.terms.length ≥ 1)

/-- the block-level view of a transaction: what the two Merkle trees and `TxnsMap` read -/
structure Txn where
  hash : Str
  outputHash : Str
deriving DecidableEq, Repr

def Txn.leaf (t : Txn) : Leaf → Str
  | .txnHash => t.hash
  | .txnOutputHash => t.outputHash

/-- `content` stands for everything `MagicBlock.GetHash()` reads (number, previous hash, starting round,
miner/sharder keys, shares, mpks, T, N); `hash` is the stored `Hash` field. -/
structure MB where
  hash : Str
  content : Str
deriving DecidableEq, Repr

/-- a block: string- and int-kinded fields by name; the structured ones explicitly.
`txnsMap` is the key set of `TxnsMap` (`none` = nil map). -/
structure Block where
  str : Field → Str
  int : Field → Int
  txns : List Txn
  magicBlock : Option MB
  txnsMap : Option (List Str)

def Block.setStr (b : Block) (f : Field) (v : Str) : Block :=
  { b with str := fun g => if g = f then v else b.str g }

def Block.setInt (b : Block) (f : Field) (v : Int) : Block :=
  { b with int := fun g => if g = f then v else b.int g }

def mbHash (Hmb : Str → Str) (m : MB) : Str := if m.hash = [] then Hmb m.content else m.hash

/-- value of one term -/
def render (tbl : Table) (H Hmb : Str → Str) (b : Block) : Term → Str
  | .str f => b.str f
  | .dec f => renderInt (b.int f)
  | .txnRoot => merkleRoot H (b.txns.map (·.leaf tbl.txnLeaf))
  | .receiptRoot => merkleRoot H (b.txns.map (·.leaf tbl.receiptLeaf))
  | .mbHashOrComputed => match b.magicBlock with
    | some m => mbHash Hmb m
    | none => []

/-- the terms `getHashData` writes for this block -/
def termsOf (tbl : Table) (b : Block) : List Term :=
  tbl.terms ++ (if b.magicBlock.isSome then tbl.mbSuffix else [])

def items (tbl : Table) (H Hmb : Str → Str) (b : Block) : List Str :=
  (termsOf tbl b).map (render tbl H Hmb b)

/-- `Block.getHashData()` -/
def hashData (tbl : Table) (H Hmb : Str → Str) (b : Block) : Str :=
  joinSep tbl.sep (items tbl H Hmb b)

/-- `Block.ComputeHash()` -/
def computeHash (tbl : Table) (H Hmb : Str → Str) (b : Block) : Str := H (hashData tbl H Hmb b)

/-- `eraseDups` keeping first occurrences: the key set of a Go map filled in slice order -/
def dedup : List Str → List Str
  | [] => []
  | x :: xs => x :: (dedup xs).filter (· ≠ x)

/-- `ComputeTxnMap` (and the `TxnsMap` part of `ComputeProperties`): keys are the transactions' `Hash` fields -/
def computeTxnMap (tbl : Table) (b : Block) : Block :=
  { b with txnsMap := some (dedup (b.txns.map (·.leaf tbl.mapKey))) }

/-- the node's environment as far as `Validate` looks at it.
`signed` is the idealised signature oracle: `(signer id, message, signature)` triples that the real
`Sign` produced in this run; a signature verifies iff it is one of them (unforgeability — the harness
compares this with the real `Verify` of both schemes). -/
structure Env where
  serverChain : Str
  mainChain : Str
  knownMiners : List Str
  signed : List (Str × Str × Str)

/-- `config.ValidChain` -/
def validChain (env : Env) (c : Str) : Bool :=
  c = env.serverChain || (c = [] && env.serverChain = env.mainChain)

/-- signatures are hex text decoded with `hex.DecodeString` / `DeserializeHexStr`, which accept both letter cases:
two signature strings are the same signature when they agree after lower-casing `A`–`F`. -/
def lowerHex (s : Str) : Str := s.map fun c => if 65 ≤ c ∧ c ≤ 70 then c + 32 else c

/-- `miner.Verify(sig, hash)` in the idealised signature model: `sig` is (a spelling of) a signature that the real
`Sign` produced for exactly this signer and this message. -/
def sigOk (env : Env) (signer hash sig : Str) : Bool :=
  env.signed.any fun t => t.1 = signer && t.2.1 = hash && lowerHex t.2.2 = lowerHex sig

def checkOk (tbl : Table) (H Hmb : Str → Str) (env : Env) (b : Block) : Check → Bool
  | .chainValid => validChain env (b.str .chainID)
  | .hashNonEmpty => b.str .hash ≠ []
  | .minerNonEmpty => b.str .minerID ≠ []
  | .minerKnown => env.knownMiners.contains (b.str .minerID)
  | .noDupTxnsIfMap => match b.txnsMap with
    | none => true
    | some m => b.txns.length = m.length
  | .hashMatches => b.str .hash = computeHash tbl H Hmb b
  | .sigVerifies => sigOk env (b.str .minerID) (b.str .hash) (b.str .signature)

/-- `Block.Validate`: `none` = accepted, `some c` = rejected by check `c` -/
def validate (tbl : Table) (H Hmb : Str → Str) (env : Env) (b : Block) : Option Check :=
  tbl.checks.find? (fun c => !checkOk tbl H Hmb env b c)

end ZChain.BlockHash
