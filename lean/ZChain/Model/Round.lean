/-
Model of `chaincore/round/entity.go` (`Round` and its embedded `timeoutCounter`) — C37.

Sequential part.  The round is a record of the Go fields plus two fields that make the `sync.RWMutex`
`r.mutex` explicit: `mutexHeld` (the write lock is held) and `readers` (number of read locks held).
Every method is written as the sequence of atomic steps of the Go source,

    lock  ·  body (one atomic step: it runs under the lock)  ·  unlock      (or rlock/runlock)

in a small state monad `M` whose `lock`/`rlock` steps answer `blocked` when the lock cannot be taken.
A path that returns without unlocking therefore leaves `mutexHeld = true`, and every later locking
operation answers `blocked` — there is no other goroutine that could release it.

`Restart` (entity.go:646) is written step by step. Since repo commit 4a40ef6 its rejected branch
(`getState() >= Share`) unlocks before it returns; before that commit it returned with the write lock held.
The two control flows differ in ONE step, selected by `Cfg.restartUnlocksOnReject`: `Cfg.code` (flag on) is the
code as it exists — the driver and every property theorem use it; `Cfg.before4a40ef6` (flag off) is the
historical control flow, kept only so that the old defect stays stated (theorems labelled HISTORICAL).

The `timeoutCounter` has its own mutex `tc.mutex`, locked and `defer`-unlocked at the top of every one of
its methods and never left locked; each of its methods is one atomic step here.

`setPhase` (entity.go:725) is a compare-and-swap loop that raises the phase to `state` unless it is already that
high: one step (`setPhaseF`) here when it runs alone; the concurrent model at the end of this file splits it into
its atomic `load` and `cas` steps.

Simplifications (the correspondence run keeps inside them):
* a block is `(hash, RoundRank)`; `Weight()` is `2^-rank`, so for the ranks the generator uses
  (0 ≤ rank ≤ 60, pairwise distinct inside `notarizedBlocks` by construction) "sort by weight descending"
  is "sort by rank ascending"; `sort.Slice` on < 12 elements is Go's insertion sort (stable);
* `minerPerm` is represented by its length only (its content is `rand.Perm`);
* `votes` is never nil (the entity provider calls `resetVotes()`), so the `tc.votes == nil` branch of
  `IncrementTimeoutCount` is unreachable for rounds made by `NewRound` and is left out;
* the ranked miner list of `rankTimeoutCounters` (a `rand.Perm` of the sorted pool) is an argument of the
  operation (DESIGN §3.3); Go `int` arithmetic on the timeout count wraps at 64 bits (`wrap64`).
Not modelled: `GetMinerRank`/`GetMinersByRank` (content of the rank permutation), `Clone`, `vrfStartTime`,
the datastore methods (`Read`/`Write`/`Delete`), `GetKey`.
Core-only.
-/
namespace ZChain.Round

structure Blk where
  hash : Nat
  rank : Int
deriving DecidableEq, Repr, Inhabited

/-- phases (entity.go:28) -/
def ShareVRF : Int := 0
def Verify : Int := 1
def Notarize : Int := 2
def Share : Int := 3
def Complete : Int := 4

/-- finalizing states (entity.go:57) -/
def NotFinalized : Nat := 0
def Finalizing : Nat := 1
def Finalized : Nat := 2

/-- the data fields of `Round` (everything but `r.mutex`) -/
structure D where
  number : Int := 0
  /-- `viper.GetInt("server_chain.round_timeouts.timeout_cap")` -/
  cap : Int := 0
  /-- `node.Self.Underlying().GetKey()` -/
  self : Nat := 0
  phase : Int := 0
  fin : Nat := 0
  proposed : List Blk := []
  notarized : List Blk := []
  block : Option Blk := none
  blockHash : Option Nat := none
  /-- keys of the `shares` map in insertion order (printed sorted) -/
  shares : List Nat := []
  seed : Int := 0
  permLen : Option Nat := none
  vrfOut : Nat := 0
  soft : Nat := 0
  tcount : Int := 0
  votes : List (Nat × Int) := []
  perm : List Nat := []
  prrs : Int := 0
deriving Repr

/-- a round: its data and the state of `r.mutex` (write lock held / number of read locks held) -/
structure R where
  d : D := {}
  mutexHeld : Bool := false
  readers : Nat := 0
deriving Repr

structure Cfg where
  /-- `true` = the code as it exists (since commit 4a40ef6): the rejected branch of `Restart` unlocks `r.mutex` before
  it returns. `false` = the control flow before that commit (returned with the mutex locked). -/
  restartUnlocksOnReject : Bool := true

/-- the code as it exists -/
def Cfg.code : Cfg := {}
/-- HISTORICAL: `Restart` before repo commit 4a40ef6 -/
def Cfg.before4a40ef6 : Cfg := { restartUnlocksOnReject := false }

inductive Ans where
  | unit
  | bool (b : Bool)
  | int (i : Int)
  | errComplete
  | blk (b : Option Blk)
  | blks (l : List Blk)
  | keys (l : List Nat)
  | hash (h : Option Nat)
deriving DecidableEq, Repr

inductive Res (α : Type) where
  | blocked (s : R)
  | ret (a : α) (s : R)

def M (α : Type) := R → Res α

@[inline] def M.pure {α} (a : α) : M α := fun s => .ret a s
@[inline] def M.bind {α β} (m : M α) (f : α → M β) : M β := fun s =>
  match m s with
  | .blocked s' => .blocked s'
  | .ret a s' => f a s'

instance : Monad M where
  pure := M.pure
  bind := M.bind

/-! ### the atomic steps -/

/-- `r.mutex.Lock()` -/
def lock : M Unit := fun s =>
  if s.mutexHeld || s.readers != 0 then .blocked s else .ret () { s with mutexHeld := true }
/-- `r.mutex.Unlock()` -/
def unlock : M Unit := fun s => .ret () { s with mutexHeld := false }
/-- `r.mutex.RLock()` -/
def rlock : M Unit := fun s =>
  if s.mutexHeld then .blocked s else .ret () { s with readers := s.readers + 1 }
/-- `r.mutex.RUnlock()` -/
def runlock : M Unit := fun s => .ret () { s with readers := s.readers - 1 }
/-- one atomic body step -/
def act {α} (f : D → α × D) : M α := fun s => .ret (f s.d).1 { s with d := (f s.d).2 }

/-- `r.mutex.Lock(); defer r.mutex.Unlock(); body` (also the `Lock(); body; Unlock()` methods without an
early return) -/
def locked {α} (f : D → α × D) : M α :=
  M.bind lock fun _ => M.bind (act f) fun a => M.bind unlock fun _ => M.pure a
/-- `r.mutex.RLock(); defer r.mutex.RUnlock(); body` -/
def rlocked {α} (f : D → α × D) : M α :=
  M.bind rlock fun _ => M.bind (act f) fun a => M.bind runlock fun _ => M.pure a

/-! ### bodies -/

/-- `setPhase` run alone: the phase becomes `max phase state` -/
def setPhaseF (p : Int) (s : D) : D := if p > s.phase then { s with phase := p } else s

def wrap64 (x : Int) : Int := (x + 9223372036854775808) % 18446744073709551616 - 9223372036854775808

/-- stable insertion by `RoundRank` (sort.SliceStable / insertion sort) -/
def insRank (x : Blk) : List Blk → List Blk
  | [] => [x]
  | y :: ys => if x.rank ≤ y.rank then x :: y :: ys else y :: insRank x ys

def sortRank (l : List Blk) : List Blk := l.foldr insRank []

/-- `addProposedBlock` -/
def addProposedF (b : Blk) (s : D) : D :=
  if s.proposed.any (fun x => x.hash == b.hash) then
    -- the FIRST entry with that hash is overwritten, then `return`
    { s with proposed := replaceFirst s.proposed }
  else { s with proposed := sortRank (s.proposed ++ [b]) }
where
  replaceFirst : List Blk → List Blk
    | [] => []
    | x :: xs => if x.hash == b.hash then b :: xs else x :: replaceFirst xs

/-- index of the LAST entry with the same rank (the loop keeps overwriting `found`) -/
def lastSameRank (rank : Int) : List Blk → Option Nat
  | [] => none
  | x :: xs => match lastSameRank rank xs with
    | some i => some (i + 1)
    | none => if x.rank = rank then some 0 else none

/-- `AddNotarizedBlock` body -/
def addNotarizedF (b : Blk) (s : D) : D :=
  let s := addProposedF b s
  if s.notarized.any (fun x => x.hash == b.hash) then s   -- merge tickets; return
  else
    let nbs := match lastSameRank b.rank s.notarized with
      | some i => s.notarized.eraseIdx i
      | none => s.notarized
    let s := setPhaseF Share s
    let blk := match s.block with
      | none => some b
      | some c => if c.rank > b.rank then some b else some c
    { s with block := blk, notarized := sortRank (nbs ++ [b]) }

/-- `UpdateNotarizedBlock` body: every proposed entry and every notarized entry with that hash is replaced by the
given block (entity.go:348; the notarized loop stores `b` since repo commit 1ab8ea2 — before, it assigned the old
entry back to itself) -/
def updateNotarizedF (b : Blk) (s : D) : D :=
  { s with proposed := s.proposed.map (fun x => if x.hash == b.hash then b else x),
           notarized := s.notarized.map (fun x => if x.hash == b.hash then b else x) }

/-- `initialize()` + the rest of the accepted branch of `Restart` -/
def restartBodyF (s : D) : D :=
  { s with notarized := [], proposed := [], shares := [], seed := 0, block := none, soft := 0, phase := ShareVRF }

def isFinalizedF (s : D) : Bool := s.fin == Finalized || s.number == 0
def isFinalizingF (s : D) : Bool := s.fin == Finalizing

/-- `AddVRFShare` body -/
def addVRFShareF (k : Nat) (threshold : Int) (s : D) : Ans × D :=
  if threshold ≤ (s.shares.length : Int) then (.bool false, s)
  else if s.shares.contains k then (.bool false, s)
  else (.bool true, { setPhaseF ShareVRF s with shares := s.shares ++ [k] })

/-! ### timeout counter (own mutex, always released: one atomic step per method) -/

def voteOf (votes : List (Nat × Int)) (id : Nat) : Option Int := (votes.find? (·.1 == id)).map (·.2)

def setVote (votes : List (Nat × Int)) (id : Nat) (n : Int) : List (Nat × Int) :=
  if votes.any (·.1 == id) then votes.map (fun p => if p.1 == id then (id, n) else p) else votes ++ [(id, n)]

/-- the loop over `tc.perm`: the first miner (not self) that voted; take its vote if it is larger; `break` -/
def scanVotes (self : Nat) (votes : List (Nat × Int)) (count : Int) : List Nat → Int
  | [] => count
  | m :: ms =>
    if m == self then scanVotes self votes count ms
    else match voteOf votes m with
      | some v => if count < v then v else scanVotes self votes count ms
      | none => scanVotes self votes count ms

def checkCapF (cap : Int) (c : Int) : Int := if cap > 0 ∧ c > cap then cap else c

/-- `IncrementTimeoutCount(prrs, miners)`; `ranked` = what `rankTimeoutCounters(prrs, miners)` computes -/
def incTimeoutF (prrs : Int) (ranked : List Nat) (s : D) : D :=
  if prrs = 0 then s
  else
    let s := if s.perm.isEmpty then { s with perm := ranked, prrs := prrs } else s
    let c := scanVotes s.self s.votes s.tcount s.perm
    let c := if c = s.tcount then wrap64 (c + 1) else c
    { s with votes := [], tcount := checkCapF s.cap c }

/-- `SetTimeoutCount` -/
def setTimeoutF (n : Int) (s : D) : Ans × D :=
  if n ≤ s.tcount then (.bool false, s) else (.bool true, { s with tcount := n })

/-! ### operations -/

inductive Op where
  | getPhase | setPhase (p : Int) | resetPhase (p : Int)
  | addShare (k : Nat) (threshold : Int) | shareExist (k : Nat) | getShares
  | addNotarized (b : Blk) | addProposed (b : Blk) | updateNotarized (b : Blk)
  | getNotarized | getProposed | heaviest | bestNotarized | bestProposed
  | restart
  | finalize (b : Blk) | setFinalizing | setFinalized | resetFinIfNot | resetFin
  | isFinalizing | isFinalized | finState | getBlockHash
  | setTimeout (n : Int) | getTimeout | incTimeout (prrs : Int) (ranked : List Nat) | addVote (n : Int) (id : Nat)
  | setSeed (seed : Int) (n : Nat) | setSeedNB (seed : Int) (n : Nat) | getSeed | hasSeed | ranksComputed
  | setVRFOut (x : Nat) | getVRFOut
  | incSoft | getSoft
deriving Repr

/-- which lock a method holds around its body: `Lock(); defer Unlock()` (or `Lock(); …; Unlock()` without an
early return), `RLock(); defer RUnlock()`, or none (atomics / the timeout counter's own mutex) -/
inductive LK where
  | none | write | read
deriving DecidableEq, Repr

def Op.lk : Op → LK
  | .getPhase | .setPhase _ | .resetPhase _ => .none            -- exported SetPhase/ResetPhase/GetPhase: NO lock
  | .addShare _ _ | .shareExist _ => .write
  | .getShares => .read
  | .addNotarized _ | .addProposed _ | .updateNotarized _ => .write
  | .getNotarized => .none                                      -- GetNotarizedBlocks: no lock
  | .getProposed | .heaviest | .bestNotarized | .bestProposed => .read
  | .restart => .write
  | .finalize _ | .setFinalizing | .setFinalized | .resetFinIfNot | .resetFin => .write
  | .isFinalizing | .isFinalized | .finState => .read
  | .getBlockHash => .write
  | .setTimeout _ | .getTimeout | .incTimeout _ _ | .addVote _ _ => .none
  | .setSeed _ _ | .setSeedNB _ _ => .write
  | .getSeed | .hasSeed => .none
  | .ranksComputed => .read
  | .setVRFOut _ => .write
  | .getVRFOut => .read
  | .incSoft | .getSoft => .none

/-- the body of each method: its answer and its effect on the data -/
def Op.body : Op → D → Ans × D
  | .getPhase, s => (.int s.phase, s)
  | .setPhase p, s => (.unit, setPhaseF p s)
  | .resetPhase p, s => (.unit, { s with phase := p })
  | .addShare k t, s => addVRFShareF k t s
  | .shareExist k, s => (.bool (s.shares.contains k), s)
  | .getShares, s => (.keys s.shares, s)
  | .addNotarized b, s => (.unit, addNotarizedF b s)
  | .addProposed b, s => (.unit, addProposedF b s)
  | .updateNotarized b, s => (.unit, updateNotarizedF b s)
  | .getNotarized, s => (.blks s.notarized, s)
  | .getProposed, s => (.blks s.proposed, s)
  | .heaviest, s => (.blk s.notarized.head?, s)
  | .bestNotarized, s =>
      if s.notarized.length ≤ 1 then (.blk s.notarized.head?, s)
      else (.blk (sortRank s.notarized).head?, { s with notarized := sortRank s.notarized })  -- sorts in place
  | .bestProposed, s =>
      if s.proposed.length ≤ 1 then (.blk s.proposed.head?, s)
      else (.blk (sortRank s.proposed).head?, { s with proposed := sortRank s.proposed })
  | .restart, s =>
      if s.phase ≥ Share then (.errComplete, s)   -- `return CompleteRoundRestartError`
      else (.unit, restartBodyF s)
  | .finalize b, s => (.unit, { s with fin := Finalized, block := some b, blockHash := some b.hash })
  | .setFinalizing, s =>
      if isFinalizedF s || isFinalizingF s then (.bool false, s) else (.bool true, { s with fin := Finalizing })
  | .setFinalized, s => (.unit, { s with fin := Finalized })
  | .resetFinIfNot, s => if isFinalizedF s then (.unit, s) else (.unit, { s with fin := NotFinalized })
  | .resetFin, s => (.unit, { s with fin := NotFinalized })
  | .isFinalizing, s => (.bool (isFinalizingF s), s)
  | .isFinalized, s => (.bool (isFinalizedF s), s)
  | .finState, s => (.int (s.fin : Int), s)
  | .getBlockHash, s => (.hash s.blockHash, s)
  | .setTimeout n, s => setTimeoutF n s
  | .getTimeout, s => (.int s.tcount, s)
  | .incTimeout prrs ranked, s => (.unit, incTimeoutF prrs ranked s)
  | .addVote n id, s => (.unit, { s with votes := setVote s.votes id n })
  | .setSeed seed n, s => if s.seed ≠ 0 then (.unit, s) else (.unit, { s with permLen := some n, seed := seed })
  | .setSeedNB seed n, s => (.unit, { s with permLen := some n, seed := seed })
  | .getSeed, s => (.int s.seed, s)
  | .hasSeed, s => (.bool (s.seed != 0), s)
  | .ranksComputed, s => (.bool s.permLen.isSome, s)
  | .setVRFOut x, s => (.unit, { s with vrfOut := x })
  | .getVRFOut, s => (.int (s.vrfOut : Int), s)
  | .incSoft, s => (.unit, { s with soft := s.soft + 1 })
  | .getSoft, s => (.int (s.soft : Int), s)

/-- `Restart` (entity.go:646), step by step as written:
`Lock(); if getState() >= Share { Unlock(); return err }; initialize(); …; ResetPhase(ShareVRF); Unlock(); return nil`. -/
def restart (cfg : Cfg) : M Ans :=
  M.bind lock fun _ => fun s =>
    if s.d.phase ≥ Share then
      -- `r.mutex.Unlock(); return CompleteRoundRestartError` (the Unlock exists since commit 4a40ef6)
      (if cfg.restartUnlocksOnReject then M.bind unlock (fun _ => M.pure Ans.errComplete) else M.pure Ans.errComplete) s
    else
      (M.bind (act fun d => ((), restartBodyF d)) fun _ => M.bind unlock fun _ => M.pure Ans.unit) s

/-- `SetRandomSeed`: `if r.HasRandomSeed() { return }` (atomic load, no lock); `Lock(); minerPerm = …; Unlock()`;
then the atomic store of the seed -/
def setSeed (seed : Int) (n : Nat) : M Ans := fun s =>
  if s.d.seed ≠ 0 then .ret .unit s
  else (M.bind lock fun _ => M.bind (act fun d => ((), { d with permLen := some n })) fun _ =>
        M.bind unlock fun _ => act fun d => (Ans.unit, { d with seed := seed })) s

/-- `SetRandomSeedForNotarizedBlock` -/
def setSeedNB (seed : Int) (n : Nat) : M Ans :=
  M.bind lock fun _ => M.bind (act fun d => ((), { d with permLen := some n })) fun _ =>
    M.bind unlock fun _ => act fun d => (Ans.unit, { d with seed := seed })

/-- every method as its sequence of atomic steps -/
def opM (cfg : Cfg) (op : Op) : M Ans :=
  match op with
  | .restart => restart cfg
  | .setSeed seed n => setSeed seed n
  | .setSeedNB seed n => setSeedNB seed n
  | op => match op.lk with
    | .none => act op.body
    | .write => locked op.body
    | .read => rlocked op.body

/-- outcome of calling an operation from a goroutine that nobody helps: it returns an answer, or it blocks
for ever (`none`). -/
def step (cfg : Cfg) (s : R) (op : Op) : R × Option Ans :=
  match opM cfg op s with
  | .blocked s' => (s', none)
  | .ret a s' => (s', some a)

def run (cfg : Cfg) (s : R) (ops : List Op) : R := ops.foldl (fun s op => (step cfg s op).1) s

def newRound (number cap : Int) (self : Nat) : R := { d := { number := number, cap := cap, self := self } }

/-! ## Concurrent model of the phase cell

Shared: the phase word (accessed with atomic operations only) and `r.mutex`. A thread is the list of atomic
instructions it still has to execute plus one register (the value its last `load` saw).

`setPhase` (entity.go:725, since repo commit 8870ba0) is a compare-and-swap loop:
`for { cur := Load(phase); if state <= cur || CompareAndSwap(phase, cur, state) { return } }`. Its atomic accesses
to shared memory are the `load` and the `cas`; the comparison `state <= cur` in between is thread-local and is
folded into the `cas` step: `cas v` returns when `v <= reg`, stores `v` and returns when the word still equals `reg`,
and otherwise puts `load · cas v` back in front of the thread's program (the retry).
`setPhaseI v` is the exported, unlocked `SetPhase(v)`; `lockedSetPhaseI v` is `setPhase(v)` as executed inside
`AddNotarizedBlock`/`AddVRFShare` (under `r.mutex`); `resetI v` is `ResetPhase(v)` (the explicit reset, an atomic
store). HISTORICAL: before 8870ba0 `setPhase` was `load · storeIfGt v` (`setPhaseOldI`, `lockedSetPhaseOldI`),
kept only so that the old lost update stays stated.
A schedule is the list of thread ids that take the next step; a thread whose next instruction is `lock` while the
mutex is held does not move (it stays blocked), a finished thread does not move. -/
namespace Conc

inductive Instr where
  | lock | unlock
  | load
  | cas (v : Int)         -- `if v <= reg { return }; if CAS(phase, reg, v) { return }; retry`
  | storeIfGt (v : Int)   -- HISTORICAL (before 8870ba0): `if v > reg { store v }`
  | reset (v : Int)
deriving DecidableEq, Repr

def setPhaseI (v : Int) : List Instr := [.load, .cas v]
def lockedSetPhaseI (v : Int) : List Instr := [.lock, .load, .cas v, .unlock]
def resetI (v : Int) : List Instr := [.reset v]
/-- HISTORICAL: `setPhase` before repo commit 8870ba0 -/
def setPhaseOldI (v : Int) : List Instr := [.load, .storeIfGt v]
def lockedSetPhaseOldI (v : Int) : List Instr := [.lock, .load, .storeIfGt v, .unlock]

structure Thread where
  rem : List Instr
  reg : Int := 0
deriving Repr

structure CS where
  phase : Int
  mutex : Bool
  thr : Nat → Thread

def upd (f : Nat → Thread) (i : Nat) (t : Thread) : Nat → Thread := fun j => if j = i then t else f j

/-- thread `i` executes its next atomic instruction -/
def cstep (s : CS) (i : Nat) : CS :=
  let t := s.thr i
  match t.rem with
  | [] => s
  | .lock :: rest => if s.mutex then s else { s with mutex := true, thr := upd s.thr i { t with rem := rest } }
  | .unlock :: rest => { s with mutex := false, thr := upd s.thr i { t with rem := rest } }
  | .load :: rest => { s with thr := upd s.thr i { rem := rest, reg := s.phase } }
  | .cas v :: rest =>
    if v ≤ t.reg then { s with thr := upd s.thr i { t with rem := rest } }
    else if s.phase = t.reg then { s with phase := v, thr := upd s.thr i { t with rem := rest } }
    else { s with thr := upd s.thr i { t with rem := .load :: .cas v :: rest } }
  | .storeIfGt v :: rest =>
    { s with phase := if v > t.reg then v else s.phase, thr := upd s.thr i { t with rem := rest } }
  | .reset v :: rest => { s with phase := v, thr := upd s.thr i { t with rem := rest } }

def crun (s : CS) (sched : List Nat) : CS := sched.foldl cstep s

/-- the phases seen after each step of the schedule (the initial phase first) -/
def trace (s : CS) : List Nat → List Int
  | [] => [s.phase]
  | i :: is => s.phase :: trace (cstep s i) is

def initCS (phase : Int) (progs : List (List Instr)) : CS :=
  { phase := phase, mutex := false, thr := fun i => { rem := progs.getD i [] } }

end Conc

/-! ## Concurrent model of the finalizing state

Shared: `r.finalizingState` (a plain field, only touched under `r.mutex`), the round number (round 0 always counts as
finalized) and the `sync.RWMutex` `r.mutex` (write lock held / number of read locks held). A thread is the list of
atomic instructions it still has to execute plus one register (the result of its last test). The methods, as the
atomic-step lists they are in the code (entity.go:450-500):

* `ResetFinalizingStateIfNotFinalized`: `Lock(); if r.isFinalized() { return }; r.setFinalizingPhase(NotFinalized); Unlock()`
  = `lock · test isFinalized · store NotFinalized unless the test was true · unlock` — test and store in ONE critical section;
* `SetFinalizing`: `lock · test (isFinalized || isFinalizing) · store Finalizing unless true · unlock`;
* `Finalize(b)` / `SetFinalized`: `lock · store Finalized · unlock`.
(`ResetFinalizingState`, the unconditional reset, is the one operation the property allows to un-finalize; it is not
part of these programs.)  `resetIfNotSplitI` is NOT in the code: it is the variant that tests under a read lock,
releases it, and then stores under the write lock — used only to show that the single critical section is needed. -/
namespace FinConc

inductive Instr where
  | lock | unlock | rlock | runlock
  | testFinalized                 -- reg := isFinalized()
  | testFinalizedOrFinalizing     -- reg := isFinalized() || isFinalizing()
  | testNotFinalizing             -- reg := !isFinalizing()
  | storeUnless (v : Nat)         -- if !reg { finalizingState = v }
  | store (v : Nat)
deriving DecidableEq, Repr

inductive Call where
  | resetIfNot | setFinalizing | finalize
deriving DecidableEq, Repr

def Call.instrs : Call → List Instr
  | .resetIfNot => [.lock, .testFinalized, .storeUnless NotFinalized, .unlock]
  | .setFinalizing => [.lock, .testFinalizedOrFinalizing, .storeUnless Finalizing, .unlock]
  | .finalize => [.lock, .store Finalized, .unlock]

/-- NOT the code: test under the read lock, store later under the write lock -/
def resetIfNotSplitI : List Instr :=
  [.rlock, .testNotFinalizing, .runlock, .lock, .storeUnless NotFinalized, .unlock]

structure Thread where
  rem : List Instr
  reg : Bool := false
deriving Repr

structure CS where
  fin : Nat
  number : Int
  mutex : Bool
  readers : Nat
  thr : Nat → Thread

def CS.isFinalized (s : CS) : Bool := s.fin == Finalized || s.number == 0

def upd (f : Nat → Thread) (i : Nat) (t : Thread) : Nat → Thread := fun j => if j = i then t else f j

/-- thread `i` executes its next atomic instruction (a thread that cannot take the lock does not move) -/
def cstep (s : CS) (i : Nat) : CS :=
  let t := s.thr i
  match t.rem with
  | [] => s
  | .lock :: rest =>
    if s.mutex || s.readers != 0 then s else { s with mutex := true, thr := upd s.thr i { t with rem := rest } }
  | .unlock :: rest => { s with mutex := false, thr := upd s.thr i { t with rem := rest } }
  | .rlock :: rest =>
    if s.mutex then s else { s with readers := s.readers + 1, thr := upd s.thr i { t with rem := rest } }
  | .runlock :: rest => { s with readers := s.readers - 1, thr := upd s.thr i { t with rem := rest } }
  | .testFinalized :: rest => { s with thr := upd s.thr i { rem := rest, reg := s.isFinalized } }
  | .testFinalizedOrFinalizing :: rest =>
    { s with thr := upd s.thr i { rem := rest, reg := s.isFinalized || s.fin == Finalizing } }
  | .testNotFinalizing :: rest => { s with thr := upd s.thr i { rem := rest, reg := !(s.fin == Finalizing) } }
  | .storeUnless v :: rest =>
    { s with fin := (if t.reg then s.fin else v), thr := upd s.thr i { t with rem := rest } }
  | .store v :: rest => { s with fin := v, thr := upd s.thr i { t with rem := rest } }

def crun (s : CS) (sched : List Nat) : CS := sched.foldl cstep s

/-- the finalizing states seen after each step of the schedule (the initial one first) -/
def trace (s : CS) : List Nat → List Nat
  | [] => [s.fin]
  | i :: is => s.fin :: trace (cstep s i) is

def initCS (fin : Nat) (number : Int) (progs : List (List Instr)) : CS :=
  { fin := fin, number := number, mutex := false, readers := 0, thr := fun i => { rem := progs.getD i [] } }

end FinConc

end ZChain.Round
