import ZChain.Base.F64
import ZChain.Base.Coin
import ZChain.Base.Alg
import ZChain.Generated.C15
/-!
# Model of read-marker redemption (`read_redeem`) — C15

Transcribed: `smartcontract/storagesc/blobber.go` `commitBlobberRead` (lines 529-751),
`models.go` `ReadConnection.GetKey`, `ReadMarker.GetHashData / VerifySignature / Verify / VerifyClientID`
(1946-2047), `readpool.go` `moveToBlobber`, `readPoolLock(Internal)`, `readPoolUnlock`, and the part of
`stakepool.DistributeRewards` that decides *whether* and *how much* is credited (the per-delegate split is C10's).

Conventions
* ids are naturals, `0` is the empty string. A public-key *string* is named by an index into a key universe;
  `Crypto.pkOf` is `bls.PublicKey.DeserializeHexStr` (`none` = undecodable), `Crypto.idOf` is
  `encryption.Hash(pub.Serialize())`, `Crypto.Hm` is the message point of `encryption.Hash(GetHashData())`.
  Signatures live in the exponent (`Base/Alg`): `verifyLib pk h σ`.
* The signed message is the list of the values of `Generated.C15.signedFields` (extracted from `GetHashData`
  on every run), the storage key is the list of the values of `Generated.C15.keyFields` (extracted from
  `GetKey`); `CHUNK_SIZE` and `GB` are extracted too. That the `%v:%v…` rendering and the plain concatenation
  of ids are injective on well-formed ids (64 hex digits, decimal integers) is assumed, not modelled.
* `numReads * CHUNK_SIZE` is an `int64` product: it **wraps** (`wrapI64`), as in Go. Since /repo commit 83c108b
  `commitBlobberRead` refuses an increment outside `[0, MaxInt64/CHUNK_SIZE]` before computing it (`maxDelta`, error
  class `range`), so on every accepted marker the product is the true byte count (`Proofs/ReadPrice.wrap_in_range`).
  `currency.Coin(float64(price) * sizeRead)` is a raw `uint64(f)` conversion: `F64.toNatTrunc`, `none` =
  out of range (≥ 2^64 once the increment is in range), which Go leaves implementation-defined. On amd64 (Go 1.23) such a
  conversion yields a word ≥ 2^63, more than any read pool can hold (supply 4·10^18 < 2^63), so the
  redemption fails with "not enough tokens"; the model answers `insufficient` there and **no theorem relies
  on that branch** (they all carry `chargeOf … = some v`).
* not modelled: the event emissions, `DataReadLastRewardRound` (a float statistic) and the ongoing
  block-reward partition update (only taken after the blobber passed a challenge in the current reward
  period; the harness has no challenges), the per-delegate split inside `DistributeRewards` (aggregate only).
Core-only.
-/
namespace ZChain.ReadMarker
open ZChain ZChain.Generated.C15

/-! ## association lists -/

def aGet {κ α : Type} [DecidableEq κ] : List (κ × α) → κ → Option α
  | [], _ => none
  | (k, v) :: rest, a => if k = a then some v else aGet rest a

def aSet {κ α : Type} [DecidableEq κ] : List (κ × α) → κ → α → List (κ × α)
  | [], a, v => [(a, v)]
  | (k, w) :: rest, a, v => if k = a then (k, v) :: rest else (k, w) :: aSet rest a v

/-! ## pricing -/

/-- Go `int64` wrap-around of an exact integer. -/
def wrapI64 (i : Int) : Int := Coin.u64ToI64 (Coin.i64ToU64 i)

/-- `sizeInGB(numReads * CHUNK_SIZE)`: `float64(size) / GB` with the `int64` product. -/
def sizeRead (numReads : Int) : F64 :=
  F64.div (F64.ofInt (wrapI64 (numReads * (chunkSize : Int)))) (F64.ofNat gb)

/-- `math.MaxInt64 / CHUNK_SIZE`: the largest counter increment whose byte count fits an `int64` (the guard added by
/repo commit 83c108b). -/
def maxDelta : Int := 9223372036854775807 / (chunkSize : Int)

/-- `currency.Coin(float64(details.Terms.ReadPrice) * sizeRead)`; `none` = conversion out of range. -/
def chargeOf (price : Nat) (numReads : Int) : Option Nat :=
  F64.toNatTrunc (F64.mul (F64.ofNat price) (sizeRead numReads))

/-! ## markers and crypto -/

structure Crypto (F : Type) where
  pkOf : Nat → Option F
  idOf : Nat → Nat
  Hm : List Int → F

structure Marker (F : Type) where
  client : Nat
  pk : Nat
  blobber : Nat
  alloc : Nat
  owner : Nat
  ts : Int
  ctr : Int
  sig : Option F
deriving Repr

/-- the value of a `ReadMarker` field as a message component (`Signature`, `ReadSize` are not such values). -/
def Marker.field {F : Type} (m : Marker F) : Field → Option Int
  | .ClientID => some m.client
  | .ClientPublicKey => some m.pk
  | .BlobberID => some m.blobber
  | .AllocationID => some m.alloc
  | .OwnerID => some m.owner
  | .Timestamp => some m.ts
  | .ReadCounter => some m.ctr
  | .Signature => none
  | .ReadSize => none

/-- `GetHashData()`. -/
def hashData {F : Type} (m : Marker F) : Option (List Int) := signedFields.mapM m.field

/-- `ReadConnection.GetKey`. -/
def keyOf {F : Type} (m : Marker F) : Option (List Int) := keyFields.mapM m.field

section
variable {F : Type} [Mul F] [Zero F] [DecidableEq F]

/-- `VerifyClientID`. -/
def verifyClientID (cr : Crypto F) (m : Marker F) : Bool :=
  match cr.pkOf m.pk with
  | none => false
  | some _ => decide (cr.idOf m.pk = m.client)

/-- `VerifySignature(rm.ClientPublicKey)`. -/
def verifySig (cr : Crypto F) (m : Marker F) : Bool :=
  match cr.pkOf m.pk, m.sig, hashData m with
  | some pk, some σ, some msg => Alg.verifyLib pk (cr.Hm msg) σ
  | _, _, _ => false

inductive Err where
  | clientId | fields | prev | sig | noAlloc | early | late | notInAlloc | noBlobber
  | insufficient | distribute | overflow | unsupported | range
deriving DecidableEq, Repr

/-- `if !c { return err }`. -/
def need (c : Bool) (e : Err) : Except Err Unit := if c then .ok () else .error e

/-- the comparison with the previously stored marker (`prevRM != nil`). -/
def prevBad (m : Marker F) (prev : Option (Marker F)) : Bool :=
  match prev with
  | some p => decide (m.client ≠ p.client ∨ m.blobber ≠ p.blobber ∨ m.ctr < p.ctr)
  | none => false

/-- `ReadMarker.Verify(prevRM)`. -/
def verify (cr : Crypto F) (m : Marker F) (prev : Option (Marker F)) : Except Err Unit := do
  need (!decide (m.ctr ≤ 0 ∨ m.blobber = 0 ∨ m.client = 0 ∨ m.ts = 0)) .fields
  need (!prevBad m prev) .prev
  need (verifySig cr m) .sig

end

/-! ## state -/

/-- `BlobberAllocation` (read side). -/
structure BA where
  blobber : Nat
  price : Nat          -- Terms.ReadPrice
  readReward : Nat
  numReads : Int
deriving Repr, DecidableEq

structure Alloc where
  owner : Nat
  start : Int
  expiration : Int
  numReads : Int
  bas : List BA
deriving Repr, DecidableEq

/-- the blobber's stake pool, aggregated. -/
structure SP where
  killed : Bool
  stake : Nat
  minStake : Nat
  nPools : Nat
  charge : F64         -- Settings.ServiceChargeRatio
  reward : Nat         -- sp.Reward
  delegates : Nat      -- Σ delegate pool rewards
deriving Repr, DecidableEq

abbrev Key := List Int

structure St (F : Type) where
  allocs : List (Nat × Alloc)
  sps : List (Nat × SP)
  pools : List (Nat × Nat)          -- client id ↦ read pool balance (absent ≠ 0)
  last : List (Key × Marker F)      -- stored ReadConnection per key
  wallets : List (Nat × Nat)        -- client wallets
  scWallet : Nat                    -- the storage contract's own wallet
  minLock : Nat

def St.lastCtr {F : Type} (s : St F) (k : Key) : Int := ((aGet s.last k).map (·.ctr)).getD 0
def St.pool {F : Type} (s : St F) (c : Nat) : Nat := (aGet s.pools c).getD 0

/-- `stakepool.DistributeRewards(value)`, aggregated: whether the value is credited at all, the service-charge part,
and the part handed to the delegates (its closing assertion makes the credited total equal `value`). -/
def distribute (sp : SP) (value : Nat) : Except Unit SP :=
  if value = 0 ∨ sp.killed = true ∨ sp.stake < sp.minStake then .ok sp
  else if sp.nPools = 0 then
    match Coin.addCoin sp.reward value with
    | .ok r => .ok { sp with reward := r }
    | .error _ => .error ()
  else
    match Coin.float64ToCoin (F64.mul sp.charge (Coin.toFloat64 value)) with
    | .error _ => .error ()
    | .ok sc =>
      match (if 0 < sc then Coin.addCoin sp.reward sc else .ok sp.reward) with
      | .error _ => .error ()
      | .ok r =>
        let left := Coin.wrapSub value sc
        if left = 0 then .ok { sp with reward := r }
        else if sp.stake = 0 then .error ()
        else if value < sc then .error ()        -- the closing assertion would panic (Σ ≠ value)
        else match Coin.addCoin sp.delegates left with
          | .ok d => .ok { sp with reward := r, delegates := d }
          | .error _ => .error ()

def setBA (bas : List BA) (b : BA) : List BA :=
  bas.map (fun x => if x.blobber = b.blobber then b else x)

section
variable {F : Type} [Mul F] [Zero F] [DecidableEq F]

/-- a lookup whose failure is the error `e`. -/
def getOr {α : Type} (o : Option α) (e : Err) : Except Err α :=
  match o with
  | some a => .ok a
  | none => .error e

/-- any error of `x` becomes `e`. -/
def mapErr {ε α : Type} (x : Except ε α) (e : Err) : Except Err α :=
  match x with
  | .ok a => .ok a
  | .error _ => .error e

/-- `commitBlobberRead` after input decoding, statement by statement. Returns the new state and the value moved out of
the read pool. -/
def commit (cr : Crypto F) (s : St F) (m : Marker F) : Except Err (St F × Nat) := do
  need (verifyClientID cr m) .clientId
  let key ← getOr (keyOf m) .unsupported
  let lastRM := aGet s.last key
  let lastKnownCtr : Int := (lastRM.map (·.ctr)).getD 0
  verify cr m lastRM
  let al ← getOr (aGet s.allocs m.alloc) .noAlloc
  need (decide (al.start ≤ m.ts)) .early
  need (decide (m.ts ≤ al.expiration)) .late
  let d ← getOr (al.bas.find? (fun d => d.blobber = m.blobber)) .notInAlloc
  let sp ← getOr (aGet s.sps m.blobber) .noBlobber
  let numReads := m.ctr - lastKnownCtr
  -- since 83c108b: `if d < 0 || d > math.MaxInt64/CHUNK_SIZE { "read counter increment is out of range" }`
  need (decide (0 ≤ numReads ∧ numReads ≤ maxDelta)) .range
  let value ← getOr (chargeOf d.price numReads) .insufficient
  let bal := s.pool m.client
  need (decide (value ≤ bal)) .insufficient
  let sp' ← mapErr (distribute sp value) .distribute
  let rr ← mapErr (Coin.addCoin d.readReward value) .overflow
  let d' := { d with readReward := rr, numReads := d.numReads + 1 }
  let al' := { al with numReads := al.numReads + 1, bas := setBA al.bas d' }
  return ({ s with
            pools := aSet s.pools m.client (bal - value)
            sps := aSet s.sps m.blobber sp'
            allocs := aSet s.allocs m.alloc al'
            last := aSet s.last key m }, value)

end

inductive LockErr where
  | minLock | zeroLock | noTokens | balance | overflow | noPool | rejected
deriving DecidableEq, Repr

/-- `readPoolLock` (+ the engine's transfer client → contract). -/
def lock {F : Type} (s : St F) (sender target value : Nat) : Except LockErr (St F) :=
  if value < s.minLock then .error .minLock
  else if value = 0 then .error .zeroLock
  else match aGet s.wallets sender with
  | none => .error .noTokens
  | some w =>
    if value > w then .error .balance
    else match Coin.addCoin (s.pool target) value with
    | .error _ => .error .overflow
    | .ok p => .ok { s with pools := aSet s.pools target p, wallets := aSet s.wallets sender (w - value), scWallet := s.scWallet + value }

/-- `readPoolUnlock` (+ the engine's transfer contract → client; an uncovered transfer rejects the transaction). -/
def unlock {F : Type} (s : St F) (sender : Nat) : Except LockErr (St F × Nat) :=
  match aGet s.pools sender with
  | none => .error .noPool
  | some b =>
    if s.scWallet < b then .error .rejected
    else .ok ({ s with pools := aSet s.pools sender 0, wallets := aSet s.wallets sender ((aGet s.wallets sender).getD 0 + b), scWallet := s.scWallet - b }, b)

/-! ## histories -/

inductive Op (F : Type) where
  | commit (m : Marker F)
  | lock (sender target value : Nat)
  | unlock (sender : Nat)

/-- one successful redemption, as the ledger sees it. -/
structure Entry where
  key : Key
  client : Nat
  price : Nat
  fromCtr : Int
  toCtr : Int
  value : Nat
deriving Repr, DecidableEq

section
variable {F : Type} [Mul F] [Zero F] [DecidableEq F]

/-- the read price `commit` uses for a marker in a state (0 when it does not get that far). -/
def priceFor (s : St F) (m : Marker F) : Nat :=
  match aGet s.allocs m.alloc with
  | none => 0
  | some al => match al.bas.find? (fun d => d.blobber = m.blobber) with
    | none => 0
    | some d => d.price

/-- a failed transaction leaves the state as it was (the engine discards the contract's writes). -/
def step (cr : Crypto F) (s : St F) : Op F → St F × Option Entry
  | .commit m =>
    match commit cr s m with
    | .ok (s', v) =>
      let k := (keyOf m).getD []
      (s', some ⟨k, m.client, priceFor s m, s.lastCtr k, m.ctr, v⟩)
    | .error _ => (s, none)
  | .lock a t v => match lock s a t v with
    | .ok s' => (s', none)
    | .error _ => (s, none)
  | .unlock a => match unlock s a with
    | .ok (s', _) => (s', none)
    | .error _ => (s, none)

/-- run a history; the log lists the successful redemptions in order. -/
def run (cr : Crypto F) : St F → List (Op F) → St F × List Entry
  | s, [] => (s, [])
  | s, op :: ops =>
    let (s1, e) := step cr s op
    let (s2, es) := run cr s1 ops
    (s2, match e with | some x => x :: es | none => es)

end

end ZChain.ReadMarker
