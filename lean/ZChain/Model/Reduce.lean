/-
Model of `SimpleNodes.reduce` (smartcontract/minersc/models.go:127-211), the node selection of a view
change, called by `DKGMinerNodes.reduceNodes` (models.go:872, limit = `gn.MaxN`, pool = miners of the
latest finalized magic block, seed = its `RoundRandomSeed`) and by `reduceShardersList` (dkg.go:407,
limit = `gn.MaxS`, pool = its sharders).

* A candidate is `(id, stake)`: `SimpleNode.ID` and `SimpleNode.TotalStaked` (currency.Coin = uint64) are
  the only fields `reduce` reads. Ids are fixed-width hex strings in the chain (client ids); Go compares
  them bytewise, which for equal width is the numeric order, so `id : Nat` with `<` is faithful (the
  harness uses fixed-width ids).
* The receiver is a Go map: its iteration order is arbitrary. The model takes the candidates as a list in
  *some* order; `Props/C39.reduce_order_irrelevant` proves the result does not depend on that order.
* `sort.SliceStable(less)` is modelled by a stable insertion sort with the same `less` (`before`); a stable
  sort is a function of its input and `less`, whatever the algorithm.
* `pmbnp != nil && pmbnp.HasNode(id)` is the predicate `inPrev` (constantly false for a nil pool).
* `rand.New(rand.NewSource(pmbrss)).Perm(n)` is not re-implemented: `perms n` is the permutation Go
  produced for length `n` under the call's seed (the harness passes the table for every `n ≤ #candidates`).
* `int(math.Ceil(xPercent*float64(maxNodes)))` is `quota` below: an exact model of the binary64 product
  (round to nearest even) followed by `Ceil`, on the bit pattern of `xPercent`.
* Go panics (`pmbNodes[:x]` with negative `x`) are the answer `none`.
Core-only (no Mathlib): linked into `zdrv-C39`.
-/
namespace ZChain.Reduce

structure Node where
  id    : Nat
  stake : Nat
deriving DecidableEq, Repr, Inhabited

/-- the `less` closure given to both `sort.SliceStable` calls: stake descending, then id ascending. -/
def before (a b : Node) : Bool :=
  if a.stake = b.stake then decide (a.id < b.id) else decide (a.stake > b.stake)

/-- insertion step of a stable sort: `x` stood before every element of the (sorted) tail. -/
def insertBy (x : Node) : List Node → List Node
  | [] => [x]
  | y :: ys => if before y x then y :: insertBy x ys else x :: y :: ys

/-- `sort.SliceStable(l, before)`. -/
def isort (l : List Node) : List Node := l.foldr insertBy []

/-- The search for the range of equal stakes (models.go:166-175, since commit 51a7e0c with `-1` as the
"not found yet" marker; before it `0` was the marker, so a range starting at index 0 was taken to start at 1):
```
s, e := -1, len(newNodes)
for i, sn := range newNodes {
    if s < 0 && sn.TotalStaked == stake { s = i } else if sn.TotalStaked < stake { e = i; break }
}
```
`tieLoop stake rest i s e` runs the loop on the remaining elements `rest` starting at index `i`; `s = none` is `-1`. -/
def tieLoop (stake : Nat) : List Node → Nat → Option Nat → Nat → Option Nat × Nat
  | [], _, s, e => (s, e)
  | sn :: rest, i, s, e =>
    if s.isNone = true ∧ sn.stake = stake then tieLoop stake rest (i + 1) (some i) e
    else if sn.stake < stake then (s, i)
    else tieLoop stake rest (i + 1) s e

/-- models.go:182-186: `for _, j := range perm { if len(selected) < maxNodes { selected = append(selected, tie[j]) } }`. -/
def pickLoop (maxNodes : Nat) (tie : List Node) : List Nat → List Node → List Node
  | [], sel => sel
  | j :: js, sel =>
    pickLoop maxNodes tie js (if sel.length < maxNodes then sel ++ [tie.getD j default] else sel)

structure Result where
  maxNodes : Nat
  selected : List Node
deriving DecidableEq, Repr

/-- previous-set members, sorted (`pmbNodes` after the first sort). -/
def pmbSorted (cs : List Node) (inPrev : Nat → Bool) : List Node :=
  isort (cs.filter fun n => inPrev n.id)

/-- `x := min(len(pmbNodes), q)` for a non-negative `q`. -/
def quotaSize (cs : List Node) (inPrev : Nat → Bool) (q : Nat) : Nat :=
  min (pmbSorted cs inPrev).length q

/-- `selectedNodes = pmbNodes[:x]`: the previous-set members taken unconditionally. -/
def quotaNodes (cs : List Node) (inPrev : Nat → Bool) (q : Nat) : List Node :=
  (pmbSorted cs inPrev).take (quotaSize cs inPrev q)

/-- `newNodes` after the second sort: the new candidates plus the previous-set members beyond the quota. -/
def restSorted (cs : List Node) (inPrev : Nat → Bool) (q : Nat) : List Node :=
  isort ((cs.filter fun n => !inPrev n.id) ++ (pmbSorted cs inPrev).drop (quotaSize cs inPrev q))

/-- `reduce` for a non-negative `q = int(math.Ceil(xPercent*float64(maxNodes)))`.
`y := maxNodes - x` is an `int` in Go and may be negative (when `q > maxNodes`): the first test
`len(newNodes) <= y` is then false and so is `y > 0`. -/
def reduceN (cs : List Node) (limit : Nat) (q : Nat) (inPrev : Nat → Bool) (perms : Nat → List Nat) : Result :=
  let maxNodes := min limit cs.length
  let x := quotaSize cs inPrev q
  let sel0 := quotaNodes cs inPrev q
  let new := restSorted cs inPrev q
  if x ≤ maxNodes ∧ new.length ≤ maxNodes - x then
    ⟨maxNodes, sel0 ++ new⟩
  else if x < maxNodes then
    let y := maxNodes - x
    let stake := (new.getD (y - 1) default).stake
    let se := tieLoop stake new 0 none new.length
    -- `stake` is the stake of `new[y-1]`, so the loop always finds a start (`Proofs/Reduce.tieLoop_of_sorted`);
    -- with `s = -1` Go would panic on `newNodes[:s]`
    let s := se.1.getD 0
    let sel1 := sel0 ++ new.take s
    let tie := (new.drop s).take (se.2 - s)
    ⟨maxNodes, pickLoop maxNodes tie (perms tie.length) sel1⟩
  else
    ⟨maxNodes, sel0⟩

/-- `reduce` with the quota as Go computes it (an `int`); a negative quota makes `pmbNodes[:x]` panic. -/
def reduceQ (cs : List Node) (limit : Nat) (q : Int) (inPrev : Nat → Bool) (perms : Nat → List Nat) : Option Result :=
  if q < 0 then none else some (reduceN cs limit q.toNat inPrev perms)

/-! ### `int(math.Ceil(xPercent * float64(maxNodes)))` on the bit pattern of `xPercent` -/

/-- number of binary digits, with fuel (structural). -/
def bitLenAux : Nat → Nat → Nat
  | 0, _ => 0
  | fuel + 1, n => if n = 0 then 0 else bitLenAux fuel (n / 2) + 1

def bitLen (n : Nat) : Nat := bitLenAux 200 n

/-- the binary64 value of `bits` is `(-1)^sign * mant * 2^expo`; `none` for NaN/±Inf. -/
def decode (bits : Nat) : Option (Bool × Nat × Int) :=
  let sign := decide (bits / 2 ^ 63 % 2 = 1)
  let ex : Nat := bits / 2 ^ 52 % 2048
  let frac : Nat := bits % 2 ^ 52
  if ex = 2047 then none
  else if ex = 0 then some (sign, frac, -1074)
  else some (sign, frac + 2 ^ 52, (ex : Int) - 1075)

/-- `mant * n * 2^expo` rounded to 53 significant bits, ties to even: `(m', e')` with value `m' * 2^e'`.
Every finite product here is a multiple of 2^-1074, so no result is subnormal-truncated; overflow to
+Inf is outside the modelled domain (the driver refuses `n ≥ 2^31` and exponents above 0). -/
def roundProd (mant n : Nat) (expo : Int) : Nat × Int :=
  let p := mant * n
  let l := bitLen p
  if l ≤ 53 then (p, expo)
  else
    let sh := l - 53
    let qd := p / 2 ^ sh
    let rem := p % 2 ^ sh
    let half := 2 ^ (sh - 1)
    let up := decide (rem > half) || (decide (rem = half) && decide (qd % 2 = 1))
    ((if up then qd + 1 else qd), expo + sh)

/-- `int(math.Ceil(xPercent*float64(n)))`; `none` for NaN/Inf. -/
def quota (bits : Nat) (n : Nat) : Option Int :=
  match decode bits with
  | none => none
  | some (sign, mant, expo) =>
    if mant * n = 0 then some 0 else      -- ±0: Ceil gives ±0, the conversion 0
    let r := roundProd mant n expo
    let m := r.1
    let e := r.2
    if e ≥ 0 then
      let v : Int := (m * 2 ^ e.toNat : Nat)
      some (if sign then -v else v)
    else
      let d := 2 ^ (-e).toNat
      if sign then some (-((m / d : Nat) : Int))        -- ceil(-v) = -floor(v)
      else some (((m + d - 1) / d : Nat) : Int)          -- ceil(v)

/-- `sns.reduce(limit, xPercent, seed, pool)`; outer `none`: outside the modelled float domain,
inner `none`: Go panics. -/
def reduce (cs : List Node) (limit : Nat) (xbits : Nat) (inPrev : Nat → Bool) (perms : Nat → List Nat) :
    Option (Option Result) :=
  match quota xbits (min limit cs.length) with
  | none => none
  | some q => some (reduceQ cs limit q inPrev perms)

end ZChain.Reduce
