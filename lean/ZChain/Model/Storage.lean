import ZChain.Base.F64
/-!
# Token-accounting skeleton of `smartcontract/storagesc` (C09, C12, C13, C14)

What is modelled: every field of the storage contract that carries tokens or capacity, and every SAVE the code
performs on it —

* allocation node: `WritePool`, `MovedToChallenge`, `MovedBack`, `Expiration`, `Size`, `DataShards`, and per blobber
  allocation `(BlobberID, Size, Terms.WritePrice, ChallengePoolIntegralValue, Stats.UsedSize)`;
* challenge pool node (a SEPARATE trie node: `challengepool.go save`), so that "changed in memory but not saved"
  is expressible: an operation that does not write `cps` leaves the stored pool as it was;
* blobber node `(Capacity, Allocated, SavedData, killed/shutdown, Terms.WritePrice)`;
* stake pool node `(TotalOffers, Σ delegate Balance, Σ unpaid rewards incl. service charge, HasBeenKilled)` for
  blobbers and validators; read pools; the contract wallet; client balances.

Operations (Go function in brackets): `addBlobber`, `addValidator`, `stake`/`unstake`/`collect`
(stakepool.StakePoolLock/Unlock, CollectReward), `newAlloc` (newAllocationRequestInternal, setupNewAllocation),
`update` (updateAllocationRequestInternal: addToWritePool, changeBlobbers, replaceBlobber — NORMAL and KILLED branch —,
extendAllocation, adjustChallengePool, saveUpdatedAllocation), `commit` (commitBlobberConnection, commitMoveTokens),
`respPass` (verifyChallenge → blobberPenalty, blobberReward, moveToValidators, moveToBlobbers), `kill`/`shut`
(provider.Kill/ShutDown — as repaired in /repo: the killed stake pool is saved under the provider's id — incl. the
"already killed" refresh that zeroes `TotalOffers`), `close`
(finalizeAllocation / cancelAllocationRequest → finishAllocation, payChallengePoolPassPayments,
payCancellationCharge, reduceOffer, deleteChallengePool), `wpLock`, `rpLock`, `rpUnlock`, `updBlobber`, `tick`.

Amounts that the code computes with the storage PRICING formulas (float64 products of sizes, prices and time
fractions, pass rates, slash shares) are PARAMETERS of the operation (observed on the real code and passed in); the
model checks them against the caps the code enforces (`move ≤ writePool`, `move ≤ challenge value`, …) and fails
with `inadm` when a cap is exceeded. Exact and modelled: `bSize = ⌈size/dataShards⌉`, `Offer() =
uint64(sizeInGB(size)·writePrice)` in float64 (`Base/F64`), the reward credit rule of `DistributeRewards`
(nothing is credited to a killed or under-staked pool — the paying pool is debited regardless).

All hard forks active (demeter, electra at round 0): the current rules. Not modelled: enterprise allocations,
block rewards, read markers, free allocations, challenge bookkeeping (which challenge is open; only token moves).
Core-only: linked into `zdrv-STORAGE`.
-/
namespace ZChain.Storage

def TU : Nat := 2592000          -- storagesc.time_unit 720h in seconds
def GB : Nat := 1073741824
def minStake : Nat := 10000000000 -- stake pool Settings.MinStake = min_stake_per_delegate (1 ZCN)
def NB : Nat := 6
def NV : Nat := 4
def NC : Nat := 4

abbrev Map (α : Type) := Nat → Option α

def Map.set {α : Type} (m : Map α) (k : Nat) (v : Option α) : Map α := fun x => if x = k then v else m x

def setFn (f : Nat → Nat) (k v : Nat) : Nat → Nat := fun x => if x = k then v else f x

structure BA where
  blobber : Nat
  size : Nat
  price : Nat
  cv : Nat        -- ChallengePoolIntegralValue
  used : Nat      -- Stats.UsedSize
deriving DecidableEq, Repr

structure Alloc where
  owner : Nat
  exp : Nat
  wp : Nat        -- WritePool
  mtc : Nat       -- MovedToChallenge
  mb : Nat        -- MovedBack
  size : Nat
  data : Nat
  bas : List BA
deriving Repr

structure Blobber where
  cap : Nat
  allocated : Int
  saved : Int
  dead : Bool     -- killed or shut down
  price : Nat
deriving Repr

structure SP where
  offers : Nat
  stake : Nat
  rewards : Nat
  dead : Bool
deriving Repr

structure State where
  now : Nat
  nallocs : Nat
  wallet : Nat
  allocs : Map Alloc
  cps : Map Nat
  blobbers : Map Blobber
  sps : Map SP
  vsps : Map SP
  rps : Map Nat
  clients : Nat → Nat
  /-- the setting `num_validators_rewarded` is 0 (an invalid value that the post-demeter `update_settings` stores
  unvalidated): `getRandomSubSlice` then hands `blobberReward`/`blobberPenalty` an EMPTY validator list -/
  nvr0 : Bool := false

def init : State :=
  { now := 1700000000, nallocs := 0, wallet := 0, allocs := fun _ => none, cps := fun _ => none,
    blobbers := fun _ => none, sps := fun _ => none, vsps := fun _ => none, rps := fun _ => none,
    clients := fun _ => 10000000000000000 }

/-- the initial state with `num_validators_rewarded = 0` -/
def initNvr0 : State := { init with nvr0 := true }

inductive Err where
  | fail (reason : String)    -- the call fails as the code would reject it: no state change
  | inadm (why : String)      -- the observed amounts/status are not admissible for the model
deriving Repr, DecidableEq

abbrev R := Except Err State

/-! ## helpers -/

def findBA : List BA → Nat → Option BA
  | [], _ => none
  | d :: ds, i => if d.blobber = i then some d else findBA ds i

/-- replace the first blobber allocation of blobber `i` -/
def setBA : List BA → Nat → BA → List BA
  | [], _, _ => []
  | d :: ds, i, d' => if d.blobber = i then d' :: ds else d :: setBA ds i d'

/-- Go's unchecked `uint64` subtraction (`alloc.BlobberAllocs[i].ChallengePoolIntegralValue -= ch.Value`,
allocation.go 812): wraps modulo 2^64 -/
def wrapSub (a b : Nat) : Nat := if b ≤ a then a - b else a + 2 ^ 64 - b

/-- unchecked `uint64` addition (`+=` on a `currency.Coin`): wraps modulo 2^64 — reachable only for a value that an
earlier unchecked decrement left just below 2^64 -/
def wrapAdd (a b : Nat) : Nat := if a + b < 2 ^ 64 then a + b else a + b - 2 ^ 64

/-- what a passed challenge debits from the challenge pool: the whole reduction `D` of the blobber's value, except that
`moveToValidators` returns early on an empty validator list (challengepool.go 101) — then the validators' share `V`
stays in the pool although the blobber's value was reduced by it -/
def valDebit (nvr0 : Bool) (D V : Nat) : Nat := if nvr0 then D - V else D

/-- … and nothing is credited to validators then -/
def valCredit (nvr0 : Bool) (V : Nat) : Nat := if nvr0 then 0 else V

def sumCv : List BA → Nat
  | [] => 0
  | d :: ds => d.cv + sumCv ds

/-- `bSize`: `int64(math.Ceil(float64(size)/float64(dataShards)))` (exact for the sizes considered, < 2^50). -/
def bsize (size data : Nat) : Nat := (size + data - 1) / data

/-- `BlobberAllocation.Offer()`: `currency.Coin(sizeInGB(d.Size) * float64(d.Terms.WritePrice))`. -/
def offer (size price : Nat) : Nat :=
  match F64.toNatTrunc (F64.mul (F64.div (F64.ofNat size) (F64.ofNat GB)) (F64.ofNat price)) with
  | some n => n
  | none => 0

def BA.offer (d : BA) : Nat := Storage.offer d.size d.price

/-- `StakePool.DistributeRewards`: `value == 0 || sp.HasBeenKilled || total < sp.Settings.MinStake` ⇒ nothing credited. -/
def credit (sp : SP) (x : Nat) : Nat := if sp.dead || decide (sp.stake < minStake) then 0 else x

/-- tokens of client `j` move into the contract wallet (a queued transfer client → contract). -/
def payIn (s : State) (j v : Nat) : R :=
  if s.clients j < v then .error (.inadm "client-balance")
  else .ok { s with clients := setFn s.clients j (s.clients j - v), wallet := s.wallet + v }

/-- tokens move from the contract wallet to client `j` (a queued transfer contract → client). -/
def payOut (s : State) (j v : Nat) : R :=
  if s.wallet < v then .error (.inadm "wallet-overdraw")
  else .ok { s with clients := setFn s.clients j (s.clients j + v), wallet := s.wallet - v }

inductive Caller where
  | client (j : Nat)
  | blobber (i : Nat)
  | other
deriving DecidableEq, Repr

/-! ## providers and stake -/

def addBlobber (s : State) (i cap price : Nat) : R :=
  match s.blobbers i, s.sps i with
  | none, none =>
    .ok { s with blobbers := s.blobbers.set i (some ⟨cap, 0, 0, false, price⟩),
                 sps := s.sps.set i (some ⟨0, 0, 0, false⟩) }
  | _, _ => .error (.inadm "blobber-exists")

def addValidator (s : State) (i : Nat) : R :=
  match s.vsps i with
  | some _ => .error (.inadm "validator-exists")
  | none => .ok { s with vsps := s.vsps.set i (some ⟨0, 0, 0, false⟩) }

def stake (s : State) (v : Bool) (i j amt : Nat) : R :=
  if v then
    match s.vsps i with
    | none => .error (.inadm "no-stake-pool")
    | some sp =>
      match payIn s j amt with
      | .error e => .error e
      | .ok s1 => .ok { s1 with vsps := s1.vsps.set i (some { sp with stake := sp.stake + amt }) }
  else
    match s.sps i with
    | none => .error (.inadm "no-stake-pool")
    | some sp =>
      match payIn s j amt with
      | .error e => .error e
      | .ok s1 => .ok { s1 with sps := s1.sps.set i (some { sp with stake := sp.stake + amt }) }

/-- stake_pool_unlock: the delegate gets its balance `amt` and its rewards `rew` (both observed); storagesc
`stakePool.Empty` requires the remaining stake to cover the offers. -/
def unstake (s : State) (v : Bool) (i j amt rew : Nat) : R :=
  if v then
    match s.vsps i with
    | none => .error (.inadm "no-stake-pool")
    | some sp =>
      if sp.stake < amt ∨ sp.rewards < rew then .error (.inadm "unstake-more-than-held") else
      match payOut s j (amt + rew) with
      | .error e => .error e
      | .ok s1 => .ok { s1 with vsps := s1.vsps.set i (some { sp with stake := sp.stake - amt, rewards := sp.rewards - rew }) }
  else
    match s.sps i with
    | none => .error (.inadm "no-stake-pool")
    | some sp =>
      if sp.stake < amt ∨ sp.rewards < rew then .error (.inadm "unstake-more-than-held") else
      if sp.stake < sp.offers + amt then .error (.inadm "unstake-below-offers") else
      match payOut s j (amt + rew) with
      | .error e => .error e
      | .ok s1 => .ok { s1 with sps := s1.sps.set i (some { sp with stake := sp.stake - amt, rewards := sp.rewards - rew }) }

def collect (s : State) (v : Bool) (i j rew : Nat) : R :=
  if v then
    match s.vsps i with
    | none => .error (.inadm "no-stake-pool")
    | some sp =>
      if sp.rewards < rew then .error (.inadm "collect-more-than-held") else
      match payOut s j rew with
      | .error e => .error e
      | .ok s1 => .ok { s1 with vsps := s1.vsps.set i (some { sp with rewards := sp.rewards - rew }) }
  else
    match s.sps i with
    | none => .error (.inadm "no-stake-pool")
    | some sp =>
      if sp.rewards < rew then .error (.inadm "collect-more-than-held") else
      match payOut s j rew with
      | .error e => .error e
      | .ok s1 => .ok { s1 with sps := s1.sps.set i (some { sp with rewards := sp.rewards - rew }) }

/-- `updateBlobberSettings`: capacity and terms are overwritten (capacity is NOT compared with `Allocated`). -/
def updBlobber (s : State) (i : Nat) (cap price : Option Nat) : R :=
  match s.blobbers i with
  | none => .error (.inadm "no-blobber")
  | some b => .ok { s with blobbers := s.blobbers.set i (some { b with cap := cap.getD b.cap, price := price.getD b.price }) }

/-- `provider.Kill` (storagesc `killBlobber`): first call marks blobber and stake pool dead and slashes the stake to
`newStake` (observed); a call on an already dead blobber runs the "refresh" callback: `TotalOffers = 0`, saved.
`del`: the blobber had no data and no delegate pools and its nodes were deleted. -/
def killBlobber (s : State) (i newStake : Nat) (del : Bool) : R :=
  match s.blobbers i, s.sps i with
  | some b, some sp =>
    if b.dead then .ok { s with sps := s.sps.set i (some { sp with offers := 0 }) }
    else if sp.stake < newStake then .error (.inadm "slash-increases-stake")
    else if del then .ok { s with blobbers := s.blobbers.set i none, sps := s.sps.set i none }
    else .ok { s with blobbers := s.blobbers.set i (some { b with dead := true }),
                      sps := s.sps.set i (some { sp with dead := true, stake := newStake }) }
  | _, _ => .error (.inadm "no-blobber")

/-- `provider.ShutDown` (storagesc `shutdownBlobber`), as `killBlobber` with half the slash: the blobber is marked
shut down, its stake pool is killed, slashed to `newStake` (observed) and saved under the blobber's id; a call on an
already dead blobber runs the same refresh: `TotalOffers = 0`. -/
def shutBlobber (s : State) (i newStake : Nat) (del : Bool) : R :=
  match s.blobbers i, s.sps i with
  | some b, some sp =>
    if b.dead then .ok { s with sps := s.sps.set i (some { sp with offers := 0 }) }
    else if sp.stake < newStake then .error (.inadm "slash-increases-stake")
    else if del then .ok { s with blobbers := s.blobbers.set i none, sps := s.sps.set i none }
    else .ok { s with blobbers := s.blobbers.set i (some { b with dead := true }),
                      sps := s.sps.set i (some { sp with dead := true, stake := newStake }) }
  | _, _ => .error (.inadm "no-blobber")

def killValidator (s : State) (i newStake : Nat) (del : Bool) : R :=
  match s.vsps i with
  | some sp =>
    if sp.stake < newStake then .error (.inadm "slash-increases-stake")
    else if del then .ok { s with vsps := s.vsps.set i none }
    else .ok { s with vsps := s.vsps.set i (some { sp with dead := true, stake := newStake }) }
  | none => .error (.inadm "no-validator")

/-! ## allocations -/

/-- one blobber of a new allocation (`setupNewAllocation`: `Allocated += bSize`; `addOffer`; both saved). The capacity
guard is `isActive`: `Capacity - Allocated < bSize` rejects. -/
def assign (bs : Nat) (s : State) (i : Nat) : Except Err (State × BA) :=
  match s.blobbers i, s.sps i with
  | some b, some sp =>
    if b.dead then .error (.inadm "dead-blobber-assigned")
    else if (b.cap : Int) - b.allocated < bs then .error (.inadm "assigned-over-capacity")
    else
      .ok ({ s with blobbers := s.blobbers.set i (some { b with allocated := b.allocated + bs }),
                    sps := s.sps.set i (some { sp with offers := sp.offers + offer bs b.price }) },
           ⟨i, bs, b.price, 0, 0⟩)
  | _, _ => .error (.inadm "no-blobber")

def assignAll (bs : Nat) : State → List Nat → Except Err (State × List BA)
  | s, [] => .ok (s, [])
  | s, i :: is =>
    match assign bs s i with
    | .error e => .error e
    | .ok (s1, ba) =>
      match assignAll bs s1 is with
      | .error e => .error e
      | .ok (s2, bas) => .ok (s2, ba :: bas)

def nodupB : List Nat → Bool
  | [] => true
  | x :: xs => !xs.contains x && nodupB xs

/-- a request naming a blobber twice is rejected by the code (`len(spMap) != len(blobbers)`: the stake pool map has one
entry per distinct id): the blobbers of an allocation are pairwise distinct. -/
def newAlloc (s : State) (j data size value : Nat) (chosen : List Nat) : R :=
  if data = 0 ∨ nodupB chosen = false then .error (.inadm "no-data-shards-or-duplicate-blobber") else
  match assignAll (bsize size data) s chosen with
  | .error e => .error e
  | .ok (s1, bas) =>
    match payIn s1 j value with
    | .error e => .error e
    | .ok s2 =>
      .ok { s2 with nallocs := s2.nallocs + 1,
                    allocs := s2.allocs.set s2.nallocs (some ⟨j, s.now + TU, value, 0, 0, size, data, bas⟩),
                    cps := s2.cps.set s2.nallocs (some 0) }

def wpLock (s : State) (k j value : Nat) : R :=
  match s.allocs k with
  | none => .error (.fail "absent")
  | some a =>
    match payIn s j value with
    | .error e => .error e
    | .ok s1 => .ok { s1 with allocs := s1.allocs.set k (some { a with wp := a.wp + value }) }

def rpLock (s : State) (j value : Nat) : R :=
  match payIn s j value with
  | .error e => .error e
  | .ok s1 => .ok { s1 with rps := s1.rps.set j (some ((s.rps j).getD 0 + value)) }

def rpUnlock (s : State) (j amt : Nat) : R :=
  match s.rps j with
  | none => .error (.inadm "no-read-pool")
  | some bal =>
    if bal ≠ amt then .error (.inadm "read-pool-drain-amount") else
    match payOut s j amt with
    | .error e => .error e
    | .ok s1 => .ok { s1 with rps := s1.rps.set j (some 0) }

/-- `commit_blobber_read` (`read_redeem`): client `j`'s read marker for blobber `i` of allocation `k` is redeemed;
`price` = `Coin(float64(Terms.ReadPrice) * sizeInGB(reads * CHUNK_SIZE))` is the observed cost of the marker. Checks in
the order of the code: the allocation exists; the marker (stamped `now`) is not later than the expiration; the blobber
serves the allocation; `readPool.moveToBlobber` rejects a marker that costs more than the pool holds (a client without
a read pool gets an empty one first, so only a free marker passes). Then the pool is debited by `price` and
`sp.DistributeRewards(price, …)` credits the blobber's stake pool (nothing if it is killed or staked below the
minimum: the tokens then stay in the wallet, owed to nobody). -/
def readRedeem (s : State) (k i j price : Nat) : R :=
  match s.allocs k with
  | none => .error (.fail "absent")
  | some a =>
    if a.exp < s.now then .error (.fail "expired") else
    match findBA a.bas i with
    | none => .error (.fail "not-blobber")
    | some _ =>
      match s.sps i with
      | none => .error (.inadm "no-stake-pool")
      | some sp =>
        let bal := (s.rps j).getD 0
        if bal < price then .error (.fail "read-pool") else
        .ok { s with
          rps := s.rps.set j (some (bal - price)),
          sps := s.sps.set i (some { sp with rewards := sp.rewards + credit sp price }) }

/-- `commitBlobberConnection` + `commitMoveTokens`: `move` is the observed amount.
upload: `move ≤ WritePool` (`upload` caps it), `cv += move`, `cp += move`, `wp -= move`, `MovedToChallenge += move`;
delete: `move ≤ cv` (`delete` caps it), `cp ≥ move` (`moveFromChallengePool`), `cv -= move`, `cp -= move`, `wp += move`,
`MovedBack += move`. Allocation, challenge pool and blobber are saved. -/
def commit (s : State) (k i : Nat) (size : Int) (move : Nat) : R :=
  match s.allocs k with
  | none => .error (.fail "absent")
  | some a =>
    match s.cps k, s.blobbers i, findBA a.bas i with
    | some cp, some b, some d =>
      if b.dead then .error (.inadm "commit-on-dead-blobber") else
      if (d.used : Int) + size < 0 ∨ (d.used : Int) + size > d.size then .error (.inadm "used-size-out-of-range") else
      let used' := ((d.used : Int) + size).toNat
      if size > 0 then
        if a.wp < move then .error (.inadm "move-exceeds-write-pool") else
        .ok { s with
          allocs := s.allocs.set k (some { a with wp := a.wp - move, mtc := a.mtc + move,
                                                   bas := setBA a.bas i { d with cv := d.cv + move, used := used' } }),
          cps := s.cps.set k (some (cp + move)),
          blobbers := s.blobbers.set i (some { b with saved := b.saved + size }) }
      else if size < 0 then
        if d.cv < move ∨ cp < move then .error (.inadm "move-exceeds-challenge-value") else
        .ok { s with
          allocs := s.allocs.set k (some { a with wp := a.wp + move, mb := a.mb + move,
                                                   bas := setBA a.bas i { d with cv := d.cv - move, used := used' } }),
          cps := s.cps.set k (some (cp - move)),
          blobbers := s.blobbers.set i (some { b with saved := b.saved + size }) }
      else
        if move ≠ 0 then .error (.inadm "zero-size-moves-tokens") else
        .ok { s with allocs := s.allocs.set k (some { a with bas := setBA a.bas i { d with used := used' } }) }
    | _, _, _ => .error (.inadm "commit-missing-node")

def creditValidators (vs : Map SP) : List (Nat × Nat) → Option (Map SP)
  | [] => some vs
  | (v, c) :: rest =>
    match vs v with
    | none => none
    | some sp => creditValidators (vs.set v (some { sp with rewards := sp.rewards + c })) rest

def sumCredits : List (Nat × Nat) → Nat
  | [] => 0
  | (_, c) :: rest => c + sumCredits rest

/-- a passed challenge (`processChallengePassed` → `blobberPenalty` if a failed/late challenge is outstanding, then
`blobberReward`). Observed: `D` total reduction of the blobber's challenge value (`challenge()` of both parts), `m` moved
back to the write pool (penalty part minus its validators' share), `V` validators' share of both parts, `dp` stake
slashed, and the amounts credited to each validator's stake pool. The challenge pool is debited by `D` in total
(`moveToValidators`, `moveToBlobbers`, `moveFromChallengePool`), whoever is credited. -/
def respPass (s : State) (k i D m V dp : Nat) (credits : List (Nat × Nat)) : R :=
  match s.allocs k with
  | none => .error (.fail "absent")
  | some a =>
    match s.cps k, s.sps i, findBA a.bas i with
    | some cp, some sp, some d =>
      if d.cv < D ∨ D < m + V ∨ cp < D ∨ sp.stake < dp ∨ valCredit s.nvr0 V < sumCredits credits then .error (.inadm "challenge-amounts") else
      let sp1 : SP := { sp with stake := sp.stake - dp }
      match creditValidators s.vsps credits with
      | none => .error (.inadm "unknown-validator")
      | some vs =>
        .ok { s with
          allocs := s.allocs.set k (some { a with wp := a.wp + m, mb := a.mb + m, bas := setBA a.bas i { d with cv := d.cv - D } }),
          cps := s.cps.set k (some (cp - valDebit s.nvr0 D V)),
          sps := s.sps.set i (some { sp1 with rewards := sp1.rewards + credit sp1 (D - m - V) }),
          vsps := vs }
    | _, _, _ => .error (.inadm "challenge-missing-node")

/-! ### update_allocation_request -/

/-- `addToWritePool` (post-demeter): the transaction value is locked into the write pool first. -/
def updLock (s : State) (k j value : Nat) : R :=
  match s.allocs k with
  | none => .error (.fail "absent")
  | some a =>
    match payIn s j value with
    | .error e => .error e
    | .ok s1 => .ok { s1 with allocs := s1.allocs.set k (some { a with wp := a.wp + value }) }

/-- `changeBlobbers` without removal: `Allocated += bSize` on the added blobber, a new blobber allocation is appended,
`addOffer` on the added blobber's stake pool. -/
def updAdd (s : State) (k ai : Nat) : R :=
  match s.allocs k, s.blobbers ai, s.sps ai with
  | some a, some nb, some spa =>
    let bs := bsize a.size a.data
    if nb.dead then .error (.inadm "dead-blobber-assigned")
    else if (findBA a.bas ai).isSome then .error (.inadm "blobber-already-in-allocation")
    else if (nb.cap : Int) - nb.allocated < bs then .error (.inadm "assigned-over-capacity")
    else
      .ok { s with
        allocs := s.allocs.set k (some { a with bas := a.bas ++ [⟨ai, bs, nb.price, 0, 0⟩] }),
        blobbers := s.blobbers.set ai (some { nb with allocated := nb.allocated + bs }),
        sps := s.sps.set ai (some { spa with offers := spa.offers + offer bs nb.price }) }
  | _, _, _ => .error (.inadm "update-missing-node")

/-- `replaceBlobber`, removed blobber ALIVE (models.go 1257-1334): `reduceOffer`; pass payments (`dp` slashed, `rw`
challenge reward debited from the challenge pool and credited if the pool is creditable), the rest of the blobber's
challenge value goes back to the write pool (challenge pool SAVED); cancellation charge `cc` debited from the write
pool; removed blobber `SavedData -= used`, `Allocated -= size` (SAVED); stake pool SAVED. Then the added blobber as in
`updAdd` (taking the removed one's position). -/
def updReplaceAlive (s : State) (k ai ri rw cc dp : Nat) : R :=
  match s.allocs k, s.cps k, s.blobbers ai, s.sps ai, s.blobbers ri, s.sps ri with
  | some a, some cp, some nb, some spa, some rb, some spr =>
    match findBA a.bas ri with
    | none => .error (.inadm "removed-blobber-not-in-allocation")
    | some d =>
      let bs := bsize a.size a.data
      if nb.dead then .error (.inadm "dead-blobber-assigned")
      else if ai = ri ∨ (findBA a.bas ai).isSome then .error (.inadm "blobber-already-in-allocation")
      else if (nb.cap : Int) - nb.allocated < bs then .error (.inadm "assigned-over-capacity")
      else if spr.offers < d.offer then .error (.inadm "offer-underflow")
      else if spr.stake < dp ∨ d.cv < rw ∨ cp < d.cv then .error (.inadm "replace-amounts")
      else if a.wp + (d.cv - rw) < cc then .error (.inadm "charge-exceeds-write-pool")
      else
        let spr1 : SP := { spr with offers := spr.offers - d.offer, stake := spr.stake - dp }
        let spr2 : SP := { spr1 with rewards := spr1.rewards + credit spr1 rw + credit spr1 cc }
        .ok { s with
          allocs := s.allocs.set k (some { a with wp := a.wp + (d.cv - rw) - cc, mb := a.mb + (d.cv - rw),
                                                   bas := setBA a.bas ri ⟨ai, bs, nb.price, 0, 0⟩ }),
          cps := s.cps.set k (some (cp - d.cv)),
          blobbers := (s.blobbers.set ri (some { rb with saved := rb.saved - d.used, allocated := rb.allocated - d.size })).set ai
                        (some { nb with allocated := nb.allocated + bs }),
          sps := (s.sps.set ri (some spr2)).set ai (some { spa with offers := spa.offers + offer bs nb.price }) }
  | _, _, _, _, _, _ => .error (.inadm "update-missing-node")

/-- `replaceBlobber`, removed blobber KILLED or SHUT DOWN (models.go 1224-1255): `moveFromChallengePool(cp, cv)` on a
challenge pool object that this branch never saves — the write pool (in the allocation, saved later) grows, the stored
challenge pool does not shrink; the removed blobber's `Allocated`/`SavedData` and its stake pool's offer are not
touched; the branch `break`s. Then the added blobber's offer is added as usual. -/
def updReplaceKilled (s : State) (k ai ri : Nat) : R :=
  match s.allocs k, s.cps k, s.blobbers ai, s.sps ai with
  | some a, some cp, some nb, some spa =>
    match findBA a.bas ri with
    | none => .error (.inadm "removed-blobber-not-in-allocation")
    | some d =>
      let bs := bsize a.size a.data
      if nb.dead then .error (.inadm "dead-blobber-assigned")
      else if ai = ri ∨ (findBA a.bas ai).isSome then .error (.inadm "blobber-already-in-allocation")
      else if (nb.cap : Int) - nb.allocated < bs then .error (.inadm "assigned-over-capacity")
      else if cp < d.cv then .error (.inadm "replace-amounts")
      else
        .ok { s with
          allocs := s.allocs.set k (some { a with wp := a.wp + d.cv, bas := setBA a.bas ri ⟨ai, bs, nb.price, 0, 0⟩ }),
          blobbers := s.blobbers.set ai (some { nb with allocated := nb.allocated + bs }),
          sps := s.sps.set ai (some { spa with offers := spa.offers + offer bs nb.price }) }
  | _, _, _, _ => .error (.inadm "update-missing-node")

/-- one blobber allocation in `extendAllocation`: `Allocated += diff` (if the size grows; guard `Capacity - Allocated -
diff ≥ 0`), terms reset to the blobber's current terms, `Size = newSize` (the FIRST blobber allocation's size plus
`diff`, for every blobber), offer delta applied to the stake pool. Returns the state and the rewritten entry. -/
def extendOne (s : State) (grow : Bool) (diff newSize : Nat) (d : BA) : Except Err (State × BA) :=
  match s.blobbers d.blobber, s.sps d.blobber with
  | some b, some sp =>
    if b.cap = 0 then .error (.inadm "blobber-without-capacity") else
    if grow && (b.dead || decide ((b.cap : Int) - b.allocated - diff < 0)) then .error (.inadm "assigned-over-capacity") else
    let d' : BA := { d with price := b.price, size := newSize }
    if sp.offers + d'.offer < d.offer then .error (.inadm "offer-underflow") else
    .ok ({ s with
            blobbers := s.blobbers.set d.blobber (some { b with allocated := if grow then b.allocated + diff else b.allocated }),
            sps := s.sps.set d.blobber (some { sp with offers := sp.offers + d'.offer - d.offer }) }, d')
  | _, _ => .error (.inadm "update-missing-node")

def extendAll (grow : Bool) (diff newSize : Nat) : State → List BA → Except Err (State × List BA)
  | s, [] => .ok (s, [])
  | s, d :: ds =>
    match extendOne s grow diff newSize d with
    | .error e => .error e
    | .ok (s1, d') =>
      match extendAll grow diff newSize s1 ds with
      | .error e => .error e
      | .ok (s2, ds') => .ok (s2, d' :: ds')

/-- `adjustChallengePool`: per blobber allocation the observed signed change `x`: `x > 0` moves write pool → challenge
pool (`moveToChallengePool`: `x ≤ WritePool`), `x < 0` moves back (`moveFromChallengePool`: `|x| ≤ cp`; the per-blobber
value is decremented UNCHECKED in the code and wraps modulo 2^64 when `|x|` exceeds it: `wrapSub`; the increment is
an unchecked `+=` as well: `wrapAdd`, which brings a wrapped value back below 2^64). Folded over the list, carrying
`(wp, cp, mtc, mb)`. -/
def adjust : List BA → List Int → Nat → Nat → Nat → Nat → Option (List BA × Nat × Nat × Nat × Nat)
  | [], [], wp, cp, mtc, mb => some ([], wp, cp, mtc, mb)
  | d :: ds, x :: xs, wp, cp, mtc, mb =>
    if x ≥ 0 then
      let v := x.toNat
      if wp < v then none else
      match adjust ds xs (wp - v) (cp + v) (mtc + v) mb with
      | none => none
      | some (ds', wp', cp', mtc', mb') => some ({ d with cv := wrapAdd d.cv v } :: ds', wp', cp', mtc', mb')
    else
      let v := (-x).toNat
      if cp < v then none else
      match adjust ds xs (wp + v) (cp - v) mtc (mb + v) with
      | none => none
      | some (ds', wp', cp', mtc', mb') => some ({ d with cv := wrapSub d.cv v } :: ds', wp', cp', mtc', mb')
  | _, _, _, _, _, _ => none

/-- `extendAllocation` + `adjustChallengePool`. -/
def updExtend (s : State) (k size : Nat) (ds : List Int) : R :=
  match s.allocs k, s.cps k with
  | some a, some cp =>
    match a.bas with
    | [] => .error (.inadm "no-blobbers")
    | d0 :: _ =>
      if a.data = 0 then .error (.inadm "no-data-shards") else
      let diff := bsize size a.data
      match extendAll (decide (size > 0)) diff (d0.size + diff) s a.bas with
      | .error e => .error e
      | .ok (s1, bas1) =>
        match adjust bas1 ds a.wp cp a.mtc a.mb with
        | none => .error (.inadm "adjust-challenge-pool")
        | some (bas2, wp', cp', mtc', mb') =>
          .ok { s1 with
            allocs := s1.allocs.set k (some { a with exp := s.now + TU, size := a.size + size, wp := wp', mtc := mtc', mb := mb', bas := bas2 }),
            cps := s1.cps.set k (some cp') }
  | _, _ => .error (.inadm "update-missing-node")

def isDead (s : State) (i : Nat) : Bool :=
  match s.blobbers i with
  | some b => b.dead
  | none => false

/-- the blobber change of an owner's update: none / add / replace (alive or killed branch by the removed blobber's flag). -/
def updBlobbers (s : State) (k : Nat) (add rem : Option Nat) (rw cc dp : Nat) : R :=
  match add, rem with
  | none, none => .ok s
  | none, some _ => .error (.fail "remove-without-add")
  | some ai, none => updAdd s k ai
  | some ai, some ri => if isDead s ri then updReplaceKilled s k ai ri else updReplaceAlive s k ai ri rw cc dp

/-- the whole transaction; observed: `rw cc dp` of the removed blobber (alive branch) and the per-blobber adjustments. -/
def update (s : State) (k : Nat) (caller : Caller) (value size : Nat) (ext : Bool) (add rem : Option Nat)
    (rw cc dp : Nat) (ds : List Int) : R :=
  match s.allocs k with
  | none => .error (.fail "absent")
  | some a =>
    match caller with
    | .client j =>
      if a.exp < s.now then .error (.fail "expired") else
      let ext := ext || decide (size > 0)
      if j ≠ a.owner then
        if !ext then .error (.fail "unauthorised") else
        match updLock s k j value with
        | .error e => .error e
        | .ok s1 => updExtend s1 k size ds
      else
        match updLock s k j value with
        | .error e => .error e
        | .ok s1 =>
          match updBlobbers s1 k add rem rw cc dp with
          | .error e => .error e
          | .ok s2 => if ext then updExtend s2 k size ds else .ok s2
    | _ => .error (.fail "unauthorised")

/-! ### finalize / cancel -/

def hasBlobber (bas : List BA) (i : Nat) : Bool := (findBA bas i).isSome

/-- `IsValidFinalizer`: the caller is one of the allocation's blobbers -/
def callerIsBlobber (bas : List BA) : Caller → Bool
  | .blobber i => hasBlobber bas i
  | _ => false

/-- `reduceOffer` for every blobber allocation before anything else: `MinusCoin` fails when the stake pool's
`TotalOffers` is smaller than this allocation's offer. -/
def offersReleasable (s : State) : List BA → Bool
  | [] => true
  | d :: ds =>
    (match s.sps d.blobber with
     | some sp => decide (d.offer ≤ sp.offers)
     | none => false) && offersReleasable s ds

/-- per blobber allocation at close: `reduceOffer`, stake slashed by `dp`, `cr` credited to the stake pool (challenge
reward + cancellation charge, as far as the pool is creditable), blobber `SavedData -= used`, `Allocated -= size`. -/
def closeBlobbers : State → List BA → List (Nat × Nat) → Option State
  | s, [], [] => some s
  | s, d :: ds, (dp, cr) :: rest =>
    match s.blobbers d.blobber, s.sps d.blobber with
    | some b, some sp =>
      if sp.offers < d.offer ∨ sp.stake < dp then none else
      let sp1 : SP := { sp with offers := sp.offers - d.offer, stake := sp.stake - dp }
      if cr ≠ 0 ∧ credit sp1 cr = 0 then none else
      closeBlobbers
        { s with blobbers := s.blobbers.set d.blobber (some { b with saved := b.saved - d.used, allocated := b.allocated - d.size }),
                 sps := s.sps.set d.blobber (some { sp1 with rewards := sp1.rewards + cr }) } ds rest
    | _, _ => none
  | _, _, _ => none

def sumCr : List (Nat × Nat) → Nat
  | [] => 0
  | (_, c) :: rest => c + sumCr rest

/-- the bound on what a close credits: per blobber allocation, with the pass rate `succ/total` that
`settleOpenChallengesAndGetPassRates` yields and `cc` its share of the cancellation charge,
`credited ≤ challenge value · succ/total + cc` (one unit of slack per factor for the float64 truncations). -/
def payBounded : List BA → List (Nat × Nat) → List (Nat × Nat × Nat) → Bool
  | [], [], [] => true
  | d :: ds, (_, cr) :: ps, (succ, total, cc) :: rs =>
    decide (0 < total ∧ cr * total ≤ d.cv * succ + (cc + 1) * total) && payBounded ds ps rs
  | _, _, _ => false

def sumCc : List (Nat × Nat × Nat) → Nat
  | [] => 0
  | (_, _, cc) :: rest => cc + sumCc rest

/-- `storageAllocationBase.cost()`: Σ `WritePrice · sizeInGB` = Σ offers -/
def costOf : List BA → Nat
  | [] => 0
  | d :: ds => d.offer + costOf ds

/-- `finalizeAllocation` (`fin = true`) / `cancelAllocationRequest`. Checks in the order of the code. `X` (observed) =
tokens debited from the allocation's two pools for the blobbers (challenge rewards out of the challenge pool,
cancellation charge out of the write pool); the credited amounts cannot exceed it and are bounded per blobber by
`payBounded` (`rates`: observed pass rates and charge shares); everything else,
`WritePool + cp − X`, is transferred to the owner; challenge pool node and allocation node are deleted. -/
def close (s : State) (fin : Bool) (k : Nat) (caller : Caller) (X : Nat) (per : List (Nat × Nat))
    (rates : List (Nat × Nat × Nat)) : R :=
  match s.allocs k with
  | none => .error (.fail "absent")
  | some a =>
    let isOwner := decide (caller = .client a.owner)
    let isBlobber := callerIsBlobber a.bas caller
    if fin && !(isOwner || isBlobber) then .error (.fail "unauthorised")
    else if !fin && !isOwner then .error (.fail "unauthorised")
    else if fin && decide (s.now < a.exp) then .error (.fail "not-expired")
    else if !fin && decide (a.exp < s.now) then .error (.fail "expired")
    else if !offersReleasable s a.bas then .error (.fail "offer-underflow")
    else
      match s.cps k with
      | none => .error (.fail "other")
      | some cp =>
        if a.wp + cp < X ∨ X < sumCr per then .error (.inadm "close-amounts") else
        if !payBounded a.bas per rates || decide (costOf a.bas / 5 + a.bas.length < sumCc rates) then .error (.inadm "blobbers-overpaid") else
        match closeBlobbers s a.bas per with
        | none => .error (.inadm "close-blobbers")
        | some s1 =>
          match payOut s1 a.owner (a.wp + cp - X) with
          | .error e => .error e
          | .ok s2 => .ok { s2 with allocs := s2.allocs.set k none, cps := s2.cps.set k none }

/-! ## operations -/

inductive Op where
  | addBlobber (i cap price : Nat)
  | addValidator (i : Nat)
  | stake (v : Bool) (i j amt : Nat)
  | unstake (v : Bool) (i j amt rew : Nat)
  | collect (v : Bool) (i j rew : Nat)
  | updBlobber (i : Nat) (cap price : Option Nat)
  | killBlobber (i newStake : Nat) (del : Bool)
  | shutBlobber (i newStake : Nat) (del : Bool)
  | killValidator (i newStake : Nat) (del : Bool)
  | newAlloc (j data size value : Nat) (chosen : List Nat)
  | update (k : Nat) (caller : Caller) (value size : Nat) (ext : Bool) (add rem : Option Nat) (rw cc dp : Nat) (ds : List Int)
  | commit (k i : Nat) (size : Int) (move : Nat)
  | respPass (k i D m V dp : Nat) (credits : List (Nat × Nat))
  | close (fin : Bool) (k : Nat) (caller : Caller) (X : Nat) (per : List (Nat × Nat)) (rates : List (Nat × Nat × Nat))
  | wpLock (k j value : Nat)
  | rpLock (j value : Nat)
  | rpUnlock (j amt : Nat)
  | readRedeem (k i j price : Nat)
  | tick (dt : Nat)
  | noop
deriving Repr

def step (s : State) : Op → R
  | .addBlobber i cap price => addBlobber s i cap price
  | .addValidator i => addValidator s i
  | .stake v i j amt => stake s v i j amt
  | .unstake v i j amt rew => unstake s v i j amt rew
  | .collect v i j rew => collect s v i j rew
  | .updBlobber i cap price => updBlobber s i cap price
  | .killBlobber i ns del => killBlobber s i ns del
  | .shutBlobber i ns del => shutBlobber s i ns del
  | .killValidator i ns del => killValidator s i ns del
  | .newAlloc j data size value chosen => newAlloc s j data size value chosen
  | .update k c value size ext add rem rw cc dp ds => update s k c value size ext add rem rw cc dp ds
  | .commit k i size move => commit s k i size move
  | .respPass k i D m V dp credits => respPass s k i D m V dp credits
  | .close fin k c X per rates => close s fin k c X per rates
  | .wpLock k j value => wpLock s k j value
  | .rpLock j value => rpLock s j value
  | .rpUnlock j amt => rpUnlock s j amt
  | .readRedeem k i j price => readRedeem s k i j price
  | .tick dt => .ok { s with now := s.now + dt }
  | .noop => .ok s

/-- the relational step of DESIGN §5: `op` carries the observed amounts; the post-state exists iff they are admissible. -/
def stepRel (s : State) (op : Op) (s' : State) : Prop := step s op = .ok s'

/-- histories -/
def run : State → List Op → Except Err State
  | s, [] => .ok s
  | s, op :: ops =>
    match step s op with
    | .ok s1 => run s1 ops
    | .error (.fail _) => run s ops     -- a rejected call changes nothing
    | .error e => .error e

end ZChain.Storage
