/-
Model of the LFB-ticket worker and handler, `chaincore/chain/protocol_lfb_ticket.go` — C41.

* A node has an id; its key pair is identified with its id (each node signs with its own key).
  A signature is the symbolic value `⟨key, round, sharder, hash⟩`: "made with the key of node `key` over
  `hashData() = "<round>:<sharderID>:<lfbHash>"`". `verify` compares it with the claimed signer's key and the
  ticket's own three fields — the algebra of an unforgeable scheme and a collision-free hash (assumptions, not
  axioms: the harness drives the real BLS scheme and the real hash).
* `verifyLFBTicket` (line 117): `node.GetNode(lfbt.SharderID)` looks the signer up in the GLOBAL registry of all
  nodes ever registered (miners and sharders, of any magic block); `kind`/`inMB` are carried only to state the
  property — the code never reads them.
* `LFBTicketHandler` = verify, then `AddReceivedLFBTicket` (enqueue on `updateLFBTicket`).
  `kick r` = the node bumping itself with the unsigned ticket `&LFBTicket{Round: r}` (miner/protocol_round.go:1853, 1873).
* the worker loop (`StartLFBTicketWorker`) is one `select`; its cases are the events `procU k` / `procB k` / `get`:
  `procU k` takes the first queued ticket and drains what is in the channel at that moment (the first `k+1` queued
  tickets), keeps the first ticket of maximal round, adopts it iff its round is greater than `latest.Round`;
  `procB k` the same for blocks handed to `BroadcastLFBTicket`, signing a new own ticket.
  Subscribers, the rebroadcast timer and the network send have no effect on `latest` and are left out.
  Channel capacities (100) are not modelled (a full channel blocks the sender, nothing is lost).
Core-only.
-/
namespace ZChain.LFB

inductive Kind where
  | miner | sharder
deriving DecidableEq, Repr

structure Node where
  id : Nat
  kind : Kind
  /-- is a sharder of the current magic block -/
  inMB : Bool
deriving DecidableEq, Repr

structure Sig where
  key : Nat
  round : Int
  sharder : Nat
  hash : Nat
deriving DecidableEq, Repr

structure Ticket where
  round : Int
  /-- `SharderID` (0 = empty string) -/
  sharder : Nat
  /-- `LFBHash` (0 = empty string) -/
  lfbHash : Nat
  /-- `Sign` (`none` = "") -/
  sign : Option Sig
  own : Bool := false
deriving DecidableEq, Repr

structure W where
  nodes : List Node
  self : Nat
  selfSharder : Bool
  latest : Ticket
  uq : List Ticket := []
  bq : List (Int × Nat) := []
deriving Repr

/-- `verifyLFBTicket` -/
def verify (nodes : List Node) (t : Ticket) : Bool :=
  match nodes.find? (fun n => n.id == t.sharder) with
  | none => false                                  -- unknown or missing node
  | some n => match t.sign with
    | none => false                                -- "" does not decode
    | some s => s.key == n.id && s.round == t.round && s.sharder == t.sharder && s.hash == t.lfbHash

/-- `newLFBTicket(b)` -/
def newTicket (self : Nat) (round : Int) (hash : Nat) : Ticket :=
  { round := round, sharder := self, lfbHash := hash, sign := some ⟨self, round, self, hash⟩, own := true }

/-- the drain loop: `prev = first; for … { if t.Round > prev.Round { prev = t } }` -/
def firstMaxT (prev : Ticket) : List Ticket → Ticket
  | [] => prev
  | t :: ts => if t.round > prev.round then firstMaxT t ts else firstMaxT prev ts

def firstMaxB (prev : Int × Nat) : List (Int × Nat) → Int × Nat
  | [] => prev
  | b :: bs => if b.1 > prev.1 then firstMaxB b bs else firstMaxB prev bs

/-- what the `updateLFBTicket` case does with one drained batch -/
def adoptU (latest : Ticket) : List Ticket → Ticket
  | [] => latest
  | t :: ts =>
    let m := firstMaxT t ts
    if m.round ≤ latest.round then latest else m

/-- what the `broadcastLFBTicket` case does with one drained batch -/
def adoptB (self : Nat) (latest : Ticket) : List (Int × Nat) → Ticket
  | [] => latest
  | b :: bs =>
    let m := firstMaxB b bs
    if m.1 ≤ latest.round then latest
    else
      let t := newTicket self m.1 m.2
      if latest.round < t.round then t else latest

inductive Ev where
  | handle (t : Ticket)
  | kick (r : Int)
  | bcast (r : Int) (h : Nat)
  | procU (k : Nat)
  | procB (k : Nat)
  | get
deriving Repr

def step (w : W) : Ev → W
  | .handle t =>
    -- `IsOwn` and `Senders` are `json:"-"`: a decoded ticket is never marked as own
    let t := { t with own := false }
    if verify w.nodes t then { w with uq := w.uq ++ [t] } else w
  | .kick r => { w with uq := w.uq ++ [{ round := r, sharder := 0, lfbHash := 0, sign := none }] }
  | .bcast r h => if w.selfSharder then { w with bq := w.bq ++ [(r, h)] } else w
  | .procU k => { w with latest := adoptU w.latest (w.uq.take (k + 1)), uq := w.uq.drop (k + 1) }
  | .procB k => { w with latest := adoptB w.self w.latest (w.bq.take (k + 1)), bq := w.bq.drop (k + 1) }
  | .get => w

def run (w : W) (evs : List Ev) : W := evs.foldl step w

/-- the rounds of `latest` after each event (the initial one first) -/
def trace (w : W) : List Ev → List Int
  | [] => [w.latest.round]
  | e :: es => w.latest.round :: trace (step w e) es

def init (nodes : List Node) (self : Nat) (selfSharder : Bool) (round : Int) (hash : Nat) : W :=
  { nodes := nodes, self := self, selfSharder := selfSharder, latest := newTicket self round hash }

end ZChain.LFB
