import ZChain.Model.NodePool
/-
Model of the parts of `chaincore/round/entity.go` that C35 is about:
* miner ranks: `computeMinerRanks` (the permutation produced by Go's seeded `rand.Perm` is an explicit argument),
  `SetRandomSeed`, `SetRandomSeedForNotarizedBlock`, `GetMinerRank`, `GetMinersByRank`, and the callers
  `chain.IsRoundGenerator` (entity_main.go), `chain.GetGenerators`;
* per-round block lists: `AddProposedBlock`/`addProposedBlock`, `AddNotarizedBlock`, `UpdateNotarizedBlock`,
  `GetNotarizedBlocks`, `GetProposedBlocks`, `GetHeaviestNotarizedBlock`, the field `Block`.

Blocks are mutable Go objects referenced by pointer: the model keeps a heap `obj id ↦ (hash, RoundRank, tickets)`,
and the round's lists hold object ids. `MergeVerificationTickets` is `unionTickets` (tickets = verifier ids).
`Block.Weight()` is `2^-RoundRank` in float64: strictly decreasing on `0..1074`, `1.0` for every rank `≤ 0`, `0.0` from
1075 on — `weightKey` is the order-reversing image of it, so "weight descending" = "`weightKey` ascending" with the same
ties. `sort.Slice` is not stable; the model's stable sort gives THE result whenever no two keys tie (always, for one
block per rank with ranks in `0..1074`); the harness stays inside that domain.
Core-only.
-/
namespace ZChain.RoundBlocks
open ZChain.NodePool

/-! ### miner ranks -/

structure Ranks where
  perm : Option (List Int)   -- `minerPerm` (nil until a seed is set)
  seed : Int                 -- `RandomSeed`
deriving Repr

/-- `SetRandomSeed(seed, minersNum)`; `perm` = `rand.New(rand.NewSource(seed)).Perm(minersNum)`. -/
def setRandomSeed (r : Ranks) (seed : Int) (perm : List Int) : Ranks :=
  if r.seed ≠ 0 then r else { perm := some perm, seed := seed }

/-- `SetRandomSeedForNotarizedBlock`. -/
def setRandomSeedNB (_ : Ranks) (seed : Int) (perm : List Int) : Ranks := { perm := some perm, seed := seed }

/-- `GetMinerRank(miner)` for a miner with this `SetIndex`. -/
def getMinerRank (r : Ranks) (setIndex : Nat) : Int :=
  match r.perm with
  | none => -1
  | some p => if setIndex ≥ p.length then -1 else p.getD setIndex (-1)

/-- the sort key of `GetMinersByRank` (`0` when the index is missing in the permutation). -/
def byRankKey (r : Ranks) (setIndex : Nat) : Int :=
  match r.perm with
  | none => 0
  | some p => if setIndex < p.length then p.getD setIndex 0 else 0

/-- `GetMinersByRank(nodes)`: the nodes are given by the `SetIndex` each node OBJECT carries (in pool order);
`sort.Slice` with `idxi > idxj`. -/
def getMinersByRankIdx (r : Ranks) (idxs : List Nat) : List Nat :=
  sortStable (fun a b => decide (byRankKey r a > byRankKey r b)) idxs

/-- the same for a pool whose objects carry their own positions (`SetIndex = position`: fresh objects, or right after an
`AddNode` to this pool). -/
def getMinersByRank (r : Ranks) (n : Nat) : List Nat := getMinersByRankIdx r (List.range n)

/-- `chain.IsRoundGenerator`. -/
def isRoundGenerator (r : Ranks) (setIndex : Nat) (numGenerators : Int) : Bool :=
  let rank := getMinerRank r setIndex
  decide (rank ≠ -1 ∧ rank < numGenerators)

/-- `chain.GetGenerators`. -/
def getGeneratorsIdx (r : Ranks) (idxs : List Nat) (genNum : Int) : List Nat :=
  let miners := getMinersByRankIdx r idxs
  if genNum > miners.length then miners else miners.take genNum.toNat

def getGenerators (r : Ranks) (n : Nat) (genNum : Int) : List Nat := getGeneratorsIdx r (List.range n) genNum

/-! ### proposed / notarized blocks -/

structure Blk where
  hash    : Nat
  rank    : Int
  tickets : List Nat
deriving DecidableEq, Repr, Inhabited

structure St where
  heap      : List (Nat × Blk)
  proposed  : List Nat
  notarized : List Nat
  block     : Option Nat
deriving Repr

def empty : St := { heap := [], proposed := [], notarized := [], block := none }

def heapGet (h : List (Nat × Blk)) (o : Nat) : Option Blk :=
  match h with
  | [] => none
  | (k, b) :: t => if k = o then some b else heapGet t o

def obj (s : St) (o : Nat) : Blk := (heapGet s.heap o).getD default

def heapSetTickets (h : List (Nat × Blk)) (o : Nat) (tk : List Nat) : List (Nat × Blk) :=
  h.map (fun p => if p.1 = o then (p.1, { p.2 with tickets := tk }) else p)

/-- a new block object (`blk` op of the harness); an existing id is replaced. -/
def newBlock (s : St) (o : Nat) (b : Blk) : St := { s with heap := (o, b) :: s.heap.filter (fun p => p.1 ≠ o) }

/-- `unionVerificationTickets(alreadyHave, received)`. -/
def unionTickets (a r : List Nat) : List Nat :=
  if a = [] then r
  else if r = [] then a
  else r.foldl (fun acc x => if x ∈ acc then acc else acc ++ [x]) a

/-- `Block.Weight()` order: smaller key = heavier. -/
def weightKey (rank : Int) : Nat := if rank ≤ 0 then 0 else if rank ≥ 1075 then 1075 else rank.toNat

/-- the hash-match loop of `addProposedBlock`: `proposedBlocks[i] = b; return`. `none` = no entry with this hash. -/
def replaceByHash (s : St) (o : Nat) : List Nat → Option (List Nat)
  | [] => none
  | p :: ps =>
    if (obj s p).hash = (obj s o).hash then some (o :: ps)
    else match replaceByHash s o ps with
      | some r => some (p :: r)
      | none => none

/-- `addProposedBlock`. -/
def addProposed (s : St) (o : Nat) : St :=
  match replaceByHash s o s.proposed with
  | some l => { s with proposed := l }
  | none => { s with proposed := sortStable (fun a b => decide ((obj s a).rank < (obj s b).rank)) (s.proposed ++ [o]) }

/-- the loop of `AddNotarizedBlock`: `(entry with the same hash — the loop returns there, index of the LAST entry with
the same rank seen before)`. -/
def scanN (s : St) (o : Nat) : List Nat → Nat → Option Nat → Option Nat × Option Nat
  | [], _, found => (none, found)
  | p :: ps, i, found =>
    if (obj s p).hash = (obj s o).hash then (some p, found)
    else scanN s o ps (i + 1) (if (obj s p).rank = (obj s o).rank then some i else found)

/-- `r.notarizedBlocks = append(r.notarizedBlocks[:found], r.notarizedBlocks[found+1:]...)` when `found > -1`. -/
def eraseFound (l : List Nat) : Option Nat → List Nat
  | some i => l.eraseIdx i
  | none => l

/-- `AddNotarizedBlock`. -/
def addNotarized (s : St) (o : Nat) : St :=
  let s1 := addProposed s o
  match scanN s1 o s1.notarized 0 none with
  | (some p, _) =>
    if p ≠ o then
      -- blk.MergeVerificationTickets(b.GetVerificationTickets()); b.MergeVerificationTickets(blk.GetVerificationTickets())
      let tp := unionTickets (obj s1 p).tickets (obj s1 o).tickets
      let to := unionTickets (obj s1 o).tickets tp
      { s1 with heap := heapSetTickets (heapSetTickets s1.heap p tp) o to }
    else s1
  | (none, found) =>
    let nb := eraseFound s1.notarized found
    let blk := match s1.block with
      | none => some o
      | some cur => if (obj s1 cur).rank > (obj s1 o).rank then some o else some cur
    { s1 with block := blk,
              notarized := sortStable (fun a b => decide (weightKey (obj s1 a).rank < weightKey (obj s1 b).rank)) (nb ++ [o]) }

/-- `UpdateNotarizedBlock`: every proposed entry and every notarized entry with the hash becomes `b`
(`r.notarizedBlocks[i] = b` since repo commit 1ab8ea2; before it the loop stored the entry it had just read — finding
C35:update-does-not-replace). -/
def updateNotarized (s : St) (o : Nat) : St :=
  { s with proposed := s.proposed.map (fun p => if (obj s p).hash = (obj s o).hash then o else p),
           notarized := s.notarized.map (fun p => if (obj s p).hash = (obj s o).hash then o else p) }

/-- `GetHeaviestNotarizedBlock`. -/
def heaviest (s : St) : Option Nat := s.notarized.head?

end ZChain.RoundBlocks
