/-
Model of `core/util/orderbuffer/orderbuffer.go` (complete: New, Add, search, First, Pop).

* `Item.data` stands for the Go `interface{}` payload compared with `==`; the harness uses
  small integers, so `Nat` with decidable equality is faithful.
* `search` is the binary search **as coded** (upper bound: first index whose round is `> r`),
  written with the same `left/right/middle` updates, with explicit fuel (see `searchAux`).
* `add` reproduces the repeat test exactly: only the predecessor of the insertion point is
  compared, and only its `Data` (the round is not compared).
* every method holds `mu` for its whole body, so each call is one atomic step of the model.
Core-only (no Mathlib): this file is linked into the `zdrv` driver.
-/
namespace ZChain.OrderBuffer

structure Item where
  round : Int
  data  : Nat
deriving DecidableEq, Repr, Inhabited

structure OB where
  max : Nat
  buf : List Item
deriving Repr

def new (max : Nat) : OB := { max := max, buf := [] }

/-- `rb.search(round)`: the loop `for left < right { middle := (left+right)/2; ... }`.
Structural recursion on a fuel argument so that the kernel can evaluate it (`decide`);
`search` supplies `len + 1` fuel and `Proofs/OrderBuffer.searchAux_spec` shows the loop always
exits through `left ≥ right` before the fuel is used up (the interval halves each turn). -/
def searchAux (buf : List Item) (r : Int) : Nat → Nat → Nat → Nat
  | 0, left, _ => left
  | fuel + 1, left, right =>
    if left < right then
      let middle := (left + right) / 2
      if (buf.getD middle default).round ≤ r then
        searchAux buf r fuel (middle + 1) right
      else
        searchAux buf r fuel left middle
    else left

def search (buf : List Item) (r : Int) : Nat := searchAux buf r (buf.length + 1) 0 buf.length

/-- the repeat test of `Add`: `len > 0 && index > 0 && Buffer[index-1].Data == item.Data`. -/
def isRepeat (buf : List Item) (index : Nat) (d : Nat) : Bool :=
  decide (0 < buf.length) && decide (0 < index) && decide ((buf.getD (index - 1) default).data = d)

/-- `append(Item{}); copy(buf[index+1:], buf[index:]); buf[index] = item`. -/
def insertAt (buf : List Item) (index : Nat) (it : Item) : List Item :=
  buf.take index ++ it :: buf.drop index

def add (b : OB) (r : Int) (d : Nat) : OB :=
  let index := search b.buf r
  if isRepeat b.buf index d then b
  else
    let buf' := insertAt b.buf index ⟨r, d⟩
    { b with buf := if buf'.length > b.max then buf'.take b.max else buf' }

def first (b : OB) : Option Item := b.buf.head?

def pop (b : OB) : OB × Option Item :=
  match b.buf with
  | [] => (b, none)
  | x :: xs => ({ b with buf := xs }, some x)

inductive Op where
  | add (r : Int) (d : Nat)
  | first
  | pop
deriving Repr

def step (b : OB) : Op → OB
  | .add r d => add b r d
  | .first => b
  | .pop => (pop b).1

def run (b : OB) (ops : List Op) : OB := ops.foldl step b

end ZChain.OrderBuffer
