import ZChain.Model.Multisig
/-!
Line protocol of the multisig model (`zdrv-C21`; Go side: `harness/cmd/c21`). Core-only; `F := Alg.Fr`.

`init <fee> <now> | <id:bal:nonce>* | <client:sk>*`        (client ids 2.. hold the BLS secret `sk`)
`tick <seconds>`                                            (the next blocks carry a later creation date)
`skew <seconds>`                                            (signed: the following transactions carry creation date = block date + skew;
                                                             the model hands the BLOCK date to `vote`)
`reg  <sender> <value> <fee> <nonce> !<v> | <clientId>:<pkOwner|->:<scheme 0|1>:<numRequired>:<tids|->:<keys|->`
      tids = comma list of tokens (`t < 1000`: hex of t; `1000 ≤ t < 2000`: the same id spelled with a leading 0;
      `t ≥ 2000`: not hex); keys = comma list of `k<client>` | `b<v>`
`vote <sender> <value> <fee> <nonce> !<v> | <name>:<src>:<dst>:<amount>:<sig>:<big 0|1>`
      sig = `-` | `b<v>` | `<c>=` (scalar c signs this transfer) | `<c>*<src>.<dst>.<amount>` (another transfer)
answer: `<status> <error class|-> <extra|-> a=… w=… p=… q=… x=0`.
-/
namespace ZChain.MultisigLine
open ZChain ZChain.Ledger ZChain.Multisig ZChain.Alg

structure DS where
  feeOn : Bool := true
  now : Int := 0
  keys : List (Nat × Fr) := []
  st : MSt Fr := { accts := [], wallets := [], props := [], queue := [], nextSerial := 0 }
  txn : Nat := 0
  skew : Int := 0          -- transaction creation date − block creation date, for the following transactions
  ready : Bool := false

/-- the driver's concrete message-point function of a transfer (see `ZcnLine.hm`). -/
def hm (t : Xfer) : Fr :=
  Fr.ofNat (8305608133456217771190453213395412094356118531640087346158097130941717291 +
    14018570141183949620303841265309203817402285127891734620113405531640087343 * t.src +
    10579208923731619542357098500868790785283756427907490438260516314151816147 * t.dst +
    12407807929942597099574024998205846127479365820592393377723561443721764033 * t.amount)

def insertSorted (x : Int × String) : List (Int × String) → List (Int × String)
  | [] => [x]
  | y :: ys => if x.1 ≤ y.1 then x :: y :: ys else y :: insertSorted x ys

def sortByKey (l : List (Int × String)) : List (Int × String) := l.foldl (fun acc x => insertSorted x acc) []
def joinSorted (sep : String) (l : List (Int × String)) : String := sep.intercalate ((sortByKey l).map (·.2))

def dedupFirst {α : Type} (a : List (Nat × α)) : List (Nat × α) :=
  a.foldl (fun acc p => if acc.any (fun q => q.1 = p.1) then acc else acc ++ [p]) []

def showState (s : MSt Fr) : String :=
  let as := (dedupFirst s.accts).map fun p => ((p.1 : Int), s!"{p.1}:{p.2.balance}:{p.2.nonce}")
  let ws := s.wallets.map fun w =>
    ((w.id : Int), s!"{w.id}/{w.numRequired}/" ++ ",".intercalate (w.signers.map fun sg => s!"{sg.tid}.{sg.client}"))
  let ps := s.props.map fun p =>
    let v := match p.clientSig, findWallet s.wallets p.wallet with
      | none, _ => "v-"
      | some _, none => "v?"
      | some cs, some w => if verifyLib w.groupKey (hm p.transfer) cs then "v1" else "v0"
    (((p.wallet * 1000 + p.name : Nat) : Int),
      s!"{p.wallet}.{p.name}/{p.expires}/{p.transfer.src}.{p.transfer.dst}.{p.transfer.amount}/" ++
      ",".intercalate (p.entries.map fun e => s!"{e.tid}") ++ (if p.executed.isSome then "/e1/" else "/e0/") ++ v)
  let qs := s.queue.map fun r => s!"{r.1}.{r.2}"
  s!"a={joinSorted "," as} w={joinSorted ";" ws} p={joinSorted ";" ps} q={",".intercalate qs} x=0"

def showStatus : Status → String
  | .rejected => "rejected" | .success => "success" | .failed => "failed"

def splitBars (ws : List String) : List (List String) :=
  let r := ws.foldl (fun (acc : List (List String) × List String) w =>
    if w = "|" then (acc.1 ++ [acc.2], []) else (acc.1, acc.2 ++ [w])) ([], [])
  r.1 ++ [r.2]

def natTail? (s : String) : Option Nat := (String.ofList (s.toList.drop 1)).toNat?

def parseAccts (ws : List String) : Option Accts :=
  ws.mapM fun w => match w.splitOn ":" with
    | [i, b, n] => do pure ((← i.toNat?), (⟨← b.toNat?, ← n.toInt?⟩ : Acct))
    | _ => none

def parseKeys (ws : List String) : Option (List (Nat × Fr)) :=
  ws.mapM fun w => match w.splitOn ":" with
    | [k, sk] => do pure ((← k.toNat?), (← Fr.parse? sk))
    | _ => none

def keyOf (keys : List (Nat × Fr)) (i : Nat) : Option Fr := (keys.find? (·.1 = i)).map (·.2)

def maxId : Nat := 13

def parseInit (ws : List String) : Option DS :=
  match ws with
  | fee :: now :: rest =>
    match splitBars rest with
    | [[], accts, keys] => do
      if fee ≠ "0" ∧ fee ≠ "1" then none
      let keys ← parseKeys keys
      if keys.length ≠ 12 ∨ keys.any (fun k => k.1 < 2 ∨ k.1 > maxId) ∨ (keys.map (·.1)).eraseDups.length ≠ 12 then none
      pure { feeOn := fee = "1", now := ← now.toInt?, keys := keys, ready := true,
             st := { accts := ← parseAccts accts, wallets := [], props := [], queue := [], nextSerial := 0 } }
    | _ => none
  | _ => none

def tidX (t : Nat) : Option Fr := if t < 2000 then some (Fr.ofNat (t % 1000)) else none

def parseReg (keys : List (Nat × Fr)) (s : String) : Option (Option (RegIn Fr)) :=
  match s.toList with
  | '!' :: _ => (natTail? s).map fun _ => none
  | _ =>
    match s.splitOn ":" with
    | [cid, pko, scheme, nr, tids, ks] => do
      let cid ← cid.toNat?
      if cid > maxId then none
      if scheme ≠ "0" ∧ scheme ≠ "1" then none
      let pko ← (if pko = "-" then some none else do
        let o ← pko.toNat?
        if o < 2 ∨ o > maxId then none
        pure (some o))
      let gk := match pko with
        | none => (0 : Fr)
        | some o => (keyOf keys o).getD 0
      let tids ← (if tids = "-" then some [] else (tids.splitOn ",").mapM (·.toNat?))
      let ks ← (if ks = "-" then some [] else (ks.splitOn ",").mapM fun k =>
        match k.toList with
        | 'k' :: _ => do
          let i ← natTail? k
          if i < 2 ∨ i > maxId then none
          pure (KeyTok.good i (← keyOf keys i))
        | 'b' :: _ => (natTail? k).map fun v => KeyTok.bad (v % 3)
        | _ => none)
      pure (some { clientId := cid, pkOwner := pko, groupKey := gk, schemeOk := scheme = "1", numRequired := ← nr.toInt?,
                   tids := tids.map (fun t => (t, tidX t)), keys := ks })
    | _ => none

def parseSig (t : Xfer) (s : String) : Option (SigTok Fr) :=
  if s = "-" then some .empty
  else match s.toList with
    | 'b' :: _ => (natTail? s).map fun _ => SigTok.bad
    | _ =>
      if s.endsWith "=" then do
        let c ← Fr.parse? (String.ofList (s.toList.dropLast))
        pure (.pt (sign c (hm t)))
      else match s.splitOn "*" with
        | [c, tt] => match tt.splitOn "." with
          | [a, b, m] => do
            let a ← a.toNat?
            let b ← b.toNat?
            if a > maxId ∨ b > maxId then none
            let m ← m.toNat?
            if m ≥ 18446744073709551616 then none
            pure (.pt (sign (← Fr.parse? c) (hm ⟨a, b, m⟩)))
          | _ => none
        | _ => none

def parseVote (s : String) : Option (VoteIn Fr) :=
  match s.toList with
  | '!' :: _ => (natTail? s).map fun _ => VoteIn.malformed
  | _ =>
    match s.splitOn ":" with
    | [name, src, dst, amt, sig, big] => do
      let name ← name.toNat?
      let src ← src.toNat?
      let dst ← dst.toNat?
      let amt ← amt.toNat?
      if name ≥ 3 ∨ src > maxId ∨ dst > maxId ∨ amt ≥ 18446744073709551616 then none
      if big ≠ "0" ∧ big ≠ "1" then none
      if sig.isEmpty then none
      let t : Xfer := ⟨src, dst, amt⟩
      pure (.vote name t (← parseSig t sig) (big = "1"))
    | _ => none

def regErrTag : RegErr → String
  | .decode => "decode" | .clientMismatch => "clientMismatch" | .pkMismatch => "pkMismatch" | .lenMismatch => "lenMismatch"
  | .tooMany => "tooMany" | .tooFewRequired => "tooFewRequired" | .tooManyRequired => "tooManyRequired"
  | .dupIds => "dupIds" | .dupKeys => "dupKeys" | .scheme => "scheme" | .badKey => "badKey" | .exists => "exists"

def voteErrTag : VoteErr → String
  | .decode => "decode" | .tooBig => "tooBig" | .amount => "amount" | .noSig => "noSig" | .expired => "expired"
  | .incompatible => "incompatible" | .noWallet => "noWallet" | .auth => "auth" | .recover => "recover"

def voteOkTag : VoteOk → String
  | .prevExecuted => "p" | .duplicate n => s!"d{n}" | .needMore n => s!"r{n}" | .executed => "x"

def answer (r : MSt Fr × Status) (errTag : Option String) (extra : String) : String :=
  let cls := match r.2, errTag with
    | .failed, some t => t
    | _, _ => "-"
  let ex := if r.2 = .success then extra else "-"
  s!"{showStatus r.2} {cls} {ex} {showState r.1}"

def parseCall (date : Int) (sender value fee nonce : String) : Option Call := do
  let s ← sender.toNat?
  if s > maxId then none
  pure { sender := s, value := ← value.toNat?, fee := ← fee.toNat?, nonce := ← nonce.toInt?, date := date }

def step (d : DS) (ws : List String) : DS × String :=
  match ws with
  | "init" :: rest =>
    match parseInit rest with
    | some d' => (d', "ok " ++ showState d'.st)
    | none => ({ d with ready := false }, "bad-op")
  | ["tick", dt] =>
    if !d.ready then (d, "bad-op") else
    match dt.toNat? with
    | some dt => ({ d with now := d.now + dt }, "ok")
    | none => (d, "bad-op")
  | ["skew", dt] =>
    if !d.ready then (d, "bad-op") else
    match dt.toInt? with
    | some dt => ({ d with skew := dt }, "ok")
    | none => (d, "bad-op")
  | [op, sender, value, fee, nonce, arg] =>
    if !d.ready then (d, "bad-op") else
    match parseCall (d.now + d.skew) sender value fee nonce with
    | none => (d, "bad-op")
    | some c =>
      match op with
      | "reg" =>
        match parseReg d.keys arg with
        | none => (d, "bad-op")
        | some r =>
          let res := registerStep d.feeOn d.st c r
          let tag := match register d.st c.sender r with
            | .error e => some (regErrTag e)
            | .ok _ => none
          ({ d with st := res.1, txn := d.txn + 1 }, answer res tag "-")
      | "vote" =>
        match parseVote arg with
        | none => (d, "bad-op")
        | some v =>
          let res := voteStep hm d.feeOn d.st c d.now d.txn v
          let (tag, extra) := match vote hm d.st c.sender d.now d.txn v with
            | .error e => (some (voteErrTag e), "-")
            | .ok o => (none, voteOkTag o.res)
          ({ d with st := res.1, txn := d.txn + 1 }, answer res tag extra)
      | _ => (d, "bad-op")
  | _ => (d, "bad-op")

end ZChain.MultisigLine
