import ZChain.Model.Partitions
/-
Model of the state cache in front of the state trie:
`github.com/0chain/common/core/statecache` (statecache.go `StateCache`, blockcache.go `BlockCache`,
transactioncache.go `TransactionCache`, queryblockcache.go `QueryBlockCache`) and
`chaincore/chain/state/state_context.go` (`GetTrieNode`, `InsertTrieNode`, `DeleteTrieNode`), driven the way
`chaincore/chain/state.go updateState` and `chaincore/block/entity.go ComputeState` drive them
(one transaction cache + transaction MPT per transaction, committed only on success; one block cache per block
execution, committed to the state cache when the block's state is computed).

* Keys, block hashes and values are `Nat`. A trie is a finite map `key ↦ value` (`KV Nat`); every committed
  block has its own trie (`World.tries`), a block execution works on a copy of its parent's trie, a transaction
  on a copy of the block's (the level node DBs of `CreateTxnMPT` / `MergeMPTChanges`).
* `Value.Clone` / `CopyFrom` are explicit functions (`Cfg.clone`, `Cfg.copyFrom`): the caches clone on every
  `Set` and `Get`, `GetTrieNode` copies a hit into the caller's object with `CopyFrom`.
* `StateCache.Get(key, blockHash)` is transcribed with its walk along `hashCache` (previous-hash links recorded
  at commit) and its "migration": when the value is found at an ancestor, the per-key map is REPLACED by a
  fresh one holding only the entry for the queried block (`sc.cache.Add(key, bvsi)`). `Cfg.keep = true` is the
  variant that adds the entry to the existing map instead (used to state what would make the property hold).
* not modelled: the LRU bounds (100K keys, 200 block entries per key, 2000 hashes: eviction only removes
  entries), hit/miss statistics, locking (every method holds its lock for its whole body), the trie-node
  entries the MPT itself keeps in the same transaction cache (keyed by node hash: content-addressed).
Core-only: linked into `zdrv-C07`.
-/
namespace ZChain.StateCache
open ZChain.Partitions (KV)

/-- `valueNode{data, deleted}` -/
inductive VNode
  | val (v : Nat)
  | deleted
deriving DecidableEq, Repr

structure Cfg where
  /-- `Value.Clone` -/
  clone : Nat → Nat := id
  /-- what `x.CopyFrom(v)` leaves in `x` -/
  copyFrom : Nat → Nat := id
  /-- `false`: the migration of `StateCache.Get` as coded (replaces the per-key map) -/
  keep : Bool := false
  /-- `maxHisDepth` -/
  maxDepth : Nat := 2000

/-- `StateCache`: `cache` key ↦ (block hash ↦ node), `hashCache` block hash ↦ previous hash -/
structure SCache where
  cache : KV (KV VNode) := []
  hashes : KV Nat := []
deriving Repr

/-- answer of a cache lookup -/
inductive Hit
  | hit (v : Nat)
  | miss
deriving DecidableEq, Repr

/-- the `for` loop of `StateCache.Get`: `count` turns done, currently at `blockHash`. -/
def scWalk (cfg : Cfg) (sc : SCache) (bvs : KV VNode) (key old : Nat) : Nat → Nat → Nat → SCache × Hit
  | 0, _, _ => (sc, .miss)
  | fuel + 1, count, bh =>
    match sc.hashes.get bh with
    | none => (sc, .miss)                       -- "see gap"
    | some prev =>
      match bvs.get prev with
      | none => if count + 1 ≥ cfg.maxDepth then (sc, .miss) else scWalk cfg sc bvs key old fuel (count + 1) prev
      | some v =>
        -- migrate: a fresh per-key map with the single entry (old ↦ v) … or, with `keep`, one more entry
        let bvs' : KV VNode := if cfg.keep then KV.set bvs old v else KV.set [] old v
        let sc' := { sc with cache := sc.cache.set key bvs' }
        match v with
        | .deleted => (sc', .miss)
        | .val d => (sc', .hit (cfg.clone d))

/-- `StateCache.Get(key, blockHash)` -/
def scGet (cfg : Cfg) (sc : SCache) (key bh : Nat) : SCache × Hit :=
  match sc.cache.get key with
  | none => (sc, .miss)
  | some bvs =>
    match bvs.get bh with
    | some (.val d) => (sc, .hit (cfg.clone d))
    | some .deleted => (sc, .miss)
    | none => scWalk cfg sc bvs key bh cfg.maxDepth 0 bh

/-- `BlockCache.Get` (its own map, then the state cache at the previous block) -/
def bcGet (cfg : Cfg) (sc : SCache) (bc : KV VNode) (prev key : Nat) : SCache × Hit :=
  match bc.get key with
  | some (.val d) => (sc, .hit (cfg.clone d))
  | some .deleted => (sc, .miss)
  | none => scGet cfg sc key prev

/-- the clone a lower layer takes of a node handed down (`v.data = v.data.Clone()`) -/
def clNode (cfg : Cfg) : VNode → VNode
  | .val d => .val (cfg.clone d)
  | .deleted => .deleted

/-- `StateCache.commit(bc)`: nothing if the block hash is already committed; otherwise every node of the
block cache is added under the block hash and the previous-hash link is recorded. -/
def scCommit (cfg : Cfg) (sc : SCache) (bc : KV VNode) (hash prev : Nat) : SCache :=
  match sc.hashes.get hash with
  | some _ => sc
  | none =>
    let cache := bc.foldl (fun (c : KV (KV VNode)) (kv : Nat × VNode) =>
      let bvs : KV VNode := (c.get kv.1).getD []
      c.set kv.1 (bvs.set hash (clNode cfg kv.2))) sc.cache
    { cache := cache, hashes := sc.hashes.set hash prev }

/-- `TransactionCache.Commit()`: `main.setValue(key, value)` for every entry (the block cache clones) -/
def tcCommit (cfg : Cfg) (tc bc : KV VNode) : KV VNode :=
  tc.foldl (fun (b : KV VNode) (kv : Nat × VNode) => b.set kv.1 (clNode cfg kv.2)) bc

/-! ### the world: committed blocks, the state cache, one block execution with at most one open transaction -/

structure Txn where
  tc : KV VNode := []
  trie : KV Nat
deriving Repr

structure Exec where
  hash : Nat
  prev : Nat
  bc : KV VNode := []
  trie : KV Nat
  txn : Option Txn := none
deriving Repr

structure World where
  sc : SCache := {}
  /-- the state (trie) of every block whose state is computed; block 0 is the genesis (empty trie) -/
  tries : KV (KV Nat) := [(0, [])]
  cur : Option Exec := none
deriving Repr

inductive Ans
  | ok
  | val (v : Nat)
  | absent          -- `util.ErrValueNotPresent`
  | rejected        -- the trie refused the insert (encoded value above `util.MPTMaxAllowableNodeSize`)
  | bad             -- the harness refuses the operation (no such block / nothing open …)
deriving DecidableEq, Repr

/-- `TransactionCache.Get` over a block cache -/
def tcGet (cfg : Cfg) (sc : SCache) (tc bc : KV VNode) (prev key : Nat) : SCache × Hit :=
  match tc.get key with
  | some (.val d) => (sc, .hit (cfg.clone d))
  | some .deleted => (sc, .miss)
  | none => bcGet cfg sc bc prev key

/-- `StateContext.GetTrieNode(key, v)` over (transaction cache, rest of the lookup, trie): a hit is copied into
`v`; a miss reads the trie and caches a clone of what it decoded. Returns the new transaction cache too. -/
def getTrieNode (cfg : Cfg) (look : SCache × Hit) (tc : KV VNode) (trie : KV Nat) (key : Nat) :
    SCache × KV VNode × Ans :=
  match look with
  | (sc, .hit cv) => (sc, tc, .val (cfg.copyFrom cv))
  | (sc, .miss) =>
    match trie.get key with
    | none => (sc, tc, .absent)
    | some v => (sc, tc.set key (.val (cfg.clone v)), .val v)

inductive Op
  | begin_ (h p : Nat)      -- start computing the state of block `h` on its parent `p`
  | tx                      -- begin a transaction
  | get (k : Nat)           -- GetTrieNode
  | probe (k : Nat)         -- `sctx.Cache().Get(key)` alone
  | ins (k v : Nat)         -- InsertTrieNode
  | del (k : Nat)           -- DeleteTrieNode
  | insfail (k : Nat)       -- InsertTrieNode of a value the trie refuses: `setNodeValue` fails first, the cache is
                            -- not touched (the caller may tolerate the error and go on)
  | getn (k : Nat)          -- GetTrieNode into an object that is not `Copyable`: the cache is consulted, a hit cannot
                            -- be used, the trie is read, nothing is cached (state_context.go after e59baf9)
  | getr (k : Nat)          -- GetTrieNode into an object whose `CopyFrom` refuses the cached value: the trie is read
                            -- and what was decoded is cached
  | commit                  -- the transaction succeeded: MergeMPTChanges + TransactionCache.Commit
  | discard                 -- the transaction failed: both dropped
  | bcommit                 -- block state computed: BlockCache.Commit, the block becomes a parent candidate
  | babort                  -- block execution dropped
  | query (h k : Nat)       -- GetTrieNode at computed block `h` through a QueryBlockCache
deriving Repr

def step (cfg : Cfg) (w : World) : Op → World × Ans
  | .begin_ h p =>
    match w.cur, w.tries.get p with
    | none, some t => ({ w with cur := some { hash := h, prev := p, trie := t } }, .ok)
    | _, _ => (w, .bad)
  | .tx =>
    match w.cur with
    | some e =>
      match e.txn with
      | none => ({ w with cur := some { e with txn := some { trie := e.trie } } }, .ok)
      | some _ => (w, .bad)
    | none => (w, .bad)
  | .get k =>
    match w.cur with
    | some e =>
      match e.txn with
      | some t =>
        let (sc, tc, a) := getTrieNode cfg (tcGet cfg w.sc t.tc e.bc e.prev k) t.tc t.trie k
        ({ w with sc := sc, cur := some { e with txn := some { t with tc := tc } } }, a)
      | none => (w, .bad)
    | none => (w, .bad)
  | .probe k =>
    match w.cur with
    | some e =>
      match e.txn with
      | some t =>
        match tcGet cfg w.sc t.tc e.bc e.prev k with
        | (sc, .hit v) => ({ w with sc := sc }, .val v)
        | (sc, .miss) => ({ w with sc := sc }, .absent)
      | none => (w, .bad)
    | none => (w, .bad)
  | .ins k v =>
    match w.cur with
    | some e =>
      match e.txn with
      | some t =>
        ({ w with cur := some { e with txn := some { tc := t.tc.set k (.val (cfg.clone v)), trie := t.trie.set k v } } }, .ok)
      | none => (w, .bad)
    | none => (w, .bad)
  | .del k =>
    match w.cur with
    | some e =>
      match e.txn with
      | some t =>
        match t.trie.get k with
        | none => (w, .absent)            -- the MPT refuses; the cache is not touched
        | some _ =>
          ({ w with cur := some { e with txn := some { tc := t.tc.set k .deleted, trie := t.trie.del k } } }, .ok)
      | none => (w, .bad)
    | none => (w, .bad)
  | .insfail _ =>
    match w.cur with
    | some e =>
      match e.txn with
      | some _ => (w, .rejected)
      | none => (w, .bad)
    | none => (w, .bad)
  | .getn k =>
    match w.cur with
    | some e =>
      match e.txn with
      | some t =>
        ({ w with sc := (tcGet cfg w.sc t.tc e.bc e.prev k).1 },
         match t.trie.get k with
         | some v => .val v
         | none => .absent)
      | none => (w, .bad)
    | none => (w, .bad)
  | .getr k =>
    match w.cur with
    | some e =>
      match e.txn with
      | some t =>
        let (sc, tc, a) := getTrieNode cfg ((tcGet cfg w.sc t.tc e.bc e.prev k).1, .miss) t.tc t.trie k
        ({ w with sc := sc, cur := some { e with txn := some { t with tc := tc } } }, a)
      | none => (w, .bad)
    | none => (w, .bad)
  | .commit =>
    match w.cur with
    | some e =>
      match e.txn with
      | some t => ({ w with cur := some { e with bc := tcCommit cfg t.tc e.bc, trie := t.trie, txn := none } }, .ok)
      | none => (w, .bad)
    | none => (w, .bad)
  | .discard =>
    match w.cur with
    | some e =>
      match e.txn with
      | some _ => ({ w with cur := some { e with txn := none } }, .ok)
      | none => (w, .bad)
    | none => (w, .bad)
  | .bcommit =>
    match w.cur with
    | some e =>
      match e.txn with
      | none =>
        ({ sc := scCommit cfg w.sc e.bc e.hash e.prev,
           tries := match w.tries.get e.hash with
             | some _ => w.tries          -- the state of this hash is already computed
             | none => w.tries.set e.hash e.trie,
           cur := none }, .ok)
      | some _ => (w, .bad)
    | none => (w, .bad)
  | .babort =>
    match w.cur with
    | some _ => ({ w with cur := none }, .ok)
    | none => (w, .bad)
  | .query h k =>
    match w.tries.get h with
    | some t =>
      -- a transaction cache over a QueryBlockCache(sc, h); whatever it caches is dropped afterwards
      let (sc, _, a) := getTrieNode cfg (scGet cfg w.sc k h) [] t k
      ({ w with sc := sc }, a)
    | none => (w, .bad)

/-- the uncached reference: the trie the operation reads from (`none` when nothing is readable) -/
def refRead (w : World) : Op → Option (Option Nat)
  | .get k | .probe k | .getn k | .getr k =>
    match w.cur with
    | some e => match e.txn with
      | some t => some (t.trie.get k)
      | none => none
    | none => none
  | .query h k => (w.tries.get h).map fun t => t.get k
  | _ => none

def run (cfg : Cfg) (w : World) : List Op → World
  | [] => w
  | op :: ops => run cfg (step cfg w op).1 ops

end ZChain.StateCache
