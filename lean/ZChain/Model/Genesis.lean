import ZChain.Model.Ledger
/-
Model of `chaincore/chain/entity.go: (*Chain).mustInitGBState` (genesis balances), without the initial
stakes (they create stake-pool records, not client balances).

For every contract entry `v` of the initial-state file: `scTotal += v.Tokens` (checked: panic on
overflow); every client entry `cv` of `v` is written with `SetClientState(cv.ID, cv.Tokens)` — an
OVERWRITE, not an addition — while `transfered += cv.Tokens` (checked); then
`v.Tokens -= transfered` (checked `MinusCoin`: panic if the clients were given more than the contract
declares) and the contract's own wallet is written with the remainder. Finally
`scTotal ≠ MaxTokenSupply` panics. `none` = the node panics at start-up (no chain).
Core-only.
-/
namespace ZChain.Ledger

structure GenSC where
  id : Id
  tokens : Nat
  clients : List (Id × Nat)
deriving Repr

/-- the writes of one contract entry, in order; `none` = panic. -/
def genWrites (sc : GenSC) : Option (List (Id × Nat)) :=
  let tr := (sc.clients.map (·.2)).sum
  -- `AddCoin` panics as soon as a partial sum reaches 2^64; all summands are < 2^64, so that is
  -- equivalent to the total reaching 2^64 (partial sums are monotone)
  if tr ≥ u64 then none
  else if sc.tokens < tr then none
  else some (sc.clients ++ [(sc.id, sc.tokens - tr)])

def applyWritesA (a : Accts) : List (Id × Nat) → Accts
  | [] => a
  | (i, v) :: rest => applyWritesA (set a i ⟨v, 1⟩) rest   -- `mustInitialState`: Nonce 1

def genesisGo (a : Accts) (scTotal : Nat) : List GenSC → Option (Accts × Nat)
  | [] => some (a, scTotal)
  | sc :: rest =>
    if scTotal + sc.tokens ≥ u64 then none
    else match genWrites sc with
      | none => none
      | some ws => genesisGo (applyWritesA a ws) (scTotal + sc.tokens) rest

def genesis (cfg : List GenSC) : Option Accts :=
  match genesisGo [] 0 cfg with
  | none => none
  | some (a, tot) => if tot ≠ maxTokenSupply then none else some a

/-- all ids written by a configuration, in write order. -/
def genIds (cfg : List GenSC) : List Id := cfg.flatMap (fun sc => sc.clients.map (·.1) ++ [sc.id])

end ZChain.Ledger
