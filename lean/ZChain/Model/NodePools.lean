import ZChain.Model.Replicators
import ZChain.Model.MagicBlocks
/-
Several node pools over SHARED node objects — `chaincore/node/node_pool.go` `Pool.AddNode` + `computeNodePositions`
as they act on `*Node` objects that may sit in more than one pool, and `HashPoolScorer.ScoreHash` reading
`Node.SetIndex` from the object.

`SetIndex` is a field of the node OBJECT: every `computeNodePositions` of every pool the object is in rewrites it. A
pool's `Nodes` slice holds object ids; the object heap holds `(node, setIndex)`. `AddNode` never looks at `SetIndex`
(it searches `Nodes` for the key), so a pool's members and order depend on its own `AddNode` history only
(`Proofs/NodePools.addNodeW_nodes`); `ScoreHash` uses `SetIndex` only to order equal scores, so the replicator SET does
not depend on it (`Props/C42.isBlockSharderW_spec`) — stale indices left by other pools change the order of ties, never
the set. Core-only.
-/
namespace ZChain.NodePools
open ZChain.NodePool ZChain.Replicators

structure NObj where
  node     : Node
  setIndex : Nat
deriving Repr, Inhabited

structure World where
  objs  : List (Nat × NObj)
  pools : List (Nat × List Nat)
deriving Repr

def emptyWorld : World := { objs := [], pools := [] }

def objGet (objs : List (Nat × NObj)) (o : Nat) : Option NObj :=
  match objs with
  | [] => none
  | (k, v) :: t => if k = o then some v else objGet t o

def getObj (w : World) (o : Nat) : NObj := (objGet w.objs o).getD default

def nodeOf (w : World) (o : Nat) : Node := (getObj w o).node

def poolGet (pools : List (Nat × List Nat)) (p : Nat) : List Nat :=
  match pools with
  | [] => []
  | (k, v) :: t => if k = p then v else poolGet t p

/-- the `Nodes` slice of pool `p` (object ids). -/
def poolNodes (w : World) (p : Nat) : List Nat := poolGet w.pools p

def poolSet (pools : List (Nat × List Nat)) (p : Nat) (l : List Nat) : List (Nat × List Nat) :=
  (p, l) :: pools.filter (fun q => q.1 ≠ p)

/-- a new node object (`node.Provider()` + `SetID`): `SetIndex` is 0 until a pool positions it. -/
def newObj (w : World) (o : Nat) (n : Node) : World :=
  { w with objs := (o, ⟨n, 0⟩) :: w.objs.filter (fun q => q.1 ≠ o) }

/-- `np.Nodes[i] = node; break` for the first entry with the key. -/
def replaceFirstW (w : World) (o : Nat) : List Nat → List Nat
  | [] => []
  | x :: xs => if (nodeOf w x).key = (nodeOf w o).key then o :: xs else x :: replaceFirstW w o xs

def setIdx (objs : List (Nat × NObj)) (o i : Nat) : List (Nat × NObj) :=
  objs.map (fun q => if q.1 = o then (q.1, { q.2 with setIndex := i }) else q)

/-- `for idx, node := range np.Nodes { node.SetIndex = idx }`. -/
def assign : List Nat → Nat → List (Nat × NObj) → List (Nat × NObj)
  | [], _, ob => ob
  | o :: t, i, ob => assign t (i + 1) (setIdx ob o i)

/-- `Pool.AddNode(node)` on pool `p` with the node object `o`. -/
def addNodeW (w : World) (p o : Nat) : World :=
  let nodes := poolNodes w p
  let nodes' := if nodes.any (fun x => (nodeOf w x).key = (nodeOf w o).key) then replaceFirstW w o nodes else nodes ++ [o]
  let sorted := sortStable (fun a b => keyLess (nodeOf w a) (nodeOf w b)) nodes'
  { objs := assign sorted 0 w.objs, pools := poolSet w.pools p sorted }

/-- the first loop of `ScoreHash`: score of every node of the slice, with the object's CURRENT `SetIndex`. -/
def scoreObjs (w : World) (hash : List Nat) : List Nat → Option (List Score)
  | [] => some []
  | o :: t => match scoreBytes (nodeOf w o).idBytes hash, scoreObjs w hash t with
    | some s, some rest => some (⟨nodeOf w o, s, (getObj w o).setIndex⟩ :: rest)
    | _, _ => none

/-- `HashPoolScorer.ScoreHash(pool p, hash)`. -/
def scoreHashW (w : World) (p : Nat) (hash : List Nat) : Option (List Score) :=
  match scoreObjs w hash (poolNodes w p) with
  | some l => some (sortStable scoreLess l)
  | none => none

def scoreHashStringW (w : World) (p : Nat) (hash : Option (List Nat)) : Option (List Score) :=
  match hash with
  | none => some []
  | some h => scoreHashW w p h

/-- `Chain.IsBlockSharder` / `IsBlockSharderFromHash` with pool `p` as the magic block's sharders. -/
def isBlockSharderW (nrepl : Int) (w : World) (p : Nat) (hash : Option (List Nat)) (key : Nat) : Option Bool :=
  if nrepl ≤ 0 then some true
  else match scoreHashStringW w p hash with
    | none => none
    | some sc => isInTop sc nrepl key

/-- `Chain.CanShardBlockWithReplicators`. -/
def canShardW (nrepl : Int) (w : World) (p : Nat) (hash : Option (List Nat)) (key : Nat) : Option (Bool × List Node) :=
  if nrepl ≤ 0 then some (true, (poolNodes w p).map (nodeOf w))
  else match scoreHashStringW w p hash with
    | none => none
    | some sc => isInTopWithNodes sc nrepl key

/-! ### the chain's three entry points: ONE magic-block lookup for all of them

`Chain.IsBlockSharder(b, sharder)`, `Chain.IsBlockSharderFromHash(round, hash, sharder)` and
`Chain.CanShardBlockWithReplicators(round, hash, sharder)` all take the sharders of `c.GetMagicBlock(round)` — the
lookup WITH the view-change offset (`Model/MagicBlocks.getMagicBlock`: a magic block is in force from 4 rounds after its
starting round). The stored entity of a magic block is the id of its sharder pool. -/

/-- the sharder pool in force for a round (`none`: `GetMagicBlock` panics, empty storage). -/
def mbOf (mbs : ZChain.MagicBlocks.Store) (round : Int) : Option Nat := ZChain.MagicBlocks.getMagicBlock mbs round

def chainIsBlockSharderFromHash (nrepl : Int) (w : World) (mbs : ZChain.MagicBlocks.Store) (round : Int)
    (hash : Option (List Nat)) (key : Nat) : Option Bool :=
  if nrepl ≤ 0 then some true
  else match mbOf mbs round with
    | none => none
    | some p => isBlockSharderW nrepl w p hash key

/-- `IsBlockSharder(b, sharder)` with `b.Round = round`, `b.Hash = hash`. -/
def chainIsBlockSharder (nrepl : Int) (w : World) (mbs : ZChain.MagicBlocks.Store) (round : Int)
    (hash : Option (List Nat)) (key : Nat) : Option Bool :=
  chainIsBlockSharderFromHash nrepl w mbs round hash key

def chainCanShard (nrepl : Int) (w : World) (mbs : ZChain.MagicBlocks.Store) (round : Int)
    (hash : Option (List Nat)) (key : Nat) : Option (Bool × List Node) :=
  match mbOf mbs round with
  | none => none
  | some p => canShardW nrepl w p hash key

end ZChain.NodePools
