import ZChain.Base.Alg
/-!
Model of `chaincore/threshold/bls/dkg.go` (MakeDKG/SetDKG state, ComputeIDdkg, ComputeDKGKeyShare,
ValidateShare, AddSecretShare, AggregateSecretKeyShares, AggregatePublicKeyShares, Sign,
VerifySignature, CalBlsGpSign/RecoverGroupSig), of the client-side threshold and split keys
(`core/encryption/bls0chain_threshold.go`, `bls0chain.go` GenerateSplitKeys/AggregateSignatures) and of
`chaincore/block/sos.go` ShareOrSigns.Validate — all "in the exponent" (`Base/Alg`).
Core-only, generic over the scalar type `F`; the drivers instantiate `F := Alg.Fr`.

Go maps (`receivedSecretShares`, `gmpk`, `ShareOrSigns`) are association lists here; only
order-independent observations (sums, lookups, sorted key lists) are modelled.
-/
namespace ZChain.DKG
open ZChain.Alg

section Generic
variable {F : Type} [Add F] [Mul F] [Sub F] [Div F] [Zero F] [One F] [DecidableEq F]

/-- association-list update (Go: `m[k] = v`). -/
def put (m : List (F × F)) (k v : F) : List (F × F) :=
  if m.any (fun e => e.1 == k) then m.map (fun e => if e.1 == k then (k, v) else e) else m ++ [(k, v)]

def get? (m : List (F × F)) (k : F) : Option F := (m.find? (fun e => e.1 == k)).map (·.2)

/-- the part of `DKG` the property is about. `msk` are the `T` coefficients of the party's secret
polynomial (`secKey.GetMasterSecretKey(t)`), `recv` is `receivedSecretShares`, `gmpk` the map of
group-derived public keys per party id. -/
structure Party (F : Type) where
  t : Nat
  n : Nat
  id : F
  msk : List F
  recv : List (F × F)
  si : F
  gmpk : List (F × F)

/-- `MakeDKG(t, n, id)` with the coefficients the CSPRNG produced. -/
def mkParty (t n : Nat) (id : F) (msk : List F) : Party F :=
  { t := t, n := n, id := id, msk := msk, recv := [], si := 0, gmpk := [] }

/-- `dkg.mpks = bls.GetMasterPublicKey(dkg.msk)`. -/
def mpk (p : Party F) : List F := p.msk.map pubKey

/-- `ComputeDKGKeyShare(forID)`: `secVec.Set(dkg.msk, &forID)`; the library refuses an empty `msk`. -/
def computeShare (p : Party F) (forId : F) : Option F :=
  if p.msk.isEmpty then none else some (polyEval p.msk forId)

/-- `ValidateShare(jpk, sij, id)`: `expectedSijPK.Set(jpk,&id)` (error on an empty `jpk` ⇒ false) and
`expectedSijPK.IsEqual(sij.GetPublicKey())`. -/
def validateShare (jpk : List F) (sij id : F) : Bool :=
  if jpk.isEmpty then false else decide (polyEval jpk id = pubKey sij)

/-- `AddSecretShare(id, share, force)`: an existing different share is an error unless `force`. -/
def addSecretShare (p : Party F) (frm share : F) (force : Bool) : Option (Party F) :=
  match get? p.recv frm with
  | some old => if share ≠ old ∧ !force then none else some { p with recv := put p.recv frm share }
  | none => some { p with recv := put p.recv frm share }

/-- `AggregateSecretKeyShares`: `Si = Σ receivedSecretShares`, `Pi = Si.GetPublicKey()`. -/
def aggregateSecretKeyShares (p : Party F) : Party F := { p with si := (p.recv.map (·.2)).sum }

def pi (p : Party F) : F := pubKey p.si

/-- `AggregatePublicKeyShares(mpks)`: for every key `k` of the map, `gmpk[k] = Σ_{mpk ∈ mpks} mpk(k)`;
an empty `mpk` makes `pkj.Set` fail: the whole call returns the error (gmpk left partially filled in Go;
the model leaves it empty — the error is what is observed). -/
def aggregatePublicKeyShares (p : Party F) (mpks : List (F × List F)) : Option (Party F) :=
  if mpks.any (fun e => e.2.isEmpty) then none
  else some { p with gmpk := mpks.map (fun e => (e.1, (mpks.map (fun e' => polyEval e'.2 e.1)).sum)) }

/-- `GetPublicKeyByID`: a missing id yields the zero `PublicKey`. -/
def publicKeyById (p : Party F) (id : F) : F := (get? p.gmpk id).getD 0

/-- `dkg.Sign(msg)`. -/
def signShare (p : Party F) (h : F) : F := sign p.si h

/-- `VerifySignature(sig, msg, id)`: `sig.Verify(&gmpk[id], msg)`. -/
def verifySignature (p : Party F) (σ h id : F) : Bool := verifyLib (publicKeyById p id) h σ

/-- `CalBlsGpSign(recSig, recIDs)` on already parsed values: empty input is an error, then
`Sign.Recover(shares, ids)` (length mismatch is an error of the binding). -/
def calBlsGpSign (sigs ids : List F) : Option F :=
  if sigs.isEmpty || ids.isEmpty then none
  else if sigs.length != ids.length then none
  else recoverLib (ids.zip sigs)

/-! ### client-side threshold keys (`bls0chain_threshold.go`) -/

/-- `BLS0GenerateThresholdKeyShares(t, n, key)`: polynomial `sk :: cs` (`cs` the `t−1` random
coefficients), shares at ids `1..n`. -/
def thresholdShares (n : Nat) (poly : List F) (idOf : Nat → F) : List (F × F) :=
  (List.range n).map (fun i => (idOf (i + 1), polyEval poly (idOf (i + 1))))

/-- `BLS0ChainReconstruction.Reconstruct`: `Sign.Recover(sigs, ids)` (no threshold test in the code). -/
def reconstruct (idsSigs : List (F × F)) : Option F := recoverLib idsSigs

/-! ### split keys (`bls0chain.go` GenerateSplitKeys / AggregateSignatures) -/

/-- `GenerateSplitKeys(numSplits)`: `numSplits−1` fresh keys `ks`, the last one is `primary − Σ ks`. -/
def splitKeys (primary : F) (ks : List F) : List F := ks ++ [primary - ks.sum]

/-- `AggregateSignatures`. -/
def aggregateSignatures (sigs : List F) : F := sigs.sum

/-! ### `ShareOrSigns.Validate` (`chaincore/block/sos.go`) -/

/-- one entry of `sos.ShareOrSigns`: the receiving miner `key` (its DKG id `kid`), and either the
revealed share or a signature (with the public key registered for `key`, if any). -/
inductive SosEntry (F : Type) where
  | nil (key : Nat)
  | share (key : Nat) (kid : F) (sij : F)
  | sign (key : Nat) (pk : Option F) (h : F) (σ : F)

/-- returns the keys whose *shares* were validated, or `none` (Go `nil,false`). `mpk` is
`mpks.Mpks[sos.ID]` (the sender's public polynomial). -/
def sosValidate (mpk : List F) : List (SosEntry F) → Option (List Nat)
  | [] => some []
  | .nil _ :: rest => sosValidate mpk rest
  | .sign _ pk h σ :: rest =>
    match pk with
    | none => none
    | some pk => if verifyLib pk h σ then sosValidate mpk rest else none
  | .share key kid sij :: rest =>
    if validateShare mpk sij kid then (sosValidate mpk rest).map (key :: ·) else none

end Generic

/-- `ComputeIDdkg(minerID)`: `SetHexString("1" + minerID[:31])` — the scalar `16^31 + hex(minerID[:31])`. -/
def hexDigit? (c : Char) : Option Nat :=
  if '0' ≤ c ∧ c ≤ '9' then some (c.toNat - '0'.toNat)
  else if 'a' ≤ c ∧ c ≤ 'f' then some (c.toNat - 'a'.toNat + 10)
  else if 'A' ≤ c ∧ c ≤ 'F' then some (c.toNat - 'A'.toNat + 10)
  else none

def hexNat? (s : List Char) : Option Nat :=
  s.foldl (fun acc c => match acc, hexDigit? c with
    | some a, some d => some (a * 16 + d)
    | _, _ => none) (some 0)

def computeIdDkg (minerId : String) : Option Fr :=
  if minerId.length < 31 then none
  else (hexNat? ('1' :: (minerId.toList.take 31))).map Fr.ofNat

/-! ### the id of a client threshold share as a string (`GetID` / `SetID`, `bls0chain_threshold.go`)

`GetID` renders the id in hexadecimal (`GetHexString`), `SetID` parses hexadecimal (`SetHexString`): the multisig
contract stores the string at registration and rebuilds the share object from it before reconstruction. Digits are
modelled as their values, most significant first. -/

/-- digits of `n` in base `b`, most significant first (fuel-bounded: `fuel` digits at most). -/
def digitsOf (b : Nat) : Nat → Nat → List Nat
  | 0, _ => []
  | fuel + 1, n => if n < b then [n] else digitsOf b fuel (n / b) ++ [n % b]

/-- the number a digit string denotes in base `b`. -/
def parseDigits (b : Nat) (ds : List Nat) : Nat := ds.foldl (fun a d => a * b + d) 0

def showHex (n : Nat) : List Nat := digitsOf 16 64 n
def showDec (n : Nat) : List Nat := digitsOf 10 80 n
def parseHex (ds : List Nat) : Nat := parseDigits 16 ds

/-- `SetID(GetID(share))`: the id after the string round trip (ids are `1 … n`, far below `16^64`). -/
def idRoundTrip (id : Nat) : Option Nat := if id < 16 ^ 64 then some (parseHex (showHex id)) else none

end ZChain.DKG
