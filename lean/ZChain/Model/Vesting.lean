import ZChain.Base.Coin
/-!
# Model of `smartcontract/vestingsc/vesting.go`

`destination.left/full/period/move/unlock` (vesting.go:77-143), `addRequest.validate` (:176-197),
`vestingPool.want/fill/moveToDest/trigger/excess/delete/find/vest/drain` (:277-495), the SC functions
`add`, `stop`, `delete`, `unlock`, `trigger` (:591-863) and `tokenpool.ZcnPool.FillPool/DrainPool`.

* ids (pool owner, destinations, transaction senders) are naturals; the Go code only compares them with `==`.
* timestamps are `Int` (`common.Timestamp = int64`, seconds); the harness keeps them far from the int64 range,
  so `now - d.Move` is exact integer subtraction.
* `ratio = float64(period) / float64(full)` (or `1.0` when `now == end`) and `MultFloat64(left, ratio)` are exact
  binary64 (`F64`, `Coin.multFloat64`).
* the **unchecked** `vp.Balance - need` of `excess` is `wrapSub`; `p.Balance -= value` in `DrainPool` is guarded by
  `value > p.Balance` and therefore exact.
* every SC function is one transaction: on any error the state is unchanged (`Except`), on success it returns the
  new pool (or `none` after `delete`) and the queued transfers `(to, amount)` out of the contract's account, in order.
* not modelled: descriptions (length check), the per-client pool list, config updates, REST `info`.
Core-only (no Mathlib).
-/
namespace ZChain.Vesting
open ZChain ZChain.Coin

structure Dest where
  id     : Nat
  amount : Nat
  vested : Nat
  last   : Int
  move   : Int
deriving Repr, DecidableEq, Inhabited

structure Pool where
  balance : Nat
  start   : Int
  expire  : Int
  dests   : List Dest
  owner   : Nat
deriving Repr, DecidableEq, Inhabited

structure Conf where
  minLock  : Nat
  minDur   : Int    -- seconds
  maxDur   : Int
  maxDests : Nat
deriving Repr, DecidableEq, Inhabited

inductive Err where
  | coin (e : Coin.Err)
  | emptyPool | notOwner | noDestinations | zeroVesting | destNotFound | exceedsBalance | noExcess | expired | noPool
  | startsBeforeNow | tooShort | tooLong | noDestsInRequest | tooManyDests | notEnoughTokens | belowMinLock
  | noTokens | lockGtBalance | fillZero
deriving Repr, DecidableEq, Inhabited

def Err.tag : Err → String
  | .coin e => e.tag
  | .emptyPool => "empty-pool" | .notOwner => "not-owner" | .noDestinations => "no-destinations"
  | .zeroVesting => "zero-vesting" | .destNotFound => "dest-not-found" | .exceedsBalance => "exceeds-balance"
  | .noExcess => "no-excess" | .expired => "expired" | .noPool => "no-pool"
  | .startsBeforeNow => "starts-before-now" | .tooShort => "too-short" | .tooLong => "too-long"
  | .noDestsInRequest => "no-dests" | .tooManyDests => "too-many-dests" | .notEnoughTokens => "not-enough-tokens"
  | .belowMinLock => "below-min-lock" | .noTokens => "no-tokens" | .lockGtBalance => "lock-gt-balance" | .fillZero => "fill-zero"

def liftC {α} : Except Coin.Err α → Except Err α
  | .ok a => .ok a
  | .error e => .error (.coin e)

abbrev Transfers := List (Nat × Nat)

/-- `d.left()`. -/
def left (d : Dest) : Except Err Nat := liftC (minusCoin d.amount d.vested)

/-- the vesting ratio of `destination.unlock`: `1.0` at the end, else `float64(now-Move)/float64(end-Move)`. -/
def ratioOf (d : Dest) (now end_ : Int) : F64 :=
  if now = end_ then F64.one else F64.div (F64.ofInt (now - d.move)) (F64.ofInt (end_ - d.move))

/-- `d.move(now, moved)`. -/
def moveDest (d : Dest) (now : Int) (moved : Nat) : Except Err Dest :=
  if 0 < moved then do
    let nv ← liftC (addCoin d.vested moved)
    .ok { d with last := now, move := now, vested := nv }
  else .ok { d with last := now }

/-- `d.unlock(now, end, false)`: the amount for the period and the updated destination. -/
def unlockDest (d : Dest) (now end_ : Int) : Except Err (Dest × Nat) := do
  let l ← left d
  let a0 ← liftC (multFloat64 l (ratioOf d now end_))
  -- repair 9976375 (vesting.go:137): `if amount > left { amount = left }` — float64(left) may round up for left ≥ 2^53
  let amount := if l < a0 then l else a0
  let d' ← moveDest d now amount
  .ok (d', amount)

def clip (p : Pool) (now : Int) : Int :=
  if p.expire < now then p.expire else if now < p.start then p.start else now

/-- `ZcnPool.DrainPool` on the pool balance. -/
def drainPool (balance value : Nat) : Except Err Nat :=
  if balance < value then .error .exceedsBalance else .ok (balance - value)

/-- the loop of `vp.trigger`. -/
def triggerLoop (now end_ : Int) : List Dest → Nat → Except Err (List Dest × Nat × Transfers)
  | [], bal => .ok ([], bal, [])
  | d :: rest, bal => do
    let (d', value) ← unlockDest d now end_
    if value = 0 then do
      let (rest', bal', ts) ← triggerLoop now end_ rest bal
      .ok (d' :: rest', bal', ts)
    else do
      let bal1 ← drainPool bal value
      let (rest', bal', ts) ← triggerLoop now end_ rest bal1
      .ok (d' :: rest', bal', (d.id, value) :: ts)

/-- `vp.trigger(t, balances)`. -/
def triggerPool (p : Pool) (now0 : Int) : Except Err (Pool × Transfers) :=
  if p.balance = 0 then .error .emptyPool
  else do
    let (ds, bal, ts) ← triggerLoop (clip p now0) p.expire p.dests p.balance
    .ok ({ p with dests := ds, balance := bal }, ts)

/-- `need` of `vp.excess()`: checked sum of the destinations' `left()`. -/
def needOf : List Dest → Nat → Except Err Nat
  | [], need => .ok need
  | d :: rest, need => do
    let l ← left d
    let n' ← liftC (addCoin need l)
    needOf rest n'

/-- `vp.excess()`: `vp.Balance - need`, UNCHECKED. -/
def excess (p : Pool) : Except Err Nat := do
  let need ← needOf p.dests 0
  .ok (wrapSub p.balance need)

/-- `vp.drain(t, balances)`. -/
def drain (p : Pool) (client : Nat) : Except Err (Pool × Transfers) :=
  if client ≠ p.owner then .error .notOwner
  else do
    let over ← excess p
    if over = 0 then .error .noExcess
    else do
      let bal ← drainPool p.balance over
      .ok ({ p with balance := bal }, [(client, over)])

def findDest (ds : List Dest) (id : Nat) : Option Dest := ds.find? (fun d => d.id = id)

/-- replace the FIRST destination with the given id (`find` returns a pointer to the first match). -/
def replaceFirst (ds : List Dest) (id : Nat) (d' : Dest) : List Dest :=
  match ds with
  | [] => []
  | d :: rest => if d.id = id then d' :: rest else d :: replaceFirst rest id d'

/-- `vp.vest(vscID, destID, now, balances)`; also returns the pool as mutated when the result is `errZeroVesting`
(`stop` tolerates that error and carries on with the mutated pool). -/
def vest (p : Pool) (destID : Nat) (now0 : Int) : Except Err (Pool × Transfers × Bool) :=
  let now := clip p now0
  match findDest p.dests destID with
  | none => .error .destNotFound
  | some d => do
    let (d', value) ← unlockDest d now p.expire
    let p1 := { p with dests := replaceFirst p.dests destID d' }
    if value = 0 then .ok (p1, [], true)     -- errZeroVesting
    else do
      let bal ← drainPool p.balance value
      .ok ({ p1 with balance := bal }, [(d.id, value)], false)

/-- `want()`: checked sum of the amounts. -/
def wantOf : List Dest → Nat → Except Err Nat
  | [], w => .ok w
  | d :: rest, w => do
    let w' ← liftC (addCoin w d.amount)
    wantOf rest w'

/-- SC `add`: `clientBalance = none` when the sender has no state node. Request: start (0 = now), duration in
seconds, destinations `(id, amount)`. Returns the new pool and the transfer `client → contract` of `value`. -/
def add (conf : Conf) (client : Nat) (clientBalance : Option Nat) (value : Nat) (now : Int)
    (start0 dur : Int) (dests : List (Nat × Nat)) : Except Err Pool :=
  let start := if start0 = 0 then now else start0
  if start < now then .error .startsBeforeNow
  else if dur < conf.minDur then .error .tooShort
  else if conf.maxDur < dur then .error .tooLong
  else if dests.length = 0 then .error .noDestsInRequest
  else if conf.maxDests < dests.length then .error .tooManyDests
  else
    let ds : List Dest := dests.map fun (id, a) => { id := id, amount := a, vested := 0, last := start, move := start }
    do
      let want ← wantOf ds 0
      if value < want then .error .notEnoughTokens
      else if value < conf.minLock then .error .belowMinLock
      else match clientBalance with
        | none => .error .noTokens
        | some b =>
          if b < value then .error .lockGtBalance
          else if value = 0 then .error .fillZero
          else .ok { balance := value, start := start, expire := start + dur, dests := ds, owner := client }

/-- SC `trigger`. -/
def scTrigger (p : Pool) (client : Nat) (now : Int) : Except Err (Pool × Transfers) :=
  if p.owner ≠ client then .error .notOwner
  else if p.dests.length = 0 then .error .noDestinations
  else triggerPool p now

/-- SC `unlock`: the owner drains the excess, anybody else vests as a destination. -/
def scUnlock (p : Pool) (client : Nat) (now : Int) : Except Err (Pool × Transfers) :=
  if p.owner = client then drain p client
  else do
    let (p', ts, zero) ← vest p client now
    if zero then .error .zeroVesting else .ok (p', ts)

/-- SC `stop`. -/
def scStop (p : Pool) (client dest : Nat) (now : Int) : Except Err (Pool × Transfers) :=
  if p.owner ≠ client then .error .notOwner
  else if p.expire < now then .error .expired
  else do
    let (p', ts, _) ← vest p dest now
    -- `vp.delete(destID)` removes EVERY destination with that id (found: `vest` has just found one)
    .ok ({ p' with dests := p'.dests.filter (fun d => d.id ≠ dest) }, ts)

/-- SC `delete`: trigger (if funded), forget the destinations, drain the rest to the owner, remove the pool. -/
def scDelete (p : Pool) (client : Nat) (now : Int) : Except Err Transfers :=
  if p.owner ≠ client then .error .notOwner
  else do
    let (p1, ts1) ← (if 0 < p.balance then triggerPool p now else .ok (p, []))
    let p2 := { p1 with dests := [] }
    let (_, ts2) ← (if 0 < p2.balance then drain p2 client else .ok (p2, []))
    .ok (ts1 ++ ts2)

end ZChain.Vesting
