import ZChain.Model.Ledger
import ZChain.Model.StakePool
import ZChain.Base.Alg
/-!
# Model of the bridge contract `smartcontract/zcnsc` (C18 mint, C19 burn)

Transcribed functions: `Burn` (burn.go:20-115), `mint` (mint.go:23-235), `MintPayload.verifySignatures` /
`getUniqueSignatures` / `GetStringToSign` (models.go:150-205), `PartitionWZCNMintedNonceAdd`
(nonce_partitions.go:31-42, as an abstract set: C25 proves the set behaviour of partitions),
`AddAuthorizer` / `DeleteAuthorizer` / `increaseAuthorizerCount` / `decreaseAuthorizerCount`
(authorizer.go), `UpdateGlobalConfig` / `GlobalNode.UpdateConfig` / `Validate` (config.go, nodes.go), `getOrUpdateStakePool` / `validateStakePoolSettings` (stakepool.go:108-170),
`GetUserNode` (nodes_reader.go: an absent user node reads as nonce 0).

Every call runs through the engine model `Ledger.step` (`settleCall`): a contract error is a *chargeable*
failure (fee + nonce only), a success hands the queued transfers to the engine, which may still reject the
whole transaction (insufficient balance, overflow) — then nothing changes.

Conventions
* ids: `Ledger.Id` (`0` = miner contract, `1` = the bridge contract's own wallet `zcnSC`, others clients);
* Ethereum addresses, Ethereum txn ids: abstract naturals (the harness maps them to strings);
* an authorizer is identified by the index `k` of its key: the real id is `Hash(publicKey)`, a function of
  the key; the harness numbers its key universe **in the order of the real id strings**, so the order of
  ids used by `sortedmap` / `sort.Slice` is the order of the indices (`none` = the empty id sorts first);
* crypto in the exponent (`Base/Alg`): a public key is the exponent `pk`, a decodable signature string is the
  exponent `σ` of its G1 point, `none` is a string `GetSignature` cannot decode; the message point of the
  payload (`Hm(GetStringToSign())`) enters `mint` as `h`;
* `rand.New(rand.NewSource(seed)).Intn(n)` enters as the function `pick n` (DESIGN §3.3);
* `BurnNonce` is a Go `int64`: `un.BurnNonce++` wraps (`incI64`);
* events are not modelled (C20).

**`strict`.** `verifySignatures` (models.go:160-192) rejects the first signature that does not verify:
`strict := true` is the code as it is since the `fix:` commit 3c528ec, and what the driver runs. `strict := false` is
the code BEFORE that commit, kept for the regression witness: `ok, err := Verify(..); if !ok || err != nil { return
errors.Wrap(err, ..) }` — for a well-formed signature that does not verify `err` is `nil`, `errors.Wrap(nil, _)` is
`nil`, and `verifySignatures` returned SUCCESS at that point without looking at the remaining signatures.
Core-only.
-/
namespace ZChain.Zcn
open ZChain ZChain.Ledger ZChain.Alg

/-- the bridge contract's wallet (`zcnsc.ADDRESS`). -/
def zcnSC : Id := 1

/-! ## association lists with unique keys -/

def aGet {α : Type} : List (Nat × α) → Nat → Option α
  | [], _ => none
  | (k, v) :: rest, a => if k = a then some v else aGet rest a

def aSet {α : Type} : List (Nat × α) → Nat → α → List (Nat × α)
  | [], a, v => [(a, v)]
  | (k, w) :: rest, a, v => if k = a then (k, v) :: rest else (k, w) :: aSet rest a v

def aDel {α : Type} : List (Nat × α) → Nat → List (Nat × α)
  | [], _ => []
  | (k, w) :: rest, a => if k = a then aDel rest a else (k, w) :: aDel rest a

/-! ## int64 burn nonce -/

def i64Max : Int := 9223372036854775807
def i64Min : Int := -9223372036854775808
/-- Go `n++` on an `int64`. -/
def incI64 (n : Int) : Int := if n = i64Max then i64Min else n + 1

/-- user nodes: Ethereum address ↦ `BurnNonce`; absent reads as 0 (`GetUserNode`). -/
abbrev Users := List (Nat × Int)
def unGet (u : Users) (a : Nat) : Int := (aGet u a).getD 0

/-! ## state -/

structure Cfg where
  minBurn : Nat
  minMint : Nat
  maxFee  : Nat
  percent : F64            -- PercentAuthorizers
  owner   : Id
  minStakePerDelegate : Nat
  maxDelegates : Int
  /-- the settings this model never changes pass `Validate` (`MinStakeAmount ≥ 1`, `MaxStakeAmount ≥ 1`,
  `MinAuthorizers ≥ 1`, `HealthCheckPeriod > 0`); NB the shipped sc.yaml has `min_stake: 0`, i.e. `false`. -/
  otherValid : Bool := true
deriving Repr

/-- an authorizer's stake pool (the part `getOrUpdateStakePool`, `DeleteAuthorizer` and `mint` look at). -/
structure APool where
  sp : StakePool.SP
  wallet : Id              -- Settings.DelegateWallet
  maxDel : Int             -- Settings.MaxNumDelegates
deriving Repr

structure ZSt where
  accts  : Accts
  cfg    : Cfg
  users  : Users
  auths  : List (Nat × Fr)        -- authorizer nodes: key index ↦ registered public key
  count  : Int                    -- the separate `AUTHORIZERS_COUNT_KEY` node
  pools  : List (Nat × APool)     -- authorizer stake pools (they survive `DeleteAuthorizer`)
  minted : List Int               -- the minted-nonce partition, as a set
deriving Repr

/-- the transaction that carries a contract call. -/
structure Call where
  sender : Id
  value  : Nat
  fee    : Nat
  nonce  : Int
deriving Repr

def Call.txn (c : Call) : Txn :=
  { sender := c.sender, to := zcnSC, toValid := true, value := c.value, fee := c.fee, nonce := c.nonce, typ := .sc }

/-- run a contract result through `updateState`: `none` = the contract returned a (chargeable) error;
`some (s', q)` = it succeeded with contract state `s'` and queued transfers `q`. -/
def settleCall (feeOn : Bool) (s : ZSt) (c : Call) (r : Option (ZSt × List Transfer)) : ZSt × Status :=
  match r with
  | none =>
    let o := Ledger.step feeOn ⟨s.accts, []⟩ c.txn (.chargeable [] [] [])
    ({ s with accts := o.1.accts }, o.2)
  | some (s', q) =>
    let o := Ledger.step feeOn ⟨s.accts, []⟩ c.txn (.ok [] q [])
    if o.2 = .success then ({ s' with accts := o.1.accts }, .success)
    else ({ s with accts := o.1.accts }, o.2)

/-! ## burn -/

inductive BurnIn where
  | malformed            -- `payload.Decode` fails
  | empty                -- decodes, `EthereumAddress == ""`
  | addr (a : Nat)
deriving DecidableEq, Repr

inductive BurnErr where
  | belowMin | decode | noAddr
deriving DecidableEq, Repr

structure BurnOut where
  users : Users
  transfer : Transfer
  nonce : Int            -- `BurnPayloadResponse.Nonce`
deriving Repr

/-- `(*ZCNSmartContract).Burn`, in the order of its checks. -/
def burn (minBurn : Nat) (u : Users) (sender : Id) (value : Nat) (inp : BurnIn) : Except BurnErr BurnOut :=
  if value < minBurn then .error .belowMin
  else match inp with
    | .malformed => .error .decode
    | .empty => .error .noAddr
    | .addr a =>
      let n := incI64 (unGet u a)
      .ok { users := aSet u a n, transfer := { src := sender, dst := zcnSC, amount := value }, nonce := n }

def burnRes (s : ZSt) (c : Call) (inp : BurnIn) : Except BurnErr BurnOut :=
  burn s.cfg.minBurn s.users c.sender c.value inp

def burnStep (feeOn : Bool) (s : ZSt) (c : Call) (inp : BurnIn) : ZSt × Status :=
  settleCall feeOn s c
    (match burnRes s c inp with
     | .error _ => none
     | .ok o => some ({ s with users := o.users }, [o.transfer]))

/-! ## mint -/

structure Sig where
  id  : Option Nat       -- `none` = "", `some k` = the id derived from key `k`
  sig : Option Fr        -- `none` = undecodable string, `some σ` = a G1 point
deriving DecidableEq, Repr

structure MintIn where
  eth      : Nat
  amount   : Nat         -- `currency.Coin(int64 value)`
  nonce    : Int
  sigs     : List Sig
  receiver : Id
deriving Repr

inductive MintErr where
  | decode | noSigs | noAuth | undefThreshold | fewSigs | receiver | minMint | maxFee | nonceExists
  | verify | notEnough | coin | pickRange | noPool | reward
deriving DecidableEq, Repr

/-- order of id strings: "" first, then by key index. -/
def idLt : Option Nat → Option Nat → Bool
  | none, none => false
  | none, some _ => true
  | some _, none => false
  | some a, some b => decide (a < b)

/-- `sigsMap.Put(v.ID, v)` into the id-sorted list: a later signature with the same id replaces. -/
def putSorted (s : Sig) : List Sig → List Sig
  | [] => [s]
  | x :: xs =>
    if x.id = s.id then s :: xs
    else if idLt s.id x.id then s :: x :: xs
    else x :: putSorted s xs

/-- `getUniqueSignatures`: one signature per id (the last one), in id order. -/
def uniqueSigs (l : List Sig) : List Sig := l.foldl (fun acc s => putSorted s acc) []

/-- ids sorted (`sort.Slice` by `ID`; equal ids are indistinguishable for the use made of them). -/
def insertId (i : Option Nat) : List (Option Nat) → List (Option Nat)
  | [] => [i]
  | x :: xs => if idLt x i then x :: insertId i xs else i :: x :: xs

def sortIds (l : List (Option Nat)) : List (Option Nat) := l.foldr insertId []

/-- the loop of `verifySignatures` (see the header for `strict`). `true` = returns `nil`. -/
def verifySigs (strict : Bool) (auths : List (Nat × Fr)) (h : Fr) : List Sig → Bool
  | [] => true
  | s :: rest =>
    match s.id with
    | none => false                                   -- "authorizer ID is empty in a signature"
    | some k =>
      match aGet auths k with
      | none => false                                 -- "failed to find authorizer by ID"
      | some pk =>
        match s.sig with
        | none => false                               -- `Verify` returned an error
        | some σ =>
          if verifyLib pk h σ then verifySigs strict auths h rest
          else !strict                                -- `strict`: an error; before 3c528ec: `errors.Wrap(nil, …) = nil`, SUCCESS

def verifySignatures (strict : Bool) (auths : List (Nat × Fr)) (h : Fr) (sigs : List Sig) : Bool :=
  if sigs.isEmpty then false else verifySigs strict auths h sigs

/-- `int(math.RoundToEven(gn.PercentAuthorizers * float64(numAuth)))`; `none` where Go leaves the
float→int conversion undefined (NaN, ±∞, out of range). -/
def threshold (percent : F64) (numAuth : Int) : Option Int :=
  F64.toIntTrunc (F64.roundToEven (F64.mul percent (F64.ofInt numAuth)))

structure MintOut where
  st : ZSt
  transfer : Transfer
  share : Nat
  paid : Nat                   -- `payload.Amount` after the fee share was taken off
  rewarded : Nat               -- key index of the authorizer whose stake pool got the share
  sigs : List Sig              -- `payload.Signatures` after the cut to `numAuth`
  counted : List Sig           -- the unique signatures that were checked
  threshold : Int
deriving Repr

/-- stage 1 (mint.go:49-80): signatures present, authorizers exist, threshold, first length test, the cut
`payload.Signatures[0:numAuth]`. Result: threshold and the (possibly cut) signature list. -/
def mintSigs (s : ZSt) (p : MintIn) : Except MintErr (Int × List Sig) :=
  if p.sigs.isEmpty then .error .noSigs
  else if s.count = 0 then .error .noAuth
  else match threshold s.cfg.percent s.count with
    | none => .error .undefThreshold
    | some thr =>
      if (p.sigs.length : Int) < thr then .error .fewSigs
      else .ok (thr, if (p.sigs.length : Int) > s.count then p.sigs.take s.count.toNat else p.sigs)

/-- stage 2 (mint.go:84-130): receiving client, minimum amount, maximum fee, nonce not yet minted. -/
def mintChecks (s : ZSt) (sender : Id) (p : MintIn) : Except MintErr Unit :=
  if p.receiver ≠ sender then .error .receiver
  else if p.amount < s.cfg.minMint then .error .minMint
  else if p.amount < s.cfg.maxFee then .error .maxFee
  else if p.nonce ∈ s.minted then .error .nonceExists
  else .ok ()

/-- stage 3 (mint.go:132-149): unique signatures, `verifySignatures`, second length test. -/
def mintVerify (strict : Bool) (s : ZSt) (h : Fr) (thr : Int) (sigs : List Sig) : Except MintErr (List Sig) :=
  let uniq := uniqueSigs sigs
  if !verifySignatures strict s.auths h uniq then .error .verify
  else if (uniq.length : Int) < thr then .error .notEnough
  else .ok uniq

structure Payout where
  share : Nat
  paid : Nat
  rewarded : Nat
  pools : List (Nat × APool)
deriving Repr

/-- stage 4 (mint.go:151-215): fee share, amount paid out, the rewarded authorizer and its stake pool. -/
def mintPay (s : ZSt) (amount : Nat) (sigs : List Sig) (pick : Nat → Nat) : Except MintErr Payout :=
  match Coin.distributeCoin s.cfg.maxFee (sigs.length : Int) with
  | .error _ => .error .coin
  | .ok (share, _) =>
    match Coin.minusCoin amount share with
    | .error _ => .error .coin
    | .ok paid =>
      match (sortIds (sigs.map (·.id)))[pick sigs.length]? with
      | none => .error .pickRange                 -- Go: index out of range (cannot happen for `Intn`)
      | some none => .error .noPool               -- the stake pool of the id "" does not exist
      | some (some k) =>
        match aGet s.pools k with
        | none => .error .noPool
        | some ap =>
          match StakePool.distributeRewards ap.sp share with
          | .error _ => .error .reward
          | .ok (sp', _) => .ok { share := share, paid := paid, rewarded := k, pools := aSet s.pools k { ap with sp := sp' } }

/-- `(*ZCNSmartContract).mint`. `h` is the message point of `p` (`Hm(GetStringToSign())`),
`pick n` is `rand.New(rand.NewSource(seed)).Intn(n)`. -/
def mint (strict : Bool) (s : ZSt) (sender : Id) (p : Option MintIn) (h : Fr) (pick : Nat → Nat) :
    Except MintErr MintOut :=
  match p with
  | none => .error .decode
  | some p =>
    match mintSigs s p with
    | .error e => .error e
    | .ok (thr, sigs) =>
      match mintChecks s sender p with
      | .error e => .error e
      | .ok () =>
        match mintVerify strict s h thr sigs with
        | .error e => .error e
        | .ok uniq =>
          match mintPay s p.amount sigs pick with
          | .error e => .error e
          | .ok po =>
            .ok { st := { s with minted := p.nonce :: s.minted, pools := po.pools }
                  transfer := { src := zcnSC, dst := sender, amount := po.paid }
                  share := po.share, paid := po.paid, rewarded := po.rewarded
                  sigs := sigs, counted := uniq, threshold := thr }

def mintStep (strict feeOn : Bool) (s : ZSt) (c : Call) (p : Option MintIn) (h : Fr) (pick : Nat → Nat) : ZSt × Status :=
  settleCall feeOn s c
    (match mint strict s c.sender p h pick with
     | .error _ => none
     | .ok o => some (o.st, [o.transfer]))

/-! ## authorizer registration / removal -/

structure AddIn where
  key    : Nat
  pk     : Fr
  wallet : Option Id       -- `none` = "" (delegate_wallet not set)
  maxDel : Int             -- num_delegates
  ratio  : F64             -- service_charge
deriving Repr

inductive AuthErr where
  | decode | noWallet | notOwner | exists | settings | noChange | notFound | noPool | notAuthorized | negCount
deriving DecidableEq, Repr

/-- `validateStakePoolSettings(settings, gn)`. -/
def settingsOk (cfg : Cfg) (a : AddIn) : Bool :=
  !(F64.lt a.ratio F64.zero) && decide (0 < a.maxDel) && decide (a.maxDel ≤ cfg.maxDelegates)

/-- `getOrUpdateStakePool`: does the request change an existing pool's settings? -/
def poolChanged (cfg : Cfg) (ap : APool) (a : AddIn) : Bool :=
  !(F64.eq ap.sp.ratio a.ratio) || decide (ap.maxDel ≠ a.maxDel) || decide (ap.sp.minStake ≠ cfg.minStakePerDelegate)

/-- `AddAuthorizer` (the checks that can fire with a decodable key; the delegate wallet is a client id,
never the key's own id). -/
def addAuth (s : ZSt) (sender : Id) (a : Option AddIn) : Except AuthErr ZSt :=
  match a with
  | none => .error .decode
  | some a =>
    match a.wallet with
    | none => .error .noWallet
    | some wallet =>
      if s.cfg.owner ≠ sender then .error .notOwner
      else if (aGet s.auths a.key).isSome then .error .exists
      else if !settingsOk s.cfg a then .error .settings
      else
        -- `getOrUpdateStakePool`
        match aGet s.pools a.key with
        | none =>
          .ok { s with auths := aSet s.auths a.key a.pk, count := s.count + 1,
                       pools := aSet s.pools a.key
                         { sp := { pools := [], reward := 0, minStake := s.cfg.minStakePerDelegate, ratio := a.ratio, killed := false },
                           wallet := wallet, maxDel := a.maxDel } }
        | some ap =>
          if !poolChanged s.cfg ap a then .error .noChange
          else
            .ok { s with auths := aSet s.auths a.key a.pk, count := s.count + 1,
                         pools := aSet s.pools a.key
                           { ap with sp := { ap.sp with ratio := a.ratio, minStake := s.cfg.minStakePerDelegate },
                                     maxDel := a.maxDel } }

/-- `DeleteAuthorizer` (the delegate pools' `Status` field is not part of `StakePool.SP`). -/
def delAuth (s : ZSt) (sender : Id) (k : Option Nat) : Except AuthErr ZSt :=
  match k with
  | none => .error .decode
  | some k =>
    if (aGet s.auths k).isNone then .error .notFound
    else match aGet s.pools k with
    | none => .error .noPool
    | some ap =>
      if s.cfg.owner ≠ sender ∧ ap.wallet ≠ sender then .error .notAuthorized
      else if s.count - 1 < 0 then .error .negCount
      else .ok { s with auths := aDel s.auths k, count := s.count - 1 }

def addAuthStep (feeOn : Bool) (s : ZSt) (c : Call) (a : Option AddIn) : ZSt × Status :=
  settleCall feeOn s c (match addAuth s c.sender a with | .error _ => none | .ok s' => some (s', []))

def delAuthStep (feeOn : Bool) (s : ZSt) (c : Call) (k : Option Nat) : ZSt × Status :=
  settleCall feeOn s c (match delAuth s c.sender k with | .error _ => none | .ok s' => some (s', []))

/-! ## update-global-config -/

/-- one `key: value` of the request (`GlobalNode.UpdateConfig`, nodes.go:52-146); coin values are what
`ParseZCN` / `Coin(float)` made of the string. -/
inductive Upd where
  | minBurn (n : Nat) | minMint (n : Nat) | maxFee (n : Nat) | percent (f : F64) | owner (i : Id)
  | minSPD (n : Nat) | maxDel (i : Int)
  | invalid              -- an unknown key or a value that does not parse
deriving Repr

inductive CfgErr where
  | notOwner | decode | update | validate
deriving DecidableEq, Repr

def applyUpd (c : Cfg) : Upd → Option Cfg
  | .minBurn n => some { c with minBurn := n }
  | .minMint n => some { c with minMint := n }
  | .maxFee n => some { c with maxFee := n }
  | .percent f => some { c with percent := f }
  | .owner i => some { c with owner := i }
  | .minSPD n => some { c with minStakePerDelegate := n }
  | .maxDel i => some { c with maxDelegates := i }
  | .invalid => none

def applyUpds (c : Cfg) : List Upd → Option Cfg
  | [] => some c
  | u :: us => match applyUpd c u with
    | none => none
    | some c' => applyUpds c' us

/-- `GlobalNode.Validate` (nodes.go:178-205), on the fields of this model. -/
def cfgValid (c : Cfg) : Bool :=
  c.otherValid && decide (1 ≤ c.minMint) && decide (1 ≤ c.maxFee) && decide (1 ≤ c.minBurn) &&
  !(F64.lt c.percent F64.zero) && decide (0 < c.maxDelegates)

/-- `UpdateGlobalConfig` (config.go:66-101): the configuration is READ FROM THE STATE (`s.cfg`), changed on a
copy, validated, and only then written back; a rejected request leaves no trace. -/
def updCfg (s : ZSt) (sender : Id) (u : Option (List Upd)) : Except CfgErr ZSt :=
  if s.cfg.owner ≠ sender then .error .notOwner
  else match u with
  | none => .error .decode
  | some us =>
    match applyUpds s.cfg us with
    | none => .error .update
    | some c => if cfgValid c then .ok { s with cfg := c } else .error .validate

def updCfgStep (feeOn : Bool) (s : ZSt) (c : Call) (u : Option (List Upd)) : ZSt × Status :=
  settleCall feeOn s c (match updCfg s c.sender u with | .error _ => none | .ok s' => some (s', []))

/-! ## histories -/

inductive Op where
  | burn (c : Call) (inp : BurnIn)
  | mint (c : Call) (p : Option MintIn) (h : Fr) (pick : Nat → Nat)
  | addAuth (c : Call) (a : Option AddIn)
  | delAuth (c : Call) (k : Option Nat)
  | updCfg (c : Call) (u : Option (List Upd))

def stepOp (strict feeOn : Bool) (s : ZSt) : Op → ZSt × Status
  | .burn c inp => burnStep feeOn s c inp
  | .mint c p h pick => mintStep strict feeOn s c p h pick
  | .addAuth c a => addAuthStep feeOn s c a
  | .delAuth c k => delAuthStep feeOn s c k
  | .updCfg c u => updCfgStep feeOn s c u

def runOps (strict feeOn : Bool) (s : ZSt) : List Op → ZSt
  | [] => s
  | op :: rest => runOps strict feeOn (stepOp strict feeOn s op).1 rest

end ZChain.Zcn
