import ZChain.Model.Ledger
import ZChain.Base.Alg
/-!
# Model of the multi-signature wallet contract `smartcontract/multisigsc` (C21)

Transcribed: `register` / `Wallet.valid` (sc.go:96-137, models.go:50-119), `vote` (sc.go:139-252) with
`pruneExpirationQueue` / `prune` (:254-339), `findOrCreateProposal` / `createProposal` (:341-424),
`Vote.notTooBig/hasValidAmount/hasSignature/isCompatibleWithProposal`, `Wallet.thresholdIdForSigner`,
`isVoteAuthorized` (`SignedTransfer.VerifySignature(false)`, chaincore/state/signed_transfer.go:33-63),
`constructTransferSignature` (models.go:204-238) over `BLS0ChainReconstruction.Add/Reconstruct`
(core/encryption/bls0chain_threshold.go: `Sign.Recover`, i.e. `Alg.recoverLib`).

Every call runs through the engine model (`settleMs`): a contract error is a chargeable failure and ALL contract
writes are discarded (in particular the pruning a failing vote did); a successful vote that reached the
threshold hands ONE signed transfer to the engine, which applies it (wallet → recipient) **without verifying its
signature** (`sctx.Validate()` runs before the contract, chain/state.go:439 — C04); if the engine cannot apply it
(wallet balance) the whole transaction is rejected and nothing changes.

Conventions
* generic over the scalar type `F` (crypto in the exponent, `Base/Alg`); the driver instantiates `Alg.Fr`;
* a client id is the index of its key (the real id is `Hash(public key)`); `Ledger.Id 0` = miner contract,
  `1` = the multisig contract's address;
* a threshold id is a token `tid : Nat` (the string) with its parsed `bls.ID` `x : Option F` (`none`: not hex);
* the message point of a transfer (`Hm(Hash(JSON(transfer)))`) is the function parameter `hm`;
* the expiration queue (a doubly linked list through the proposals, `Head`/`Tail` node) is the list `queue`,
  oldest first: the only removal that can persist is that of the head (the removal inside
  `findOrCreateProposal` is always followed by an error); the harness walks the real links and compares;
* GHOST fields (no counterpart in the code, never read by the transcribed logic): `Proposal.serial`
  (which incarnation of a re-usable (wallet, name) this is), `Entry.voter`, `Entry.time`, `MSt.nextSerial`.
Core-only.
-/
namespace ZChain.Multisig
open ZChain ZChain.Ledger ZChain.Alg

def expirationTime : Int := 604800   -- 60·60·24·7
def maxSigners : Nat := 20
def minSigners : Int := 2
/-- `multisigsc.Address`. -/
def msigSC : Id := 1

/-- `state.Transfer`. -/
structure Xfer where
  src : Id
  dst : Id
  amount : Nat
deriving DecidableEq, Repr

abbrev Ref := Id × Nat     -- (wallet client id, proposal id)

section
variable {F : Type}

structure Signer (F : Type) where
  tid : Nat
  x : Option F
  client : Id
  pk : F
deriving Repr

structure Wallet (F : Type) where
  id : Id
  groupKey : F
  signers : List (Signer F)
  numRequired : Int
deriving Repr

structure Entry (F : Type) where
  tid : Nat
  sig : F
  voter : Id     -- ghost
  time : Int     -- ghost
deriving Repr

structure Proposal (F : Type) where
  wallet : Id
  name : Nat
  serial : Nat                  -- ghost
  expires : Int
  transfer : Xfer
  entries : List (Entry F)
  clientSig : Option F
  executed : Option Nat         -- `ExecutedInTxnHash` (a tag of the executing transaction)
deriving Repr

def Proposal.ref (p : Proposal F) : Ref := (p.wallet, p.name)

structure MSt (F : Type) where
  accts : Accts
  wallets : List (Wallet F)
  props : List (Proposal F)
  queue : List Ref
  nextSerial : Nat              -- ghost
deriving Repr

def findWallet (ws : List (Wallet F)) (i : Id) : Option (Wallet F) := ws.find? (fun w => w.id = i)
def findProp (ps : List (Proposal F)) (r : Ref) : Option (Proposal F) := ps.find? (fun p => p.ref = r)
def eraseProp (ps : List (Proposal F)) (r : Ref) : List (Proposal F) := ps.filter (fun p => p.ref ≠ r)
/-- `putProposal`: replace the record stored under its key. -/
def putProp (ps : List (Proposal F)) (p : Proposal F) : List (Proposal F) :=
  if ps.any (fun q => q.ref = p.ref) then ps.map (fun q => if q.ref = p.ref then p else q) else ps ++ [p]

/-! ## register -/

inductive KeyTok (F : Type) where
  | good (client : Id) (pk : F)     -- a decodable public key: its holder and its exponent
  | bad (v : Nat)                   -- a string `SetPublicKey` refuses
deriving Repr

def KeyTok.same : KeyTok F → KeyTok F → Bool
  | .good a _, .good b _ => a == b
  | .bad a, .bad b => a == b
  | _, _ => false

structure RegIn (F : Type) where
  clientId : Id
  pkOwner : Option Id               -- whose key `PublicKey` is (`isPublicKeyForClientID`)
  groupKey : F
  schemeOk : Bool                   -- "bls0chain"
  numRequired : Int
  tids : List (Nat × Option F)
  keys : List (KeyTok F)
deriving Repr

inductive RegErr where
  | decode | clientMismatch | pkMismatch | lenMismatch | tooMany | tooFewRequired | tooManyRequired
  | dupIds | dupKeys | scheme | badKey | exists
deriving DecidableEq, Repr

def hasDupBy {α : Type} (same : α → α → Bool) : List α → Bool
  | [] => false
  | x :: xs => xs.any (same x) || hasDupBy same xs

def mkSigners : List (Nat × Option F) → List (KeyTok F) → Option (List (Signer F))
  | [], [] => some []
  | (t, x) :: ts, .good c pk :: ks => (mkSigners ts ks).map (fun l => { tid := t, x := x, client := c, pk := pk } :: l)
  | _, _ => none

/-- `register` with `Wallet.valid` in the order of its checks. -/
def register (s : MSt F) (sender : Id) (r : Option (RegIn F)) : Except RegErr (MSt F) :=
  match r with
  | none => .error .decode
  | some r =>
    if r.clientId ≠ sender then .error .clientMismatch
    else if r.pkOwner ≠ some r.clientId then .error .pkMismatch
    else if r.tids.length ≠ r.keys.length then .error .lenMismatch
    else if r.tids.length > maxSigners then .error .tooMany
    else if r.numRequired < minSigners then .error .tooFewRequired
    else if r.numRequired > r.tids.length then .error .tooManyRequired
    else if hasDupBy (fun a b => a.1 == b.1) r.tids then .error .dupIds
    else if hasDupBy KeyTok.same r.keys then .error .dupKeys
    else if !r.schemeOk then .error .scheme
    else match mkSigners r.tids r.keys with
      | none => .error .badKey
      | some sg =>
        if (findWallet s.wallets sender).isSome then .error .exists
        else .ok { s with wallets := s.wallets ++ [{ id := r.clientId, groupKey := r.groupKey, signers := sg, numRequired := r.numRequired }] }

/-! ## vote -/

inductive SigTok (F : Type) where
  | empty                -- ""
  | bad                  -- non-empty, not a signature
  | pt (σ : F)
deriving Repr

inductive VoteIn (F : Type) where
  | malformed
  | vote (name : Nat) (t : Xfer) (sig : SigTok F) (tooBig : Bool)
deriving Repr

inductive VoteErr where
  | decode | tooBig | amount | noSig | expired | incompatible | noWallet | auth | recover
deriving DecidableEq, Repr

inductive VoteOk where
  | prevExecuted                 -- "success 0: proposal previously executed …"
  | duplicate (remaining : Int)  -- "success N: already voted, still need N other votes"
  | needMore (remaining : Int)   -- "success N: need N more votes"
  | executed                     -- "success 0: transfer executed with signature …"
deriving DecidableEq, Repr

/-- `pruneExpirationQueue`: drop the oldest proposal if it has expired (one per vote). -/
def pruneHead (now : Int) (s : MSt F) : MSt F :=
  match s.queue with
  | [] => s
  | r :: rest =>
    match findProp s.props r with
    | none => if now ≥ 0 then { s with queue := rest } else s     -- unreachable (every queued ref has a record)
    | some p => if now ≥ p.expires then { s with queue := rest, props := eraseProp s.props r } else s

variable [Add F] [Mul F] [Sub F] [Div F] [Zero F] [One F] [DecidableEq F]

/-- `constructTransferSignature`: the points `(bls.ID of the threshold id, signature)` of all entries, then
`Sign.Recover`; `none` = error (an id that is not hex, a zero or repeated `bls.ID`). -/
def reconstruct (w : Wallet F) (entries : List (Entry F)) : Option F :=
  let pts := entries.mapM (fun e => match w.signers.find? (fun sg => sg.tid = e.tid) with
    | some sg => sg.x.map (fun x => (x, e.sig))
    | none => none)
  match pts with
  | none => none
  | some pts => recoverLib pts

structure VoteOut (F : Type) where
  st : MSt F
  res : VoteOk
  signed : List Ledger.Transfer

/-- stage 1 (sc.go:150-167): decode, field sizes, amount, signature present. -/
def voteChecks (v : VoteIn F) : Except VoteErr (Nat × Xfer × SigTok F) :=
  match v with
  | .malformed => .error .decode
  | .vote name t sig tooBig =>
    if tooBig then .error .tooBig
    else if t.amount = 0 then .error .amount
    else match sig with
      | .empty => .error .noSig
      | sig => .ok (name, t, sig)

/-- stage 2 `findOrCreateProposal` (sc.go:341-366) + `createProposal`: an expired record is an error (its removal
is discarded with the failing transaction); a missing one is created and appended to the queue. -/
def findOrCreate (s : MSt F) (now : Int) (name : Nat) (t : Xfer) : Except VoteErr (MSt F × Proposal F) :=
  match findProp s.props (t.src, name) with
  | some p => if now ≥ p.expires then .error .expired else .ok (s, p)
  | none =>
    let p : Proposal F := { wallet := t.src, name := name, serial := s.nextSerial, expires := now + expirationTime,
                            transfer := t, entries := [], clientSig := none, executed := none }
    .ok ({ s with props := s.props ++ [p], queue := s.queue ++ [(t.src, name)], nextSerial := s.nextSerial + 1 }, p)

/-- stage 3 (sc.go:188-206): the wallet is registered, the sender is one of its signers, the signature
verifies under that signer's registered key over the vote's transfer. -/
def authorize (hm : Xfer → F) (s : MSt F) (sender : Id) (t : Xfer) (sig : SigTok F) : Except VoteErr (Wallet F × Signer F × F) :=
  match findWallet s.wallets t.src with
  | none => .error .noWallet
  | some w =>
    match w.signers.find? (fun sg => sg.client = sender) with
    | none => .error .auth
    | some sg =>
      match sig with
      | .pt σ => if verifyLib sg.pk (hm t) σ then .ok (w, sg, σ) else .error .auth
      | _ => .error .auth

/-- stage 4 (sc.go:208-251): duplicate test, append, threshold reached ⇒ reconstruct, queue the signed
transfer, mark executed. -/
def castVote (s : MSt F) (w : Wallet F) (p : Proposal F) (sg : Signer F) (σ : F) (sender : Id) (now : Int) (txn : Nat) :
    Except VoteErr (VoteOut F) :=
  let remaining := w.numRequired - p.entries.length
  if p.entries.any (fun e => e.tid = sg.tid) then .ok { st := s, res := .duplicate remaining, signed := [] }
  else
    let p1 := { p with entries := p.entries ++ [{ tid := sg.tid, sig := σ, voter := sender, time := now }] }
    if remaining - 1 > 0 then
      .ok { st := { s with props := putProp s.props p1 }, res := .needMore (remaining - 1), signed := [] }
    else match reconstruct w p1.entries with
      | none => .error .recover
      | some cs =>
        .ok { st := { s with props := putProp s.props { p1 with clientSig := some cs, executed := some txn } }, res := .executed,
              signed := [{ src := p.transfer.src, dst := p.transfer.dst, amount := p.transfer.amount }] }

/-- `vote(currentTxnHash, signingClientID, now, inputData)`; `txn` is the tag of the calling transaction,
`hm` the message point of a transfer. -/
def vote (hm : Xfer → F) (s : MSt F) (sender : Id) (now : Int) (txn : Nat) (v : VoteIn F) : Except VoteErr (VoteOut F) :=
  match voteChecks v with
  | .error e => .error e
  | .ok (name, t, sig) =>
    match findOrCreate (pruneHead now s) now name t with
    | .error e => .error e
    | .ok (s1, p) =>
      if t ≠ p.transfer then .error .incompatible
      else if p.executed.isSome then .ok { st := s1, res := .prevExecuted, signed := [] }
      else match authorize hm s1 sender t sig with
        | .error e => .error e
        | .ok (w, sg, σ) => castVote s1 w p sg σ sender now txn

/-! ## through the engine -/

structure Call where
  sender : Id
  value  : Nat
  fee    : Nat
  nonce  : Int
  /-- the transaction's own `CreationDate`: chosen by the client (within the chain's tolerance) and in general
  different from the creation date of the block that includes it. The contract must NOT judge expiry by it:
  `Execute` hands `balances.GetBlock().CreationDate` to `vote` (sc.go:76) — the `now` of `Op.vote`. The model
  carries the field so that the difference is an explicit input of every case; nothing below reads it. -/
  date   : Int := 0
deriving Repr

def Call.txn (c : Call) : Txn :=
  { sender := c.sender, to := msigSC, toValid := true, value := c.value, fee := c.fee, nonce := c.nonce, typ := .sc }

/-- `none` = the contract returned an error; `some (s', sg)` = success with contract state `s'` and the
signed transfers `sg` it queued. -/
def settleMs (feeOn : Bool) (s : MSt F) (c : Call) (r : Option (MSt F × List Ledger.Transfer)) : MSt F × Status :=
  match r with
  | none =>
    let o := Ledger.step feeOn ⟨s.accts, []⟩ c.txn (.chargeable [] [] [])
    ({ s with accts := o.1.accts }, o.2)
  | some (s', sg) =>
    let o := Ledger.step feeOn ⟨s.accts, []⟩ c.txn (.ok [] [] sg)
    if o.2 = .success then ({ s' with accts := o.1.accts }, .success)
    else ({ s with accts := o.1.accts }, o.2)

def registerStep (feeOn : Bool) (s : MSt F) (c : Call) (r : Option (RegIn F)) : MSt F × Status :=
  settleMs feeOn s c (match register s c.sender r with | .error _ => none | .ok s' => some (s', []))

def voteStep (hm : Xfer → F) (feeOn : Bool) (s : MSt F) (c : Call) (now : Int) (txn : Nat) (v : VoteIn F) : MSt F × Status :=
  settleMs feeOn s c (match vote hm s c.sender now txn v with | .error _ => none | .ok o => some (o.st, o.signed))

/-! ## histories: every vote carries the creation date of its BLOCK (`now`); the transaction's own date is `c.date` -/

inductive Op (F : Type) where
  | register (c : Call) (r : Option (RegIn F))
  | vote (c : Call) (now : Int) (txn : Nat) (v : VoteIn F)

def stepOp (hm : Xfer → F) (feeOn : Bool) (s : MSt F) : Op F → MSt F × Status
  | .register c r => registerStep feeOn s c r
  | .vote c now txn v => voteStep hm feeOn s c now txn v

def runOps (hm : Xfer → F) (feeOn : Bool) (s : MSt F) : List (Op F) → MSt F
  | [] => s
  | op :: rest => runOps hm feeOn (stepOp hm feeOn s op).1 rest

end

end ZChain.Multisig
