import ZChain.Base.Alg
/-!
Model of `core/encryption/bls0chain_aggregate.go` (`BLS0ChainAggregateSignatureScheme`), as coded:

* `new total batchSize`: `ceil(total / batchSize)` batches, every slot `nil` (integer division by zero panics);
* `aggregate idx item`: batch `idx / batchSize` (index out of range panics); the signature is added to the batch's
  running sum (`Sign.Add`), the pairing `e(Hm m, pk)` multiplied into the batch's `GT` product;
* `verify`: the batches are folded **into slot 0 in place** (`agtmul := AGt[0]`, `asig := ASigs[0]` are pointers), a slot
  that never received an item is a nil pointer (crash); then the single check `e(Σσ, g2) = Π e(Hm mᵢ, pkᵢ)`.
  Because slot 0 is overwritten, a second `Verify` on a scheme with several batches adds the other batches again.
In the exponent: `GT` products are sums of `pk·h`. Core-only, generic over the scalar type.
-/
namespace ZChain.Agg
open ZChain.Alg

section Generic
variable {F : Type} [Add F] [Mul F] [Sub F] [Div F] [Zero F] [One F] [DecidableEq F]

structure Scheme (F : Type) where
  batchSize : Nat
  sigs : List (Option F)
  gts : List (Option F)

def numBatches (total batchSize : Nat) : Nat :=
  total / batchSize + (if (total / batchSize) * batchSize < total then 1 else 0)

/-- `NewBLS0ChainAggregateSignature(total, batchSize)`; `none` = the division by zero panic. -/
def new (total batchSize : Nat) : Option (Scheme F) :=
  if batchSize = 0 then none
  else some { batchSize := batchSize, sigs := List.replicate (numBatches total batchSize) none,
              gts := List.replicate (numBatches total batchSize) none }

def addOpt (o : Option F) (x : F) : Option F :=
  match o with
  | none => some x
  | some y => some (y + x)

/-- `Aggregate(ss, idx, signature, hash)`; `none` = index-out-of-range panic. -/
def aggregate (s : Scheme F) (idx : Nat) (it : AggItem F) : Option (Scheme F) :=
  let b := idx / s.batchSize
  if b < s.sigs.length ∧ b < s.gts.length then
    some { s with sigs := s.sigs.set b (addOpt (s.sigs.getD b none) it.sig),
                  gts := s.gts.set b (addOpt (s.gts.getD b none) (it.pk * it.h)) }
  else none

def sumOpts (l : List (Option F)) : Option F :=
  l.foldl (fun acc o => match acc, o with
    | some a, some x => some (a + x)
    | _, _ => none) (some 0)

/-- `Verify()`; `none` = nil dereference (no batch at all, or a batch without any item). The returned scheme has
slot 0 overwritten by the totals. -/
def verify (s : Scheme F) : Option (Scheme F × Bool) :=
  match s.sigs, s.gts with
  | some a :: ss, some g :: gs =>
    match sumOpts ss, sumOpts gs with
    | some sa, some sg =>
      if ss.length = gs.length then
        some ({ s with sigs := some (a + sa) :: ss, gts := some (g + sg) :: gs }, decide (a + sa = g + sg))
      else none
    | _, _ => none
  | _, _ => none

/-- all `Aggregate` calls of a caller, in order. -/
def aggregateAll (s : Scheme F) : List (Nat × AggItem F) → Option (Scheme F)
  | [] => some s
  | (i, it) :: rest => (aggregate s i it).bind (fun s' => aggregateAll s' rest)

end Generic
end ZChain.Agg
