/-
Model of the event merge step of `smartcontract/dbs/event` (C20):

* `process.go`  `mergeEvents`            → `mergeEvents`
* `merger.go`   `eventsMergerImpl.filter/merge`, `withUniqueEventOverwrite`, `withEventMerge`
                                          → `bucket`, `flatten`, `uniqueOverwrite`, `eventMerge`
* the merge functions passed to `withEventMerge` (`a.F += b.F`, the map merge of
  `withProviderRewardsPenaltiesAdded`, the by-key overwrite of `withAllocBlobberTermsMerged`)
                                          → `MergeFn`, `mergeData`
* `process.go`  `addStat` cases `TagAddBurnTicket`, `TagAuthorizerBurn`, `TagAddBridgeMint`
  (+ `authorizer.go` `updateAuthorizersTotalBurn/Mint`, `user.go` `updateUserMintNonce`)
                                          → `burnTicketRows`, `authorizerBurnRows`, `bridgeMintRows`

The merger list itself (which tag has which middlewares, in which order) is NOT written here: it is the
`Table` that `harness/cmd/xc20` regenerates from the Go source into `Generated/C20.lean` on every run.

Abstractions (all stated, none hidden):
* a payload (`Item`) is the list of its named fields that the harness sets (`Val`); fields the
  harness leaves at their zero value are not represented. Integer fields are 64-bit patterns
  (`Nat < 2^64`), Go's `+=` on `int64`/`currency.Coin` wraps, so sums are taken `% 2^64`.
* `DK` is the dynamic Go type of `Event.Data` relative to the merger's type parameter `T`
  (`T`, `*T`, `[]T`, `*[]T`, some other type, some other slice type, untyped nil).
* Go maps: `withUniqueEventOverwrite`/`withEventMerge` collect into a `map[string]…` and return the
  values **in map iteration order**, which Go leaves unspecified. The model returns them in
  first-insertion order; every statement about the real code must therefore be invariant under
  permutation of that list (the theorems are stated on multisets / `List.Perm`, the driver prints
  sorted). Go map-typed payload fields (`DelegateRewards`) are kept sorted by key.
Core-only (no Mathlib): linked into `zdrv-C20`.
-/
namespace ZChain.Events

def U64 : Nat := 18446744073709551616

inductive Val where
  | num (n : Nat)
  | str (s : String)
  | strs (l : List String)
  | nmap (m : List (String × Nat))
deriving DecidableEq, Repr, Inhabited

abbrev Item := List (String × Val)

/-- dynamic type of `Event.Data` relative to the merger's `T`. -/
inductive DK where
  | val | ptr | slice | ptrSlice | bad | badSlice | nil
deriving DecidableEq, Repr, Inhabited

structure Event where
  typ : Nat
  tag : Nat
  index : String
  dk : DK
  items : List Item
deriving DecidableEq, Repr, Inhabited

inductive Err where
  | invalid   -- ErrInvalidEventData
  | panic     -- nil dereference in reflect.TypeOf(nil).Kind()
deriving DecidableEq, Repr

instance {ε α : Type} [DecidableEq ε] [DecidableEq α] : DecidableEq (Except ε α)
  | .ok a, .ok b => if h : a = b then isTrue (by rw [h]) else isFalse (by intro e; cases e; exact h rfl)
  | .error a, .error b => if h : a = b then isTrue (by rw [h]) else isFalse (by intro e; cases e; exact h rfl)
  | .ok _, .error _ => isFalse (by intro e; cases e)
  | .error _, .ok _ => isFalse (by intro e; cases e)

inductive MergeFn where
  /-- `a.F += b.F` for `F ∈ sums`; for `M ∈ mapSums`: `for k,v := range b.M { a.M[k] (+)= v }`. `T` is the struct. -/
  | fields (sums : List String) (mapSums : List String)
  /-- `withAllocBlobberTermsMerged`: `T = []X`; elements keyed by the string field `key`, `b` overwrites `a`. -/
  | sliceOverwriteBy (key : String)
deriving DecidableEq, Repr

inductive Middleware where
  | overwrite                   -- withUniqueEventOverwrite()
  | mergeBy (f : MergeFn)       -- withEventMerge(f)
deriving DecidableEq, Repr

structure Merger where
  tag : Nat
  mws : List Middleware
deriving DecidableEq, Repr

/-- how the error returned by a call on the commit path reaches the caller's own error result -/
inductive ErrFlow where
  | propagated   -- returned, or assigned to the error the function returns
  | swallowed    -- assigned (e.g. to a shadowing variable) and never returned
  | dropped      -- result not used
deriving DecidableEq, Repr

/-- a handler failure makes the whole block's event processing fail (so that `ProcessEvents` rolls the transaction
back and finalization retries) iff every link of the chain handler → addStat → processEvent → WorkEvents → Work →
worker → ProcessEvents propagates the error. -/
def errorsPropagate (flows : List (String × String × ErrFlow)) : Bool :=
  flows.all fun f => f.2.2 == .propagated

/-- shape of the `TagAddBurnTicket` case of `addStat`. -/
inductive TicketShape where
  | firstOnly   -- `edb.addBurnTicket((*bt)[0])`
  | all         -- a loop over `*bt`
deriving DecidableEq, Repr

structure Table where
  mergers : List Merger
  typeChain : Nat
  typeStats : Nat
  tagUniqueAddress : Nat
  /-- shape of the burn-ticket handler -/
  ticketShape : TicketShape
  /-- field of `state.Mint` that the `TagAddBridgeMint` handler fills with the authorizer id -/
  mintSetField : String
  /-- field of `state.Mint` that `updateAuthorizersTotalMint` reads as the row id -/
  mintIdField : String
deriving Repr

/-! ### association lists standing for Go maps (first-insertion order) -/

def lookup {α : Type} (m : List (String × α)) (k : String) : Option α :=
  match m with
  | [] => none
  | (k', v) :: t => if k' = k then some v else lookup t k

/-- `m[k] = v` -/
def upsert {α : Type} (m : List (String × α)) (k : String) (v : α) : List (String × α) :=
  match m with
  | [] => [(k, v)]
  | (k', v') :: t => if k' = k then (k', v) :: t else (k', v') :: upsert t k v

/-- sorted insert for map-typed payload fields (canonical form) -/
def insertSorted (m : List (String × Nat)) (k : String) (f : Option Nat → Nat) : List (String × Nat) :=
  match m with
  | [] => [(k, f none)]
  | (k', v') :: t =>
    if k' = k then (k', f (some v')) :: t
    else if k < k' then (k, f none) :: (k', v') :: t
    else (k', v') :: insertSorted t k f

/-! ### `withUniqueEventOverwrite` -/

def overwriteMap (evs : List Event) : List (String × Event) :=
  evs.foldl (fun m e => upsert m e.index e) []

def uniqueOverwrite (evs : List Event) : List Event :=
  (overwriteMap evs).map (·.2)

/-! ### merge functions -/

def getField (it : Item) (f : String) : Option Val := lookup it f

def setField (it : Item) (f : String) (v : Val) : Item :=
  match it with
  | [] => []
  | (k, v') :: t => if k = f then (k, v) :: t else (k, v') :: setField t f v

def sumField (a b : Item) (f : String) : Item :=
  match getField a f, getField b f with
  | some (.num x), some (.num y) => setField a f (.num ((x + y) % U64))
  | _, _ => a

def mergeMap (ma mb : List (String × Nat)) : List (String × Nat) :=
  mb.foldl (fun m kv => insertSorted m kv.1 (fun o => match o with
    | none => kv.2
    | some v => (v + kv.2) % U64)) ma

def sumMapField (a b : Item) (f : String) : Item :=
  match getField a f, getField b f with
  | some (.nmap x), some (.nmap y) => setField a f (.nmap (mergeMap x y))
  | _, _ => a

def itemKey (it : Item) (key : String) : String :=
  match getField it key with
  | some (.str s) => s
  | _ => ""

/-- the user function handed to `withEventMerge`, on the payloads seen as `T`. -/
def mergeData (f : MergeFn) (a b : List Item) : List Item :=
  match f with
  | .fields sums maps =>
    match a, b with
    | [x], [y] => [maps.foldl (fun acc m => sumMapField acc y m) (sums.foldl (fun acc s => sumField acc y s) x)]
    | _, _ => a
  | .sliceOverwriteBy key =>
    ((a ++ b).foldl (fun m it => upsert m (itemKey it key) it) []).map (·.2)

/-- `fromEvent[T](e.Data)` where `T` is the type parameter of `withEventMerge`. -/
def fromEventT (f : MergeFn) (e : Event) : Except Err (List Item) :=
  match f, e.dk with
  | .fields _ _, .val => .ok e.items
  | .fields _ _, .ptr => .ok e.items
  | .sliceOverwriteBy _, .slice => .ok e.items
  | .sliceOverwriteBy _, .ptrSlice => .ok e.items
  | _, _ => .error .invalid

/-! ### `withEventMerge` -/

def eventMergeStep (f : MergeFn) (acc : Except Err (List (String × Event))) (e : Event) :
    Except Err (List (String × Event)) :=
  match acc with
  | .error x => .error x
  | .ok m =>
    match lookup m e.index with
    | none => .ok (m ++ [(e.index, e)])
    | some ee =>
      match fromEventT f ee, fromEventT f e with
      | .ok a, .ok b => .ok (upsert m e.index { ee with items := mergeData f a b })
      | .error x, _ => .error x
      | _, .error x => .error x

def eventMergeMap (f : MergeFn) (evs : List Event) : Except Err (List (String × Event)) :=
  evs.foldl (eventMergeStep f) (.ok [])

def eventMerge (f : MergeFn) (evs : List Event) : Except Err (List Event) :=
  match eventMergeMap f evs with
  | .ok m => .ok (m.map (·.2))
  | .error x => .error x

def applyMiddleware (mw : Middleware) (evs : List Event) : Except Err (List Event) :=
  match mw with
  | .overwrite => .ok (uniqueOverwrite evs)
  | .mergeBy f => eventMerge f evs

def applyMiddlewares (mws : List Middleware) (evs : List Event) : Except Err (List Event) :=
  match mws with
  | [] => .ok evs
  | mw :: rest =>
    match applyMiddleware mw evs with
    | .ok evs' => applyMiddlewares rest evs'
    | .error x => .error x

/-! ### `eventsMergerImpl.merge`: flatten the surviving events into one `[]T` -/

def flattenOne (e : Event) : Except Err (List Item) :=
  match e.dk with
  | .nil => .error .panic          -- reflect.TypeOf(nil).Kind()
  | .slice => .ok e.items          -- Kind()==Slice, fromEvent[[]T] succeeds
  | .badSlice => .error .invalid   -- Kind()==Slice, fromEvent[[]T] fails
  | .val => .ok e.items
  | .ptr => .ok e.items
  | .ptrSlice => .error .invalid   -- Kind()==Ptr, fromEvent[T] fails on *[]T
  | .bad => .error .invalid

def flatten (evs : List Event) : Except Err (List Item) :=
  match evs with
  | [] => .ok []
  | e :: rest =>
    match flattenOne e with
    | .error x => .error x
    | .ok xs =>
      match flatten rest with
      | .error x => .error x
      | .ok ys => .ok (xs ++ ys)

/-- the single event a merger contributes: tag and payload list (Type=Stats, BlockNumber=round, Index=block hash). -/
structure Merged where
  tag : Nat
  items : List Item
deriving DecidableEq, Repr

/-- `em.merge(round, blockHash)` on the events the merger collected; `none` = no event of that tag. -/
def mergeOne (m : Merger) (evs : List Event) : Except Err (Option Merged) :=
  match evs with
  | [] => .ok none
  | _ =>
    match applyMiddlewares m.mws evs with
    | .error x => .error x
    | .ok evs' =>
      match flatten evs' with
      | .error x => .error x
      | .ok items => .ok (some ⟨m.tag, items⟩)

/-! ### `mergeEvents` -/

def bypass (t : Table) (e : Event) : Bool := e.typ = t.typeChain || e.tag = t.tagUniqueAddress

/-- the event is offered to the mergers' `filter`s (Stats type, not bypassed) -/
def routed (t : Table) (e : Event) : Bool := !bypass t e && e.typ = t.typeStats

/-- events that go to `others` (kept as they are, original order): bypassed ones, and routed ones no merger accepts -/
def isOther (t : Table) (e : Event) : Bool :=
  bypass t e || (e.typ = t.typeStats && !(t.mergers.any (·.tag = e.tag)))

/-- events collected by a merger for `tag`: `filter` is tried in list order and the first match wins, so a
merger whose tag an earlier merger already claimed collects nothing. -/
def bucket (t : Table) (claimed : List Nat) (tag : Nat) (evs : List Event) : List Event :=
  if claimed.contains tag then [] else evs.filter fun e => routed t e && e.tag = tag

/-- the second loop of `mergeEvents`: `em.merge` for every merger in list order; the first error aborts. -/
def mergeAll (t : Table) (evs : List Event) (ms : List Merger) (claimed : List Nat) : Except Err (List Merged) :=
  match ms with
  | [] => .ok []
  | m :: rest =>
    match mergeOne m (bucket t claimed m.tag evs) with
    | .error x => .error x
    | .ok r =>
      match mergeAll t evs rest (m.tag :: claimed) with
      | .error x => .error x
      | .ok rs => .ok (match r with | none => rs | some x => x :: rs)

structure Result where
  merged : List Merged
  others : List Event
deriving DecidableEq, Repr

def mergeEvents (t : Table) (evs : List Event) : Except Err Result :=
  match mergeAll t evs t.mergers [] with
  | .error x => .error x
  | .ok ms => .ok ⟨ms, evs.filter (isOther t)⟩

/-- payloads that reach the handler of `tag` -/
def delivered (r : Result) (tag : Nat) : List Item :=
  (r.merged.filter (·.tag = tag)).flatMap (·.items)

/-- payloads emitted under `tag` that are routed to a merger (Stats type, not bypassed), in emission order -/
def emitted (t : Table) (evs : List Event) (tag : Nat) : List Item :=
  (evs.filter fun e => routed t e && e.tag = tag).flatMap (·.items)

/-! ### handlers (row selection) -/

/-- `case TagAddBurnTicket`: `len(*bt)==0` ⇒ ErrInvalidEventData; the rows handed to `addBurnTicket`. -/
def burnTicketRows (t : Table) (data : List Item) : Except Err (List Item) :=
  match data with
  | [] => .error .invalid
  | x :: rest =>
    match t.ticketShape with
    | .firstOnly => .ok [x]
    | .all => .ok (x :: rest)

def numField (it : Item) (f : String) : Nat :=
  match getField it f with
  | some (.num n) => n
  | _ => 0

def strField (it : Item) (f : String) : String :=
  match getField it f with
  | some (.str s) => s
  | _ => ""

def strsField (it : Item) (f : String) : List String :=
  match getField it f with
  | some (.strs l) => l
  | _ => []

/-- `case TagAuthorizerBurn` → `updateAuthorizersTotalBurn`: one update row `(id, total_burn += amount)` per payload. -/
def authorizerBurnRows (data : List Item) : List (String × Nat) :=
  data.map fun it => (strField it "Burner", numField it "Amount")

/-- `authMint[sig] += bm.Amount` over all signers of all mints (kept sorted by signer). -/
def authMint (data : List Item) : List (String × Nat) :=
  data.foldl (fun m bm => (strsField bm "Signers").foldl (fun m sig =>
    insertSorted m sig (fun o => match o with
      | none => numField bm "Amount"
      | some v => (v + numField bm "Amount") % U64)) m) []

/-- `case TagAddBridgeMint`: user rows `(user_id, mint_nonce)` for `updateUserMintNonce`, and the update rows
`(id, total_mint += amount)` of `updateAuthorizersTotalMint`, whose id is read from `mintIdField` of a
`state.Mint` in which only `mintSetField` and `Amount` were set. -/
def bridgeMintRows (t : Table) (data : List Item) : List (String × Nat) × List (String × Nat) :=
  (data.map fun it => (strField it "UserID", numField it "MintNonce"),
   (authMint data).map fun (auth, amt) => ((if t.mintIdField = t.mintSetField then auth else ""), amt))

/-- gorm's `Create(&users)` refuses an empty slice ("empty slice found"), so a merged mint event without
payloads makes the handler fail before the totals are touched. -/
def bridgeMintFails (data : List Item) : Bool := data.isEmpty

/-! ### applying the merged events, in list order, to a table of the query database

`WorkEvents` hands the merged events to `addStat` strictly in the order of the merger list. Stand-in for one table
(there is no Postgres here): INSERT creates (or overwrites) the row of a key, UPDATE of an absent row matches nothing,
an additive UPDATE (`reward = reward + x`) likewise. -/

inductive RowOp where
  | insert (k : String) (v : Nat)
  | update (k : String) (v : Nat)
  | add (k : String) (v : Nat)
deriving DecidableEq, Repr

def RowOp.key : RowOp → String
  | .insert k _ => k
  | .update k _ => k
  | .add k _ => k

def applyRow (tbl : List (String × Nat)) : RowOp → List (String × Nat)
  | .insert k v => upsert tbl k v
  | .update k v => match lookup tbl k with
    | some _ => upsert tbl k v
    | none => tbl
  | .add k v => match lookup tbl k with
    | some x => upsert tbl k ((x + v) % U64)
    | none => tbl

def applyRows (tbl : List (String × Nat)) (ops : List RowOp) : List (String × Nat) := ops.foldl applyRow tbl

end ZChain.Events
