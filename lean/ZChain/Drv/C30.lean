import ZChain.Drv.Util
import ZChain.Model.Sha3
import ZChain.Model.TxnHash
import ZChain.Generated.C30
/-! Line driver of the transaction-hash model (C30) over the GENERATED table, `H` = SHA3-256/hex.

Strings travel hex-encoded (`-` = empty). Ops:
* `init <serverChain> <mainChain> <scheme> <tolerance>` → `ok` (fresh environment, empty client cache)
* `signed <pk> <msg> <sig>` → `ok`;  `json <data>` → `ok` (this data string parses as smart-contract data)
* `txn (s.<Field>=<hex> | i.<Field>=<int>)*` → `hash <hex>` (sets the current transaction)
* `data` → `data <hex of the hash data>`
* `run accept|validate <now> <0|1> (s.<Field>=<hex> | i.<Field>=<int>)*` → `hash <hex> ok|reject <class>`:
  the current transaction with the given fields overwritten (the current transaction itself is not changed) goes
  through `ComputeProperties`+`ValidateWrtTimeForBlock` (`accept`) or `ValidateWrtTimeForBlock` alone (`validate`);
  the client cache keeps what the run put into it.
-/
namespace ZChain.Drv.C30
open ZChain.HashBind ZChain.TxnHash

abbrev T : Table := ZChain.Generated.C30.table

structure St where
  env : Env
  txn : Option Txn

def emptyTxn : Txn := ⟨fun _ => [], fun _ => 0⟩
def emptyEnv : Env := ⟨[], [], 0, [], [], []⟩

def asText (s : Str) : String := String.ofList (s.map Char.ofNat)
def H : Str → Str := ZChain.Sha3.hashHex

def strKind (f : Field) : Bool := T.kindOf f = some .str
def intKind (f : Field) : Bool := T.kindOf f = some .int
def uintKind (f : Field) : Bool := T.kindOf f = some .uint

def applyTok (t : Txn) (tok : String) : Option Txn :=
  match tok.splitOn "=" with
  | [k, v] =>
    if k.startsWith "s." then
      match Field.ofName (k.drop 2).toString, fromHex v with
      | some f, some x => if strKind f then some (t.setStr f x) else none
      | _, _ => none
    else if k.startsWith "i." then
      match Field.ofName (k.drop 2).toString, v.toInt? with
      | some f, some x =>
        if intKind f then (if -(2:Int)^63 ≤ x ∧ x < (2:Int)^63 then some (t.setInt f x) else none)
        else if uintKind f then (if 0 ≤ x ∧ x < (2:Int)^64 then some (t.setInt f x) else none)
        else none
      | _, _ => none
    else none
  | _ => none

def applyToks (t : Txn) (toks : List String) : Option Txn :=
  toks.foldl (fun acc tok => acc.bind (applyTok · tok)) (some t)

def step (s : St) (ws : List String) : St × String :=
  match ws with
  | ["init", sc, mc, _, tol] => match fromHex sc, fromHex mc, tol.toInt? with
    | some sc, some mc, some tol => (⟨{ emptyEnv with serverChain := sc, mainChain := mc, tolerance := tol }, none⟩, "ok")
    | _, _, _ => (s, "bad-op")
  | ["signed", pk, msg, sig] => match fromHex pk, fromHex msg, fromHex sig with
    | some pk, some msg, some sig => ({ s with env := { s.env with signed := (pk, msg, sig) :: s.env.signed } }, "ok")
    | _, _, _ => (s, "bad-op")
  | ["json", d] => match fromHex d with
    | some d => ({ s with env := { s.env with jsonOk := d :: s.env.jsonOk } }, "ok")
    | none => (s, "bad-op")
  | "txn" :: toks => match applyToks emptyTxn toks with
    | some t => ({ s with txn := some t }, "hash " ++ asText (computeHash T H t))
    | none => (s, "bad-op")
  | ["data"] => match s.txn with
    | some t => (s, "data " ++ toWire (hashData T H t))
    | none => (s, "bad-op")
  | "run" :: mode :: now :: vs :: toks =>
    match s.txn, now.toInt?, (if vs = "1" then some true else if vs = "0" then some false else none) with
    | some t, some now, some vs =>
      match applyToks t toks with
      | none => (s, "bad-op")
      | some t' =>
        let h := "hash " ++ asText (computeHash T H t') ++ " "
        if mode = "accept" then
          let r := accept T H s.env now vs t'
          let c := acceptCache T H s.env now vs t'
          ({ s with env := { s.env with cache := c } }, h ++ (match r with | none => "ok" | some x => "reject " ++ x.name))
        else if mode = "validate" then
          let r := validate T H s.env now vs t'
          let c := cacheAfter T H s.env now vs t'
          ({ s with env := { s.env with cache := c } }, h ++ (match r with | none => "ok" | some x => "reject " ++ x.name))
        else (s, "bad-op")
    | _, _, _ => (s, "bad-op")
  | _ => (s, "bad-op")

def run : IO Unit := ZChain.Drv.runLoop step ⟨emptyEnv, none⟩

end ZChain.Drv.C30

def main : IO Unit := ZChain.Drv.C30.run
