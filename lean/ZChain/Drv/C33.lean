import ZChain.Drv.Util
import ZChain.Model.AlgWorld
import ZChain.Model.VRF
/-! Line driver for C33 (round random seed): the crypto world (DKG parties, signature registers) plus
`chain <self|->` | `round <rn> <tc> <prevSeed|-> <h>` | `prevseed <seed> <h>` | `restart <tc> <h>` |
`vshare <party> <sigidx|zero> <tc>`. The seed is answered by the label of the group signature it is computed from. -/
namespace ZChain.Drv.C33
open ZChain.Alg ZChain.AlgWorld ZChain.VRF ZChain.DKG

structure St where
  w : World := {}
  self : Option Nat := none
  hasChain : Bool := false
  hasRound : Bool := false
  rn : Int := 0
  prev : Option Int := none
  h : Option Fr := none
  r : Round Fr := Round.empty 0
  regZ : Registry := {}
deriving Inhabited

/-- register the message string with its point (an already known string keeps its point). -/
def withMsg (s : St) (m : String) (h : Fr) : St × Fr :=
  match msg? s.w m with
  | some h' => (s, h')
  | none => ({ s with w := { s.w with msgs := s.w.msgs ++ [(m, h)] } }, h)

def showRound (s : St) (ok : Bool) : St × String :=
  match s.r.groupSig with
  | none => (s, s!"{showBool ok} n={s.r.shares.length} parked={s.r.cache.length} seed=-")
  | some g =>
    let (reg, i) := s.regZ.label g
    ({ s with regZ := reg }, s!"{showBool ok} n={s.r.shares.length} parked={s.r.cache.length} seed=Z{i} derived=ok")

/-- the fixture needs the parties numbered 0..n-1, each with a node signing key `n<j>` (`key n<j> <sk>`; the
miner id of the party is the hash of that public key — computed by the generator, checked by the implementation side). -/
def contiguous (s : St) : Bool :=
  let ks := sortNats (s.w.parties.map (·.1))
  !ks.isEmpty && ks == List.range ks.length && ks.all (fun j => (key? s.w s!"n{j}").isSome)

def selfDkg (s : St) : Option (Party Fr) := s.self.bind (party? s.w)

def step (s : St) (ws : List String) : St × String :=
  match ws with
  | ["chain", k] =>
    if k == "-" then ({ s with self := none, hasChain := true }, "ok")
    else match k.toNat? with
      | some k => if (party? s.w k).isSome then ({ s with self := some k, hasChain := true }, "ok") else (s, "bad-op")
      | none => (s, "bad-op")
  | ["mb2", t2, st] =>
    -- a second magic block (same miners, another T) WITHOUT a DKG of its own: the threshold of the beacon is the T of
    -- the DKG in force (`dkg.T`), so nothing changes in the model
    match t2.toNat?, st.toNat? with
    | some t2, some st => if t2 < 1 ∨ st < 1 then (s, "bad-op") else (s, "ok")
    | _, _ => (s, "bad-op")
  | ["round", rn, tc, prev, h] =>
    match rn.toInt?, tc.toNat?, Fr.parse? h, s.hasChain with
    | some rn, some tc, some h, true =>
      if rn < 1 ∨ !contiguous s ∨ (prev != "-" ∧ prev.toInt?.isNone) ∨ (rn == 1 ∧ (prev == "-" ∨ prev.toInt? == some 0)) then (s, "bad-op") else
      let s := { s with rn := rn, r := Round.empty tc, h := none, prev := none, hasRound := true }
      if prev == "-" then (s, "nomsg")
      else match prev.toInt? with
        | some p =>
          if p == 0 then (s, "nomsg") else
          let m := blsMessage rn tc p
          let (s, h) := withMsg s m h
          ({ s with h := some h, prev := some p }, s!"msg {m}")
        | none => (s, "bad-op")
    | _, _, _, _ => (s, "bad-op")
  | ["prevseed", p, h] =>
    match p.toInt?, Fr.parse? h, s.hasRound with
    | some p, some h, true =>
      if p == 0 ∨ s.prev.isSome ∨ s.rn < 2 then (s, "bad-op") else
      let m := blsMessage s.rn s.r.tc p
      let (s, h) := withMsg s m h
      ({ s with h := some h, prev := some p }, s!"msg {m}")
    | _, _, _ => (s, "bad-op")
  | ["restart", tc, h] =>
    match tc.toNat?, Fr.parse? h, s.hasRound with
    | some tc, some h, true =>
      let s := { s with r := restart s.r tc, h := none }
      match s.prev with
      | none => (s, "nomsg")
      | some p =>
        let m := blsMessage s.rn tc p
        let (s, h) := withMsg s m h
        ({ s with h := some h }, s!"msg {m}")
    | _, _, _ => (s, "bad-op")
  | ["vshare", k, si, tc] =>
    match k.toNat?.bind (party? s.w), k.toNat?, tc.toNat?, s.hasRound with
    | some p, some k, some tc, true =>
      let σ := if si == "zero" then some (0 : Fr) else si.toNat?.bind (sig? s.w)
      match σ with
      | some σ =>
        let (r, ok) := addVRFShare (selfDkg s) s.h s.r { party := k, pid := p.id, tc := tc, share := σ }
        showRound { s with r := r } ok
      | none => (s, "bad-op")
    | _, _, _, _ => (s, "bad-op")
  | _ =>
    match ZChain.AlgWorld.step s.w ws with
    | some (w, o) =>
      -- `dkg` re-initialises the whole case
      if ws.head? == some "dkg" then ({ w := w }, o) else ({ s with w := w }, o)
    | none => (s, "bad-op")

def run : IO Unit := ZChain.Drv.runLoop step ({} : St)

end ZChain.Drv.C33

def main : IO Unit := ZChain.Drv.C33.run
