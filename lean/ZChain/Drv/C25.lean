import ZChain.Drv.Util
import ZChain.Model.Partitions
/-! Line driver for the partitions model (C25).

A world holds one `Store` per partitions name (distinct names use distinct trie keys) and any number of
in-memory objects ("handles"), each bound to a name. Every method line names its handle.

`reset` | `create <h> <name> <size>` | `load <h> <name>` | `add <h> <id> <data>` | `addx <h> <id> <data>` |
`get <h> <id>` | `upditem <h> <id> <data>` | `upd <h> <id> <k>` | `updfail <h> <id>` | `rm <h> <id>` |
`rmx <h> <id>` | `exist <h> <id>` | `size <h>` | `each <h> <stop|->` | `eachpart <h> <idx> <stop|->` |
`rand <h> <u>` (Intn(total) = u mod total) | `save <h>` | `repair <h>` | `dump <h>` -/
namespace ZChain.Drv.C25
open ZChain.Partitions

/-- decimal numeral of at most 9 digits (what the harness accepts on the Go side) -/
def _root_.String.num? (w : String) : Option Nat := if w.length > 9 then none else w.toNat?

structure World where
  stores : KV Store := []
  handles : KV (Nat × Mem) := []
  /-- handles whose object is no longer modelled: a failed `DeleteTrieNode` inside `loadLastFromPrev` leaves
  `p.Last` and a slot of `p.Partitions` pointing to ONE partition object (the slot is deleted only after the
  node); the model has no aliased partitions, so such an object answers `broken` until it is replaced. -/
  broken : List Nat := []

def errName : Err → String
  | .exists_ => "exists" | .notFound => "notfound" | .empty => "empty" | .overflow => "overflow"
  | .load => "load" | .prev => "prev" | .notPresent => "notpresent" | .partNotFound => "partnotfound"
  | .emptyPart => "emptypart" | .noIndex => "noindex" | .emptyLast => "emptylast" | .dup => "dup"
  | .range => "range" | .ferr => "ferr" | .absent => "absent" | .hang => "hang" | .panic => "panic"
  | .locDel => "locdel" | .partDel => "partdel"

def showRes {α : Type} (f : α → String) : Res α → String
  | .ok a => f a
  | .error .panic => "panic"
  | .error e => "err " ++ errName e

def showItems (xs : List Item) : String :=
  "[" ++ ",".intercalate (xs.map fun it => s!"{it.id}:{it.data}") ++ "]"

def bit (b : Bool) : String := if b then "1" else "0"

def sortedKV {β : Type} (m : KV β) : List (Nat × β) :=
  m.keys.filterMap fun k => (m.get k).map fun v => (k, v)

def showLocs (m : KV Nat) : String :=
  "{" ++ ",".intercalate ((sortedKV m).map fun (k, v) => s!"{k}>{v}") ++ "}"

def showPart (p : Part) : String := s!"{p.key}/{p.loc}/{bit p.changed}{showItems p.items}"

def dump (s : S) : String :=
  let mem := s!"M sz={s.m.size} last={showPart s.m.last} parts=\{" ++
    ";".intercalate ((sortedKV s.m.parts).map fun (k, p) => s!"{k}={showPart p}") ++ "} locs=" ++ showLocs s.m.locs
  let hdr := match s.st.hdr with
    | none => "-"
    | some h => s!"{h.size}/{h.lastLoc}{showItems h.lastItems}"
  let st := s!"S hdr={hdr} parts=\{" ++
    ";".intercalate ((sortedKV s.st.parts).map fun (k, (l, its)) => s!"{k}={l}{showItems its}") ++ "} locs=" ++ showLocs s.st.locs
  mem ++ " | " ++ st

def stopOf (w : String) : Option (Option Nat) :=
  if w = "-" then some none else (w.num?).map some

/-- run a method of handle `h` on its store; write both back. -/
def onHandle (w : World) (h : String) (f : S → S × String) : World × String :=
  match h.num? with
  | none => (w, "bad-op")
  | some h =>
    match w.handles.get h with
    | none => (w, "bad-op")
    | some (name, mem) =>
      if w.broken.contains h then (w, "broken") else
      let st := (w.stores.get name).getD {}
      let (s', out) := f ⟨st, mem⟩
      ({ stores := w.stores.set name s'.st, handles := w.handles.set h (name, s'.m),
         broken := if out = "err locdel" ∨ out = "err partdel" then h :: w.broken else w.broken }, out)

def step (w : World) (ws : List String) : World × String :=
  match ws with
  | ["reset"] => ({}, "ok")
  | ["create", h, name, size] =>
    match h.num?, name.num?, size.num? with
    | some h, some name, some size =>
      let s := createIfNotExists ((w.stores.get name).getD {}) size
      ({ stores := w.stores.set name s.st, handles := w.handles.set h (name, s.m), broken := w.broken.erase h }, "ok")
    | _, _, _ => (w, "bad-op")
  | ["load", h, name] =>
    match h.num?, name.num? with
    | some h, some name =>
      match load ((w.stores.get name).getD {}) with
      | .ok mem => ({ w with handles := w.handles.set h (name, mem), broken := w.broken.erase h }, "ok")
      | .error e => (w, "err " ++ errName e)
    | _, _ => (w, "bad-op")
  | ["add", h, id, d] =>
    match id.num?, d.num? with
    | some id, some d => onHandle w h fun s => let (s', r) := addX s ⟨id, d⟩; (s', showRes (fun _ => "ok") r)
    | _, _ => (w, "bad-op")
  | ["addx", h, id, d] =>
    match id.num?, d.num? with
    | some id, some d => onHandle w h fun s => let (s', r) := addX s ⟨id, d⟩; (s', showRes (fun l => s!"ok {l}") r)
    | _, _ => (w, "bad-op")
  | ["get", h, id] =>
    match id.num? with
    | some id => onHandle w h fun s => let (s', r) := get s id; (s', showRes (fun (l, d) => s!"ok {l} {d}") r)
    | _ => (w, "bad-op")
  | ["upditem", h, id, d] =>
    match id.num?, d.num? with
    | some id, some d => onHandle w h fun s => let (s', r) := updateItem s ⟨id, d⟩; (s', showRes (fun _ => "ok") r)
    | _, _ => (w, "bad-op")
  | ["upd", h, id, k] =>
    match id.num?, k.num? with
    | some id, some k =>
      onHandle w h fun s => let (s', r) := update s id (fun d => some (d + k)); (s', showRes (fun l => s!"ok {l}") r)
    | _, _ => (w, "bad-op")
  | ["updfail", h, id] =>
    match id.num? with
    | some id => onHandle w h fun s => let (s', r) := update s id (fun _ => none); (s', showRes (fun l => s!"ok {l}") r)
    | _ => (w, "bad-op")
  | ["rm", h, id] =>
    match id.num? with
    | some id => onHandle w h fun s => let (s', r) := remove s id; (s', showRes (fun _ => "ok") r)
    | _ => (w, "bad-op")
  | ["rmx", h, id] =>
    match id.num? with
    | some id =>
      onHandle w h fun s =>
        let (s', r) := removeX s id
        (s', showRes (fun l => s!"ok {l.from_} {l.replace} {l.replaceData}") r)
    | _ => (w, "bad-op")
  | ["exist", h, id] =>
    match id.num? with
    | some id => onHandle w h fun s => (s, if exist s id then "true" else "false")
    | _ => (w, "bad-op")
  | ["size", h] => onHandle w h fun s => (s, toString (size s))
  | ["each", h, stop] =>
    match stopOf stop with
    | some stop =>
      onHandle w h fun s =>
        let (s', r) := forEach s stop
        (s', showRes (fun vs => " ".intercalate ("visits" :: vs.map fun (i, it) => s!"{i}:{it.id}:{it.data}")) r)
    | none => (w, "bad-op")
  | ["eachpart", h, idx, stop] =>
    match idx.num?, stopOf stop with
    | some idx, some stop =>
      onHandle w h fun s =>
        let (s', r) := forEachPart s idx stop
        (s', showRes (fun vs => " ".intercalate ("visits" :: vs.map fun (i, it) => s!"{i}:{it.id}:{it.data}")) r)
    | _, _ => (w, "bad-op")
  | ["rand", h, u] =>
    match u.num? with
    | some u =>
      onHandle w h fun s =>
        let (s', r) := getRandomItems s (u % totalElements s)
        (s', showRes (fun xs => " ".intercalate ("items" :: xs.map fun it => s!"{it.id}:{it.data}")) r)
    | _ => (w, "bad-op")
  | ["save", h] => onHandle w h fun s => (save s, "ok")
  | ["repair", h] => onHandle w h fun s => let (s', r) := repairPartitionLoc s; (s', showRes (fun _ => "ok") r)
  | ["dump", h] => onHandle w h fun s => (s, dump s)
  | _ => (w, "bad-op")

def run : IO Unit := ZChain.Drv.runLoop step ({} : World)

end ZChain.Drv.C25

def main : IO Unit := ZChain.Drv.C25.run
