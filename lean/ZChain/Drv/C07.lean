import ZChain.Drv.Util
import ZChain.Model.StateCache
/-! Line driver for the state-cache model (C07).

`reset` | `begin <h> <p>` | `tx` | `get <k>` | `probe <k>` | `ins <k> <v>` | `del <k>` | `commit` | `discard` |
`bcommit` | `babort` | `query <h> <k>`.
A read answers `val <v> ref <r>` / `absent ref <r>`: what came through the caches, then what the trie holds
(`r` = value or `absent`); `probe` answers `hit <v>` / `miss`. -/
namespace ZChain.Drv.C07
open ZChain.StateCache

def num? (w : String) : Option Nat := if w.length > 9 then none else w.toNat?

def showRef : Option (Option Nat) → String
  | some (some v) => s!" ref {v}"
  | some none => " ref absent"
  | none => ""

def showAns (a : Ans) (r : Option (Option Nat)) : String :=
  match a with
  | .ok => "ok"
  | .val v => s!"val {v}" ++ showRef r
  | .absent => "absent" ++ showRef r
  | .bad => "bad"

def parse (ws : List String) : Option Op :=
  match ws with
  | ["begin", h, p] => match num? h, num? p with
    | some h, some p => some (.begin_ h p)
    | _, _ => none
  | ["tx"] => some .tx
  | ["get", k] => (num? k).map .get
  | ["probe", k] => (num? k).map .probe
  | ["ins", k, v] => match num? k, num? v with
    | some k, some v => some (.ins k v)
    | _, _ => none
  | ["del", k] => (num? k).map .del
  | ["commit"] => some .commit
  | ["discard"] => some .discard
  | ["bcommit"] => some .bcommit
  | ["babort"] => some .babort
  | ["query", h, k] => match num? h, num? k with
    | some h, some k => some (.query h k)
    | _, _ => none
  | _ => none

/-- the types of /repo implementing `statecache.Value` (the harness scans the sources and fails on any other) -/
def cacheableTypes : List String :=
  ["partitions.Partitions", "partitions.partition", "partitions.location", "minersc.GlobalNode",
   "minersc.MinerNode", "storagesc.StorageAllocation", "storagesc.Config"]

def step (w : World) (ws : List String) : World × String :=
  match ws with
  | ["reset"] => ({}, "ok")
  | ["typecheck", t, seed] =>
    -- part 2 of the harness (Clone/CopyFrom of the real cacheable types): no counterpart in the model,
    -- where values are immutable — the aliasing part of C07 is validated on the real code, not proved
    if cacheableTypes.contains t ∧ (num? seed).isSome then (w, "ok") else (w, "bad-op")
  | _ =>
    match parse ws with
    | none => (w, "bad-op")
    | some op =>
      let (w', a) := ZChain.StateCache.step {} w op
      match op, a with
      | .probe _, .val v => (w', s!"hit {v}")
      | .probe _, .absent => (w', "miss")
      | .del _, .absent => (w', "absent")
      | _, _ => (w', showAns a (match a with | .val _ | .absent => refRead w op | _ => none))

def run : IO Unit := ZChain.Drv.runLoop step ({} : World)

end ZChain.Drv.C07

def main : IO Unit := ZChain.Drv.C07.run
