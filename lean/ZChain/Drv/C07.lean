import ZChain.Drv.Util
import ZChain.Model.StateCache
/-! Line driver for the state-cache model (C07).

`reset` | `begin <h> <p>` | `tx` | `get <k>` | `probe <k>` | `ins <k> <v>` | `del <k>` | `commit` | `discard` |
`bcommit` | `babort` | `query <h> <k>`.
A read answers `val <v> ref <r>` / `absent ref <r>`: what came through the caches, then what the trie holds
(`r` = value or `absent`); `probe` answers `hit <v>` / `miss`. -/
namespace ZChain.Drv.C07
open ZChain.StateCache

def num? (w : String) : Option Nat := if w.length > 9 then none else w.toNat?

def showRef : Option (Option Nat) → String
  | some (some v) => s!" ref {v}"
  | some none => " ref absent"
  | none => ""

def showAns (a : Ans) (r : Option (Option Nat)) : String :=
  match a with
  | .ok => "ok"
  | .val v => s!"val {v}" ++ showRef r
  | .absent => "absent" ++ showRef r
  | .rejected => "toobig"
  | .bad => "bad"

def parse (ws : List String) : Option Op :=
  match ws with
  | ["begin", h, p] => match num? h, num? p with
    | some h, some p => some (.begin_ h p)
    | _, _ => none
  | ["tx"] => some .tx
  | ["get", k] => (num? k).map .get
  | ["probe", k] => (num? k).map .probe
  | ["ins", k, v] => match num? k, num? v with
    | some k, some v => some (.ins k v)
    | _, _ => none
  | ["del", k] => (num? k).map .del
  | ["insbig", k, v] => match num? k, num? v with
    | some k, some _ => some (.insfail k)
    | _, _ => none
  | ["getx", k] => (num? k).map .getn
  | ["gety", k] => (num? k).map .getr
  | ["commit"] => some .commit
  | ["discard"] => some .discard
  | ["bcommit"] => some .bcommit
  | ["babort"] => some .babort
  | ["query", h, k] => match num? h, num? k with
    | some h, some k => some (.query h k)
    | _, _ => none
  | _ => none

/-- the types of /repo implementing `statecache.Value` (the harness scans the sources and fails on any other) -/
def cacheableTypes : List String :=
  ["partitions.Partitions", "partitions.partition", "partitions.location", "minersc.GlobalNode",
   "minersc.MinerNode", "storagesc.StorageAllocation", "storagesc.Config"]

/-- driver state: the world of part 1, and the world driven through `Chain.UpdateState` (one chain; the number
of the block being executed) -/
structure DState where
  w : World := {}
  ew : Option (World × Nat) := none
  /-- blocks whose computation (`cblock`) was interrupted: hash ↦ (parent, script) -/
  pending : List (Nat × Nat × List (List Op)) := []

def stepW (w : World) (op : Op) : World × Ans := ZChain.StateCache.step {} w op

/-- one primitive of a scripted transaction: `i:k:v` insert, `d:k` delete (an absent key is tolerated), `g:k` read,
`x:k` / `y:k` reads that cannot use a hit, `b:k:v` an insert the trie refuses (tolerated) -/
def parsePrim (w : String) : Option Op :=
  match w.splitOn ":" with
  | ["i", k, v] => match num? k, num? v with
    | some k, some v => some (.ins k v)
    | _, _ => none
  | ["d", k] => (num? k).map .del
  | ["g", k] => (num? k).map .get
  | ["x", k] => (num? k).map .getn
  | ["y", k] => (num? k).map .getr
  | ["b", k, v] => match num? k, num? v with
    | some k, some _ => some (.insfail k)
    | _, _ => none
  | _ => none

def parseTxn (w : String) : Option (List Op) := (w.splitOn ",").mapM parsePrim

def parseScript (w : String) : Option (List (List Op)) := (w.splitOn ";").mapM parseTxn

/-- where a scripted block is interrupted: `-` never, `c<i>` / `f<i>` at transaction `i` (cancelled / failed) -/
def parseStop (w : String) : Option (Option (Nat × String)) :=
  if w = "-" then some none
  else if w.startsWith "c" then (num? (w.drop 1).toString).map fun i => some (i, "cancelled")
  else if w.startsWith "f" then (num? (w.drop 1).toString).map fun i => some (i, "failed")
  else none

def runTxns (w : World) (txns : List (List Op)) : World :=
  txns.foldl (fun w ops =>
    let w1 := (stepW w .tx).1
    let w2 := ops.foldl (fun w op => (stepW w op).1) w1
    (stepW w2 .commit).1) w

/-- `ComputeState` of block `h` on `p`: all transactions then the block cache is committed, or — interrupted at
transaction `i` — the transactions before `i` and then the block execution is dropped -/
def computeBlock (w : World) (h p : Nat) (txns : List (List Op)) (stop : Option (Nat × String)) : World × String :=
  let w0 := (stepW w (.begin_ h p)).1
  match stop with
  | some (i, why) =>
    if i < txns.length then ((stepW (runTxns w0 (txns.take i)) .babort).1, why)
    else ((stepW (runTxns w0 txns) .bcommit).1, "ok")
  | none => ((stepW (runTxns w0 txns) .bcommit).1, "ok")

/-- a contract call = one transaction: `tx`, the contract's operation, then `commit` (applied) or `discard`
(the contract failed: chargeable error, the transaction cache is dropped) -/
def ecall (w : World) (op : Op) (fails : Ans → Bool) : World × Ans × Bool :=
  let w1 := (stepW w .tx).1
  let (w2, a) := stepW w1 op
  if fails a then ((stepW w2 .discard).1, a, false) else ((stepW w2 .commit).1, a, true)

def estep (ew : World × Nat) (ws : List String) : Option ((World × Nat) × String) :=
  let (w, n) := ew
  match ws with
  | ["eblock"] =>
    let w1 := (stepW w .bcommit).1
    some (((stepW w1 (.begin_ (n + 1) n)).1, n + 1), "ok")
  | ["ewritebig", k, v] => match num? k, num? v with
    | some k, some _ => let (w', _, _) := ecall w (.insfail k) (fun _ => false); some ((w', n), "ok")
    | _, _ => none
  | ["ewrite", k, v] => match num? k, num? v with
    | some k, some v => let (w', _, _) := ecall w (.ins k v) (fun _ => false); some ((w', n), "ok")
    | _, _ => none
  | ["ewritefail", k, v] => match num? k, num? v with
    | some k, some v => let (w', _, _) := ecall w (.ins k v) (fun _ => true); some ((w', n), "failed")
    | _, _ => none
  | ["edel", k] => match num? k with
    | some k =>
      let (w', _, ok) := ecall w (.del k) (fun a => a == .absent)
      some ((w', n), if ok then "ok" else "failed")
    | none => none
  | ["eread", k] => match num? k with
    | some k =>
      let w1 := (stepW w .tx).1
      let r := refRead w1 (.get k)
      let (w', a, _) := ecall w (.get k) (fun _ => false)
      some ((w', n), showAns a r)
    | none => none
  | _ => none

def step (s : DState) (ws : List String) : DState × String :=
  match ws with
  | ["reset"] => ({}, "ok")
  | ["scenario", name, seed] =>
    -- self-contained scenarios on the real types (validated on the real code only, like `typecheck`)
    if (name = "partitions-oversize") ∧ (num? seed).isSome then (s, "ok") else (s, "bad-op")
  | ["cblock", h, p, stop, script] =>
    match num? h, num? p, parseStop stop, parseScript script with
    | some h, some p, some stop, some txns =>
      if s.w.cur.isSome || (s.w.tries.get p).isNone || (s.w.tries.get h).isSome || (s.pending.any (·.1 == h)) then (s, "bad")
      else
        let (w', out) := computeBlock s.w h p txns stop
        ({ s with w := w', pending := if out = "ok" then s.pending else (h, p, txns) :: s.pending }, out)
    | _, _, _, _ => (s, "bad-op")
  | ["cretry", h] =>
    match num? h with
    | some h =>
      match s.pending.find? (·.1 == h) with
      | some (_, p, txns) =>
        if s.w.cur.isSome then (s, "bad")
        else
          let (w', out) := computeBlock s.w h p txns none
          ({ s with w := w', pending := s.pending.filter (·.1 != h) }, out)
      | none => (s, "bad")
    | none => (s, "bad-op")
  | ["ereset"] => ({ s with ew := some ((stepW {} (.begin_ 1 0)).1, 1) }, "ok")
  | ["typecheck", t, seed] =>
    -- part 2 of the harness (Clone/CopyFrom of the real cacheable types): no counterpart in the model,
    -- where values are immutable — the aliasing part of C07 is validated on the real code, not proved
    if cacheableTypes.contains t ∧ (num? seed).isSome then (s, "ok") else (s, "bad-op")
  | _ =>
    match ws with
    | [] => (s, "bad-op")
    | cmd :: _ =>
      if cmd == "eblock" || cmd == "ewritebig" || cmd == "ewrite" || cmd == "ewritefail" || cmd == "edel" || cmd == "eread" then
        match s.ew with
        | none => (s, "bad")
        | some ew =>
          match estep ew ws with
          | some (ew', out) => ({ s with ew := some ew' }, out)
          | none => (s, "bad-op")
      else
        match parse ws with
        | none => (s, "bad-op")
        | some op =>
          let (w', a) := stepW s.w op
          match op, a with
          | .probe _, .val v => ({ s with w := w' }, s!"hit {v}")
          | .probe _, .absent => ({ s with w := w' }, "miss")
          | .del _, .absent => ({ s with w := w' }, "absent")
          | _, _ => ({ s with w := w' }, showAns a (match a with | .val _ | .absent => refRead s.w op | _ => none))

def run : IO Unit := ZChain.Drv.runLoop step ({} : DState)

end ZChain.Drv.C07

def main : IO Unit := ZChain.Drv.C07.run
