import ZChain.Drv.Util
import ZChain.Model.AlgWorld
import ZChain.Model.Sig
/-! Line driver for C47 (client signatures): the crypto world's BLS keys (`key`, `ksign`, `kverify`, `sigadd`, …) plus
`client <key>` | `clientcheck <key> <key'>` (id of key' against the public key of key) — client ids, labelled `I<n>`;
`cnew <c>` | `csetpk <c> <key>` | `csetscheme <c> <key>` | `cdecode <c> <key>` | `cstatus <c>` | `cverify <c> <sigidx> <m>` —
ONE client object whose key is changed (`<key>` a BLS key `k…`/`n…` or an ed25519 key `e…`); `kdirect <key> <sigidx> <m>` — the
library's own verification of a signature register over the message bytes;
`ekey <name> <seed>` | `esign <name> <m>` | `etamper <idx>` | `everify <name> <idx> <m>` | `eclient <name>` — ed25519
(the ideal scheme of `Model/Sig`; public keys `P<n>`, signatures `E<n>`). -/
namespace ZChain.Drv.C47
open ZChain.Alg ZChain.AlgWorld ZChain.Sig

abbrev EdSig := Nat × String × Nat

structure St where
  w : World := {}
  ids : List (Sum Fr Nat) := []      -- client-id labels: by BLS public key (exponent) or ed25519 key (seed)
  ekeys : List (String × Nat) := []
  epubs : List Nat := []
  esigs : Array EdSig := #[]
  elabels : List EdSig := []
  clients : List (String × Option (Client (Sum Fr Nat) (Sum Fr Nat))) := []
deriving Inhabited

def E : EdScheme Nat Nat String EdSig := ideal Nat String

def labelOf {α : Type} [BEq α] (l : List α) (x : α) : List α × Nat :=
  match l.findIdx? (· == x) with
  | some i => (l, i)
  | none => (l ++ [x], l.length)

def ekey? (s : St) (n : String) : Option Nat := (s.ekeys.find? (·.1 == n)).map (·.2)

def pushE (s : St) (x : EdSig) : St × String :=
  let idx := s.esigs.size
  let (l, i) := labelOf s.elabels x
  ({ s with esigs := s.esigs.push x, elabels := l }, s!"esig {idx} E{i}")

/-- the public key a key name stands for: an ed25519 key `e…` or a BLS key. -/
def anyKey? (s : St) (k : String) : Option (Sum Fr Nat) :=
  match ekey? s k with
  | some seed => some (Sum.inr (E.pub seed))
  | none => (key? s.w k).map (fun sk => Sum.inl (pubKey sk))

def client? (s : St) (c : String) : Option (Option (Client (Sum Fr Nat) (Sum Fr Nat))) := (s.clients.find? (·.1 == c)).map (·.2)

def showClient (s : St) (c : Option (Client (Sum Fr Nat) (Sum Fr Nat))) : St × String :=
  match c with
  | none => (s, "nokey")
  | some c =>
    let (l, i) := labelOf s.ids c.id
    ({ s with ids := l }, s!"I{i} {if c.validate (fun pk => pk) then "idok" else "idBAD"}")

def setClient (s : St) (n : String) (c : Option (Client (Sum Fr Nat) (Sum Fr Nat))) : St :=
  { s with clients := (s.clients.filter (·.1 != n)) ++ [(n, c)] }

def step (s : St) (ws : List String) : St × String :=
  match ws with
  | ["cnew", c] => (setClient s c none, "ok")
  | [op, c, k] =>
    if op == "csetpk" || op == "csetscheme" || op == "cdecode" then
      match client? s c, anyKey? s k with
      | some old, some pk =>
        let c' := match old with
          | some o => Client.setPublicKey (fun (pk : Sum Fr Nat) => pk) o pk
          | none => Client.ofPublicKey (fun (pk : Sum Fr Nat) => pk) pk
        showClient (setClient s c (some c')) (some c')
      | _, _ => (s, "bad-op")
    else stepRest s ws
  | ["cstatus", c] => match client? s c with
    | some cl => showClient s cl
    | none => (s, "bad-op")
  | _ => stepRest s ws
where stepRest (s : St) (ws : List String) : St × String :=
  match ws with
  | ["cverify", c, si, m] => match client? s c, si.toNat?.bind (sig? s.w), msg? s.w m with
    | some (some cl), some σ, some h => match cl.publicKey with
      | Sum.inl pk => (s, showBool (verifyLib pk h σ))
      | Sum.inr _ => (s, "false")
    | _, _, _ => (s, "bad-op")
  | ["kdirect", k, si, m] => match key? s.w k, si.toNat?.bind (sig? s.w), msg? s.w m with
    | some sk, some σ, some h => (s, showBool (verifyLib (pubKey sk) h σ))
    | _, _, _ => (s, "bad-op")
  | ["client", k] => match key? s.w k with
    | some sk =>
      let c := Client.ofPublicKey (fun (pk : Sum Fr Nat) => pk) (Sum.inl (pubKey sk))
      let (l, i) := labelOf s.ids c.id
      ({ s with ids := l }, s!"I{i} idok")
    | none => (s, "bad-op")
  | ["clientcheck", k, k'] => match key? s.w k, key? s.w k' with
    | some sk, some sk' =>
      let c : Client (Sum Fr Nat) (Sum Fr Nat) := { id := clientId (fun pk => pk) (Sum.inl (pubKey sk')), publicKey := Sum.inl (pubKey sk) }
      (s, showBool (c.validate (fun pk => pk)))
    | _, _ => (s, "bad-op")
  | ["ekey", n, seed] => match seed.toNat? with
    | some seed =>
      let (l, i) := labelOf s.epubs (E.pub seed)
      ({ s with ekeys := (s.ekeys.filter (·.1 != n)) ++ [(n, seed)], epubs := l }, s!"P{i}")
    | none => (s, "bad-op")
  | ["esign", n, m] => match ekey? s n, msg? s.w m with
    | some sk, some _ => pushE s (E.sign sk m)
    | _, _ => (s, "bad-op")
  | ["etamper", i] => match i.toNat?.bind (s.esigs[·]?) with
    | some x => pushE s (x.1, x.2.1, x.2.2 + 1 + s.esigs.size)
    | none => (s, "bad-op")
  | ["everify", n, i, m] => match ekey? s n, i.toNat?.bind (s.esigs[·]?), msg? s.w m with
    | some sk, some x, some _ => (s, showBool (E.verify (E.pub sk) m x))
    | _, _, _ => (s, "bad-op")
  | ["eclient", n] => match ekey? s n with
    | some sk =>
      let c := Client.ofPublicKey (fun (pk : Sum Fr Nat) => pk) (Sum.inr (E.pub sk))
      let (l, i) := labelOf s.ids c.id
      ({ s with ids := l }, s!"I{i} idok")
    | none => (s, "bad-op")
  | _ =>
    match ZChain.AlgWorld.step s.w ws with
    | some (w, o) => if ws.head? == some "dkg" then ({ w := w }, o) else ({ s with w := w }, o)
    | none => (s, "bad-op")

def run : IO Unit := ZChain.Drv.runLoop step ({} : St)

end ZChain.Drv.C47

def main : IO Unit := ZChain.Drv.C47.run
