import ZChain.Drv.Util
import ZChain.Model.AlgWorld
import ZChain.Model.Sig
/-! Line driver for C47 (client signatures): the crypto world's BLS keys (`key`, `ksign`, `kverify`, `sigadd`, …) plus
`client <key>` | `clientcheck <key> <key'>` (id of key' against the public key of key) — client ids, labelled `I<n>`;
`cnew <c>` | `csetpk <c> <key>` | `csetscheme <c> <key>` | `cdecode <c> <key>` | `cstatus <c>` | `cverify <c> <sigidx> <m>` —
ONE client object whose key is changed (`<key>` a BLS key `k…`/`n…` or an ed25519 key `e…`); `kdirect <key> <sigidx> <m>` — the
library's own verification of a signature register over the message bytes;
`idcheck <entry> <key> <variant> [<key'>]` — the pair (public key of `<key>`, the id of `<key'>` (default `<key>`) in the
spelling `<variant>`, see `Sig.spelling`) through the entry point `<entry>` (`vpk` VerifyPublicKeyClientID, `txn`
Transaction.ComputeClientID, `txnprops` Transaction.ComputeProperties, `client` Client.Validate, `vticket`
storagesc ValidationTicket.Validate);
`ekey <name> <seed>` | `esign <name> <m>` | `etamper <idx>` | `everify <name> <idx> <m>` | `eclient <name>` — ed25519
(the ideal scheme of `Model/Sig`; public keys `P<n>`, signatures `E<n>`). -/
namespace ZChain.Drv.C47
open ZChain.Alg ZChain.AlgWorld ZChain.Sig

abbrev EdSig := Nat × String × Nat

structure St where
  w : World := {}
  ids : List (Sum Fr Nat) := []      -- client-id labels: by BLS public key (exponent) or ed25519 key (seed)
  ekeys : List (String × Nat) := []
  epubs : List Nat := []
  esigs : Array EdSig := #[]
  elabels : List EdSig := []
  clients : List (String × Option (Client (Sum Fr Nat) (Sum Fr Nat))) := []
deriving Inhabited

def E : EdScheme Nat Nat String EdSig := ideal Nat String

def labelOf {α : Type} [BEq α] (l : List α) (x : α) : List α × Nat :=
  match l.findIdx? (· == x) with
  | some i => (l, i)
  | none => (l ++ [x], l.length)

def ekey? (s : St) (n : String) : Option Nat := (s.ekeys.find? (·.1 == n)).map (·.2)

def pushE (s : St) (x : EdSig) : St × String :=
  let idx := s.esigs.size
  let (l, i) := labelOf s.elabels x
  ({ s with esigs := s.esigs.push x, elabels := l }, s!"esig {idx} E{i}")

/-- the public key a key name stands for: an ed25519 key `e…` or a BLS key. -/
def anyKey? (s : St) (k : String) : Option (Sum Fr Nat) :=
  match ekey? s k with
  | some seed => some (Sum.inr (E.pub seed))
  | none => (key? s.w k).map (fun sk => Sum.inl (pubKey sk))

def client? (s : St) (c : String) : Option (Option (Client (Sum Fr Nat) (Sum Fr Nat))) := (s.clients.find? (·.1 == c)).map (·.2)

def showClient (s : St) (c : Option (Client (Sum Fr Nat) (Sum Fr Nat))) : St × String :=
  match c with
  | none => (s, "nokey")
  | some c =>
    let (l, i) := labelOf s.ids c.id
    ({ s with ids := l }, s!"I{i} {if c.validate (fun pk => pk) then "idok" else "idBAD"}")

def setClient (s : St) (n : String) (c : Option (Client (Sum Fr Nat) (Sum Fr Nat))) : St :=
  { s with clients := (s.clients.filter (·.1 != n)) ++ [(n, c)] }

/-- a stand-in for `encryption.Hash(public key bytes)` as a string: 64 lower-case hex digits, injective on the model's
keys, beginning with a letter (a real hash has 64 hex digits; one without any letter has probability (10/16)^64). -/
def hexPad : Nat → Nat → List Char
  | 0, _ => []
  | k + 1, n => hexPad k (n / 16) ++ [let d := n % 16; if d < 10 then Char.ofNat (48 + d) else Char.ofNat (87 + d)]

def scramble (n : Nat) : Nat :=
  -- multiplication by an odd constant is a bijection modulo 2^252: the digits look like a hash's (letters everywhere)
  ((n % 16 ^ 63) * 0x9e3779b97f4a7c15f39cc0605cedc8341082276bf3a27251f86c6a11d0c18e95 + 0x3c6ef372fe94f82b) % 16 ^ 63

def standHash (pk : Sum Fr Nat) : String :=
  match pk with
  | Sum.inl x => String.ofList (Char.ofNat (97 + (x.v / 16 ^ 63) % 4) :: hexPad 63 (scramble x.v))
  | Sum.inr n => String.ofList ('e' :: hexPad 63 (scramble n))

def entries : List String := ["vpk", "txn", "txnprops", "client", "vticket"]

def idcheck (s : St) (entry k v k' : String) : St × String :=
  match anyKey? s k, anyKey? s k' with
  | some pk, some pk' =>
    if !entries.contains entry then (s, "bad-op") else
    match spelling v (standHash pk') with
    | some id => (s, showBool (idOk standHash pk id))
    | none => (s, "bad-op")
  | _, _ => (s, "bad-op")

def step (s : St) (ws : List String) : St × String :=
  match ws with
  | ["idcheck", e, k, v] => idcheck s e k v k
  | ["idcheck", e, k, v, k'] => idcheck s e k v k'
  | ["cnew", c] => (setClient s c none, "ok")
  | [op, c, k] =>
    if op == "csetpk" || op == "csetscheme" || op == "cdecode" then
      match client? s c, anyKey? s k with
      | some old, some pk =>
        let c' := match old with
          | some o => Client.setPublicKey (fun (pk : Sum Fr Nat) => pk) o pk
          | none => Client.ofPublicKey (fun (pk : Sum Fr Nat) => pk) pk
        showClient (setClient s c (some c')) (some c')
      | _, _ => (s, "bad-op")
    else stepRest s ws
  | ["cstatus", c] => match client? s c with
    | some cl => showClient s cl
    | none => (s, "bad-op")
  | _ => stepRest s ws
where stepRest (s : St) (ws : List String) : St × String :=
  match ws with
  | ["cverify", c, si, m] => match client? s c, si.toNat?.bind (sig? s.w), msg? s.w m with
    | some (some cl), some σ, some h => match cl.publicKey with
      | Sum.inl pk => (s, showBool (verifyLib pk h σ))
      | Sum.inr _ => (s, "false")
    | _, _, _ => (s, "bad-op")
  | ["kdirect", k, si, m] => match key? s.w k, si.toNat?.bind (sig? s.w), msg? s.w m with
    | some sk, some σ, some h => (s, showBool (verifyLib (pubKey sk) h σ))
    | _, _, _ => (s, "bad-op")
  | ["client", k] => match key? s.w k with
    | some sk =>
      let c := Client.ofPublicKey (fun (pk : Sum Fr Nat) => pk) (Sum.inl (pubKey sk))
      let (l, i) := labelOf s.ids c.id
      ({ s with ids := l }, s!"I{i} idok")
    | none => (s, "bad-op")
  | ["clientcheck", k, k'] => match key? s.w k, key? s.w k' with
    | some sk, some sk' =>
      let c : Client (Sum Fr Nat) (Sum Fr Nat) := { id := clientId (fun pk => pk) (Sum.inl (pubKey sk')), publicKey := Sum.inl (pubKey sk) }
      (s, showBool (c.validate (fun pk => pk)))
    | _, _ => (s, "bad-op")
  | ["ekey", n, seed] => match seed.toNat? with
    | some seed =>
      let (l, i) := labelOf s.epubs (E.pub seed)
      ({ s with ekeys := (s.ekeys.filter (·.1 != n)) ++ [(n, seed)], epubs := l }, s!"P{i}")
    | none => (s, "bad-op")
  | ["esign", n, m] => match ekey? s n, msg? s.w m with
    | some sk, some _ => pushE s (E.sign sk m)
    | _, _ => (s, "bad-op")
  | ["etamper", i] => match i.toNat?.bind (s.esigs[·]?) with
    | some x => pushE s (x.1, x.2.1, x.2.2 + 1 + s.esigs.size)
    | none => (s, "bad-op")
  | ["everify", n, i, m] => match ekey? s n, i.toNat?.bind (s.esigs[·]?), msg? s.w m with
    | some sk, some x, some _ => (s, showBool (E.verify (E.pub sk) m x))
    | _, _, _ => (s, "bad-op")
  | ["eclient", n] => match ekey? s n with
    | some sk =>
      let c := Client.ofPublicKey (fun (pk : Sum Fr Nat) => pk) (Sum.inr (E.pub sk))
      let (l, i) := labelOf s.ids c.id
      ({ s with ids := l }, s!"I{i} idok")
    | none => (s, "bad-op")
  | _ =>
    match ZChain.AlgWorld.step s.w ws with
    | some (w, o) => if ws.head? == some "dkg" then ({ w := w }, o) else ({ s with w := w }, o)
    | none => (s, "bad-op")

def run : IO Unit := ZChain.Drv.runLoop step ({} : St)

end ZChain.Drv.C47

def main : IO Unit := ZChain.Drv.C47.run
