import ZChain.Drv.Util
import ZChain.Model.MagicBlocks
/-! Line driver for the magic-block storage model (C40).
`new` | `put <start> <ent>` | `get <r>` | `latest` | `prune <r>` | `idx <r>` | `count` | `rounds` | `round <i>` |
`mb <r>` | `mbno <r>` | `prev <r>` -/
namespace ZChain.Drv.C40
open ZChain.MagicBlocks

def showEnt : Option Ent → String
  | none => "nil"
  | some e => s!"ent {e}"

def showMB : Option Ent → String
  | none => "panic"
  | some e => s!"ent {e}"

def step (s : Store) (ws : List String) : Store × String :=
  match ws with
  | ["new"] => (new, "ok")
  | ["put", r, e] => match r.toInt?, e.toNat? with
    | some r, some e => (put s e r, "ok")
    | _, _ => (s, "bad-op")
  | ["get", r] => match r.toInt? with
    | some r => (s, showEnt (get s r))
    | none => (s, "bad-op")
  | ["latest"] => (s, showEnt (getLatest s))
  | ["prune", r] => match r.toInt? with
    | some r => match prune s r with
      | some s' => (s', "ok")
      | none => (s, "notfound")
    | none => (s, "bad-op")
  | ["idx", r] => match r.toInt? with
    | some r => (s, s!"idx {findRoundIndex s r}")
    | none => (s, "bad-op")
  | ["count"] => (s, s!"count {count s}")
  | ["rounds"] => (s, "rounds " ++ " ".intercalate (s.rounds.map toString))
  | ["round", i] => match i.toInt? with
    | some i => (s, match getRound s i with | some r => s!"round {r}" | none => "panic")
    | none => (s, "bad-op")
  | ["mb", r] => match r.toInt? with
    | some r => (s, showMB (getMagicBlock s r))
    | none => (s, "bad-op")
  | ["mbno", r] => match r.toInt? with
    | some r => (s, showMB (getMagicBlockNoOffset s r))
    | none => (s, "bad-op")
  | ["prev", r] => match r.toInt? with
    | some r => (s, match getPrevMagicBlock s r with
        | none => "panic"
        | some none => "prevmb"
        | some (some e) => s!"ent {e}")
    | none => (s, "bad-op")
  | _ => (s, "bad-op")

def run : IO Unit := ZChain.Drv.runLoop step new

end ZChain.Drv.C40

def main : IO Unit := ZChain.Drv.C40.run
