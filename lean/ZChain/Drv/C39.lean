import ZChain.Drv.Util
import ZChain.Model.Reduce
/-! Line driver for `Model/Reduce` (C39).

`reduce <limit> <xPercent: 16 hex digits of the binary64 pattern> pool:<0|1> seed:<int64> c:<id>:<stake>:<0|1>… p:<perm of 0>  p:<perm of 1> … p:<perm of n>`
(`c:` = candidate id, total stake, member of the previous pool; `p:` = comma-separated `rand.Perm(k)` of the call's
seed for k = 0..n, n = number of candidates; the `seed:` token is for the implementation side, which also checks
that the `p:` table is what `rand.New(rand.NewSource(seed)).Perm(k)` gives — the model only reads the table). Answer: `ok <maxNodes> <selected ids ascending>` | `panic` | `bad-op`. -/
namespace ZChain.Drv.C39
open ZChain.Reduce

def hexVal (c : Char) : Option Nat :=
  if '0' ≤ c ∧ c ≤ '9' then some (c.toNat - '0'.toNat)
  else if 'a' ≤ c ∧ c ≤ 'f' then some (c.toNat - 'a'.toNat + 10)
  else none

def parseHex (s : String) : Option Nat :=
  if s.length = 0 then none else
  s.toList.foldl (fun acc c => match acc, hexVal c with
    | some a, some v => some (a * 16 + v)
    | _, _ => none) (some 0)

def parseCand (w : String) : Option (Node × Bool) :=
  match w.splitOn ":" with
  | ["c", i, s, p] => match i.toNat?, s.toNat? with
    | some i, some s =>
      if s < 2 ^ 64 then
        (if p = "1" then some (⟨i, s⟩, true) else if p = "0" then some (⟨i, s⟩, false) else none)
      else none
    | _, _ => none
  | _ => none

def parsePerm (w : String) : Option (List Nat) :=
  match w.splitOn ":" with
  | ["p", ""] => some []
  | ["p", body] => (body.splitOn ",").mapM (fun t => t.toNat?)
  | _ => none

/-- is `p` a permutation of `0..k-1`? -/
def isPermOf (k : Nat) (p : List Nat) : Bool :=
  p.length = k && (List.range k).all (fun i => p.contains i)

def insertNat (x : Nat) : List Nat → List Nat
  | [] => [x]
  | y :: ys => if x ≤ y then x :: y :: ys else y :: insertNat x ys

def sortNat (l : List Nat) : List Nat := l.foldr insertNat []

def nodupNat : List Nat → Bool
  | [] => true
  | x :: xs => !xs.contains x && nodupNat xs

def answer (ws : List String) : String :=
  match ws with
  | "reduce" :: lim :: xb :: pool :: seed :: rest =>
    if !(seed.startsWith "seed:" && ((seed.drop 5).toString.toInt?).isSome) then "bad-op" else
    match lim.toNat?, parseHex xb, (if pool = "pool:1" then some true else if pool = "pool:0" then some false else none) with
    | some limit, some xbits, some hasPool =>
      let cws := rest.filter (fun w => w.startsWith "c:")
      let pws := rest.filter (fun w => w.startsWith "p:")
      if cws.length + pws.length ≠ rest.length ∨ xb.length ≠ 16 ∨ limit ≥ 2 ^ 31 then "bad-op" else
      match cws.mapM parseCand, pws.mapM parsePerm with
      | some cands, some perms =>
        let cs := cands.map (·.1)
        let n := cs.length
        if perms.length ≠ n + 1 then "bad-op"
        else if !nodupNat (cs.map (·.id)) then "bad-op"
        else if !(List.range (n + 1)).all (fun k => isPermOf k (perms.getD k [])) then "bad-op"
        else
          let prevIds := (cands.filter (·.2)).map (·.1.id)
          let inPrev : Nat → Bool := fun i => hasPool && prevIds.contains i
          match reduce cs limit xbits inPrev (fun k => perms.getD k []) with
          | none => "bad-op"
          | some none => "panic"
          | some (some r) => " ".intercalate ("ok" :: toString r.maxNodes :: (sortNat (r.selected.map (·.id))).map toString)
      | _, _ => "bad-op"
    | _, _, _ => "bad-op"
  | _ => "bad-op"

def step (u : Unit) (ws : List String) : Unit × String := (u, answer ws)

def run : IO Unit := ZChain.Drv.runLoop step ()

end ZChain.Drv.C39

def main : IO Unit := ZChain.Drv.C39.run
