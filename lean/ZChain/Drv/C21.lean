import ZChain.Drv.Util
import ZChain.Model.MultisigLine
/-! Line driver for C21 (multisig proposals): `Model/Multisig.lean` over `Alg.Fr` with the protocol of
`Model/MultisigLine.lean` (`init …` | `tick <s>` | `reg …` | `vote …`). -/
namespace ZChain.Drv.C21

def run : IO Unit := ZChain.Drv.runLoop ZChain.MultisigLine.step ({} : ZChain.MultisigLine.DS)

end ZChain.Drv.C21

def main : IO Unit := ZChain.Drv.C21.run
