import ZChain.Drv.Util
import ZChain.Model.Replicators
/-! Line driver for the replicator model (C42).
`new <numReplicators>` | `add <id: 64 lowercase hex> <pk>` | `pos` | `scores <hash>` | `isbs <hash> <id>` |
`repl <hash> <id>` | `intop <hash> <id> <n>` | `intopn <hash> <id> <n>`
A `<hash>` that is not hex stands for a block hash that does not decode. -/
namespace ZChain.Drv.C42
open ZChain.NodePool ZChain.Replicators

def hexVal (c : Char) : Option Nat :=
  if '0' ≤ c ∧ c ≤ '9' then some (c.toNat - '0'.toNat)
  else if 'a' ≤ c ∧ c ≤ 'f' then some (c.toNat - 'a'.toNat + 10)
  else if 'A' ≤ c ∧ c ≤ 'F' then some (c.toNat - 'A'.toNat + 10)
  else none

/-- `hex.DecodeString`. -/
def hexBytes : List Char → Option (List Nat)
  | [] => some []
  | [_] => none
  | a :: b :: rest => match hexVal a, hexVal b, hexBytes rest with
    | some x, some y, some r => some ((x * 16 + y) :: r)
    | _, _, _ => none

def parseHash (s : String) : Option (List Nat) := hexBytes s.toList

def isLowerHex (c : Char) : Bool := ('0' ≤ c ∧ c ≤ '9') || ('a' ≤ c ∧ c ≤ 'f')

/-- a node id: exactly 64 lowercase hex characters. -/
def parseId (s : String) : Option Node :=
  if s.length = 64 ∧ s.toList.all isLowerHex then
    match hexBytes s.toList with
    | some bs => some { key := bs.foldl (fun acc b => acc * 256 + b) 0, idBytes := bs }
    | none => none
  else none

structure St where
  nrepl : Int
  pool  : List Node

def showBool : Option Bool → String
  | none => "panic"
  | some true => "true"
  | some false => "false"

def idxOf (pool : List Node) (n : Node) : String :=
  match setIndexOf pool n.key with
  | some i => toString i
  | none => "?"

def showNodes (pool : List Node) : Option (Bool × List Node) → String
  | none => "panic"
  | some (b, ns) => " ".intercalate ((if b then "true" else "false") :: ns.map (idxOf pool))

def step (s : St) (ws : List String) : St × String :=
  match ws with
  | ["new", n] => match n.toInt? with
    | some n => ({ nrepl := n, pool := [] }, "ok")
    | none => (s, "bad-op")
  | ["add", id, _pk] => match parseId id with
    | some nd => ({ s with pool := addNode s.pool nd }, "ok")
    | none => (s, "bad-op")
  | ["pos"] => (s, " ".intercalate ("pos" :: s.pool.map (fun nd => s!"{nd.key}:{idxOf s.pool nd}")))
  | ["scores", h] => (s, match scoreHashString s.pool (parseHash h) with
      | none => "panic"
      | some sc => " ".intercalate ("scores" :: sc.map (fun x => s!"{x.setIndex}:{x.score}")))
  | ["isbs", h, id] => match parseId id with
    | some nd => (s, showBool (isBlockSharder s.nrepl s.pool (parseHash h) nd.key))
    | none => (s, "bad-op")
  | ["repl", h, id] => match parseId id with
    | some nd => (s, showNodes s.pool (canShardBlockWithReplicators s.nrepl s.pool (parseHash h) nd.key))
    | none => (s, "bad-op")
  | ["intop", h, id, n] => match parseId id, n.toInt? with
    | some nd, some n => (s, match scoreHashString s.pool (parseHash h) with
        | none => "panic"
        | some sc => showBool (isInTop sc n nd.key))
    | _, _ => (s, "bad-op")
  | ["intopn", h, id, n] => match parseId id, n.toInt? with
    | some nd, some n => (s, match scoreHashString s.pool (parseHash h) with
        | none => "panic"
        | some sc => showNodes s.pool (isInTopWithNodes sc n nd.key))
    | _, _ => (s, "bad-op")
  | _ => (s, "bad-op")

def run : IO Unit := ZChain.Drv.runLoop step { nrepl := 0, pool := [] }

end ZChain.Drv.C42

def main : IO Unit := ZChain.Drv.C42.run
