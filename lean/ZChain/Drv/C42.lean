import ZChain.Drv.Util
import ZChain.Model.NodePools
/-! Line driver for the replicator model (C42).
`new <numReplicators>` | `add <id: 64 lowercase hex> <pk>` (fresh object into pool 0) | `obj <o> <id> <pk>` (a node object) |
`padd <pool> <o>` (AddNode of that object; pool 0 = the magic block's sharders) | `pos` | `ppos <pool>` | `mb <pool> <startingRound>` (a further magic block whose sharders are that pool) | `round <r>` (block round of the following chain-level questions) | `scores <hash>` | `isbs <hash> <id>` |
`repl <hash> <id>` | `intop <hash> <id> <n>` | `intopn <hash> <id> <n>`
A `<hash>` that is not hex stands for a block hash that does not decode. -/
namespace ZChain.Drv.C42
open ZChain.NodePool ZChain.Replicators ZChain.NodePools

def hexVal (c : Char) : Option Nat :=
  if '0' ≤ c ∧ c ≤ '9' then some (c.toNat - '0'.toNat)
  else if 'a' ≤ c ∧ c ≤ 'f' then some (c.toNat - 'a'.toNat + 10)
  else if 'A' ≤ c ∧ c ≤ 'F' then some (c.toNat - 'A'.toNat + 10)
  else none

/-- `hex.DecodeString`. -/
def hexBytes : List Char → Option (List Nat)
  | [] => some []
  | [_] => none
  | a :: b :: rest => match hexVal a, hexVal b, hexBytes rest with
    | some x, some y, some r => some ((x * 16 + y) :: r)
    | _, _, _ => none

def parseHash (s : String) : Option (List Nat) := hexBytes s.toList

def isLowerHex (c : Char) : Bool := ('0' ≤ c ∧ c ≤ '9') || ('a' ≤ c ∧ c ≤ 'f')

/-- a node id: exactly 64 lowercase hex characters. -/
def parseId (s : String) : Option Node :=
  if s.length = 64 ∧ s.toList.all isLowerHex then
    match hexBytes s.toList with
    | some bs => some { key := bs.foldl (fun acc b => acc * 256 + b) 0, idBytes := bs }
    | none => none
  else none

structure St where
  nrepl : Int
  w     : World
  next  : Nat          -- object ids of the nodes made by `add`
  mbs   : ZChain.MagicBlocks.Store   -- starting round ↦ sharder pool of that magic block (pool 0 starts at round 0)
  round : Int          -- the block round the chain-level questions are asked for

def mbs0 : ZChain.MagicBlocks.Store := ZChain.MagicBlocks.put ZChain.MagicBlocks.new 0 0

/-- the pool the chain-level answers talk about (for printing `SetIndex`es). -/
def poolInForce (s : St) : Nat := (mbOf s.mbs s.round).getD 0

def showBool : Option Bool → String
  | none => "panic"
  | some true => "true"
  | some false => "false"

/-- the top 32 bits of a node id (how the answers name a node). -/
def id32 (key : Nat) : Nat := key / 2 ^ 224

/-- `<id32>:<SetIndex>` of the pool-0 node object with this key (the `SetIndex` is the object's current one). -/
def idxOfKey (w : World) (key : Nat) (p : Nat := 0) : String :=
  match (poolNodes w p).find? (fun o => (nodeOf w o).key = key) with
  | some o => s!"{id32 key}:{(getObj w o).setIndex}"
  | none => s!"{id32 key}:?"

def showNodes (w : World) (r : Option (Bool × List Node)) (p : Nat := 0) : String :=
  match r with
  | none => "panic"
  | some (b, ns) => " ".intercalate ((if b then "true" else "false") :: ns.map (fun n => idxOfKey w n.key p))

def showPos (w : World) (p : Nat) : String :=
  " ".intercalate ("pos" :: (poolNodes w p).map (fun o => s!"{(nodeOf w o).key}:{(getObj w o).setIndex}"))

def known (w : World) (o : Nat) : Bool := (objGet w.objs o).isSome

def step (s : St) (ws : List String) : St × String :=
  match ws with
  | ["new", n] => match n.toInt? with
    | some n => ({ nrepl := n, w := emptyWorld, next := 1000000, mbs := mbs0, round := 1 }, "ok")
    | none => (s, "bad-op")
  | ["add", id, _pk] => match parseId id with
    | some nd => ({ s with w := addNodeW (newObj s.w s.next nd) 0 s.next, next := s.next + 1 }, "ok")
    | none => (s, "bad-op")
  | ["obj", o, id, _pk] => match o.toNat?, parseId id with
    | some o, some nd => if o < 1000000 ∧ ¬ known s.w o then ({ s with w := newObj s.w o nd }, "ok") else (s, "bad-op")
    | _, _ => (s, "bad-op")
  | ["padd", p, o] => match p.toNat?, o.toNat? with
    | some p, some o => if p < 8 ∧ known s.w o then ({ s with w := addNodeW s.w p o }, "ok") else (s, "bad-op")
    | _, _ => (s, "bad-op")
  | ["mb", p, st] => match p.toNat?, st.toInt? with
    | some p, some st => if p < 8 ∧ 0 ≤ st ∧ st ≤ 9223372036854775807 then
        ({ s with mbs := ZChain.MagicBlocks.put s.mbs p st }, "ok") else (s, "bad-op")
    | _, _ => (s, "bad-op")
  | ["round", r] => match r.toInt? with
    | some r => if -9223372036854775808 ≤ r ∧ r ≤ 9223372036854775807 then ({ s with round := r }, "ok") else (s, "bad-op")
    | none => (s, "bad-op")
  | ["pos"] => (s, showPos s.w 0)
  | ["ppos", p] => match p.toNat? with
    | some p => if p < 8 then (s, showPos s.w p) else (s, "bad-op")
    | none => (s, "bad-op")
  | ["scores", h] => (s, match scoreHashStringW s.w 0 (parseHash h) with
      | none => "panic"
      | some sc => " ".intercalate ("scores" :: sc.map (fun x => s!"{id32 x.node.key}:{x.setIndex}:{x.score}")))
  | ["isbs", h, id] => match parseId id with
    | some nd =>
      -- the harness asks IsBlockSharderFromHash, IsBlockSharder and CanShardBlockWithReplicators and answers with the
      -- common verdict (`entry-points-disagree …` otherwise): the model has ONE lookup for the three
      (s, showBool (chainIsBlockSharder s.nrepl s.w s.mbs s.round (parseHash h) nd.key))
    | none => (s, "bad-op")
  | ["repl", h, id] => match parseId id with
    | some nd => (s, showNodes s.w (chainCanShard s.nrepl s.w s.mbs s.round (parseHash h) nd.key) (poolInForce s))
    | none => (s, "bad-op")
  | ["intop", h, id, n] => match parseId id, n.toInt? with
    | some nd, some n => (s, match scoreHashStringW s.w 0 (parseHash h) with
        | none => "panic"
        | some sc => showBool (isInTop sc n nd.key))
    | _, _ => (s, "bad-op")
  | ["intopn", h, id, n] => match parseId id, n.toInt? with
    | some nd, some n => (s, match scoreHashStringW s.w 0 (parseHash h) with
        | none => "panic"
        | some sc => showNodes s.w (isInTopWithNodes sc n nd.key))
    | _, _ => (s, "bad-op")
  | _ => (s, "bad-op")

def run : IO Unit := ZChain.Drv.runLoop step { nrepl := 0, w := emptyWorld, next := 1000000, mbs := mbs0, round := 1 }

end ZChain.Drv.C42

def main : IO Unit := ZChain.Drv.C42.run
