import ZChain.Drv.Util
import ZChain.Model.Round
/-! Line driver for the round model (C37), configuration `Cfg.code` (the code as it exists: `Restart` unlocks on its rejected branch).
`new <number> <cap> <self>` re-initialises; every other line is one `Round` method (see `parseOp`);
`dump` prints the whole state; `conc <phase0> <prog>;<prog>;… | <schedule>` runs the concurrent phase model
and prints the phase trace (prog = `S<v>` unlocked SetPhase, `L<v>` setPhase under the mutex, `R<v>` ResetPhase,
several calls per thread separated by `,`). -/
namespace ZChain.Drv.C37
open ZChain.Round

def showBlk (b : Blk) : String := s!"{b.hash}:{b.rank}"
def showOBlk : Option Blk → String
  | none => "nil"
  | some b => showBlk b
def showBlks (l : List Blk) : String := ",".intercalate (l.map showBlk)

def insSorted (x : Nat) : List Nat → List Nat
  | [] => [x]
  | y :: ys => if x ≤ y then x :: y :: ys else y :: insSorted x ys
def sortNat (l : List Nat) : List Nat := l.foldr insSorted []

def showAns : Ans → String
  | .unit => "ok"
  | .bool b => if b then "true" else "false"
  | .int i => s!"int {i}"
  | .errComplete => "err-complete"
  | .blk b => "blk " ++ showOBlk b
  | .blks l => "blks " ++ showBlks l
  | .keys l => "keys " ++ ",".intercalate ((sortNat l).map toString)
  | .hash none => "hash nil"
  | .hash (some h) => s!"hash {h}"

def parseBlk (h r : String) : Option Blk := do
  let h ← h.toNat?
  let r ← r.toInt?
  pure ⟨h, r⟩

def natsOf (ws : List String) : Option (List Nat) := ws.mapM String.toNat?

def parseOp : List String → Option Op
  | ["getphase"] => some .getPhase
  | ["setphase", p] => p.toInt?.map .setPhase
  | ["resetphase", p] => p.toInt?.map .resetPhase
  | ["addshare", k, t] => do pure (.addShare (← k.toNat?) (← t.toInt?))
  | ["shareexist", k] => k.toNat?.map .shareExist
  | ["getshares"] => some .getShares
  | ["addnb", h, r] => (parseBlk h r).map .addNotarized
  | ["addpb", h, r] => (parseBlk h r).map .addProposed
  | ["updnb", h, r] => (parseBlk h r).map .updateNotarized
  | ["getnbs"] => some .getNotarized
  | ["getpbs"] => some .getProposed
  | ["heaviest"] => some .heaviest
  | ["bestnb"] => some .bestNotarized
  | ["bestpb"] => some .bestProposed
  | ["restart"] => some .restart
  | ["finalize", h, r] => (parseBlk h r).map .finalize
  | ["setfinalizing"] => some .setFinalizing
  | ["setfinalized"] => some .setFinalized
  | ["resetfinifnot"] => some .resetFinIfNot
  | ["resetfin"] => some .resetFin
  | ["isfinalizing"] => some .isFinalizing
  | ["isfinalized"] => some .isFinalized
  | ["finstate"] => some .finState
  | ["blockhash"] => some .getBlockHash
  | ["settimeout", n] => n.toInt?.map .setTimeout
  | ["gettimeout"] => some .getTimeout
  | "inctimeout" :: prrs :: ranked => do pure (.incTimeout (← prrs.toInt?) (← natsOf ranked))
  | ["addvote", n, id] => do pure (.addVote (← n.toInt?) (← id.toNat?))
  | ["setseed", s, n] => do pure (.setSeed (← s.toInt?) (← n.toNat?))
  | ["setseednb", s, n] => do pure (.setSeedNB (← s.toInt?) (← n.toNat?))
  | ["getseed"] => some .getSeed
  | ["hasseed"] => some .hasSeed
  | ["ranksdone"] => some .ranksComputed
  | ["setvrfout", x] => x.toNat?.map .setVRFOut
  | ["getvrfout"] => some .getVRFOut
  | ["incsoft"] => some .incSoft
  | ["getsoft"] => some .getSoft
  | _ => none

def insVote (x : Nat × Int) : List (Nat × Int) → List (Nat × Int)
  | [] => [x]
  | y :: ys => if x.1 ≤ y.1 then x :: y :: ys else y :: insVote x ys

def dump (r : R) : String :=
  let s := r.d
  let perm := match s.permLen with | none => "nil" | some n => toString n
  let bh := match s.blockHash with | none => "nil" | some h => toString h
  let votes := ",".intercalate ((s.votes.foldr insVote []).map fun p => s!"{p.1}:{p.2}")
  s!"phase {s.phase} fin {s.fin} tc {s.tcount} soft {s.soft} seed {s.seed} perm {perm} vrf {s.vrfOut} " ++
  s!"shares [{",".intercalate ((sortNat s.shares).map toString)}] nbs [{showBlks s.notarized}] pbs [{showBlks s.proposed}] " ++
  s!"blk {showOBlk s.block} bh {bh} votes [{votes}] tperm [{",".intercalate (s.perm.map toString)}] " ++
  s!"locked {if r.mutexHeld || r.readers != 0 then 1 else 0}"

/-! concurrent model line -/
def parseCall (w : String) : Option (List Conc.Instr) :=
  match w.toList with
  | 'S' :: r => (String.ofList r).toInt?.map Conc.setPhaseI
  | 'L' :: r => (String.ofList r).toInt?.map Conc.lockedSetPhaseI
  | 'R' :: r => (String.ofList r).toInt?.map Conc.resetI
  | 'O' :: r => (String.ofList r).toInt?.map Conc.setPhaseOldI   -- historical load/store setPhase
  | _ => none

def parseProg (w : String) : Option (List Conc.Instr) :=
  ((w.splitOn ",").mapM parseCall).map List.flatten

def concLine (ws : List String) : String :=
  match ws with
  | p0 :: rest =>
    let progs := rest.takeWhile (· ≠ "|")
    let sched := (rest.dropWhile (· ≠ "|")).drop 1
    match p0.toInt?, progs.mapM parseProg, natsOf sched with
    | some p0, some progs, some sched =>
      let s0 := Conc.initCS p0 progs
      let final := Conc.crun s0 sched
      let left := (List.range progs.length).map fun i => (final.thr i).rem.length
      "trace " ++ ",".intercalate ((Conc.trace s0 sched).map toString) ++
        " mutex " ++ (if final.mutex then "1" else "0") ++ " left " ++ ",".intercalate (left.map toString)
    | _, _, _ => "bad-op"
  | _ => "bad-op"

/-- the observables printed after every operation (the harness reads them lock-free through its hook) -/
def obs (s : R) : String :=
  s!" ; ph {s.d.phase} tc {s.d.tcount} fin {s.d.fin} ns {s.d.shares.length} lk {if s.mutexHeld || s.readers != 0 then 1 else 0}"

def step (s : R) (ws : List String) : R × String :=
  match ws with
  | ["new", n, c, self] => match n.toInt?, c.toInt?, self.toNat? with
    | some n, some c, some self => (newRound n c self, "ok")
    | _, _, _ => (s, "bad-op")
  | ["dump"] => (s, dump s)
  | "conc" :: rest => (s, concLine rest)
  | ["stress", n] => (s, if n.toNat?.isSome then "stress done" else "bad-op")
  | _ => match parseOp ws with
    | none => (s, "bad-op")
    | some op => match ZChain.Round.step Cfg.code s op with
      | (s', none) => (s', "blocked" ++ obs s')
      | (s', some a) => (s', showAns a ++ obs s')

def run : IO Unit := ZChain.Drv.runLoop step (newRound 0 0 0)

end ZChain.Drv.C37

def main : IO Unit := ZChain.Drv.C37.run
