import ZChain.Drv.Util
import ZChain.Base.F64Line
/-! Line driver for `Base/F64` and `Base/Coin` (stateless); the protocol is documented in `Base/F64Line.lean`. -/
namespace ZChain.Drv.F64

def step (s : Unit) (ws : List String) : Unit × String :=
  (s, (ZChain.F64Line.answer ws).getD "bad-op")

def run : IO Unit := ZChain.Drv.runLoop step ()

end ZChain.Drv.F64

def main : IO Unit := ZChain.Drv.F64.run
