import ZChain.Drv.Util
import ZChain.Model.BlockGen
/-! Line driver for the block generation / verification model (C45).

`init <feeOn 0|1> <maxBlockCost> <maxByteSize> <minBlockSize> <minTxnFee> <miner id> <tol> <prevDate> <accts|-> <builtins|-> @…`
   all dates are seconds relative to the generator's clock at the start of the case (`now = 0`); `prevDate` is the
   creation date of the previous block, `tol` = TXN_TIME_TOLERANCE
   accts = `id:bal:nonce,…`; builtins = `<p|c|r|s>~<cost>~<res>~<outLen>` joined by `/` (payFees, generate_challenge,
   blobber_block_rewards, commit_settings_changes — the order `buildInTxns` creates them in)
`txn <send|data|sc|invalid> <sender> <to> <value> <fee> <nonce> <cost|x> <exempt 0|1> <bytes> <outLen> <created> <bname -|p|c|r|s> <res> @…`
   appends a transaction to the pool; the pool is iterated in the order of the `txn` lines; res as in the LEDGER driver
`gen <waitOver 0|1>`  →  `gen-ok d=<block date> t=<idx|b<kind>>:<s|f>:<nonce>,… a=… s=…` | `gen-err <class>`
`verify`              →  `ok a=… s=…` | `fail <class>` | `no-block`
Words starting with `@` are for the implementation side only (function names, padding) and are ignored here.
The fee estimate is computed from the cost estimate with the constants of the repository's 0chain.yaml
(`cost_fee_coeff: 1000`, `max_fee: 1` ZCN): fee = min(cost·10^7, 10^10), 0 for an exempt function. -/
namespace ZChain.Drv.C45
open ZChain.Ledger ZChain.BlockGen

def feeOf (cost : Int) : Nat :=
  if cost < 0 then 10000000000 else if cost * 10000000 > 10000000000 then 10000000000 else (cost * 10000000).toNat

structure DS where
  cfg : Cfg
  prior : St
  pool : List PTxn
  bi : Builtins
  prevDate : Int
  blk : Option Block

def insertSorted (x : Nat × String) : List (Nat × String) → List (Nat × String)
  | [] => [x]
  | y :: ys => if x.1 ≤ y.1 then x :: y :: ys else y :: insertSorted x ys

def sortByKey (l : List (Nat × String)) : List (Nat × String) := l.foldl (fun acc x => insertSorted x acc) []

def dedupFirst {α : Type} (a : List (Nat × α)) : List (Nat × α) :=
  a.foldl (fun acc p => if acc.any (fun q => q.1 = p.1) then acc else acc ++ [p]) []

def showState (s : St) : String :=
  let as := sortByKey ((dedupFirst s.accts).map fun p => (p.1, s!"{p.1}:{p.2.balance}:{p.2.nonce}"))
  let ss := sortByKey ((dedupFirst s.store).map fun p => (p.1, s!"{p.1}:{p.2}"))
  "a=" ++ ",".intercalate (as.map (·.2)) ++ " s=" ++ ",".intercalate (ss.map (·.2))

def parseAcct (w : String) : Option (Id × Acct) :=
  match w.splitOn ":" with
  | [i, b, n] => match i.toNat?, b.toNat?, n.toInt? with
    | some i, some b, some n => some (i, ⟨b, n⟩)
    | _, _, _ => none
  | _ => none

def parseList {α : Type} (f : String → Option α) : List String → Option (List α)
  | [] => some []
  | w :: ws => match f w, parseList f ws with
    | some a, some rest => some (a :: rest)
    | _, _ => none

structure Ops where
  ws : List Write := []
  tr : List Transfer := []
  sg : List Transfer := []

def parseOp (o : Ops) (w : String) : Option Ops :=
  match w.splitOn "," with
  | ["t", a, b, c] => match a.toNat?, b.toNat?, c.toNat? with
    | some a, some b, some c => some { o with tr := o.tr ++ [{ src := a, dst := b, amount := c }] }
    | _, _, _ => none
  | ["s", a, b, c] => match a.toNat?, b.toNat?, c.toNat? with
    | some a, some b, some c => some { o with sg := o.sg ++ [{ src := a, dst := b, amount := c }] }
    | _, _, _ => none
  | ["w", k, v] => match k.toNat?, v.toNat? with
    | some k, some v => some { o with ws := o.ws ++ [.put k v] }
    | _, _ => none
  | ["d", k] => match k.toNat? with
    | some k => some { o with ws := o.ws ++ [.del k] }
    | none => none
  | _ => none

def parseOps (s : String) : Option Ops :=
  if s = "" then some {} else
  (s.splitOn ";").foldl (fun acc w => match acc with | none => none | some o => parseOp o w) (some {})

def parseRes (s : String) : Option CResult :=
  match s.splitOn "|" with
  | ["-"] => some .internal
  | ["int"] => some .internal
  | ["chg"] => some (.chargeable [] [] [])
  | ["chg", ops] => (parseOps ops).map fun o => .chargeable o.ws o.tr o.sg
  | ["ok"] => some (.ok [] [] [])
  | ["ok", ops] => (parseOps ops).map fun o => .ok o.ws o.tr o.sg
  | _ => none

def parseTyp : String → Option TxnType
  | "send" => some .send | "data" => some .data | "sc" => some .sc | "invalid" => some .invalid | _ => none

def parseKind : String → Option BuiltinKind
  | "p" => some .payFees | "c" => some .challenge | "r" => some .rewards | "s" => some .settings | _ => none

def kindLetter : BuiltinKind → String
  | .payFees => "p" | .challenge => "c" | .rewards => "r" | .settings => "s"

def parseBool : String → Option Bool
  | "0" => some false | "1" => some true | _ => none

def parseBuiltin (miner : Id) (w : String) : Option (BuiltinKind × PTxn) :=
  match w.splitOn "~" with
  | [k, c, r, o] => match parseKind k, c.toInt?, parseRes r, o.toNat? with
    | some k, some c, some r, some o =>
      -- payFees goes to the miner contract (id 0), the other three to the storage contract (id 2); fee 0
      let to : Id := match k with | .payFees => 0 | _ => 2
      some (k, { key := 0, txn := { sender := miner, to := to, toValid := true, value := 0, fee := 0, nonce := 0, typ := .sc },
                 res := fun _ => r, outLen := fun _ => o, cost := some c, estFee := feeOf c, exempt := false, bytes := 0, created := 0,
                 bname := some k })
    | _, _, _, _ => none
  | _ => none

def mkBuiltins (l : List (BuiltinKind × PTxn)) : Builtins :=
  let find (k : BuiltinKind) : Option PTxn := (l.find? (fun p => p.1 = k)).map (·.2)
  ⟨find .payFees, find .challenge, find .rewards, find .settings⟩

def model (ws : List String) : List String := ws.filter (fun w => !w.startsWith "@")

def showEntry (e : Entry) : String :=
  let k := match e.key with
    | .pool n => toString n
    | .builtin k => "b" ++ kindLetter k
  let s := match e.status with | .success => "s" | .failed => "f" | .rejected => "r"
  s!"{k}:{s}:{e.p.txn.nonce}"

def showVErr : VErr → String
  | .dup => "dup" | .txn => "txn" | .costErr => "cost" | .costTooBig => "cost" | .stateReject => "state"
  | .rootMismatch => "root" | .outputMismatch => "out"

def step (d : DS) (ws0 : List String) : DS × String :=
  match model ws0 with
  | ["init", fee, maxCost, maxBytes, minSize, minFee, miner, tol, prevDate, accts, bis] =>
    match parseBool fee, maxCost.toInt?, maxBytes.toInt?, minSize.toInt?, minFee.toNat?, miner.toNat?, tol.toInt?, prevDate.toInt? with
    | some fee, some maxCost, some maxBytes, some minSize, some minFee, some miner, some tol, some prevDate =>
      let a := if accts = "-" then some [] else parseList parseAcct (accts.splitOn ",")
      let b := if bis = "-" then some [] else parseList (parseBuiltin miner) (bis.splitOn "/")
      match a, b with
      | some a, some b =>
        -- `buildInTxns` creates the fee transaction exactly when fees are enabled
        if (b.any (fun x => x.1 = BuiltinKind.payFees)) != fee then (d, "bad-op") else
        ({ cfg := ⟨fee, maxCost, maxBytes, minSize, minFee, miner, tol⟩, prior := ⟨a, []⟩, pool := [], bi := mkBuiltins b, prevDate := prevDate, blk := none }, "ok")
      | _, _ => (d, "bad-op")
    | _, _, _, _, _, _, _, _ => (d, "bad-op")
  | ["txn", typ, sender, to, value, fee, nonce, cost, exempt, bytes, out, created, bname, res] =>
    match parseTyp typ, sender.toNat?, to.toNat?, value.toNat?, fee.toNat?, nonce.toInt?, parseBool exempt, bytes.toNat?, out.toNat? with
    | some typ, some sender, some to, some value, some fee, some nonce, some exempt, some bytes, some out =>
      let c : Option (Option Int) := if cost = "x" then some none else (cost.toInt?).map some
      let bn : Option (Option BuiltinKind) := if bname = "-" then some none else (parseKind bname).map some
      match c, bn, created.toInt?, parseRes res with
      | some c, some bn, some created, some r =>
        let t : Txn := { sender := sender, to := to, toValid := true, value := value, fee := fee, nonce := nonce, typ := typ }
        let ef : Nat := if exempt then 0 else feeOf (c.getD 0)
        let p : PTxn := ⟨d.pool.length, t, fun _ => r, fun _ => out, c, ef, exempt, bytes, created, bn⟩
        ({ d with pool := d.pool ++ [p] }, "ok")
      | _, _, _, _ => (d, "bad-op")
    | _, _, _, _, _, _, _, _, _ => (d, "bad-op")
  | ["gen", wo] =>
    match parseBool wo with
    | none => (d, "bad-op")
    | some wo =>
      let n := d.pool.length
      match generate d.cfg 0 d.prevDate d.prior d.pool d.bi wo ((n + 1) * (n + 1) + n) with
      | .error .builtinCost => ({ d with blk := none }, "gen-err bicost")
      | .error .iterError => ({ d with blk := none }, "gen-err iter")
      | .error .insufficient => ({ d with blk := none }, "gen-err insufficient")
      | .ok g =>
        ({ d with blk := some (blockOf (blockDate 0 d.prevDate) g) },
         s!"gen-ok d={blockDate 0 d.prevDate} t=" ++ ",".intercalate (g.incl.map showEntry) ++ " " ++ showState g.st)
  | ["verify"] =>
    match d.blk with
    | none => (d, "no-block")
    | some b =>
      match verify d.cfg d.prior b with
      | .ok _ => (d, "ok " ++ showState b.final)
      | .error e => (d, "fail " ++ showVErr e)
  | _ => (d, "bad-op")

def init : DS :=
  { cfg := ⟨true, 0, 0, 0, 0, 0, 0⟩, prior := ⟨[], []⟩, pool := [], bi := ⟨none, none, none, none⟩, prevDate := 0, blk := none }

def run : IO Unit := ZChain.Drv.runLoop step init

end ZChain.Drv.C45

def main : IO Unit := ZChain.Drv.C45.run
