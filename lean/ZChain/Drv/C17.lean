import ZChain.Drv.Util
import ZChain.Base.F64Line
import ZChain.Model.Faucet
/-! Line driver for the faucet model (C17).

`conf <pour> <maxPour> <periodic> <global> <indivResetNs> <globalResetNs> <faucetBalance|-> <client:balance>*` → `ok`
`pour <client> <value> <now>` | `refill <client> <value> <now>` → `ok <amount>` | `err <class>` | `rejected`
`settings <client> <pour> <maxPour> <periodic> <global> <indivResetNs> <globalResetNs> <now>` → `ok 0` | `err <class>`  (owner = client 7)
`dump` → `g <used> <start|-> f <faucet|-> u <client>:<used>:<start>* a <client>:<balance>*`  (ascending client) -/
namespace ZChain.Drv.C17
open ZChain ZChain.Faucet

def allSome {α} : List (Option α) → Option (List α)
  | [] => some []
  | none :: _ => none
  | some a :: rest => (allSome rest).map (a :: ·)

def parseAcc (s : String) : Option (Nat × Nat) :=
  match s.splitOn ":" with
  | [i, a] => match i.toNat?, F64Line.u64? a with
    | some i, some a => if i < 8 then some (i, a) else none
    | _, _ => none
  | _ => none

def sortBy1 {α} (l : List (Nat × α)) : List (Nat × α) := l.mergeSort (fun a b => a.1 ≤ b.1)

def showSt (st : St) : String :=
  let g := match st.gStart with
    | none => "-"
    | some s => toString s
  let f := match st.faucet with
    | none => "-"
    | some b => toString b
  let us := (sortBy1 st.users).map fun (c, u) => s!" {c}:{u.used}:{u.start}"
  let ac := (sortBy1 st.accounts).map fun (c, b) => s!" {c}:{b}"
  s!"g {st.gUsed} {g} f {f} u" ++ String.join us ++ " a" ++ String.join ac

def showRes (st : St) (c : Nat) (r : Res) : Option St × String :=
  (some (apply st c r), match r with
    | .ok _ a => s!"ok {a}"
    | .err e => "err " ++ e.tag
    | .rejected => "rejected")

def step (st : Option St) (ws : List String) : Option St × String :=
  match ws with
  | "conf" :: p :: mp :: per :: gl :: ir :: gr :: fb :: accs =>
    match F64Line.u64? p, F64Line.u64? mp, F64Line.u64? per, F64Line.u64? gl, F64Line.i64? ir, F64Line.i64? gr,
          (if fb = "-" then some none else (F64Line.u64? fb).map some), allSome (accs.map parseAcc) with
    | some p, some mp, some per, some gl, some ir, some gr, some fb, some accs =>
      if (accs.map (·.1)).eraseDups.length = accs.length then
        (some (init ⟨p, mp, per, gl, ir, gr⟩ fb accs), "ok")
      else (none, "bad-op")
    | _, _, _, _, _, _, _, _ => (none, "bad-op")
  | "conf" :: _ => (none, "bad-op")
  | ["pour", c, v, now] => match st, c.toNat?, F64Line.u64? v, F64Line.i64? now with
    | some st, some c, some v, some now => if c < 8 ∧ v ≤ 4000000000000000000 then showRes st c (pour st c v now) else (some st, "bad-op")
    | st, _, _, _ => (st, "bad-op")
  | ["refill", c, v, now] => match st, c.toNat?, F64Line.u64? v, F64Line.i64? now with
    | some st, some c, some v, some now => if c < 8 ∧ v ≤ 4000000000000000000 then showRes st c (refill st c v now) else (some st, "bad-op")
    | st, _, _, _ => (st, "bad-op")
  | ["settings", c, p, mp, per, gl, ir, gr, now] =>
    match st, c.toNat?, F64Line.u64? p, F64Line.u64? mp, F64Line.u64? per, F64Line.u64? gl, F64Line.i64? ir, F64Line.i64? gr, F64Line.i64? now with
    | some st, some c, some p, some mp, some per, some gl, some ir, some gr, some now =>
      -- amounts travel as decimal ZCN strings: below 10^15 units they parse back exactly
      if c < 8 ∧ p < 1000000000000000 ∧ mp < 1000000000000000 ∧ per < 1000000000000000 ∧ gl < 1000000000000000 ∧ 0 ≤ ir ∧ 0 ≤ gr then
        showRes st c (updateSettings st c ⟨p, mp, per, gl, ir, gr⟩ now)
      else (some st, "bad-op")
    | st, _, _, _, _, _, _, _, _ => (st, "bad-op")
  | ["dump"] => match st with
    | some s => (st, showSt s)
    | none => (st, "bad-op")
  | _ => (st, "bad-op")

def run : IO Unit := ZChain.Drv.runLoop step none

end ZChain.Drv.C17

def main : IO Unit := ZChain.Drv.C17.run
