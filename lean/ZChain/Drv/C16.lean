import ZChain.Drv.Util
import ZChain.Base.F64Line
import ZChain.Model.Vesting
/-! Line driver for the vesting model (C16).

`conf <minLock> <minDurSec> <maxDurSec> <maxDests>`                                   → `ok`   (first op of a case; forgets the pool)
`add <client> <balance|-> <value> <now> <start> <durSec> <id:amount>*`                → `ok` | `err <class>`
`trigger <client> <now>` | `unlock <client> <now>` | `stop <client> <dest> <now>` | `delete <client> <now>`
                                                                                      → `ok <to>:<amount>*` (per recipient, ascending id) | `err <class>`
`dump` → `pool <balance> <start> <expire> <owner> d <id>:<amount>:<vested>:<last>:<move>*` | `nopool` -/
namespace ZChain.Drv.C16
open ZChain ZChain.Vesting

structure St where
  conf : Option Conf
  pool : Option Pool

def parseDest (s : String) : Option (Nat × Nat) :=
  match s.splitOn ":" with
  | [i, a] => match i.toNat?, F64Line.u64? a with
    | some i, some a => some (i, a)
    | _, _ => none
  | _ => none

def allSome {α} : List (Option α) → Option (List α)
  | [] => some []
  | none :: _ => none
  | some a :: rest => (allSome rest).map (a :: ·)

/-- aggregate transfers per recipient, ascending id. -/
def aggregate (ts : Transfers) : List (Nat × Nat) :=
  let ids := (ts.map (·.1)).eraseDups
  let sorted := ids.mergeSort (· ≤ ·)
  sorted.map fun i => (i, ((ts.filter (·.1 = i)).map (·.2)).sum)

def showTs (ts : Transfers) : String :=
  let parts := (aggregate ts).map fun (i, a) => s!"{i}:{a}"
  if parts.isEmpty then "ok" else "ok " ++ " ".intercalate parts

def showPool : Option Pool → String
  | none => "nopool"
  | some p =>
    let ds := p.dests.map fun d => s!"{d.id}:{d.amount}:{d.vested}:{d.last}:{d.move}"
    s!"pool {p.balance} {p.start} {p.expire} {p.owner} d" ++ (if ds.isEmpty then "" else " " ++ " ".intercalate ds)

def onPool (st : St) (f : Pool → Except Err (Option Pool × Transfers)) : St × String :=
  match st.pool with
  | none => (st, "err " ++ Err.noPool.tag)
  | some p => match f p with
    | .error e => (st, "err " ++ e.tag)
    | .ok (p', ts) => ({ st with pool := p' }, showTs ts)

def i64? := F64Line.i64?

def step (st : St) (ws : List String) : St × String :=
  match ws with
  | ["conf", a, b, c, d] => match F64Line.u64? a, i64? b, i64? c, d.toNat? with
    | some a, some b, some c, some d => ({ conf := some ⟨a, b, c, d⟩, pool := none }, "ok")
    | _, _, _, _ => ({ conf := none, pool := none }, "bad-op")
  | "add" :: client :: bal :: value :: now :: start :: dur :: dests =>
    match st.conf, client.toNat?, (if bal = "-" then some none else (F64Line.u64? bal).map some), F64Line.u64? value,
          i64? now, i64? start, i64? dur, allSome (dests.map parseDest) with
    | some conf, some client, some bal, some value, some now, some start, some dur, some dests =>
      if st.pool.isSome ∨ 8 ≤ client ∨ dests.any (fun d => 8 ≤ d.1) ∨ 4000000000000000000 < value then (st, "bad-op")   -- one pool per case; client ids 0..7; the engine rejects values above the supply
      else
      match add conf client bal value now start dur dests with
      | .error e => (st, "err " ++ e.tag)
      | .ok p => ({ st with pool := some p }, "ok")
    | _, _, _, _, _, _, _, _ => (st, "bad-op")
  | ["trigger", c, now] => match st.conf, c.toNat?, i64? now with
    | some _, some c, some now => onPool st fun p => (scTrigger p c now).map fun (p', ts) => (some p', ts)
    | _, _, _ => (st, "bad-op")
  | ["unlock", c, now] => match st.conf, c.toNat?, i64? now with
    | some _, some c, some now => onPool st fun p => (scUnlock p c now).map fun (p', ts) => (some p', ts)
    | _, _, _ => (st, "bad-op")
  | ["stop", c, d, now] => match st.conf, c.toNat?, d.toNat?, i64? now with
    | some _, some c, some d, some now => onPool st fun p => (scStop p c d now).map fun (p', ts) => (some p', ts)
    | _, _, _, _ => (st, "bad-op")
  | ["delete", c, now] => match st.conf, c.toNat?, i64? now with
    | some _, some c, some now => onPool st fun p => (scDelete p c now).map fun ts => (none, ts)
    | _, _, _ => (st, "bad-op")
  | ["dump"] => match st.conf with
    | some _ => (st, showPool st.pool)
    | none => (st, "bad-op")
  | _ => (st, "bad-op")

def run : IO Unit := ZChain.Drv.runLoop step { conf := none, pool := none }

end ZChain.Drv.C16

def main : IO Unit := ZChain.Drv.C16.run
