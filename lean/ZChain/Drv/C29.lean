import ZChain.Drv.Util
import ZChain.Model.Sha3
import ZChain.Model.BlockHash
import ZChain.Generated.C29
/-! Line driver of the block-hash model (C29) over the GENERATED table, with `H` = SHA3-256/hex
(`Model/Sha3.lean`) and `Hmb` = identity on the magic-block hash the harness recorded from the real `GetHash()`.

Strings travel hex-encoded (`-` = empty). Ops:
* `init <serverChain> <mainChain> <scheme>` | `miner <id> <pk>` | `signed <id> <msg> <sig>` → `ok`
* `blk (s.<Field>=<hex> | i.<Field>=<int> | t=<hash>/<out> | mb=<hash>/<content> | map)*` → `hash <hex>`
* `data` → `data <hex of the hash data>`;  `hash` → `hash <hex>`;  `validate` → `ok` | `reject <check>`
* `tamper …` (the current block is not changed) → `hash <hex> <ok|reject check>`:
  `s <Field> <hex>` | `i <Field> <int>` | `txnhash <i> <hex>` | `txnout <i> <hex>` | `txndup <i>` | `txndrop <i>` |
  `txnswap <i> <j>` | `mbhash <hex>` | `mbcontent <hex>` | `mbdrop` | `mbadd <hash>/<content>` | `nomap`
-/
namespace ZChain.Drv.C29
open ZChain.HashBind ZChain.BlockHash

abbrev T : Table := ZChain.Generated.C29.table

structure St where
  env : Env
  blk : Option Block

def emptyBlock : Block := ⟨fun _ => [], fun _ => 0, [], none, none⟩

def asText (s : Str) : String := String.ofList (s.map Char.ofNat)

def H : Str → Str := ZChain.Sha3.hashHex

def pair (s : String) : Option (Str × Str) :=
  match s.splitOn "/" with
  | [a, b] => match fromHex a, fromHex b with
    | some x, some y => some (x, y)
    | _, _ => none
  | _ => none

def kv (s : String) : Option (String × String) :=
  match s.splitOn "=" with
  | [k, v] => some (k, v)
  | _ => none

/-- `s.`/`i.` tokens are accepted only for fields of the matching kind of the GENERATED struct table
(`bytes` fields travel as raw bytes in the string map) -/
def strKind (f : Field) : Bool := T.kindOf f = some .str || T.kindOf f = some .bytes
def intKind (f : Field) : Bool := T.kindOf f = some .int

/-- one token of a `blk` line -/
def applyTok (b : Block) (tok : String) : Option Block :=
  if tok = "map" then some (computeTxnMap T b) else
  match kv tok with
  | none => none
  | some (k, v) =>
    if k = "mbp" then some b   -- real magic-block parameters, used by the Go side only
    else if k = "t" then (pair v).map fun (h, o) => { b with txns := b.txns ++ [⟨h, o⟩] }
    else if k = "mb" then (pair v).map fun (h, c) => { b with magicBlock := some ⟨h, c⟩ }
    else if k.startsWith "s." then
      match Field.ofName (k.drop 2).toString, fromHex v with
      | some f, some x => if strKind f then some (b.setStr f x) else none
      | _, _ => none
    else if k.startsWith "i." then
      match Field.ofName (k.drop 2).toString, v.toInt? with
      | some f, some x => if intKind f then some (b.setInt f x) else none
      | _, _ => none
    else none

def parseBlk (toks : List String) : Option Block :=
  toks.foldl (fun acc t => acc.bind (applyTok · t)) (some emptyBlock)

def showValidate (env : Env) (b : Block) : String :=
  match validate T H id env b with
  | none => "ok"
  | some c => "reject " ++ c.name

def remap (orig b : Block) : Block := if orig.txnsMap.isSome then computeTxnMap T b else b

def tamper (b : Block) : List String → Option Block
  | ["s", f, v] => match Field.ofName f, fromHex v with
    | some f, some x => if strKind f then some (b.setStr f x) else none
    | _, _ => none
  | ["i", f, v] => match Field.ofName f, v.toInt? with
    | some f, some x => if intKind f then some (b.setInt f x) else none
    | _, _ => none
  | ["txnhash", i, v] => match i.toNat?, fromHex v with
    | some i, some x =>
      if h : i < b.txns.length then some (remap b { b with txns := b.txns.set i { b.txns[i] with hash := x } }) else none
    | _, _ => none
  | ["txnout", i, v] => match i.toNat?, fromHex v with
    | some i, some x =>
      if h : i < b.txns.length then some (remap b { b with txns := b.txns.set i { b.txns[i] with outputHash := x } }) else none
    | _, _ => none
  | ["txndup", i] => match i.toNat? with
    | some i => if h : i < b.txns.length then some (remap b { b with txns := b.txns ++ [b.txns[i]] }) else none
    | none => none
  | ["txndrop", i] => match i.toNat? with
    | some i => if i < b.txns.length then some (remap b { b with txns := b.txns.eraseIdx i }) else none
    | none => none
  | ["txnswap", i, j] => match i.toNat?, j.toNat? with
    | some i, some j =>
      if h : i < b.txns.length ∧ j < b.txns.length then
        some (remap b { b with txns := (b.txns.set i b.txns[j]).set j b.txns[i] })
      else none
    | _, _ => none
  | ["mbhash", v] => match b.magicBlock, fromHex v with
    | some m, some x => some { b with magicBlock := some { m with hash := x } }
    | _, _ => none
  | ["mbcontent", v, _] => match b.magicBlock, fromHex v with
    | some m, some x => some { b with magicBlock := some { m with content := x } }
    | _, _ => none
  | ["mbdrop"] => match b.magicBlock with
    | some _ => some { b with magicBlock := none }
    | none => none
  | ["mbadd", v, _] => (pair v).map fun (h, c) => { b with magicBlock := some ⟨h, c⟩ }
  | ["nomap"] => some { b with txnsMap := none }
  | _ => none

def step (s : St) (ws : List String) : St × String :=
  match ws with
  | ["init", sc, mc, _] => match fromHex sc, fromHex mc with
    | some sc, some mc => (⟨⟨sc, mc, [], []⟩, none⟩, "ok")
    | _, _ => (s, "bad-op")
  | ["miner", id, _] => match fromHex id with
    | some id => ({ s with env := { s.env with knownMiners := id :: s.env.knownMiners } }, "ok")
    | none => (s, "bad-op")
  | ["signed", id, msg, sig] => match fromHex id, fromHex msg, fromHex sig with
    | some id, some msg, some sig => ({ s with env := { s.env with signed := (id, msg, sig) :: s.env.signed } }, "ok")
    | _, _, _ => (s, "bad-op")
  | "blk" :: toks => match parseBlk toks with
    | some b => ({ s with blk := some b }, "hash " ++ asText (computeHash T H id b))
    | none => (s, "bad-op")
  | ["data"] => match s.blk with
    | some b => (s, "data " ++ toWire (hashData T H id b))
    | none => (s, "bad-op")
  | ["hash"] => match s.blk with
    | some b => (s, "hash " ++ asText (computeHash T H id b))
    | none => (s, "bad-op")
  | ["validate"] => match s.blk with
    | some b => (s, showValidate s.env b)
    | none => (s, "bad-op")
  | "tamper" :: rest => match s.blk with
    | some b => match tamper b rest with
      | some b' => (s, "hash " ++ asText (computeHash T H id b') ++ " " ++ showValidate s.env b')
      | none => (s, "bad-op")
    | none => (s, "bad-op")
  | _ => (s, "bad-op")

def run : IO Unit := ZChain.Drv.runLoop step ⟨⟨[], [], [], []⟩, none⟩

end ZChain.Drv.C29

def main : IO Unit := ZChain.Drv.C29.run
