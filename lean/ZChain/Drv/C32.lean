import ZChain.Drv.Util
import ZChain.Model.AlgWorld
import ZChain.Model.Agg
/-! Line driver for C32 (aggregate verification): the crypto world (keys, signature registers, `sigadd`/`sigsub`
perturbations) plus the aggregate scheme as coded:
`agg <total> <batch>` | `aggadd <idx> <key> <sigidx> <m>` | `aggverify` — `BLS0ChainAggregateSignatureScheme` directly;
`miners <k> <batch>` — a chain whose magic block holds the keys `n0..n<k-1>`, validation batch size `<batch>`;
`vtickets <m> <n<j>|x>:<sigidx>,…` — `Chain.VerifyTickets`; `vtxns <key>:<sigidx>:<m>,…` — `miner.Chain.ValidateTransactions`. -/
namespace ZChain.Drv.C32
open ZChain.Alg ZChain.AlgWorld ZChain.Agg

structure St where
  w : World := {}
  sch : Option (Scheme Fr) := none
  miners : Option Nat := none
  vbatch : Nat := 1
deriving Inhabited

def item? (w : World) (k si m : String) : Option (AggItem Fr) := do
  let sk ← key? w k
  let σ ← si.toNat?.bind (sig? w)
  let h ← msg? w m
  pure ⟨pubKey sk, h, σ⟩

/-- run a fresh scheme over the items at indices 0,1,…: the answer of the first `Verify`. -/
def runScheme (total bs : Nat) (items : List (AggItem Fr)) : Option Bool := do
  let s0 ← Agg.new total bs
  let s ← aggregateAll s0 ((List.range items.length).zip items)
  let r ← Agg.verify s
  pure r.2

def step (s : St) (ws : List String) : St × String :=
  match ws with
  | ["agg", total, bs] => match total.toNat?, bs.toNat? with
    | some total, some bs => match Agg.new (F := Fr) total bs with
      | some sch => ({ s with sch := some sch }, "ok")
      | none => (s, "panic")
    | _, _ => (s, "bad-op")
  | ["aggadd", idx, k, si, m] => match s.sch, idx.toNat?, item? s.w k si m with
    | some sch, some idx, some it => match aggregate sch idx it with
      | some sch' => ({ s with sch := some sch' }, "ok")
      | none => (s, "panic")
    | _, _, _ => (s, "bad-op")
  | ["aggverify"] => match s.sch with
    | some sch => match Agg.verify sch with
      | some (sch', b) => ({ s with sch := some sch' }, showBool b)
      | none => (s, "crash")
    | none => (s, "bad-op")
  | ["miners", k, bs] => match k.toNat?, bs.toNat? with
    | some k, some bs =>
      if k = 0 ∨ bs = 0 ∨ !((List.range k).all (fun j => (key? s.w s!"n{j}").isSome)) then (s, "bad-op")
      else ({ s with miners := some k, vbatch := bs }, "ok")
    | _, _ => (s, "bad-op")
  | ["vtickets", m, entries] =>
    match s.miners, msg? s.w m with
    | some k, some h =>
      let es := (splitList entries).mapM (fun e => match e.splitOn ":" with
        | [who, si] => (si.toNat?.bind (sig? s.w)).map (fun σ => (who, σ))
        | _ => none)
      match es with
      | none => (s, "bad-op")
      | some [] => (s, "bad-op")
      | some es =>
        -- tickets are looked up and aggregated in order; the first unknown verifier ends the call with an error
        let known (who : String) : Option Fr :=
          if who.startsWith "n" then
            match (who.drop 1).toString.toNat? with
            | some j => if j < k then key? s.w who else none
            | none => none
          else none
        if es.all (fun e => (known e.1).isSome) then
          let items := es.filterMap (fun e => (known e.1).map (fun sk => (⟨pubKey sk, h, e.2⟩ : AggItem Fr)))
          match runScheme items.length items.length items with
          | some true => (s, "ok")
          | some false => (s, "err")
          | none => (s, "crash")
        else (s, "err")
    | _, _ => (s, "bad-op")
  | ["vtxns", entries] =>
    match s.miners with
    | some _ =>
      let es := (splitList entries).mapM (fun e => match e.splitOn ":" with
        | [k, si, m] => item? s.w k si s!"{m}"
        | [k, si, m1, m2, m3] => item? s.w k si s!"{m1}:{m2}:{m3}"
        | _ => none)
      match es with
      | none => (s, "bad-op")
      | some [] => (s, "bad-op")
      | some items => match runScheme items.length s.vbatch items with
        | some true => (s, "ok")
        | some false => (s, "err")
        | none => (s, "crash")
    | none => (s, "bad-op")
  | _ =>
    match ZChain.AlgWorld.step s.w ws with
    | some (w, o) => if ws.head? == some "dkg" then ({ w := w }, o) else ({ s with w := w }, o)
    | none => (s, "bad-op")

def run : IO Unit := ZChain.Drv.runLoop step ({} : St)

end ZChain.Drv.C32

def main : IO Unit := ZChain.Drv.C32.run
