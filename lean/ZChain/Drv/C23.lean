import ZChain.Drv.Util
import ZChain.Model.Provider
/-! Line driver for `Model/Provider.lean` (C23 and C11 share it).

`init <demeter 0|1> <killSlash hex16> <minLock s> <order: ids,…> <id=balance,…> <storagesc min_stake_per_delegate>` → `ok`
   (ids: 0 minersc, 1 storagesc, 2 zcnsc, 3 owner; `order` = every id in ascending order of its hex client id)
`reg <kind> <pid> <wallet> <maxDelegates> <ratio hex16>`  → `ok` | `fail:<class>`
`lock <kind> <pid> <client> <value> <now>`                → `<status> <leaf diff>`
`unlock <kind> <pid> <client> <wall>` · `collect <kind> <pid> <client>` · `kill <kind> <reqId> <caller>` ·
`shutdown <kind> <reqId> <caller>`                        → `<status> <leaf diff>`
`delauth <authorizer> <caller>`                           → `<status> <leaf diff>`   (zcnsc delete-authorizer)
`reward <kind> <pid> <value>`                             → `ok <leaf diff>` | `fail:<class>`   (no transaction: no nonce)
`setdata <blobber> <0|1>`                                 → `ok <leaf diff>` | `fail:<class>`  (SavedData > 0 or = 0; no transaction)
`alloc <client> <b1> <b2> <offer>`                        → `ok` | `fail`
`payfees`                                                 → `rewarded-dead=`  (real payFees dry run: no dead node may change)
`dump`                                                    → canonical state
status: `ok` | `fail:<class>` | `reject` (the Go side also answers `panic` when the contract call kills the process); leaf diff: sorted `+name` created, `-name` deleted, `~name` changed. -/
namespace ZChain.Drv.C23
open ZChain ZChain.Provider

def allSome {α} : List (Option α) → Option (List α)
  | [] => some []
  | none :: _ => none
  | some a :: rest => (allSome rest).map (a :: ·)

def num? (w : String) : Option Nat := if w.length > 20 ∨ w.isEmpty then none else w.toNat?

def ids? (s : String) : Option (List Nat) :=
  if s = "-" then some [] else allSome ((s.splitOn ",").map num?)

def bal? (s : String) : Option (Nat × Nat) :=
  match s.splitOn "=" with
  | [a, b] => match num? a, num? b with
    | some a, some b => some (a, b)
    | _, _ => none
  | _ => none

def coin (n : Nat) : Nat := n * 10000000000

/-- constants of the repo's sc.yaml (min_stake / max_stake of the three contracts, min_stake_per_delegate); a deviation of
the real configuration shows up as a disagreement on the first lock or dump. -/
def mkCfg (demeter : Bool) (slash : F64) (minLock : Nat) (spMin : Nat) : Cfg :=
  { owner := 3, killSlash := slash, demeter := demeter,
    minStake := fun k => match k with
      | .blobber | .validator => 100000000      -- storagesc stakepool.min_stake 0.01
      | _ => 0,
    maxStake := fun _ => coin 20000,
    minLock := minLock,
    spMinStake := fun k => match k with
      | .blobber | .validator => spMin          -- storagesc min_stake_per_delegate (set by the case)
      | _ => coin 1 }

structure W where
  cfg : Cfg
  st  : State

/-! leaves and their values, for the diff -/

inductive LVal where
  | acct (a : Ledger.Acct)
  | prov (p : Prov) (sp : Option SP)
  | sp (sp : SP)
  | vpart (l : List Id)
deriving DecidableEq

def leafVal (s : State) : Leaf → Option LVal
  | .acct i => if Ledger.present s.accts i then some (.acct (Ledger.get s.accts i)) else none
  | .prov i => (kvGet s.provs i).map fun p =>
      .prov p (if p.kind = .miner ∨ p.kind = .sharder then kvGet s.sps (p.kind, i) else none)
  | .sp k i => (kvGet s.sps (k, i)).map .sp
  | .vpart => some (.vpart s.vpart)

def leavesOf (s : State) : List Leaf :=
  s.accts.map (fun p => Leaf.acct p.1) ++ s.provs.map (fun p => Leaf.prov p.1) ++
  s.sps.map (fun p => leafOfSP p.1.1 p.1.2) ++ [Leaf.vpart]

def leafName : Leaf → String
  | .acct i => s!"acct:{i}"
  | .prov i => s!"prov:{i}"
  | .sp k i => s!"sp:{k.tag}:{i}"
  | .vpart => "part:validators"

def sortStrs (l : List String) : List String := l.mergeSort (fun a b => decide (a ≤ b))

/-- `extra`: names of leaves outside the model that the operation is known to change (the zcnsc authorizer counter). -/
def leafDiffX (a b : State) (extra : List String) : String :=
  let ls := (leavesOf a ++ leavesOf b).eraseDups
  let ds := ls.filterMap fun l =>
    match leafVal a l, leafVal b l with
    | none, some _ => some ("+" ++ leafName l)
    | some _, none => some ("-" ++ leafName l)
    | some x, some y => if x = y then none else some ("~" ++ leafName l)
    | none, none => none
  " ".intercalate (sortStrs (ds ++ extra))

def leafDiff (a b : State) : String := leafDiffX a b []

def showStatus : Status → String
  | .ok => "ok" | .fail e => "fail:" ++ e.tag | .reject => "reject"

def answer (w : W) (r : State × Status) : W × String :=
  let d := leafDiff w.st r.1
  ({ w with st := r.1 }, (showStatus r.2 ++ " " ++ d).trimAscii.toString)

/-! dump -/

def sortNat (l : List Nat) : List Nat := l.mergeSort (fun a b => decide (a ≤ b))

def b01 (b : Bool) : String := if b then "1" else "0"

def kindIdx : Kind → Nat
  | .miner => 1 | .sharder => 2 | .blobber => 3 | .validator => 4 | .authorizer => 5

/-- `i0`: the record has the layout its contract reads (the Go side prints `i1` for an authorizer record stored in the
inner `stakepool.StakePool` layout, the defect repaired by fc9e9de — a regression shows as a disagreement). -/
def showSP (k : Kind) (i : Id) (sp : SP) : String :=
  let ps := (sortNat (sp.pools.map (·.1)).eraseDups).filterMap fun j =>
    (kvGet sp.pools j).map fun d => s!"{j}={d.balance}/{d.reward}/{d.stakedAt}/d{b01 d.deleted}"
  let w := match sp.wallet with
    | some x => toString x
    | none => "-"
  s!"{k.tag}:{i}:d{b01 sp.dead}:o{sp.offers}:r{sp.reward}:w{w}:m{sp.maxDelegates}:s{sp.minStake}:c{sp.ratio.toHex}:i0" ++
    "{" ++ ";".intercalate ps ++ "}"

def dump (s : State) : String :=
  let provs := (sortNat (s.provs.map (·.1)).eraseDups).filterMap fun i =>
    (kvGet s.provs i).map fun p => s!"{i}:{p.kind.tag}:{b01 p.shutDown}:{b01 p.killed}:h{b01 p.hasData}"
  let keys := (s.sps.map (·.1)).eraseDups.mergeSort
    (fun a b => decide (kindIdx a.1 < kindIdx b.1 ∨ (kindIdx a.1 = kindIdx b.1 ∧ a.2 ≤ b.2)))
  let sps := keys.filterMap fun kk => (kvGet s.sps kk).map (showSP kk.1 kk.2)
  let accts := (sortNat (s.accts.map (·.1)).eraseDups).map fun i =>
    let a := Ledger.get s.accts i
    s!"{i}={a.balance}/{a.nonce}"
  "dump provs=[" ++ ",".intercalate provs ++ "] sps=[" ++ ",".intercalate sps ++ "] vpart=[" ++
    ",".intercalate ((sortNat s.vpart).map toString) ++ "] accts=[" ++ ",".intercalate accts ++ "]"

def emptyState : State := { accts := [], provs := [], sps := [], vpart := [], order := [] }
def initW : W := { cfg := mkCfg true F64.zero 0 (coin 1), st := emptyState }

def step (w : W) (ws : List String) : W × String :=
  match ws with
  | ["init", dm, slash, ml, order, accts, spm] =>
    match F64.ofHex? slash, num? ml, ids? order, allSome ((accts.splitOn ",").map bal?), num? spm with
    | some sl, some ml, some ord, some bs, some spm =>
      if dm = "0" ∨ dm = "1" then
        ({ cfg := mkCfg (dm = "1") sl ml spm,
           st := { emptyState with order := ord, accts := bs.map fun p => (p.1, ⟨p.2, 0⟩) } }, "ok")
      else (w, "bad-op")
    | _, _, _, _, _ => (w, "bad-op")
  | ["reg", k, pid, wal, md, ratio] =>
    match Kind.ofTag? k, num? pid, num? wal, num? md, F64.ofHex? ratio with
    | some k, some pid, some wal, some md, some ratio =>
      -- the registration transaction is sent by the provider itself (an authorizer is registered by the owner)
      let sender := if k = .authorizer then w.cfg.owner else pid
      match register w.cfg w.st k pid wal md ratio with
      | .ok s => ({ w with st := { s with accts := bumpNonce s.accts sender } }, "ok")
      | .error e => ({ w with st := { w.st with accts := bumpNonce w.st.accts sender } }, "fail:" ++ e.tag)
    | _, _, _, _, _ => (w, "bad-op")
  | ["lock", k, pid, c, v, now] =>
    match Kind.ofTag? k, num? pid, num? c, num? v, num? now with
    | some k, some pid, some c, some v, some now =>
      answer w (lockTxn w.cfg w.st k pid ⟨c, v, now⟩)
    | _, _, _, _, _ => (w, "bad-op")
  | ["unlock", k, pid, c, wall] =>
    match Kind.ofTag? k, num? pid, num? c, num? wall with
    | some k, some pid, some c, some wall =>
      answer w (unlockTxn w.cfg w.st k pid ⟨c, 0, 0⟩ wall)
    | _, _, _, _ => (w, "bad-op")
  | ["collect", k, pid, c] =>
    match Kind.ofTag? k, num? pid, num? c with
    | some k, some pid, some c => answer w (collectTxn w.st k pid c)
    | _, _, _ => (w, "bad-op")
  | ["kill", k, rid, c] =>
    match Kind.ofTag? k, num? rid, num? c with
    | some k, some rid, some c => answer w (killTxn w.cfg k w.st ⟨c, rid⟩)
    | _, _, _ => (w, "bad-op")
  | ["shutdown", k, rid, c] =>
    match Kind.ofTag? k, num? rid, num? c with
    | some k, some rid, some c => answer w (shutdownTxn w.cfg k w.st ⟨c, rid⟩)
    | _, _, _ => (w, "bad-op")
  | ["delauth", rid, c] =>
    match num? rid, num? c with
    | some rid, some c =>
      let r := deleteAuthorizerTxn w.cfg w.st ⟨c, rid⟩
      -- a successful delete-authorizer also decrements the authorizer counter (a leaf outside the model)
      let d := leafDiffX w.st r.1 (if r.2 = .ok then ["~zcn:auth-count"] else [])
      ({ w with st := r.1 }, (showStatus r.2 ++ " " ++ d).trimAscii.toString)
    | _, _ => (w, "bad-op")
  | ["reward", k, pid, v] =>
    match Kind.ofTag? k, num? pid, num? v with
    | some k, some pid, some v =>
      match payReward w.st k pid v with
      | .ok s => ({ w with st := s }, ("ok " ++ leafDiff w.st s).trimAscii.toString)
      | .error e => (w, "fail:" ++ e.tag)
    | _, _, _ => (w, "bad-op")
  | ["alloc", c, b1, b2, off] =>
    match num? c, num? b1, num? b2, num? off with
    | some c, some b1, some b2, some off =>
      -- a blobber takes the allocation when it is live and its free stake covers the 1 GiB share
      -- (`unallocatedCapacity`: (stake − offers)/write_price GB ≥ 1 GiB); the cases keep clear of the margin
      let live (b : Id) : Bool := match kvGet w.st.provs b, getSP w.st .blobber b with
        | some p, some sp =>
          let stake := (sp.pools.map (·.2.balance)).sum
          p.kind = .blobber && !p.killed && !p.shutDown && decide (sp.offers + 2000000000 ≤ stake)
        | _, _ => false
      if live b1 && live b2 && b1 ≠ b2 then
        match addOffers w.st b1 b2 off with
        | .ok s =>
          -- the request locks 10 tokens of the client in the allocation's write pool (held by the storage contract)
          match Ledger.applyTransfers s.accts [{ src := c, dst := storageSC, amount := 100000000000 }] with
          | .ok a => ({ w with st := { s with accts := bumpNonce a c } }, "ok")
          | .error _ => (w, "fail")
        | .error _ => ({ w with st := { w.st with accts := bumpNonce w.st.accts c } }, "fail")
      else ({ w with st := { w.st with accts := bumpNonce w.st.accts c } }, "fail")
    | _, _, _, _ => (w, "bad-op")
  | ["setdata", pid, d] =>
    match num? pid with
    | some pid =>
      if d = "0" ∨ d = "1" then
        match setData w.st pid (d = "1") with
        | .ok s => ({ w with st := s }, ("ok " ++ leafDiff w.st s).trimAscii.toString)
        | .error e => (w, "fail:" ++ e.tag)
      else (w, "bad-op")
    | none => (w, "bad-op")
  | ["payfees"] => (w, "rewarded-dead=")
  | ["dump"] => (w, dump w.st)
  | _ => (w, "bad-op")

def run : IO Unit := ZChain.Drv.runLoop step initW

end ZChain.Drv.C23

def main : IO Unit := ZChain.Drv.C23.run
