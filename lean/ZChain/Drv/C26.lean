import ZChain.Drv.Util
import ZChain.Model.BlockDB
import ZChain.Model.BlockStore
/-! Line driver for the block database / block store models (C26).

Block database (one database per case, protocol phases creating → closed → opened):
`new <klen> <0|1>` | `recreate <klen> <0|1>` (closed phase: store again over the leftover files) | `write <key> <content> <stored>` | `save` | `open` | `openmap` | `close` |
`read <key>` | `readall` | `keys` | `idx` | `dat` | `trunc idx|dat <n>` | `rmidx`
(byte strings are lower-case hex, `-` = empty). An operation outside its phase answers `bad-op`
(the Go worker applies the same rule), so does anything malformed.

Block store: `bnew` | `bwrite <hash> <mbhash|-> <0|1> <seed> <ntxn>` | `bread <hash>` | `bcrash <hash>`. -/
namespace ZChain.Drv.C26
open ZChain.BlockDB

def hexVal (c : Char) : Option Nat :=
  if '0' ≤ c ∧ c ≤ '9' then some (c.toNat - '0'.toNat)
  else if 'a' ≤ c ∧ c ≤ 'f' then some (c.toNat - 'a'.toNat + 10)
  else none

def parseHexAux : List Char → Option Bytes
  | [] => some []
  | [_] => none
  | a :: b :: rest =>
    match hexVal a, hexVal b, parseHexAux rest with
    | some x, some y, some t => some ((16 * x + y) :: t)
    | _, _, _ => none

def parseHex (s : String) : Option Bytes :=
  if s = "-" then some [] else if s.isEmpty then none else parseHexAux s.toList

def hexDigit (n : Nat) : Char :=
  if n < 10 then Char.ofNat ('0'.toNat + n) else Char.ofNat ('a'.toNat + n - 10)

def toHex (b : Bytes) : String :=
  if b.isEmpty then "-" else String.ofList (b.flatMap fun x => [hexDigit (x / 16 % 16), hexDigit (x % 16)])

structure St where
  db : DB := {}
  files : ZChain.BlockStore.Files String := []

def showOpen : OpenRes → String
  | .ok => "ok" | .err => "err" | .panic => "panic"

def showFile : Option Bytes → String
  | none => "absent"
  | some b => "file " ++ toHex b

def dbStep (d : DB) (ws : List String) : DB × String :=
  match ws with
  | ["new", kl, c] =>
    match kl.toNat?, c with
    | some k, "0" => if k ≤ 127 then (DB.create k false, "ok") else (d, "bad-op")
    | some k, "1" => if k ≤ 127 then (DB.create k true, "ok") else (d, "bad-op")
    | _, _ => (d, "bad-op")
  | ["recreate", kl, c] =>
    -- a retry after a crash: NewBlockDB + Create over the files that are already there
    if d.phase ≠ .closed then (d, "bad-op") else
    match kl.toNat?, c with
    | some k, "0" => if k ≤ 127 then (d.recreate k false, "ok") else (d, "bad-op")
    | some k, "1" => if k ≤ 127 then (d.recreate k true, "ok") else (d, "bad-op")
    | _, _ => (d, "bad-op")
  | ["write", k, c, s] =>
    if d.phase ≠ .creating then (d, "bad-op") else
    match parseHex k, parseHex c, parseHex s with
    | some k, some c, some s =>
      -- the recorded stored bytes of an uncompressed database are the content itself
      if !d.compress && c ≠ s then (d, "codec-mismatch") else (d.write k c s, "ok")
    | _, _, _ => (d, "bad-op")
  | ["save"] => if d.phase ≠ .creating then (d, "bad-op") else (d.save, "ok")
  | ["open"] => if d.phase ≠ .closed then (d, "bad-op") else let (d', r) := d.openFixed; (d', showOpen r)
  | ["openmap"] => if d.phase ≠ .closed then (d, "bad-op") else let (d', r) := d.openMap; (d', showOpen r)
  | ["close"] => if d.phase ≠ .opened then (d, "bad-op") else ({ d with phase := .closed }, "ok")
  | ["read", k] =>
    if d.phase ≠ .opened then (d, "bad-op") else
    match parseHex k with
    | none => (d, "bad-op")
    | some k =>
      let d' := { d with atStart := false }
      match d.read k with
      | .data c => (d', "rec " ++ toHex c)
      | .notFound => (d', "notfound")
      | .hang => (d', "hang")
      | .err => (d', "err")
      | .panic => (d', "panic")
  | ["readall"] =>
    if d.phase ≠ .opened || !d.atStart then (d, "bad-op") else
    let d' := { d with atStart := false }
    match d.readAll with
    | .ok rs => (d', " ".intercalate ("recs" :: rs.map toHex))
    | .err => (d', "err")
    | .panic => (d', "panic")
  | ["keys"] =>
    if d.phase ≠ .opened then (d, "bad-op") else (d, " ".intercalate ("keys" :: d.keys.map toHex))
  | ["idx"] => if d.phase = .none then (d, "bad-op") else (d, showFile d.idx)
  | ["dat"] => if d.phase = .none then (d, "bad-op") else (d, showFile (some d.dat))
  | ["trunc", which, n] =>
    if d.phase ≠ .closed then (d, "bad-op") else
    match n.toNat? with
    | none => (d, "bad-op")
    | some n =>
      if n > 1048576 then (d, "bad-op")
      else if which = "dat" then ({ d with dat := truncTo d.dat n }, "ok")
      else if which = "idx" then
        match d.idx with
        | none => (d, "err")
        | some f => ({ d with idx := some (truncTo f n) }, "ok")
      else (d, "bad-op")
  | ["rmidx"] =>
    if d.phase ≠ .closed then (d, "bad-op") else
    match d.idx with
    | none => (d, "err")
    | some _ => ({ d with idx := none }, "ok")
  | _ => (d, "bad-op")

def specId (ws : List String) : String := ":".intercalate ws

def storeStep (fs : ZChain.BlockStore.Files String) (ws : List String) : ZChain.BlockStore.Files String × String :=
  match ws with
  | ["bnew"] => ([], "ok")
  | ["bwrite", h, mb, al, seed, nt] =>
    match seed.toNat?, nt.toNat? with
    | some _, some n =>
      if n > 500 || (al ≠ "0" && al ≠ "1") || (mb = "-" && al = "1") then (fs, "bad-op") else
      let alias := if al = "1" then some mb.toList else none
      let (fs', ok) := ZChain.BlockStore.write fs h.toList (specId [h, mb, al, seed, nt]) alias
      (fs', if ok then "ok" else "err")
    | _, _ => (fs, "bad-op")
  | ["bread", h] =>
    match ZChain.BlockStore.read fs h.toList with
    | some id => (fs, "blk " ++ id)
    | none => (fs, "err")
  | ["bcrash", h] =>
    -- a torn block file reads as an error or as the same block (codec prefix-safety, checked on the real codec)
    match ZChain.BlockStore.read fs h.toList with
    | some _ => (fs, "crash-safe")
    | none => (fs, "err")
  | _ => (fs, "bad-op")

def step (s : St) (ws : List String) : St × String :=
  match ws with
  | [] => (s, "bad-op")
  | w :: _ =>
    if w.startsWith "b" then
      let (f, o) := storeStep s.files ws
      ({ s with files := f }, o)
    else
      let (d, o) := dbStep s.db ws
      ({ s with db := d }, o)

def run : IO Unit := ZChain.Drv.runLoop step {}

end ZChain.Drv.C26

def main : IO Unit := ZChain.Drv.C26.run
