import ZChain.Drv.Util
import ZChain.Model.HardFork
/-! Line driver for the hard-fork gate (C43).
`new` | `newbroken` | `record <name> <round>` | `junk <name>` | `round <name>` |
`with <name> <blockRound> <ok|err> <ok|err>` -/
namespace ZChain.Drv.C43
open ZChain.HardFork

def inInt64 (v : Int) : Bool := -9223372036854775808 ≤ v ∧ v ≤ 9223372036854775807

def showErr : Option Err → String
  | none => "ok"
  | some .valueNotPresent => "value-not-present"
  | some .nodeNotFound => "node-not-found"
  | some .other => "error"

def parseRes (s : String) : Option Bool :=
  if s = "ok" then some false else if s = "err" then some true else none

def step (s : St) (ws : List String) : St × String :=
  match ws with
  | ["new"] => ({ broken := false, forks := [] }, "ok")
  | ["newbroken"] => ({ broken := true, forks := [] }, "ok")
  | ["record", name, r] => match r.toInt? with
    | some r => if inInt64 r ∧ ¬ s.broken then (record s name (.present r), "ok") else (s, "bad-op")
    | none => (s, "bad-op")
  | ["junk", name] => if s.broken then (s, "bad-op") else (record s name .otherErr, "ok")
  | ["round", name] =>
    let (r, e) := getRoundByName (lookup s name)
    (s, s!"round {r} {showErr e}")
  | ["with", name, br, b, a] => match br.toInt?, parseRes b, parseRes a with
    | some br, some b, some a =>
      if inInt64 br then
        let (ran, e) := withActivation (lookup s name) br b a
        (s, (match ran with | .before => "before" | .after => "after" | .neither => "neither") ++
            (if e then " err" else " ok"))
      else (s, "bad-op")
    | _, _, _ => (s, "bad-op")
  | _ => (s, "bad-op")

def run : IO Unit := ZChain.Drv.runLoop step { broken := false, forks := [] }

end ZChain.Drv.C43

def main : IO Unit := ZChain.Drv.C43.run
