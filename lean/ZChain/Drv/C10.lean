import ZChain.Drv.Util
import ZChain.Base.F64Line
import ZChain.Model.StakePool
/-! Line driver for the stake-pool reward model (C10) — also answers the `f64.*` / `coin.*` lines of
`Base/F64Line.lean`, so the F64/Coin tie runs inside every C10 check.

`sp <minStake> <ratio hex16> <killed 0|1> <spReward> <bal:reward>*`   → `ok`   (pools in ascending id order)
`dist <value>`                                                        → result
`randn <value> <n> <i,j,…|-> <seed> <old|new>`  (indices = what the real seeded `rand.Perm` selects; seed/fork are for the Go side) → result
`dump`                                                                → `state <spReward> p <reward>*`
result: `nothing` | `moved <spReward> p <pool reward>* u <upd reward> d <upd delegate reward>*` | `err <class>` -/
namespace ZChain.Drv.C10
open ZChain ZChain.StakePool

def parsePool (s : String) : Option DP :=
  match s.splitOn ":" with
  | [b, r] => match F64Line.u64? b, F64Line.u64? r with
    | some b, some r => some ⟨b, r⟩
    | _, _ => none
  | _ => none

def allSome {α} : List (Option α) → Option (List α)
  | [] => some []
  | none :: _ => none
  | some a :: rest => (allSome rest).map (a :: ·)

def parseIdxs (s : String) : Option (List Nat) :=
  if s = "-" then some [] else allSome ((s.splitOn ",").map String.toNat?)

def showRes (sp : SP) : Except Err (SP × Option Upd) → SP × String
  | .error e => (sp, "err " ++ e.tag)
  | .ok (sp', none) => (sp', "nothing")
  | .ok (sp', some u) =>
    (sp', s!"moved {sp'.reward} p {natList (sp'.pools.map (·.reward))} u {u.reward} d {natList u.dr}")

def stepSP (sp : SP) (ws : List String) : SP × String :=
  match ws with
  | "sp" :: ms :: ratio :: k :: r :: pools =>
    match F64Line.u64? ms, F64.ofHex? ratio, F64Line.u64? r, allSome (pools.map parsePool) with
    | some ms, some ratio, some r, some ps =>
      if k = "0" ∨ k = "1" then ({ pools := ps, reward := r, minStake := ms, ratio := ratio, killed := k = "1" }, "ok")
      else (sp, "bad-op")
    | _, _, _, _ => (sp, "bad-op")
  | ["dist", v] => match F64Line.u64? v with
    | some v => showRes sp (distributeRewards sp v)
    | none => (sp, "bad-op")
  | ["randn", v, n, idxs, _seed, _fork] => match F64Line.u64? v, n.toNat?, parseIdxs idxs with
    | some v, some n, some idxs =>
      -- the indices must be distinct positions of the ordered pool list (what `rand.Perm` yields)
      if idxs.all (· < sp.pools.length) ∧ idxs.eraseDups.length = idxs.length ∧
         (sp.pools.length ≤ n ∨ idxs.length = n) then
        showRes sp (distributeRewardsRandN sp v n idxs)
      else (sp, "bad-op")
    | _, _, _ => (sp, "bad-op")
  | ["dump"] => (sp, s!"state {sp.reward} p {natList (sp.pools.map (·.reward))}")
  | _ => (sp, "bad-op")

def emptySP : SP := { pools := [], reward := 0, minStake := 0, ratio := F64.zero, killed := false }

/-- state: `none` until the first well-formed `sp` line of the case. -/
def step (st : Option SP) (ws : List String) : Option SP × String :=
  match F64Line.answer ws with
  | some a => (st, a)
  | none =>
    match st, ws with
    | _, "sp" :: _ =>   -- (re)initialisation; a malformed `sp` line leaves NO state
      let (sp', o) := stepSP emptySP ws
      if o = "ok" then (some sp', o) else (none, o)
    | none, _ => (none, "bad-op")
    | some sp, _ =>
      let (sp', o) := stepSP sp ws
      (some sp', o)

def run : IO Unit := ZChain.Drv.runLoop step none

end ZChain.Drv.C10

def main : IO Unit := ZChain.Drv.C10.run
