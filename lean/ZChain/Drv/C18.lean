import ZChain.Drv.Util
import ZChain.Model.ZcnLine
/-! Line driver for C18 (bridge mints): the bridge-contract model `Model/Zcn.lean` (code as it is:
`strict := true`) over the protocol of `Model/ZcnLine.lean`
(`init …` | `mint …` | `burn …` | `addauth …` | `delauth …`). -/
namespace ZChain.Drv.C18

def run : IO Unit := ZChain.Drv.runLoop ZChain.ZcnLine.step ({} : ZChain.ZcnLine.DS)

end ZChain.Drv.C18

def main : IO Unit := ZChain.Drv.C18.run
