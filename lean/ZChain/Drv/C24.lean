import ZChain.Drv.Util
import ZChain.Model.FreeStorage
/-! Line driver for the free-storage model (C24). Operation lines: see `harness/cmd/c24/ops.go`.
ids: client j ↦ j+1 (key index j), assigner k ↦ 51+k (key index 50+k), blobber i ↦ 101+i, the contract owner ↦ 99,
the unknown assigner `x` ↦ 98. -/
namespace ZChain.Drv.C24
open ZChain ZChain.FreeStorage ZChain.Alg

def nBlobbers : Nat := 3
def nClients : Nat := 4
def nAssigners : Nat := 3
def ownerId : Nat := 99

def skOf (k : Nat) : Fr := Fr.pow ⟨5⟩ (k + 11)
def validKey (k : Nat) : Bool := k < nClients || (50 ≤ k && k < 50 + nAssigners)

def hmFr (l : List Int) : Fr :=
  let code := l.foldl (fun acc x => (acc * 36893488147419103231 + (x % 18446744073709551616).toNat + 1) % r) 7
  Fr.pow ⟨3⟩ (code + 2)

def crypto : Crypto Fr :=
  { pkOf := fun k => if validKey k then some (skOf k) else none
    Hm := hmFr }

/-- `newAllocationRequestInternal` finds enough blobbers: at least data+parity = 2 names, all registered, no repeats. -/
def blobbersOk (l : List Nat) : Bool := decide (2 ≤ l.length) && l.all (fun b => 101 ≤ b && b < 101 + nBlobbers) && decide l.Nodup

def cid (j : Nat) : Nat := j + 1
def asgId (k : Nat) : Nat := 51 + k
def bid (i : Nat) : Nat := 101 + i

def idx? (s : String) (n : Nat) : Option Nat :=
  if s.length ≤ 3 && s.length > 0 && s.all Char.isDigit then
    match s.toNat? with
    | some v => if v < n then some v else none
    | none => none
  else none

def nat? (s : String) : Option Nat :=
  if s.length ≤ 20 && s.length > 0 && s.all Char.isDigit then
    match s.toNat? with
    | some v => if v < 18446744073709551616 then some v else none
    | none => none
  else none

def int? (s : String) : Option Int :=
  if s.startsWith "+" || s == "-0" then none
  else match s.toInt? with
    | some v => if -9223372036854775808 ≤ v ∧ v < 9223372036854775808 then some v else none
    | none => none

/-- a JSON number without exponent, ≤ 15 significant digits, no negative zero (same rule as the Go side). -/
def dec? (s : String) : Option Dec :=
  let neg := s.startsWith "-"
  let t := if neg then (s.drop 1).toString else s
  let parts := t.splitOn "."
  let mk (ip fp : String) (hasDot : Bool) : Option Dec :=
    if ip.isEmpty || (hasDot && fp.isEmpty) || (ip.length > 1 && ip.startsWith "0") then none
    else
      let digits := ip ++ fp
      if !(digits.all Char.isDigit) then none
      else
        let sig := (digits.dropWhile (· == '0')).toString
        if sig.length > 15 || digits.length > 40 then none
        else if neg && sig.isEmpty then none
        else match digits.toNat? with
          | some n => some ⟨neg, n, fp.length⟩
          | none => none
  match parts with
  | [ip] => mk ip "" false
  | [ip, fp] => mk ip fp true
  | _ => none

def list? (s : String) : Option (List Nat) :=
  if s == "-" then some [] else (s.splitOn ",").mapM (fun x => (idx? x 9).map bid)

/-- `a<k>` | `c<j>` ↦ key index. -/
def signer? (s : String) : Option Nat :=
  if s.startsWith "a" then (idx? (s.drop 1).toString nAssigners).map (· + 50)
  else if s.startsWith "c" then idx? (s.drop 1).toString nClients
  else none

def keyName (k : Nat) : String :=
  if k < nClients then s!"c{k}" else if 50 ≤ k && k < 50 + nAssigners then s!"a{k - 50}" else "bad"

def errStr : Err → String
  | .recipient => "recipient" | .noAssigner => "no-assigner" | .amount => "amount" | .sig => "sig" | .total => "total"
  | .individual => "individual" | .nonce => "nonce" | .overflow => "overflow" | .conv => "conv" | .blobbers => "blobbers"
  | .ownerBalance => "owner-balance" | .funding => "funding" | .unauthorized => "unauthorized" | .limitConv => "limit-conv"
  | .maxTotal => "max-total" | .maxIndividual => "max-individual"

def obsAs (s : St) (name : Nat) : String :=
  match aGet s.assigners name with
  | none => "as=-"
  | some a => s!"as={keyName a.pk}:{a.indLimit}:{a.totLimit}:{a.redeemed}:[{",".intercalate (a.nonces.map toString)}]"

def obsW (s : St) : String := s!"ow={(aGet s.wallets s.cfg.owner).getD 0} sc={s.scWallet}"

def obsP (s : St) (c : Nat) : String :=
  match aGet s.pools c with
  | none => "rp=-"
  | some b => s!"rp={b}"

def obsA (s : St) : String :=
  match s.allocs.getLast? with
  | none => "na=0 last=-"
  | some (o, w) => s!"na={s.allocs.length} last={o - 1}:{w}"

def initSt : St :=
  { cfg := { owner := ownerId, maxInd := 0, maxTot := 0, readFraction := F64.zero, allocCost := 0 }
    assigners := [], wallets := [], scWallet := 0, pools := [], allocs := [] }

def step (s : St) (ws : List String) : St × String :=
  let bad := (s, "bad-op")
  match ws with
  | ["init", _, frac, funds, maxInd, maxTot, cost] =>
    match nat? frac, nat? funds, nat? maxInd, nat? maxTot, nat? cost with
    | some frac, some funds, some maxInd, some maxTot, some cost =>
      if frac > 1000 then (initSt, "bad-op")
      else
        let s' : St :=
          { cfg := { owner := ownerId, maxInd := maxInd, maxTot := maxTot
                     readFraction := F64.div (F64.ofNat frac) (F64.ofNat 1000), allocCost := cost }
            assigners := [], wallets := [(ownerId, funds)], scWallet := 3000000000000, pools := [], allocs := [] }
        (s', "ok " ++ obsW s')
    | _, _, _, _, _ => (initSt, "bad-op")
  | ["addas", sender, name, pk, ind, tot] =>
    let snd : Option Nat := if sender == "o" then some ownerId
      else if sender.startsWith "c" then (idx? (sender.drop 1).toString nClients).map cid else none
    let pkIdx : Option Nat := if pk == "bad" then some 999 else signer? pk
    match snd, idx? name nAssigners, pkIdx, dec? ind, dec? tot with
    | some snd, some name, some pkIdx, some ind, some tot =>
      if s.cfg.maxTot = 0 then bad
      else match addAssigner s snd (asgId name) pkIdx ind tot with
        | .ok s' => (s', "ok " ++ obsAs s' (asgId name))
        | .error e => (s, errStr e ++ " " ++ obsAs s (asgId name))
    | _, _, _, _, _ => bad
  | ["raw", k] => if s.cfg.maxTot ≠ 0 && k ∈ ["array", "badmarker", "nomarker"] then (s, "malformed") else bad
  | ["free", sender, asg, rec, tok, nonce, blobs, signer, tk, tv] =>
    let snd : Option Nat := if sender.startsWith "c" then (idx? (sender.drop 1).toString nClients).map cid else none
    let asgOf (x : String) : Option Nat := if x == "x" then some 98 else (idx? x nAssigners).map asgId
    match snd, asgOf asg, idx? rec nClients, dec? tok, int? nonce, list? blobs, signer? signer with
    | some snd, some asg, some rec, some tok, some nonce, some blobs, some signer =>
      if s.cfg.maxTot = 0 then bad
      else
        let m0 : Marker Fr := { assigner := asg, recipient := cid rec, amount := tok, nonce := nonce, sig := none, blobbers := blobs }
        let m0 := { m0 with sig := (markerMsg m0).map (fun l => sign (skOf signer) (hmFr l)) }
        let tm : Option (Marker Fr) := match tk with
          | "none" => if tv == "0" then some m0 else none
          | "tokens" => (dec? tv).map (fun d => { m0 with amount := d })
          | "nonce" => (int? tv).map (fun n => { m0 with nonce := n })
          | "recipient" => (idx? tv nClients).map (fun j => { m0 with recipient := cid j })
          | "blobbers" => (list? tv).map (fun l => { m0 with blobbers := l })
          | "assigner" => (asgOf tv).map (fun a => { m0 with assigner := a })
          | "sigbad" => if tv == "0" then some { m0 with sig := none } else none
          | "nosig" => if tv == "0" then some { m0 with sig := none } else none
          | _ => none
        match tm with
        | none => bad
        | some m =>
          let (s', cls) := match freeAlloc crypto blobbersOk s snd m with
            | .ok s' => (s', "ok")
            | .error e => (s, errStr e)
          (s', s!"{cls} {obsAs s' m.assigner} {obsW s'} {obsP s' m.recipient} {obsA s'}")
    | _, _, _, _, _, _, _ => bad
  | _ => bad

def run : IO Unit := ZChain.Drv.runLoop step initSt

end ZChain.Drv.C24

def main : IO Unit := ZChain.Drv.C24.run
