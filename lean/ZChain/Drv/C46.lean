import ZChain.Drv.Util
import ZChain.Model.OrderBuffer
/-! Line driver for the order-buffer model (C46).
`new <max>` | `add <round> <data>` | `first` | `pop` | `dump` -/
namespace ZChain.Drv.C46
open ZChain.OrderBuffer

def showItem (o : Option Item) : String :=
  match o with
  | none => "none"
  | some it => s!"item {it.round} {it.data}"

def step (b : OB) (ws : List String) : OB × String :=
  match ws with
  | ["new", m] => match m.toNat? with
    | some m => (new m, "ok")
    | none => (b, "bad-op")
  | ["add", r, d] => match r.toInt?, d.toNat? with
    | some r, some d => (add b r d, "true")
    | _, _ => (b, "bad-op")
  | ["first"] => (b, showItem (first b))
  | ["pop"] => let (b', o) := pop b; (b', showItem o)
  | ["dump"] => (b, "buf " ++ " ".intercalate (b.buf.map fun it => s!"{it.round}:{it.data}"))
  | _ => (b, "bad-op")

def run : IO Unit := ZChain.Drv.runLoop step (new 0)

end ZChain.Drv.C46

def main : IO Unit := ZChain.Drv.C46.run
