import ZChain.Drv.Util
import ZChain.Model.AlgWorld
/-! Line driver for C34 (threshold key generation and signing): the operations of `Model/AlgWorld`
(DKG parties, client threshold keys, split keys, ShareOrSigns) over `Alg.Fr`. -/
namespace ZChain.Drv.C34
open ZChain.AlgWorld

def step (w : World) (ws : List String) : World × String :=
  match ZChain.AlgWorld.step w ws with
  | some r => r
  | none => (w, "bad-op")

def run : IO Unit := ZChain.Drv.runLoop step ({} : World)

end ZChain.Drv.C34

def main : IO Unit := ZChain.Drv.C34.run
