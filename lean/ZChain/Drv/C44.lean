import ZChain.Drv.Util
import ZChain.Model.LockSet
import ZChain.Generated.C44
/-! Line driver for the lockset model (C44) over the GENERATED table of the current source.
`init` | `pair <location> <fnA> <fnB>` → `racy` | `sync` | `none` | `slots <site>` → `disjoint` | `shared` | `none`
(ownership by index, `IndexOwn.siteVerdict`) (the verdict `LockSet.verdictOn` on the effective
accesses of the table's contexts; unordered in the two functions). -/
namespace ZChain.Drv.C44
open ZChain.LockSet

abbrev St := List (Ctx × Access)

def showV : Verdict → String
  | .racy => "racy"
  | .sync => "sync"
  | .none => "none"

/-- unordered verdict: racy if either orientation has a conflicting pair -/
def both (es : St) (loc f g : Nat) : Verdict :=
  match verdictOn es loc f g, verdictOn es loc g f with
  | .racy, _ => .racy
  | _, .racy => .racy
  | .sync, _ => .sync
  | _, .sync => .sync
  | _, _ => .none

def step (es : St) (ws : List String) : St × String :=
  match ws with
  | ["init"] =>
    -- the table is a constant: its effective accesses are computed once per process
    ((if es.isEmpty then effs ZChain.Generated.C44.table ZChain.Generated.C44.contexts else es), "ok")
  | ["pair", loc, f, g] => (es, showV (both es (encodeName loc) (encodeName f) (encodeName g)))
  | ["slots", site] => (es, ZChain.IndexOwn.siteVerdict ZChain.Generated.C44.stridedSites (encodeName site))
  | _ => (es, "bad-op")

def run : IO Unit := ZChain.Drv.runLoop step []

end ZChain.Drv.C44

def main : IO Unit := ZChain.Drv.C44.run
