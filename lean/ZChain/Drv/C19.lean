import ZChain.Drv.Util
import ZChain.Model.ZcnLine
/-! Line driver for C19 (bridge burns): the bridge-contract model `Model/Zcn.lean` over the protocol of
`Model/ZcnLine.lean` (`init …` | `burn <sender> <value> <fee> <nonce> a<addr>|e<v>|m<v>` | …). -/
namespace ZChain.Drv.C19

def run : IO Unit := ZChain.Drv.runLoop ZChain.ZcnLine.step ({} : ZChain.ZcnLine.DS)

end ZChain.Drv.C19

def main : IO Unit := ZChain.Drv.C19.run
