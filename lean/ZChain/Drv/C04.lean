import ZChain.Drv.Util
import ZChain.Model.Ledger
import ZChain.Model.FreeMarkers
/-! Line driver for C04's correspondence on REAL contracts (`harness/cmd/c04`): the engine model
`Model/Ledger.lean` fed with the transfers the real contract queued. Same line format and same answers as the
LEDGER driver (whose parser is repeated here because a driver file carries its own `main`), except that
`init` carries one more token after the fee switch (the hard-fork profile of the real world, ignored here) and a
`txn` line carries one more, ignored, token: the description of the real contract call the line was recorded from
(`txn <typ> <sender> <to> <toValid> <value> <fee> <nonce> <res> <payload>`).
`fsa <assigner> <key> <individual> <total> <byOwner> <ref>` and `frm <assigner> <signKey> <intact> <recipientOk> <coins> <nonce> <later> <ref>`
(`ref` = the transaction the line shadows, ignored)
run the free-storage marker book (`Model/FreeMarkers.lean`) and answer its verdict.
Line driver for the engine model.
`init <feeOn 0|1> <id:bal:nonce>*`
`txn <send|data|sc|invalid> <sender> <to> <toValid 0|1> <value> <fee> <nonce> <res>`
   res = `-` | `int` | `chg` | `chg|<ops>` | `ok` | `ok|<ops>`; ops separated by `;`:
   `t,src,dst,amt` (transfer; a destination id may carry the suffix `u` = upper-case spelling) `s,src,dst,amt` (signed transfer) `w,k,v` (write) `d,k` (delete)
answer: `<status> a=<id:bal:nonce,…> s=<k:v,…> tot=<sum> x=0` (every account that has a leaf, both sorted). -/
namespace ZChain.Drv.C04
open ZChain.Ledger

structure DS where
  feeOn : Bool
  st : St
  book : ZChain.FreeMarkers.Book := []

def insertSorted (x : Nat × String) : List (Nat × String) → List (Nat × String)
  | [] => [x]
  | y :: ys => if x.1 ≤ y.1 then x :: y :: ys else y :: insertSorted x ys

def sortByKey (l : List (Nat × String)) : List (Nat × String) := l.foldl (fun acc x => insertSorted x acc) []

def dedupFirst (a : List (Nat × α)) : List (Nat × α) :=
  a.foldl (fun acc p => if acc.any (fun q => q.1 = p.1) then acc else acc ++ [p]) []

def showState (s : St) : String :=
  let accts := dedupFirst s.accts
  let as := sortByKey (accts.map fun p => (p.1, s!"{p.1}:{p.2.balance}:{p.2.nonce}"))
  let ss := sortByKey ((dedupFirst s.store).map fun p => (p.1, s!"{p.1}:{p.2}"))
  "a=" ++ ",".intercalate (as.map (·.2)) ++ " s=" ++ ",".intercalate (ss.map (·.2)) ++ s!" tot={total (dedupFirst s.accts)} x=0"

def parseAcct (w : String) : Option (Id × Acct) :=
  match w.splitOn ":" with
  | [i, b, n] => match i.toNat?, b.toNat?, n.toInt? with
    | some i, some b, some n => some (i, ⟨b, n⟩)
    | _, _, _ => none
  | _ => none

def parseAccts : List String → Option Accts
  | [] => some []
  | w :: ws => match parseAcct w, parseAccts ws with
    | some a, some rest => some (a :: rest)
    | _, _ => none

structure Ops where
  ws : List Write := []
  tr : List Transfer := []
  sg : List Transfer := []

/-- an id token: `7` (canonical spelling) or `7u` (upper-case spelling of the same id). -/
def parseId (w : String) : Option (Nat × Bool) :=
  if w.endsWith "u" then ((w.dropEnd 1).toString.toNat?).map (fun n => (n, false))
  else (w.toNat?).map (fun n => (n, true))

def parseOp (o : Ops) (w : String) : Option Ops :=
  match w.splitOn "," with
  | ["t", a, b, c] => match a.toNat?, parseId b, c.toNat? with
    | some a, some (b, cn), some c => some { o with tr := o.tr ++ [⟨a, b, c, cn, false⟩] }
    | _, _, _ => none
  | ["s", a, b, c] => match a.toNat?, parseId b, c.toNat? with
    | some a, some (b, cn), some c => some { o with sg := o.sg ++ [⟨a, b, c, cn, false⟩] }
    | _, _, _ => none
  | ["w", k, v] => match k.toNat?, v.toNat? with
    | some k, some v => some { o with ws := o.ws ++ [.put k v] }
    | _, _ => none
  | ["d", k] => match k.toNat? with
    | some k => some { o with ws := o.ws ++ [.del k] }
    | none => none
  | _ => none

def parseOps (s : String) : Option Ops :=
  if s = "" then some {} else
  (s.splitOn ";").foldl (fun acc w => match acc with | none => none | some o => parseOp o w) (some {})

def parseRes (s : String) : Option CResult :=
  match s.splitOn "|" with
  | ["-"] => some .internal
  | ["int"] => some .internal
  | ["chg"] => some (.chargeable [] [] [])
  | ["chg", ops] => (parseOps ops).map fun o => .chargeable o.ws o.tr o.sg
  | ["ok"] => some (.ok [] [] [])
  | ["ok", ops] => (parseOps ops).map fun o => .ok o.ws o.tr o.sg
  | _ => none

def parseTyp : String → Option TxnType
  | "send" => some .send | "data" => some .data | "sc" => some .sc | "invalid" => some .invalid | _ => none

def showStatus : Status → String
  | .rejected => "rejected" | .success => "success" | .failed => "failed"

def step (d : DS) (ws : List String) : DS × String :=
  match ws with
  | "init" :: fee :: _profile :: accts =>
    match parseAccts accts with
    | some a => if fee = "0" ∨ fee = "1" then ({ feeOn := fee = "1", st := ⟨a, []⟩, book := [] }, "ok") else (d, "bad-op")
    | none => (d, "bad-op")
  | ["txn", typ, sender, to, tv, value, fee, nonce, res, _payload] =>
    match parseTyp typ, sender.toNat?, parseId to, value.toNat?, fee.toNat?, nonce.toInt?, parseRes res with
    | some typ, some sender, some (to, cn), some value, some fee, some nonce, some r =>
      if tv ≠ "0" ∧ tv ≠ "1" then (d, "bad-op") else
      let t : Txn := { sender, to, toValid := tv = "1", toCanon := cn, value, fee, nonce, typ }
      let (s', st) := ZChain.Ledger.step d.feeOn d.st t r
      ({ d with st := s' }, showStatus st ++ " " ++ showState s')
    | _, _, _, _, _, _, _ => (d, "bad-op")
  -- the free-storage marker book (Model/FreeMarkers.lean); these lines shadow the real transaction before them
  | ["fsa", name, key, individual, total, owner, _ref] =>
    match name.toNat?, key.toNat?, individual.toNat?, total.toNat? with
    | some n, some k, some i, some t =>
      if owner ≠ "0" ∧ owner ≠ "1" then (d, "bad-op") else
      let (b, a) := ZChain.FreeMarkers.register d.book (owner = "1") n k i t
      ({ d with book := b }, match a with
        | .ok => "ok" | .notOwner => "rej-owner" | .totalCap => "rej-total-cap" | .individualCap => "rej-individual-cap")
    | _, _, _, _ => (d, "bad-op")
  | ["frm", name, signKey, intact, recip, coins, nonce, later, _ref] =>
    match name.toNat?, signKey.toNat?, coins.toNat?, nonce.toInt? with
    | some n, some k, some c, some x =>
      if (intact ≠ "0" ∧ intact ≠ "1") ∨ (recip ≠ "0" ∧ recip ≠ "1") ∨ (later ≠ "0" ∧ later ≠ "1") then (d, "bad-op") else
      let (b, a) := ZChain.FreeMarkers.redeem d.book n k (intact = "1") (recip = "1") c x (later = "1")
      ({ d with book := b }, match a with
        | .accept => "accept" | .passedFailedLater => "passed-failed-later" | .notRecipient => "rej-recipient"
        | .unknownAssigner => "rej-unknown-assigner" | .badSignature => "rej-signature" | .overTotal => "rej-total"
        | .overIndividual => "rej-individual" | .nonceUsed => "rej-nonce")
    | _, _, _, _ => (d, "bad-op")
  | _ => (d, "bad-op")

def run : IO Unit := ZChain.Drv.runLoop step { feeOn := true, st := ⟨[], []⟩ }

end ZChain.Drv.C04

def main : IO Unit := ZChain.Drv.C04.run
