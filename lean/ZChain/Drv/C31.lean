import ZChain.Drv.Util
import ZChain.Model.AlgWorld
import ZChain.Model.Notarize
/-! Line driver for C31 (notarization): the crypto world's keys/signatures plus one miner node:
`miners <k>` (one magic block = keys n0..n<k-1>, threshold ceil(66%), blocks in round 1) |
`miners2 <j,…> <j,…> [<r0> <r1>]` (two magic blocks, starting rounds 0 and 100, with the given miner sets; slot 0 = round r0
(default 50), slot 1 = round r1 (default 200); answers which magic block is in force for each: `ok mb=<i0>,<i1>`) |
`block <name> <gen> <h> [slot]` | `attach <name> <who:sigidx[:u],…|->` (`:u` = the signature in upper-case hex) |
`propose <name>` | `know <name>` | `ticket <name> <who>:<sigidx>` | `notarization <name> <who:sigidx,…>` | `nblock <name>` |
`status <name>`. `who` is `n<j>` (miner j) or `x<j>` (a foreign id). The message token of a block's hash is `blk-<name>`. -/
namespace ZChain.Drv.C31
open ZChain.Alg ZChain.AlgWorld ZChain.Notarize

structure St where
  w : World := {}
  nd : Option (Node Fr) := none
  names : List (String × Nat) := []            -- block name ↦ id
  gens : List (String × Nat) := []
  slots : List (String × Nat) := []
  attached : List (String × List (Ticket Fr)) := []
deriving Inhabited

def blockId? (s : St) (n : String) : Option Nat := (s.names.find? (·.1 == n)).map (·.2)
def attachedOf (s : St) (n : String) : List (Ticket Fr) := ((s.attached.find? (·.1 == n)).map (·.2)).getD []

def who? (w : String) : Option Nat :=
  if w.startsWith "n" then (w.drop 1).toString.toNat?
  else if w.startsWith "x" then ((w.drop 1).toString.toNat?).map (· + 1000)
  else none

def ticket? (s : St) (e : String) : Option (Ticket Fr) :=
  match e.splitOn ":" with
  | [w, si] => do
    let v ← who? w
    let σ ← si.toNat?.bind (sig? s.w)
    pure ⟨v, σ, 0⟩
  | [w, si, "u"] => do
    let v ← who? w
    let σ ← si.toNat?.bind (sig? s.w)
    pure ⟨v, σ, 1⟩
  | _ => none

def tickets? (s : St) (es : String) : Option (List (Ticket Fr)) := (splitList es).mapM (ticket? s)

def status (s : St) (nd : Node Fr) (n : String) : String :=
  match blockId? s n with
  | none => "bad-op"
  | some id =>
    let inr := showBool (nd.roundNotarized.contains id)
    match nd.block? id with
    | none => s!"known=false notarized=false inround={inr} tickets=0"
    | some b => s!"known=true notarized={showBool b.notarized} inround={inr} tickets={b.tickets.length}"

def mkBlk (s : St) (n : String) : Option (Blk Fr) := do
  let id ← blockId? s n
  let h ← msg? s.w s!"blk-{n}"
  let g ← (s.gens.find? (·.1 == n)).map (·.2)
  let sl ← (s.slots.find? (·.1 == n)).map (·.2)
  pure { id := id, gen := g, slot := sl, h := h, tickets := attachedOf s n, notarized := false }

def step (s : St) (ws : List String) : St × String :=
  match ws with
  | ["miners", k] => match k.toNat? with
    | some k =>
      match (List.range k).mapM (fun j => key? s.w s!"n{j}") with
      | some sks =>
        if k = 0 then (s, "bad-op") else
        ({ s with nd := some { pks := sks.map pubKey, mbs := [(0, List.range k)], rounds := [1], pct := 66,
                               blocks := [], store := [], roundNotarized := [], complete := [] },
                  names := [], gens := [], slots := [], attached := [] }, "ok")
      | none => (s, "bad-op")
    | none => (s, "bad-op")
  | "miners2" :: l0 :: l1 :: rest => match natList? l0, natList? l1 with
    | some l0, some l1 =>
      let rs : Option (Nat × Nat) := match rest with
        | [] => some (50, 200)
        | [a, b] => match a.toNat?, b.toNat? with
          | some a, some b => some (a, b)
          | _, _ => none
        | _ => none
      let top := (l0 ++ l1).foldl max 0
      match rs, (List.range (top + 1)).mapM (fun j => key? s.w s!"n{j}") with
      | some (r0, r1), some sks =>
        if l0.isEmpty ∨ l1.isEmpty ∨ !l0.contains 0 ∨ l0.eraseDups.length != l0.length ∨ l1.eraseDups.length != l1.length
            ∨ r0 < 2 ∨ r1 ≤ r0 + 1 then (s, "bad-op") else
        let mbs := [(0, l0), (100, l1)]
        ({ s with nd := some { pks := sks.map pubKey, mbs := mbs, rounds := [r0, r1], pct := 66,
                               blocks := [], store := [], roundNotarized := [], complete := [] },
                  names := [], gens := [], slots := [], attached := [] }, s!"ok mb={mbOf mbs r0},{mbOf mbs r1}")
      | _, _ => (s, "bad-op")
    | _, _ => (s, "bad-op")
  | "block" :: n :: g :: h :: rest => match s.nd, g.toNat?, Fr.parse? h with
    | some nd, some g, some h =>
      let sl := match rest with
        | [] => some 0
        | [x] => x.toNat?
        | _ => none
      match sl with
      | some sl =>
        if sl ≥ nd.rounds.length ∨ !(nd.pool sl).contains g ∨ (blockId? s n).isSome then (s, "bad-op") else
        ({ s with names := s.names ++ [(n, s.names.length)], gens := s.gens ++ [(n, g)], slots := s.slots ++ [(n, sl)],
                  w := { s.w with msgs := (s.w.msgs.filter (·.1 != s!"blk-{n}")) ++ [(s!"blk-{n}", h)] } }, "ok")
      | none => (s, "bad-op")
    | _, _, _ => (s, "bad-op")
  | ["attach", n, es] => match blockId? s n, tickets? s es with
    | some _, some ts => ({ s with attached := (s.attached.filter (·.1 != n)) ++ [(n, ts)] }, "ok")
    | _, _ => (s, "bad-op")
  | ["propose", n] => match s.nd, mkBlk s n with
    | some nd, some b => let nd' := processVerifyBlock nd b; ({ s with nd := some nd' }, status s nd' n)
    | _, _ => (s, "bad-op")
  | ["know", n] => match s.nd, mkBlk s n with
    | some nd, some b => let nd' := know nd b; ({ s with nd := some nd' }, status s nd' n)
    | _, _ => (s, "bad-op")
  | ["ticket", n, e] => match s.nd, mkBlk s n, ticket? s e with
    | some nd, some b, some t => let nd' := handleTicket nd b.id b.slot b.h t; ({ s with nd := some nd' }, status s nd' n)
    | _, _, _ => (s, "bad-op")
  | ["notarization", n, es] => match s.nd, mkBlk s n, tickets? s es with
    | some nd, some b, some ts =>
      if (nd.block? b.id).isNone ∨ ts.isEmpty then (s, "bad-op")
      else let nd' := handleNotarization nd b.id ts; ({ s with nd := some nd' }, status s nd' n)
    | _, _, _ => (s, "bad-op")
  | ["nblock", n] => match s.nd, mkBlk s n with
    | some nd, some b => let nd' := handleNotarizedBlock nd b; ({ s with nd := some nd' }, status s nd' n)
    | _, _ => (s, "bad-op")
  | ["status", n] => match s.nd with
    | some nd => (s, status s nd n)
    | none => (s, "bad-op")
  | _ =>
    match ZChain.AlgWorld.step s.w ws with
    | some (w, o) => if ws.head? == some "dkg" then ({ w := w }, o) else ({ s with w := w }, o)
    | none => (s, "bad-op")

def run : IO Unit := ZChain.Drv.runLoop step ({} : St)

end ZChain.Drv.C31

def main : IO Unit := ZChain.Drv.C31.run
