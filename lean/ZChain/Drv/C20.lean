import ZChain.Drv.Util
import ZChain.Model.Events
import ZChain.Generated.C20
/-! Line driver for the event-merge model (C20), over the GENERATED merger table.

`block <round> <hash>`                               start a block (resets everything)            → `ok`
`ev <type> <tag> i:<index> <dk> <item>*`             emit one event                               → `ok`
     dk: v (T) | p (*T) | s ([]T) | ps (*[]T) | b (other type) | bs (other slice type) | n (nil)
     item: `F=n<dec>;F=s<text>;F=l<a>,<b>;F=m<k>:<dec>,<k>:<dec>` (fields separated by `;`)
`merge`                                              mergeEvents on the emitted events            → `ok M… ; O…` | `invalid` | `panic`
`handle`                                             the three bridge handlers on the merge result → `bt=… burn=… users=… mint=…`
`rows`                                               the merged events applied in list order to the table stand-ins → `rows <table>:[k:v,…] …`
`process <fail|ok>`                                  ProcessEvents on the emitted events (real worker, transaction, commit or rollback);
                                                     `fail` = the burn_tickets insert fails once          → `err=<0|1> tickets=<n> events=<n>`

Canonical output: payloads of a merged event are printed sorted (Go returns them in map order). -/
namespace ZChain.Drv.C20
open ZChain.Events

structure St where
  round : String := "0"
  hash : String := ""
  evs : List Event := []       -- reversed
  res : Option (Except Err Result) := none
  tickets : Nat := 0      -- rows in burn_tickets committed so far in this case
  dbEvents : Nat := 0     -- rows in events committed so far in this case

def parseVal (s : String) : Option Val :=
  if s.isEmpty then none else
  let body := (s.drop 1).toString
  match s.front with
  | 'n' => body.toNat?.map .num
  | 's' => some (.str body)
  | 'l' => some (.strs (if body.isEmpty then [] else body.splitOn ","))
  | 'm' =>
    if body.isEmpty then some (.nmap []) else
    (body.splitOn ",").foldr (fun kv acc =>
      match acc, kv.splitOn ":" with
      | some (.nmap m), [k, v] => v.toNat?.map fun n => .nmap ((k, n) :: m)
      | _, _ => none) (some (.nmap []))
  | _ => none

def parseItem (s : String) : Option Item :=
  (s.splitOn ";").foldr (fun fv acc =>
    match acc, fv.splitOn "=" with
    | some it, [f, v] => (parseVal v).map fun x => (f, x) :: it
    | _, _ => none) (some [])

def parseItems (ws : List String) : Option (List Item) :=
  ws.foldr (fun w acc => match acc, parseItem w with
    | some l, some it => some (it :: l)
    | _, _ => none) (some [])

def parseDK : String → Option DK
  | "v" => some .val | "p" => some .ptr | "s" => some .slice | "ps" => some .ptrSlice
  | "b" => some .bad | "bs" => some .badSlice | "n" => some .nil
  | _ => none

def showDK : DK → String
  | .val => "v" | .ptr => "p" | .slice => "s" | .ptrSlice => "ps" | .bad => "b" | .badSlice => "bs" | .nil => "n"

def showVal : Val → String
  | .num n => s!"n{n}"
  | .str s => "s" ++ s
  | .strs l => "l" ++ ",".intercalate l
  | .nmap m => "m" ++ ",".intercalate (m.map fun (k, v) => s!"{k}:{v}")

def showItem (it : Item) : String := ";".intercalate (it.map fun (f, v) => f ++ "=" ++ showVal v)

def sortStrs (l : List String) : List String := l.mergeSort (fun a b => decide (a ≤ b))

def showMerged (st : St) (m : Merged) : String :=
  s!"M{m.tag}@{st.round}/{st.hash}[" ++ "|".intercalate (sortStrs (m.items.map showItem)) ++ "]"

def showOther (e : Event) : String :=
  s!"O{e.typ}/{e.tag}/{e.index}/{showDK e.dk}[" ++ "|".intercalate (e.items.map showItem) ++ "]"

def showPairs (l : List (String × Nat)) : String :=
  "[" ++ ",".intercalate (sortStrs (l.map fun (k, v) => s!"{k}:{v}")) ++ "]"

def showResult (st : St) : Except Err Result → String
  | .error .invalid => "invalid"
  | .error .panic => "panic"
  | .ok r => " ".intercalate (["ok"] ++ r.merged.map (showMerged st) ++ [";"] ++ r.others.map showOther)

def wellFormed (dk : DK) (items : List Item) : Bool :=
  match dk with
  | .val | .ptr => items.length == 1
  | .slice | .ptrSlice => true
  | .bad | .badSlice | .nil => items.isEmpty

/-- ids of the authorizer rows the harness creates before running the handlers: every burner and signer the block mentions -/
def knownIds (evs : List Event) : List String :=
  evs.flatMap fun e => e.items.flatMap fun it =>
    if e.tag = Gen.TagAuthorizerBurn then (match getField it "Burner" with | some (.str s) => [s] | _ => [])
    else if e.tag = Gen.TagAddBridgeMint then strsField it "Signers" else []

/-- totals read back from the `authorizers` table: update rows applied to existing ids, non-zero totals only -/
def dbTotals (ids : List String) (rows : List (String × Nat)) : String :=
  let ids := (sortStrs ids).eraseDups
  showPairs (ids.filterMap fun id =>
    let s := (rows.filter (·.1 = id)).foldl (fun a r => a + r.2) 0
    if s = 0 then none else some (id, s))

def handle (evs : List Event) (r : Result) : String :=
  let t := Gen.table
  let ids := knownIds evs
  let bt :=
    match r.merged.find? (·.tag = Gen.TagAddBurnTicket) with
    | none => "none"
    | some m =>
      match burnTicketRows t m.items with
      | .error _ => "invalid"
      | .ok rows => s!"rows:{rows.length}:" ++ (if rows.all (fun x => m.items.contains x) then "in" else "out")
  let (burn, dbburn) := match r.merged.find? (·.tag = Gen.TagAuthorizerBurn) with
    | none => ("none", "[]")
    | some m => (showPairs (authorizerBurnRows m.items), dbTotals ids (authorizerBurnRows m.items))
  let (users, mint, dbmint) := match r.merged.find? (·.tag = Gen.TagAddBridgeMint) with
    | none => ("none", "none", "[]")
    | some m =>
      if bridgeMintFails m.items then ("[]", "err", "[]") else
      let (u, mi) := bridgeMintRows t m.items; (showPairs u, showPairs mi, dbTotals ids mi)
  s!"bt={bt} burn={burn} users={users} mint={mint} dbburn={dbburn} dbmint={dbmint}"

/-- tables of the stand-in (one value column each, and the one update tag that writes that column): (id, insert tag, update tags, key field, value field, additive update: tag and map field) -/
structure TblSpec where
  id : Nat
  ins : Nat
  upds : List Nat
  key : String
  val : String
  add : Option (Nat × String) := none

def tblSpecs : List TblSpec := [
  { id := 1, ins := Gen.TagInsertReadpool, upds := [Gen.TagUpdateReadpool], key := "UserID", val := "Balance" },
  { id := 2, ins := Gen.TagAddBlobber, upds := [Gen.TagUpdateBlobberTotalStake], key := "ID", val := "TotalStake" },
  { id := 3, ins := Gen.TagAddAuthorizer, upds := [Gen.TagUpdateAuthorizerTotalStake], key := "ID", val := "TotalStake" },
  { id := 4, ins := Gen.TagAddMiner, upds := [Gen.TagUpdateMinerTotalStake], key := "ID", val := "TotalStake" },
  { id := 5, ins := Gen.TagAddSharder, upds := [Gen.TagUpdateSharderTotalStake], key := "ID", val := "TotalStake" },
  { id := 6, ins := Gen.TagAddOrOverwiteValidator, upds := [Gen.TagUpdateValidatorStakeTotal], key := "ID", val := "TotalStake" },
  { id := 7, ins := Gen.TagAddAllocation, upds := [Gen.TagUpdateAllocation], key := "AllocationID", val := "Size" },
  { id := 10, ins := Gen.TagAddDelegatePool, upds := [], key := "PoolID", val := "Reward", add := some (Gen.TagStakePoolReward, "DelegateRewards") }]

def mapField (it : Item) (f : String) : List (String × Nat) :=
  match getField it f with
  | some (.nmap m) => m
  | _ => []

/-- the row operations of one table, in the order the merged events are applied -/
def rowOps (sp : TblSpec) (merged : List Merged) : List RowOp :=
  merged.flatMap fun m =>
    if m.tag = sp.ins then m.items.map fun it => .insert (strField it sp.key) (numField it sp.val)
    else if sp.upds.contains m.tag then m.items.map fun it => .update (strField it sp.key) (numField it sp.val)
    else match sp.add with
      | some (t, f) => if m.tag = t then m.items.flatMap fun it => (mapField it f).map fun (k, v) => .add k v else []
      | none => []

def showRows (merged : List Merged) : String :=
  " ".intercalate ("rows" :: tblSpecs.filterMap fun sp =>
    let tbl := applyRows [] (rowOps sp merged)
    if tbl.isEmpty then none else some (s!"{sp.id}:" ++ showPairs tbl))

def step (st : St) (ws : List String) : St × String :=
  match ws with
  | ["block", r, h] => ({ round := r, hash := h }, "ok")
  | "ev" :: typ :: tag :: idx :: dk :: items =>
    match typ.toNat?, tag.toNat?, parseDK dk, parseItems items with
    | some typ, some tag, some dk, some items =>
      if idx.startsWith "i:" && wellFormed dk items then
        ({ st with evs := ⟨typ, tag, (idx.drop 2).toString, dk, items⟩ :: st.evs, res := none }, "ok")
      else (st, "bad-op")
    | _, _, _, _ => (st, "bad-op")
  | ["merge"] =>
    let r := mergeEvents Gen.table st.evs.reverse
    ({ st with res := some r }, showResult st r)
  | ["rows"] =>
    match mergeEvents Gen.table st.evs.reverse with
    | .ok r => (st, showRows r.merged)
    | .error _ => (st, "nomerge")
  | ["process", mode] =>
    if mode ≠ "fail" ∧ mode ≠ "ok" then (st, "bad-op") else
    match mergeEvents Gen.table st.evs.reverse with
    | .error _ => (st, s!"err=1 tickets={st.tickets} events={st.dbEvents}")
    | .ok r =>
      let fault := mode = "fail"
      let bt := r.merged.find? (·.tag = Gen.TagAddBurnTicket)
      let btRows : Option Nat := match bt with
        | none => some 0
        | some m => match burnTicketRows Gen.table m.items with
          | .ok rows => some rows.length
          | .error _ => none
      let mintFails := match r.merged.find? (·.tag = Gen.TagAddBridgeMint) with
        | some m => bridgeMintFails m.items
        | none => false
      let insertAttempted := bt.isSome && btRows.isSome
      let handlerFails := (fault && insertAttempted) || btRows.isNone || mintFails
      if handlerFails && errorsPropagate Gen.errorFlow then
        (st, s!"err=1 tickets={st.tickets} events={st.dbEvents}")
      else
        let stored := if fault then 0 else btRows.getD 0
        let st' := { st with tickets := st.tickets + stored, dbEvents := st.dbEvents + r.merged.length + r.others.length }
        (st', s!"err=0 tickets={st'.tickets} events={st'.dbEvents}")
  | ["handle"] =>
    match st.res with
    | some (.ok r) => (st, handle st.evs r)
    | _ => (st, "nomerge")
  | _ => (st, "bad-op")

def run : IO Unit := ZChain.Drv.runLoop step {}

end ZChain.Drv.C20

def main : IO Unit := ZChain.Drv.C20.run
