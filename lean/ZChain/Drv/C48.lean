import ZChain.Drv.Util
import ZChain.Model.Governance
/-! Line driver for the governance model (C48).

```
init                                  reset everything
load <c> name=T:value ... $name=i:n   set configuration fields / cost entries of contract c (T ∈ i f b s)
loadg <version> k=v ...               set the global-settings node
fork <0|1>                            demeter fork active?
update <c> <caller> k=v ... | !bad    updateSettings / updateConfig / UpdateGlobalConfig of contract c
updateg <caller> k=v ... | !bad       minersc update_globals
commit                                storagesc commit_settings_changes
dump <c> | dumpg | staged             canonical dumps
inforce <name> L<local>               GlobalSettings.GetXxx(name) with node-local raw value `local`
taint ...                             (alias cases) the state is no longer predictable: every later answer is `tainted`
```
c ∈ miner storage faucet vesting zcn. Keys/values are %XX-escaped bytes. Map iteration order = the canonical
(sorted) order; for a key error the answer lists *all* offending keys (the first error in iteration order is one
of them — `Props/C48 first_error_mem_badKeys` / `every_bad_key_reachable`). -/
namespace ZChain.Drv.C48
open ZChain.Gov

structure W where
  miner : Cfg := ⟨[], []⟩
  storage : Cfg := ⟨[], []⟩
  faucet : Cfg := ⟨[], []⟩
  vesting : Cfg := ⟨[], []⟩
  zcn : Cfg := ⟨[], []⟩
  staged : SMap Str := []
  g : Globals := ⟨0, []⟩
  demeter : Bool := false
  tainted : Bool := false
  loaded : List String := []     -- contracts (and "g") whose genesis values were given by `load`

def hexVal (c : Char) : Option Nat :=
  if '0' ≤ c ∧ c ≤ '9' then some (c.toNat - 48)
  else if 'A' ≤ c ∧ c ≤ 'F' then some (c.toNat - 55)
  else if 'a' ≤ c ∧ c ≤ 'f' then some (c.toNat - 87)
  else none

/-- %XX-unescape into bytes; `none` on a malformed escape -/
def unesc : List Char → Option Str
  | [] => some []
  | '%' :: a :: b :: r =>
    match hexVal a, hexVal b, unesc r with
    | some x, some y, some t => some ((x * 16 + y) :: t)
    | _, _, _ => none
  | '%' :: _ => none
  | c :: r => if c.toNat < 128 then (unesc r).map (c.toNat :: ·) else none

def hexDigit (n : Nat) : Char := if n < 10 then Char.ofNat (48 + n) else Char.ofNat (55 + n)

def needEsc (c : Nat) : Bool := c ≤ 32 || c ≥ 127 || c == 37 || c == 61 || c == 44 || c == 58 || c == 33 || c == 36

def esc (s : Str) : String :=
  String.ofList (s.flatMap fun c => if needEsc c then ['%', hexDigit (c / 16), hexDigit (c % 16)] else [Char.ofNat c])

/-- split `k=v` at the first '=' -/
def splitKV (w : String) : Option (Str × Str) :=
  let cs := w.toList
  let k := cs.takeWhile (· != '=')
  match cs.dropWhile (· != '=') with
  | '=' :: v => match unesc k, unesc v with
    | some k, some v => some (k, v)
    | _, _ => none
  | _ => none

def parseKVs (ws : List String) : Option (SMap Str) :=
  ws.foldl (fun acc w => match acc, splitKV w with
    | some m, some (k, v) => some (m.insert k v)
    | _, _ => none) (some [])

def sortStrs (xs : List String) : List String := (xs.toArray.qsort (· < ·)).toList

/-- canonical enumeration: sorted by escaped key -/
def canon (m : SMap Str) : SMap Str :=
  ((m.toArray.qsort fun a b => esc a.1 < esc b.1)).toList

def parseInput (ws : List String) : Option Input :=
  match ws with
  | ["!bad"] => some none
  | ["!null"] => some (some [])
  | _ => (parseKVs ws).map some

def showDec (d : Dec) : String :=
  let digits := toString d.m
  let digits := if digits.length ≤ d.e then String.ofList (List.replicate (d.e + 1 - digits.length) '0') ++ digits else digits
  let ip := (digits.take (digits.length - d.e)).toString
  let fp := (digits.drop (digits.length - d.e)).toString
  (if d.neg then "-" else "") ++ ip ++ (if d.e = 0 then "" else "." ++ fp)

def showVal : Val → String
  | .none => "n:"
  | .int i => s!"i:{i}"
  | .dec d => "f:" ++ showDec d
  | .bool b => if b then "b:true" else "b:false"
  | .str s => "s:" ++ esc s

def parseVal (s : Str) : Option Val :=
  match s with
  | 105 :: 58 :: r => (parseSigned r).map .int
  | 102 :: 58 :: r => (parseDec r).map .dec
  | 98 :: 58 :: r => if r = S "true" then some (.bool true) else if r = S "false" then some (.bool false) else none
  | 115 :: 58 :: r => some (.str r)
  | [110, 58] => some .none
  | _ => none

def contractOf : String → Option Contract
  | "miner" => some .miner | "storage" => some .storage | "faucet" => some .faucet
  | "vesting" => some .vesting | "zcn" => some .zcn | _ => none

def getCfg (w : W) : Contract → Cfg
  | .miner => w.miner | .storage => w.storage | .faucet => w.faucet | .vesting => w.vesting | .zcn => w.zcn

def setCfg (w : W) (ct : Contract) (c : Cfg) : W :=
  match ct with
  | .miner => { w with miner := c } | .storage => { w with storage := c } | .faucet => { w with faucet := c }
  | .vesting => { w with vesting := c } | .zcn => { w with zcn := c }

def loadCfg (c : Cfg) (ws : List String) : Option Cfg :=
  ws.foldl (fun acc w => match acc, splitKV w with
    | some c, some (k, v) =>
      match parseVal v with
      | none => none
      | some x =>
        match k with
        | 36 :: name => some { c with cost := c.cost.insert name x.toInt }
        | _ => some { c with get := c.get.insert k x }
    | _, _ => none) (some c)

def keyErrName : KeyErr → String
  | .unknown => "unknown" | .immutable => "immutable" | .unparsable => "unparsable" | .notImpl => "notimpl"
  | .unsupported => "unsupported" | .negative => "negative" | .panic => "panic"

/-- zcnsc words "unknown key" and "value does not parse" identically, so the harness cannot tell them apart:
both are printed `rejected` for that contract. -/
def showBad (zcn : Bool) (bad : List (Str × KeyErr)) : String :=
  let nm (e : KeyErr) : String := if zcn && e != .negative then "rejected" else keyErrName e
  "err key " ++ ",".intercalate (sortStrs (bad.map fun (k, e) => esc k ++ ":" ++ nm e))

def showRes (r : Res) (bad : List (Str × KeyErr)) (zcn : Bool := false) : String :=
  match r with
  | .ok out => if out then "ok 1" else "ok 0"
  | .unauthorized => "err unauthorized"
  | .decode => "err decode"
  | .key _ _ => showBad zcn bad
  | .invalid i => s!"err invalid {i}"

def tableNames (ct : Contract) : List String :=
  open ZChain.Generated.C48 in
  match ct with
  | .miner => (miner.filter (·.ct ≠ CT.cost)).map (·.name)
  | .storage => (storage.filter (·.ct ≠ CT.cost)).map (·.name)
  | .faucet => (faucet.filter (·.calls = [])).map (·.name)
  | .vesting => (vesting.filter (·.calls = [])).map (·.name)
  | .zcn => (zcn.filter (·.calls = [])).map (·.name)

def dumpCfg (ct : Contract) (c : Cfg) : String :=
  let fs := (tableNames ct).map fun n => n ++ "=" ++ showVal (c.val (S n))
  let cs := c.cost.map fun (k, v) => "$" ++ esc k ++ s!"=i:{v}"
  "cfg " ++ " ".intercalate (sortStrs fs ++ sortStrs cs)

def dumpMap (tag : String) (m : SMap Str) : String :=
  (tag ++ " " ++ " ".intercalate (sortStrs (m.map fun (k, v) => esc k ++ "=" ++ esc v))).trimAsciiEnd.toString

def P := Parsers.go

/-- the typed getter's view of a raw settings string (`viper`'s cast yields the zero value when it does not parse) -/
def canonTyped (ct : CT) (raw : Str) : String :=
  match ct with
  | .int | .int64 | .cost => showVal (.int ((P.int64 raw).getD 0))
  | .int32 => showVal (.int ((P.int32 raw).getD 0))
  | .duration => showVal (.int ((P.dur raw).getD ((P.int64 raw).getD 0)))   -- viper/cast: a bare number is nanoseconds
  | .float64 => showVal (.dec ((P.float raw).getD ⟨false, 0, 0⟩))
  | .boolean => showVal (.bool ((P.bool raw).getD false))
  | .coin => showVal (.int ((P.int64 raw).getD 0))
  | .string | .strings | .key => showVal (.str raw)

def step (w : W) (ws : List String) : W × String :=
  match ws with
  | ["init"] => ({}, "ok")
  | _ =>
  if w.tainted then (w, "tainted") else
  match ws with
  | "taint" :: _ => ({ w with tainted := true }, "tainted")
  | "load" :: c :: kvs =>
    match contractOf c with
    | none => (w, "bad-op")
    | some ct => match loadCfg (getCfg w ct) kvs with
      | none => (w, "bad-op")
      | some cfg => ({ setCfg w ct cfg with loaded := c :: w.loaded }, "ok")
  | "loadg" :: v :: kvs =>
    match v.toInt?, parseKVs kvs with
    | some v, some m => ({ w with g := ⟨v, m⟩, loaded := "g" :: w.loaded }, "ok")
    | _, _ => (w, "bad-op")
  | ["fork", "0"] => ({ w with demeter := false }, "ok")
  | ["fork", "1"] => ({ w with demeter := true }, "ok")
  | "update" :: c :: caller :: rest =>
    if !w.loaded.contains c then (w, "not-loaded") else
    match contractOf c, unesc caller.toList, parseInput rest with
    | some ct, some caller, some input =>
      match ct with
      | .storage =>
        let s : Storage := ⟨w.storage, w.staged⟩
        let br := storageBranch w.demeter
        let (r, s') := storageUpdate P br.1 br.2 canon caller input s
        let bad := match input with
          | some m => badKeys (storageKey P) (mergeStaged w.staged m)
          | none => []
        ({ w with storage := s'.conf, staged := s'.staged }, showRes r bad)
      | _ =>
        let (r, c') := update P ct ct.validates canon caller input (getCfg w ct)
        let bad := match input with
          | some m => badKeys (ct.keyf P) m
          | none => []
        (setCfg w ct c', showRes r bad (ct == .zcn))
    | _, _, _ => (w, "bad-op")
  | "updateg" :: caller :: rest =>
    if !(w.loaded.contains "g" && w.loaded.contains "miner") then (w, "not-loaded") else
    match unesc caller.toList, parseInput rest with
    | some caller, some input =>
      let (r, g') := updateGlobals P canon caller input w.miner w.g
      let bad := match input with
        | some m => m.filterMap fun (k, v) => match globalsKey P k v with
          | .error e => some (k, e)
          | .ok _ => none
        | none => []
      ({ w with g := g' }, showRes r bad)
    | _, _ => (w, "bad-op")
  | ["commit"] =>
    if !w.loaded.contains "storage" then (w, "not-loaded") else
    let s : Storage := ⟨w.storage, w.staged⟩
    let (r, s') := storageCommit P (Contract.validates .storage) canon s
    ({ w with storage := s'.conf, staged := s'.staged }, showRes r (badKeys (storageKey P) w.staged))
  | ["dump", c] =>
    if !w.loaded.contains c then (w, "not-loaded") else
    match contractOf c with
    | some ct => (w, dumpCfg ct (getCfg w ct))
    | none => (w, "bad-op")
  | ["dumpg"] => if !w.loaded.contains "g" then (w, "not-loaded") else (w, dumpMap s!"globals {w.g.version}" w.g.fields)
  | ["staged"] => (w, dumpMap "staged" w.staged)
  | ["inforce", name, loc] =>
    if !w.loaded.contains "g" then (w, "not-loaded") else
    match unesc name.toList, loc.toList with
    | some name, 'L' :: loc =>
      match unesc loc, findEntry ZChain.Generated.C48.globals name with
      | some loc, some e =>
        -- read with the type of the accessor the code uses (falls back to the declared type for settings nobody reads)
        let ct := (globalReaderCT name).getD e.ct
        (w, "inforce " ++ canonTyped ct (globalInForce P w.g name ct loc))
      | some _, none => (w, "inforce-unknown")
      | none, _ => (w, "bad-op")
    | _, _ => (w, "bad-op")
  | _ => (w, "bad-op")

def run : IO Unit := ZChain.Drv.runLoop step ({} : W)

end ZChain.Drv.C48

def main : IO Unit := ZChain.Drv.C48.run
