import ZChain.Drv.Util
import ZChain.Model.ReadMarker
/-! Line driver for the read-marker model (C15). Operation lines: see `harness/cmd/c15/ops.go`.
ids: client j ↦ j+1 (key index j), blobber i ↦ 101+i (key index 100+i), allocation k ↦ 201+k. -/
namespace ZChain.Drv.C15
open ZChain ZChain.ReadMarker ZChain.Alg

def nBlobbers : Nat := 4
def nClients : Nat := 4
def clientFunds : Nat := 10000000000000000

/-- key universe of the driver: distinct non-zero exponents. -/
def skOf (k : Nat) : Fr := Fr.pow ⟨5⟩ (k + 11)

def validKey (k : Nat) : Bool := k < nClients || (100 ≤ k && k < 100 + nBlobbers)

/-- message points: a fixed odd base raised to an injective code of the field list would do; a positional
mix modulo `r` keeps distinct short lists apart in practice and is cheap. -/
def hmFr (l : List Int) : Fr :=
  let code := l.foldl (fun acc x => (acc * 36893488147419103231 + (x % 18446744073709551616).toNat + 1) % r) 7
  Fr.pow ⟨3⟩ (code + 2)

def crypto : Crypto Fr :=
  { pkOf := fun k => if validKey k then some (skOf k) else none
    idOf := fun k => k + 1
    Hm := hmFr }

structure World where
  st : St Fr
  prices : List (Nat × Nat)     -- blobber id ↦ current read price (Terms of the blobber node)
  now : Int
  minStake : Nat
  timeUnit : Int
  nAllocs : Nat

def emptySt (minLock : Nat) : St Fr :=
  { allocs := [], sps := [], pools := [], last := []
    wallets := (List.range nClients).map (fun j => (j + 1, clientFunds))
    scWallet := 0, minLock := minLock }

def initWorld : World := { st := emptySt 0, prices := [], now := 1700000000, minStake := 0, timeUnit := 0, nAllocs := 0 }

def cid (j : Nat) : Nat := j + 1
def bid (i : Nat) : Nat := 101 + i
def aid (k : Nat) : Nat := 201 + k

def idx? (s : String) (n : Nat) : Option Nat :=
  if s.length ≤ 3 && s.all Char.isDigit then
    match s.toNat? with
    | some v => if v < n then some v else none
    | none => none
  else none

def nat? (s : String) : Option Nat :=
  if s.length ≤ 20 && s.all Char.isDigit then
    match s.toNat? with
    | some v => if v < 18446744073709551616 then some v else none
    | none => none
  else none

def int? (s : String) : Option Int :=
  if s.startsWith "+" || s == "-0" then none
  else match s.toInt? with
    | some v => if -9223372036854775808 ≤ v ∧ v < 9223372036854775808 then some v else none
    | none => none

/-- `c<j>` | `b<i>` ↦ key index. -/
def key? (s : String) : Option Nat :=
  if s.startsWith "c" then (idx? (s.drop 1).toString nClients)
  else if s.startsWith "b" then (idx? (s.drop 1).toString nBlobbers).map (· + 100)
  else none

def errStr : Err → String
  | .clientId => "client-id" | .fields => "fields" | .prev => "prev" | .sig => "sig" | .noAlloc => "no-alloc"
  | .early => "early" | .late => "late" | .notInAlloc => "not-in-alloc" | .noBlobber => "no-blobber"
  | .insufficient => "insufficient" | .distribute => "distribute" | .overflow => "overflow" | .unsupported => "unsupported"
  | .range => "range"

def lockErrStr : LockErr → String
  | .minLock => "min-lock" | .zeroLock => "zero-lock" | .noTokens => "no-tokens" | .balance => "balance"
  | .overflow => "overflow" | .noPool => "no-pool" | .rejected => "rejected"

def obsP (s : St Fr) (c : Nat) : String :=
  match aGet s.pools c with
  | none => "rp=-"
  | some b => s!"rp={b}"

def obsW (s : St Fr) (c : Nat) : String := s!"w={(aGet s.wallets c).getD 0}"

def obsK (s : St Fr) (b c a : Nat) : String :=
  let probe : Marker Fr := { client := c, pk := 0, blobber := b, alloc := a, owner := 0, ts := 0, ctr := 0, sig := none }
  match (keyOf probe).bind (aGet s.last) with
  | none => "ctr=-"
  | some m => s!"ctr={m.ctr}"

def obsR (s : St Fr) (b : Nat) : String :=
  match aGet s.sps b with
  | none => "spr=- dr=-"
  | some sp => s!"spr={sp.reward} dr={sp.delegates}"

def obsS (s : St Fr) (a b : Nat) : String :=
  match aGet s.allocs a with
  | none => "rr=- nr=- anr=-"
  | some al => match al.bas.find? (fun d => d.blobber = b) with
    | none => s!"rr=- nr=- anr={al.numReads}"
    | some d => s!"rr={d.readReward} nr={d.numReads} anr={al.numReads}"

def obsB (s : St Fr) (b : Nat) : String :=
  match aGet s.sps b with
  | none => "sp=-"
  | some sp => s!"sp={if sp.killed then 1 else 0}:{sp.stake}:{sp.minStake}:{sp.nPools}:{F64.toHex sp.charge}"

def obsA (s : St Fr) (a : Nat) : String :=
  match aGet s.allocs a with
  | none => "alloc=-"
  | some al =>
    let parts := al.bas.map (fun d => s!"{d.blobber - 101}:{d.price}")
    s!"alloc={al.owner - 1}:{al.start}:{al.expiration}:{",".intercalate parts}"

def splitIdx (s : String) (n : Nat) : Option (List Nat) := (s.splitOn ",").mapM (fun x => idx? x n)

def tamper (w : World) (m : Marker Fr) (signer : Nat) (msg : Option (List Int)) (kind val : String) : Option (Marker Fr) :=
  match kind with
  | "none" => if val == "0" then some m else none
  | "ctr" => (int? val).map (fun v => { m with ctr := v })
  | "ts" => (int? val).map (fun v => { m with ts := v })
  | "alloc" => (idx? val 100).map (fun v => { m with alloc := aid v })
  | "blobber" => (idx? val nBlobbers).map (fun v => { m with blobber := bid v })
  | "owner" => (idx? val nClients).map (fun v => { m with owner := cid v })
  | "client" => (idx? val nClients).map (fun v => { m with client := cid v, pk := v })
  | "sigbad" => if val == "0" then some { m with sig := none } else none
  | "nosig" => if val == "0" then some { m with sig := none } else none
  | "sigother" =>
    if val == "0" then
      some { m with sig := msg.map (fun l => sign (skOf signer) (hmFr (l ++ [424242]))) }
    else none
  | _ => let _ := w; none

def step (w : World) (ws : List String) : World × String :=
  let bad := (w, "bad-op")
  match ws with
  | ["init", _, ms, ml, tu] =>
    match nat? ms, nat? ml, nat? tu with
    | some ms, some ml, some tu =>
      ({ initWorld with st := emptySt ml, minStake := ms, timeUnit := tu }, "ok")
    | _, _, _ => (initWorld, "bad-op")
  | ["addb", i, price, charge, stake] =>
    match idx? i nBlobbers, nat? price, nat? charge, nat? stake with
    | some i, some price, some charge, some stake =>
      if charge > 1000 then bad
      else match aGet w.st.sps (bid i) with
      | some _ => (w, "fail " ++ obsB w.st (bid i))
      | none =>
        let sp : SP := { killed := false, stake := stake, minStake := w.minStake, nPools := if stake > 0 then 1 else 0
                         charge := F64.div (F64.ofNat charge) (F64.ofNat 1000), reward := 0, delegates := 0 }
        let st := { w.st with sps := aSet w.st.sps (bid i) sp
                              wallets := aSet w.st.wallets (cid 0) ((aGet w.st.wallets (cid 0)).getD 0 - stake)
                              scWallet := w.st.scWallet + stake }
        ({ w with st := st, prices := aSet w.prices (bid i) price }, "ok " ++ obsB st (bid i))
    | _, _, _, _ => bad
  | ["newa", j, bs, value] =>
    match idx? j nClients, splitIdx bs nBlobbers, nat? value with
    | some j, some bs, some value =>
      let live := bs.all (fun i => match aGet w.st.sps (bid i) with | some sp => !sp.killed | none => false)
      if !live || !bs.Nodup || value > (aGet w.st.wallets (cid j)).getD 0 then (w, "fail")
      else
        let bas : List BA := bs.map (fun i => { blobber := bid i, price := (aGet w.prices (bid i)).getD 0, readReward := 0, numReads := 0 })
        let al : Alloc := { owner := cid j, start := w.now, expiration := w.now + w.timeUnit, numReads := 0, bas := bas }
        let a := aid w.nAllocs
        let st := { w.st with allocs := aSet w.st.allocs a al
                              wallets := aSet w.st.wallets (cid j) ((aGet w.st.wallets (cid j)).getD 0 - value)
                              scWallet := w.st.scWallet + value }
        ({ w with st := st, nAllocs := w.nAllocs + 1 }, "ok " ++ obsA st a)
    | _, _, _ => bad
  | ["tick", d] =>
    match nat? d with
    | some n => if d.length ≤ 9 then ({ w with now := w.now + n }, s!"ok {w.now + n}") else bad
    | none => bad
  | ["lock", j, t, v] =>
    match idx? j nClients, idx? t nClients, nat? v with
    | some j, some t, some v =>
      match lock w.st (cid j) (cid t) v with
      | .ok st => ({ w with st := st }, s!"ok {obsP st (cid t)} {obsW st (cid j)}")
      | .error e => (w, s!"{lockErrStr e} {obsP w.st (cid t)} {obsW w.st (cid j)}")
    | _, _, _ => bad
  | ["unlock", j] =>
    match idx? j nClients with
    | some j =>
      match unlock w.st (cid j) with
      | .ok (st, _) => ({ w with st := st }, s!"ok {obsP st (cid j)} {obsW st (cid j)}")
      | .error e => (w, s!"{lockErrStr e} {obsP w.st (cid j)} {obsW w.st (cid j)}")
    | none => bad
  | ["kill", i] =>
    match idx? i nBlobbers with
    | some i =>
      match aGet w.st.sps (bid i) with
      | none => (w, "fail killed=false")
      | some sp =>
        -- kill_blobber on a killed blobber succeeds again (observed; C13's concern)
        ({ w with st := { w.st with sps := aSet w.st.sps (bid i) { sp with killed := true } } }, "ok killed=true")
    | none => bad
  | ["raw", k] => if k ∈ ["array", "nomarker", "null", "bigctr", "strctr"] then (w, "malformed") else bad
  | ["rm", sub, c, pk, b, a, own, ctr, ts, signer, tk, tv] =>
    let pkIdx : Option Nat := if pk == "bad" then some 999 else key? pk
    let bId : Option Nat := if b == "none" then some 0 else (idx? b nBlobbers).map bid
    match key? sub, idx? c nClients, pkIdx, bId, idx? a 100, idx? own nClients, int? ctr, int? ts, key? signer with
    | some _, some c, some pkIdx, some bId, some a, some own, some ctr, some ts, some signer =>
      let m0 : Marker Fr := { client := cid c, pk := pkIdx, blobber := bId, alloc := aid a, owner := cid own, ts := ts, ctr := ctr, sig := none }
      let msg := hashData m0
      let m0 := { m0 with sig := msg.map (fun l => sign (skOf signer) (hmFr l)) }
      match tamper w m0 signer msg tk tv with
      | none => bad
      | some m =>
        let (st, cls) := match commit crypto w.st m with
          | .ok (st, _) => (st, "ok")
          | .error e => (w.st, errStr e)
        ({ w with st := st }, s!"{cls} {obsP st m.client} {obsK st m.blobber m.client m.alloc} {obsR st m.blobber} {obsS st m.alloc m.blobber}")
    | _, _, _, _, _, _, _, _, _ => bad
  | _ => bad

def run : IO Unit := ZChain.Drv.runLoop step initWorld

end ZChain.Drv.C15

def main : IO Unit := ZChain.Drv.C15.run
