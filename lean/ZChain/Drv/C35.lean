import ZChain.Drv.Util
import ZChain.Model.RoundBlocks
import ZChain.Model.NodePools
/-! Line driver for C35 (miner ranks + per-round block lists).
`new <minGenerators>` | `addm <id64> <pk>` | `obj <o> <id64> <pk>` | `padd <pool> <o>` | `pos` | `seed <seed> <perm…>` | `seednb <seed> <perm…>` |
`cseed <seed> <perm…>` | `rank <id64>` | `ranks` | `byrank` | `isgen <id64>` | `gens` |
`blk <obj> <hash> <rank> <t1,t2,…|->` | `addn <obj>` | `upd <obj>` | `addp <obj>` | `nbs` | `pbs` | `best` |
`heaviest` | `tix <obj>` -/
namespace ZChain.Drv.C35
open ZChain.NodePool ZChain.RoundBlocks ZChain.NodePools

def hexVal (c : Char) : Option Nat :=
  if '0' ≤ c ∧ c ≤ '9' then some (c.toNat - '0'.toNat)
  else if 'a' ≤ c ∧ c ≤ 'f' then some (c.toNat - 'a'.toNat + 10)
  else none

def hexBytes : List Char → Option (List Nat)
  | [] => some []
  | [_] => none
  | a :: b :: rest => match hexVal a, hexVal b, hexBytes rest with
    | some x, some y, some r => some ((x * 16 + y) :: r)
    | _, _, _ => none

def parseId (s : String) : Option Node :=
  if s.length = 64 then
    match hexBytes s.toList with
    | some bs => some { key := bs.foldl (fun acc b => acc * 256 + b) 0, idBytes := bs }
    | none => none
  else none

structure S where
  mingen : Int
  w      : World          -- pool 0 = the miners of the magic block; node objects may also sit in side pools
  next   : Nat
  ranks  : Ranks
  st     : St

def init (g : Int) : S := { mingen := g, w := emptyWorld, next := 1000000, ranks := { perm := none, seed := 0 }, st := empty }

/-- the `SetIndex` each pool-0 node object carries, in pool order. -/
def idxs (s : S) : List Nat := (poolNodes s.w 0).map (fun o => (getObj s.w o).setIndex)

/-- `SetIndex` of the pool-0 object with this key. -/
def idxOfKey (s : S) (key : Nat) : Option Nat :=
  match (poolNodes s.w 0).find? (fun o => (nodeOf s.w o).key = key) with
  | some o => some (getObj s.w o).setIndex
  | none => none

def knownObj (s : S) (o : Nat) : Bool := (objGet s.w.objs o).isSome

def parseInts : List String → Option (List Int)
  | [] => some []
  | w :: ws => match w.toInt?, parseInts ws with
    | some v, some r => some (v :: r)
    | _, _ => none

def parseTickets (s : String) : Option (List Nat) :=
  if s = "-" then some []
  else (s.splitOn ",").foldr (fun w acc => match w.toNat?, acc with
    | some v, some r => some (v :: r)
    | _, _ => none) (some [])

def numGen (s : S) : Int := if s.mingen > 0 then s.mingen else 0

def keysDistinct (s : S) : Bool :=
  let ks := (idxs s).map (byRankKey s.ranks)
  ks.eraseDups.length = ks.length

def showObjs (s : S) (tag : String) (l : List Nat) : String :=
  " ".intercalate (tag :: l.map (fun o => s!"{o}:{(obj s.st o).hash}:{(obj s.st o).rank}"))

def known (s : S) (o : Nat) : Bool := (heapGet s.st.heap o).isSome

/-- `chain.SetRandomSeed(r, seed)` -/
def chainSetRandomSeed (s : S) (seed : Int) (perm : List Int) : S × Bool :=
  if s.ranks.seed ≠ 0 ∧ seed = s.ranks.seed then (s, false)
  else if s.st.notarized.length > 0 then (s, false)
  else if seed = 0 then (s, false)
  else ({ s with ranks := setRandomSeed s.ranks seed perm }, true)

def step (s : S) (ws : List String) : S × String :=
  match ws with
  | ["new", g] => match g.toInt? with
    | some g => (init g, "ok")
    | none => (s, "bad-op")
  | ["addm", id, _pk] => match parseId id with
    | some nd => ({ s with w := addNodeW (newObj s.w s.next nd) 0 s.next, next := s.next + 1 }, "ok")
    | none => (s, "bad-op")
  | ["obj", o, id, _pk] => match o.toNat?, parseId id with
    | some o, some nd => if o < 1000000 ∧ ¬ knownObj s o then ({ s with w := newObj s.w o nd }, "ok") else (s, "bad-op")
    | _, _ => (s, "bad-op")
  | ["padd", p, o] => match p.toNat?, o.toNat? with
    | some p, some o => if p < 8 ∧ knownObj s o then ({ s with w := addNodeW s.w p o }, "ok") else (s, "bad-op")
    | _, _ => (s, "bad-op")
  | ["pos"] => (s, " ".intercalate ("pos" :: (poolNodes s.w 0).map (fun o => s!"{(nodeOf s.w o).key}:{(getObj s.w o).setIndex}")))
  | "seed" :: sd :: perm => match sd.toInt?, parseInts perm with
    | some sd, some p => ({ s with ranks := setRandomSeed s.ranks sd p }, "ok")
    | _, _ => (s, "bad-op")
  | "seednb" :: sd :: perm => match sd.toInt?, parseInts perm with
    | some sd, some p => ({ s with ranks := setRandomSeedNB s.ranks sd p }, "ok")
    | _, _ => (s, "bad-op")
  | "cseed" :: sd :: perm => match sd.toInt?, parseInts perm with
    | some sd, some p => let (s', b) := chainSetRandomSeed s sd p; (s', if b then "true" else "false")
    | _, _ => (s, "bad-op")
  | ["rank", id] => match parseId id with
    | some nd => (s, match idxOfKey s nd.key with
        | some i => s!"rank {getMinerRank s.ranks i}"
        | none => "nomember")
    | none => (s, "bad-op")
  | ["ranks"] => (s, " ".intercalate ("ranks" :: (idxs s).map (fun i => toString (getMinerRank s.ranks i))))
  | ["byrank"] =>
    (s, if keysDistinct s then " ".intercalate ("byrank" :: (getMinersByRankIdx s.ranks (idxs s)).map toString)
        else "ambiguous")
  | ["isgen", id] => match parseId id with
    | some nd => (s, match idxOfKey s nd.key with
        | some i => if isRoundGenerator s.ranks i (numGen s) then "true" else "false"
        | none => "nomember")
    | none => (s, "bad-op")
  | ["gens"] =>
    (s, if keysDistinct s then " ".intercalate ("gens" :: (getGeneratorsIdx s.ranks (idxs s) (numGen s)).map toString)
        else "ambiguous")
  | ["blk", o, h, r, t] => match o.toNat?, h.toNat?, r.toInt?, parseTickets t with
    | some o, some h, some r, some t =>
      if known s o then (s, "bad-op")   -- object ids are never reused
      else ({ s with st := newBlock s.st o ⟨h, r, t⟩ }, "ok")
    | _, _, _, _ => (s, "bad-op")
  | ["addn", o] => match o.toNat? with
    | some o => if known s o then ({ s with st := addNotarized s.st o }, "ok") else (s, "bad-op")
    | none => (s, "bad-op")
  | ["upd", o] => match o.toNat? with
    | some o => if known s o then ({ s with st := updateNotarized s.st o }, "ok") else (s, "bad-op")
    | none => (s, "bad-op")
  | ["addp", o] => match o.toNat? with
    | some o => if known s o then ({ s with st := addProposed s.st o }, "ok") else (s, "bad-op")
    | none => (s, "bad-op")
  | ["nbs"] => (s, showObjs s "nbs" s.st.notarized)
  | ["pbs"] => (s, showObjs s "pbs" s.st.proposed)
  | ["best"] => (s, match s.st.block with | some o => s!"best {o}" | none => "best nil")
  | ["heaviest"] => (s, match heaviest s.st with | some o => s!"heaviest {o}" | none => "heaviest nil")
  | ["tix", o] => match o.toNat? with
    | some o => if known s o then (s, " ".intercalate ("tix" :: (obj s.st o).tickets.map toString)) else (s, "bad-op")
    | none => (s, "bad-op")
  | _ => (s, "bad-op")

def run : IO Unit := ZChain.Drv.runLoop step (init 0)

end ZChain.Drv.C35

def main : IO Unit := ZChain.Drv.C35.run
