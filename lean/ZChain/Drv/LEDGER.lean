import ZChain.Drv.Util
import ZChain.Model.Ledger
import ZChain.Model.Genesis
/-! Line driver for the engine model (C01–C05).
`init <feeOn 0|1> <id:bal:nonce>*`   |   `genesis <scId>:<tokens>[/<clientId>:<tokens>]* …` (mustInitGBState)
`txn <send|data|sc|invalid> <sender> <to> <toValid 0|1> <value> <fee> <nonce> <res>`
   res = `-` | `int` | `chg` | `chg|<ops>` | `ok` | `ok|<ops>`; ops separated by `;`:
   `t,src,dst,amt` (transfer; a destination id may carry the suffix `u` = upper-case spelling) `s,src,dst,amt` (signed transfer) `w,k,v` (write) `d,k` (delete) `pu,i,v` / `pr,i` (put / remove item i of a partitions list = storage key 100+i)
answer: `<status> a=<id:bal:nonce,…> s=<k:v,…> tot=<sum> x=0` (every account that has a leaf, both sorted). -/
namespace ZChain.Drv.LEDGER
open ZChain.Ledger

structure DS where
  feeOn : Bool
  st : St
  alive : Bool := true   -- false after a genesis that panicked: there is no chain

def insertSorted (x : Nat × String) : List (Nat × String) → List (Nat × String)
  | [] => [x]
  | y :: ys => if x.1 ≤ y.1 then x :: y :: ys else y :: insertSorted x ys

def sortByKey (l : List (Nat × String)) : List (Nat × String) := l.foldl (fun acc x => insertSorted x acc) []

def dedupFirst (a : List (Nat × α)) : List (Nat × α) :=
  a.foldl (fun acc p => if acc.any (fun q => q.1 = p.1) then acc else acc ++ [p]) []

def showState (s : St) : String :=
  let accts := dedupFirst s.accts
  let as := sortByKey (accts.map fun p => (p.1, s!"{p.1}:{p.2.balance}:{p.2.nonce}"))
  let ss := sortByKey ((dedupFirst s.store).map fun p => (p.1, s!"{p.1}:{p.2}"))
  "a=" ++ ",".intercalate (as.map (·.2)) ++ " s=" ++ ",".intercalate (ss.map (·.2)) ++ s!" tot={total (dedupFirst s.accts)} x=0"

def parseAcct (w : String) : Option (Id × Acct) :=
  match w.splitOn ":" with
  | [i, b, n] => match i.toNat?, b.toNat?, n.toInt? with
    | some i, some b, some n => some (i, ⟨b, n⟩)
    | _, _, _ => none
  | _ => none

def parseAccts : List String → Option Accts
  | [] => some []
  | w :: ws => match parseAcct w, parseAccts ws with
    | some a, some rest => some (a :: rest)
    | _, _ => none

structure Ops where
  ws : List Write := []
  tr : List Transfer := []
  sg : List Transfer := []

/-- an id token: `7` (canonical spelling), `7u` (upper-case spelling of the same id) or `7p` (only the leading
hex letter upper-cased: a spelling that the trie resolves to the SAME leaf, since children are addressed
case-insensitively — reads see the account's balance; `transferAmount` refuses it like every other non-lower-case
recipient). The harness only writes `p` when such a spelling exists (first digit a letter, trie root branching). -/
def parseId (w : String) : Option (Nat × Bool × Bool) :=
  if w.endsWith "u" then ((w.dropEnd 1).toString.toNat?).map (fun n => (n, false, false))
  else if w.endsWith "p" then ((w.dropEnd 1).toString.toNat?).map (fun n => (n, false, true))
  else (w.toNat?).map (fun n => (n, true, false))

def parseOp (o : Ops) (w : String) : Option Ops :=
  match w.splitOn "," with
  | ["t", a, b, c] => match a.toNat?, parseId b, c.toNat? with
    | some a, some (b, cn, sl), some c => some { o with tr := o.tr ++ [⟨a, b, c, cn, sl⟩] }
    | _, _, _ => none
  | ["s", a, b, c] => match a.toNat?, parseId b, c.toNat? with
    | some a, some (b, cn, sl), some c => some { o with sg := o.sg ++ [⟨a, b, c, cn, sl⟩] }
    | _, _, _ => none
  | ["w", k, v] => match k.toNat?, v.toNat? with
    | some k, some v => some { o with ws := o.ws ++ [.put k v] }
    | _, _ => none
  | ["d", k] => match k.toNat? with
    | some k => some { o with ws := o.ws ++ [.del k] }
    | none => none
  -- `pu,i,v` / `pr,i`: put / remove item `i` of a `smartcontract/partitions` list kept by the scripted contract
  -- (update-in-place when present, add otherwise): to the engine these are writes to the storage keys `100 + i`
  | ["pu", k, v] => match k.toNat?, v.toNat? with
    | some k, some v => some { o with ws := o.ws ++ [.put (100 + k) v] }
    | _, _ => none
  | ["pr", k] => match k.toNat? with
    | some k => some { o with ws := o.ws ++ [.del (100 + k)] }
    | none => none
  | _ => none

def parseOps (s : String) : Option Ops :=
  if s = "" then some {} else
  (s.splitOn ";").foldl (fun acc w => match acc with | none => none | some o => parseOp o w) (some {})

def parseRes (s : String) : Option CResult :=
  match s.splitOn "|" with
  | ["-"] => some .internal
  | ["int"] => some .internal
  | ["chg"] => some (.chargeable [] [] [])
  | ["chg", ops] => (parseOps ops).map fun o => .chargeable o.ws o.tr o.sg
  | ["ok"] => some (.ok [] [] [])
  | ["ok", ops] => (parseOps ops).map fun o => .ok o.ws o.tr o.sg
  | _ => none

def parseTyp : String → Option TxnType
  | "send" => some .send | "data" => some .data | "sc" => some .sc | "invalid" => some .invalid | _ => none

def showStatus : Status → String
  | .rejected => "rejected" | .success => "success" | .failed => "failed"

/-- `<scId>:<tokens>[/<clientId>:<tokens>]*` -/
def parseGenSC (w : String) : Option GenSC :=
  match w.splitOn "/" with
  | [] => none
  | hd :: cls =>
    match hd.splitOn ":" with
    | [i, t] =>
      match i.toNat?, t.toNat? with
      | some i, some t =>
        let cl := cls.foldr (fun c acc => match acc, c.splitOn ":" with
          | some l, [ci, ct] => (match ci.toNat?, ct.toNat? with
            | some ci, some ct => some ((ci, ct) :: l)
            | _, _ => none)
          | _, _ => none) (some [])
        cl.map fun l => ⟨i, t, l⟩
      | _, _ => none
    | _ => none

def parseGen : List String → Option (List GenSC)
  | [] => some []
  | w :: ws => match parseGenSC w, parseGen ws with
    | some x, some r => some (x :: r)
    | _, _ => none

def step (d : DS) (ws : List String) : DS × String :=
  match ws with
  | "genesis" :: cfg =>
    match parseGen cfg with
    | none => (d, "bad-op")
    | some cfg =>
      match genesis cfg with
      | none => ({ d with st := ⟨[], []⟩, alive := false }, "panic")
      | some a => ({ d with st := ⟨a, []⟩, feeOn := true, alive := true }, "ok " ++ showState ⟨a, []⟩)
  | "init" :: fee :: accts =>
    match parseAccts accts with
    | some a => if fee = "0" ∨ fee = "1" then ({ feeOn := fee = "1", st := ⟨a, []⟩, alive := true }, "ok") else (d, "bad-op")
    | none => (d, "bad-op")
  | ["txn", typ, sender, to, tv, value, fee, nonce, res] =>
    match parseTyp typ, sender.toNat?, parseId to, value.toNat?, fee.toNat?, nonce.toInt?, parseRes res with
    | some typ, some sender, some (to, cn, sl), some value, some fee, some nonce, some r =>
      if tv ≠ "0" ∧ tv ≠ "1" then (d, "bad-op") else
      if !d.alive then (d, "no-chain") else
      let t : Txn := { sender, to, toValid := tv = "1", toCanon := cn, toSameLeaf := sl, value, fee, nonce, typ }
      let (s', st) := ZChain.Ledger.step d.feeOn d.st t r
      ({ d with st := s' }, showStatus st ++ " " ++ showState s')
    | _, _, _, _, _, _, _ => (d, "bad-op")
  | _ => (d, "bad-op")

def run : IO Unit := ZChain.Drv.runLoop step { feeOn := true, st := ⟨[], []⟩ }

end ZChain.Drv.LEDGER

def main : IO Unit := ZChain.Drv.LEDGER.run
