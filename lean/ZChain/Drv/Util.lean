/-
Shared helpers of the line-protocol drivers (core-only).
One request line in, one answer line out. Every driver answers `bad-op` to a line it cannot
parse; it never substitutes a default.
-/
namespace ZChain.Drv

def words (line : String) : List String :=
  (line.splitOn " ").filter (fun w => w ≠ "")

def trimLine (s : String) : String :=
  let s := if s.endsWith "\n" then (s.dropEnd 1).toString else s
  if s.endsWith "\r" then (s.dropEnd 1).toString else s

/-- Generic loop: `step` maps a state and a tokenised line to a new state and the answer line. -/
partial def loop {σ : Type} (h : IO.FS.Stream) (out : IO.FS.Stream) (step : σ → List String → σ × String) (s : σ) : IO Unit := do
  let line ← h.getLine
  if line.isEmpty then
    out.flush
    return ()
  let (s', o) := step s (words (trimLine line))
  out.putStrLn o
  loop h out step s'

def runLoop {σ : Type} (step : σ → List String → σ × String) (init : σ) : IO Unit := do
  let i ← IO.getStdin
  let o ← IO.getStdout
  loop i o step init

def natList (xs : List Nat) : String := " ".intercalate (xs.map toString)

end ZChain.Drv
