import ZChain.Drv.Util
import ZChain.Model.Prune
/-! Line driver for the pruning model (C27). Operations as in `harness/cmd/c27/main.go`:
`hist <salt> <round0>` | `b <round>` | `t` | `i <key> <val>` | `d <key>` | `c` | `a` |
`fin N:<h,..> D:<h,..> T:<h,..>` | `prune <count>` | `check <round>` and, for the change collector,
`ccnew` | `ccadd <old|-> <new>` | `ccdel <old>` | `ccdump`.
The trie itself is not modelled: the node sets of a block (new, dead, all) are recorded by the generator from the
real trie and the Go side answers `fin` with the sets IT computes, so a wrong annotation shows as a disagreement. -/
namespace ZChain.Drv.C27
open ZChain.Prune

structure St where
  started : Bool := false
  db      : DB := {}
  inBlock : Option Nat := none
  blockKV : List (String × String) := []   -- keys present in the current block state
  txnKV   : Option (List (String × String)) := none
  cc      : Collector := {}
  kvs     : List (Nat × List (String × String)) := []  -- key sets of the finalized blocks (for roll-backs)

def parseSet (tag : String) (s : String) : Option (List Hash) :=
  if s.startsWith (tag ++ ":") then
    let body := (s.drop (tag.length + 1)).toString
    if body = "-" then some [] else some (body.splitOn ",")
  else none

def kvSet (m : List (String × String)) (k v : String) : List (String × String) := (k, v) :: m.filter (fun e => e.1 != k)
def kvDel (m : List (String × String)) (k : String) : List (String × String) := m.filter (fun e => e.1 != k)
def kvHas (m : List (String × String)) (k : String) : Bool := m.any (fun e => e.1 == k)

def insertSorted (x : String) : List String → List String
  | [] => [x]
  | y :: ys => if x < y then x :: y :: ys else y :: insertSorted x ys
def sortStrings (l : List String) : List String := l.foldl (fun acc x => insertSorted x acc) []

def showSet (l : List String) : String := if l.isEmpty then "-" else ",".intercalate (sortStrings l)

def step (s : St) (ws : List String) : St × String :=
  match ws with
  | ["hist", _, r0] =>
    match r0.toNat? with
    | some r => ({ started := true, db := { lfb := r, blocks := [(r, [])] }, kvs := [(r, [])] }, "ok")
    | none => (s, "bad-op")
  | ["b", r] =>
    match r.toNat?, s.inBlock with
    | some r, none =>
      if !s.started || r ≤ s.db.lfb then (s, "bad-op") else ({ s with inBlock := some r, txnKV := none }, "ok")
    | _, _ => (s, "bad-op")
  | ["t"] =>
    if s.inBlock.isNone || s.txnKV.isSome then (s, "bad-op") else ({ s with txnKV := some s.blockKV }, "ok")
  | ["i", k, v] =>
    match s.txnKV with
    | some m => ({ s with txnKV := some (kvSet m k v) }, "ok")
    | none => (s, "bad-op")
  | ["d", k] =>
    match s.txnKV with
    | some m => if kvHas m k then ({ s with txnKV := some (kvDel m k) }, "ok") else (s, "err")
    | none => (s, "bad-op")
  | ["c"] =>
    match s.txnKV with
    | some m => ({ s with blockKV := m, txnKV := none }, "ok")
    | none => (s, "bad-op")
  | ["a"] =>
    match s.txnKV with
    | some _ => ({ s with txnKV := none }, "ok")
    | none => (s, "bad-op")
  | ["fin", n, d, t] =>
    match s.inBlock, s.txnKV, parseSet "N" n, parseSet "D" d, parseSet "T" t with
    | some r, none, some ns, some ds, some ts =>
      ({ s with db := s.db.finalize { round := r, new := ns, dead := ds, nodes := ts }, inBlock := none,
                kvs := (r, s.blockKV) :: s.kvs.filter (fun e => e.1 != r) },
       s!"fin N:{showSet ns} D:{showSet ds} T:{showSet ts}")
    | _, _, _, _, _ => (s, "bad-op")
  | ["rb", r] =>
    match r.toNat? with
    | some r =>
      if !s.started || s.inBlock.isSome || r ≥ s.db.lfb then (s, "bad-op") else
      match s.kvs.find? (fun e => e.1 == r) with
      | none => (s, "bad-op")
      | some e => ({ s with db := s.db.rollback r, blockKV := e.2, kvs := s.kvs.filter (fun x => x.1 ≤ r) }, "ok")
    | none => (s, "bad-op")
  | ["prune", c] =>
    match c.toNat? with
    | some c =>
      if !s.started || s.inBlock.isSome || c > 100000 then (s, "bad-op") else
      let (db', o) := s.db.prune c
      match o with
      | .skipped => ({ s with db := db' }, "noprune")
      | .abandoned _ => ({ s with db := db' }, "abandoned")
      | .pruned v n => ({ s with db := db' }, s!"pruned {v} {n}")
    | none => (s, "bad-op")
  | ["check", r] =>
    match r.toNat? with
    | some r =>
      if !s.started then (s, "bad-op") else
      match s.db.check r with
      | none => (s, "unknown-round")
      | some true => (s, "ok")
      | some false => (s, "missing")
    | none => (s, "bad-op")
  | ["ccnew"] => ({ s with cc := {} }, "ok")
  | ["ccadd", o, n] =>
    if o = n then (s, "bad-op") else
    ({ s with cc := s.cc.addChange (if o = "-" then none else some o) n }, "ok")
  | ["ccdel", o] => ({ s with cc := s.cc.deleteChange o }, "ok")
  | ["ccdump"] =>
    let chs := s.cc.changes.map (fun e => e.1 ++ "<" ++ (e.2.old.getD "-"))
    (s, s!"cc C:{showSet chs} D:{showSet s.cc.deletes}")
  | _ => (s, "bad-op")

def run : IO Unit := ZChain.Drv.runLoop step {}

end ZChain.Drv.C27

def main : IO Unit := ZChain.Drv.C27.run
