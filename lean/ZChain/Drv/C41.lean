import ZChain.Drv.Util
import ZChain.Model.LFB
/-! Line driver for the LFB-ticket model (C41).
`init <self> <m|s> <round> <hash> N <id> <m|s> <0|1> …` registers the nodes and starts the worker on block (round, hash);
`recv <round>,<sharder>,<hash>,<sig>` = LFBTicketHandler (sig: good | key<id> | msgr | msgh | msgs | blank | junk);
`recvs t t …` several at once; `kick <round>`; `bcast <round> <hash>`; `bcasts r,h r,h …`; `get` = GetLatestLFBTicket.
After every line the worker has consumed everything that was queued (one batch; `Props/C41.adoptU_append` shows the
result does not depend on how the worker happens to split it). -/
namespace ZChain.Drv.C41
open ZChain.LFB

def parseKind : String → Option Kind
  | "m" => some .miner
  | "s" => some .sharder
  | _ => none

def parseNodes : List String → Option (List Node)
  | [] => some []
  | "N" :: id :: k :: mb :: rest => do
    let id ← id.toNat?
    let k ← parseKind k
    let mb ← (if mb == "1" then some true else if mb == "0" then some false else none)
    let ns ← parseNodes rest
    pure (⟨id, k, mb⟩ :: ns)
  | _ => none

def parseSig (sig : String) (round : Int) (sharder hash : Nat) : Option (Option Sig) :=
  if sig == "good" then some (some ⟨sharder, round, sharder, hash⟩)
  else if sig == "msgr" then some (some ⟨sharder, round + 1, sharder, hash⟩)
  else if sig == "msgh" then some (some ⟨sharder, round, sharder, hash + 1⟩)
  else if sig == "msgs" then some (some ⟨sharder, round, sharder + 1, hash⟩)
  else if sig == "blank" then some none
  else if sig == "junk" then some (some ⟨0, round, sharder, hash⟩)
  else if sig.startsWith "key" then (sig.drop 3).toString.toNat?.map fun k => some ⟨k, round, sharder, hash⟩
  else none

def parseTicket (w : String) : Option Ticket :=
  match w.splitOn "," with
  | [r, s, h, sig] => do
    let r ← r.toInt?
    let s ← s.toNat?
    let h ← h.toNat?
    let sg ← parseSig sig r s h
    pure { round := r, sharder := s, lfbHash := h, sign := sg }
  | _ => none

def parseBlock (w : String) : Option (Int × Nat) :=
  match w.splitOn "," with
  | [r, h] => do pure ((← r.toInt?), (← h.toNat?))
  | _ => none

def drainU (w : W) : W := step w (.procU w.uq.length)
def drainB (w : W) : W := step w (.procB w.bq.length)

def showTicket (t : Ticket) : String :=
  let sh := if t.sharder == 0 then "-" else toString t.sharder
  let h := if t.lfbHash == 0 then "-" else toString t.lfbHash
  let sg := match t.sign with
    | none => "blank"
    | some s => if s.round == t.round && s.sharder == t.sharder && s.hash == t.lfbHash then s!"by{s.key}" else "other"
  s!"ticket {t.round} {sh} {h} {sg}"

def handleAll (w : W) : List Ticket → W × List String
  | [] => (w, [])
  | t :: ts =>
    let ok := verify w.nodes t
    let (w', outs) := handleAll (step w (.handle t)) ts
    (w', (if ok then "accepted" else "rejected") :: outs)

def step (w : W) (ws : List String) : W × String :=
  match ws with
  | "init" :: self :: k :: r :: h :: rest =>
    match self.toNat?, parseKind k, r.toInt?, h.toNat?, parseNodes rest with
    | some self, some k, some r, some h, some ns => (init ns self (k == .sharder) r h, "ok")
    | _, _, _, _, _ => (w, "bad-op")
  | ["recv", t] => match parseTicket t with
    | some t => let (w', o) := handleAll w [t]; (drainU w', ",".intercalate o)
    | none => (w, "bad-op")
  | "recvs" :: ts => match ts.mapM parseTicket with
    | some (t :: ts) => let (w', o) := handleAll w (t :: ts); (drainU w', ",".intercalate o)
    | _ => (w, "bad-op")
  | ["kick", r] => match r.toInt? with
    | some r => (drainU (ZChain.LFB.step w (.kick r)), "ok")
    | none => (w, "bad-op")
  | ["bcast", r, h] => match r.toInt?, h.toNat? with
    | some r, some h => (drainB (ZChain.LFB.step w (.bcast r h)), "ok")
    | _, _ => (w, "bad-op")
  | "bcasts" :: bs => match bs.mapM parseBlock with
    | some (b :: bs) => (drainB ((b :: bs).foldl (fun w b => ZChain.LFB.step w (.bcast b.1 b.2)) w), "ok")
    | _ => (w, "bad-op")
  | ["get"] => (w, showTicket w.latest)
  | _ => (w, "bad-op")

def run : IO Unit := ZChain.Drv.runLoop step (init [] 1 true 0 0)

end ZChain.Drv.C41

def main : IO Unit := ZChain.Drv.C41.run
