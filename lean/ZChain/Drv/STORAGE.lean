import ZChain.Drv.Util
import ZChain.Model.Storage
/-! Line driver of `Model/Storage.lean` (C09, C12, C13, C14).

A line is `<op> <args…> ; <status> <observed amounts…>` exactly as `harness/cmd/storage` writes it (see its
`ops.go`); the answer is `<status> <observed…> # <state>` in the harness's rendering. For finalize/cancel the driver
computes status and failure reason itself; for the other operations the observed status is an input (a failed call
changes nothing) and a successful call's observed amounts are checked by the model (`inadmissible <why>` otherwise). -/
namespace ZChain.Drv.STORAGE
open ZChain.Storage

def showSP : Option SP → String
  | none => "S:-"
  | some sp => s!"S:{sp.offers}:{sp.stake}:{sp.rewards}:{if sp.dead then 1 else 0}"

def showBA (d : BA) : String := s!"{d.blobber},{d.size},{d.price},{d.cv},{d.used},{d.offer}"

def showAlloc (s : State) (k : Nat) : String :=
  let cp := match s.cps k with
    | some c => toString c
    | none => "-"
  match s.allocs k with
  | some a => s!" A{k}:{a.owner}:{a.exp}:{a.wp}:{cp}:{a.mtc}:{a.mb}:{a.size}:{a.data}[" ++ ";".intercalate (a.bas.map showBA) ++ "]"
  | none => match s.cps k with
    | some _ => s!" A{k}:gone:cp={cp}"
    | none => ""

def showBlobber (s : State) (i : Nat) : String :=
  match s.blobbers i, s.sps i with
  | none, none => ""
  | some b, sp => s!" B{i}:{b.cap}:{b.allocated}:{b.saved}:{if b.dead then 1 else 0}:{b.price} {showSP sp}"
  | none, sp => s!" B{i}:- {showSP sp}"

def showVal (s : State) (i : Nat) : String :=
  match s.vsps i with
  | none => ""
  | sp => s!" V{i} {showSP sp}"

def showRP (s : State) (j : Nat) : String :=
  match s.rps j with
  | none => ""
  | some b => s!" R{j}:{b}"

def render (s : State) : String :=
  s!"W={s.wallet} T={s.now} |" ++ String.join ((List.range s.nallocs).map (showAlloc s)) ++ " |"
    ++ String.join ((List.range NB).map (showBlobber s)) ++ " |"
    ++ String.join ((List.range NV).map (showVal s)) ++ " |"
    ++ String.join ((List.range NC).map (showRP s)) ++ " |"
    ++ String.join ((List.range NC).map fun j => s!" C{j}:{s.clients j}")

def splitObs : List String → List String × List String
  | [] => ([], [])
  | ";" :: rest => ([], rest)
  | w :: rest => let (a, b) := splitObs rest; (w :: a, b)

/-- decimal natural below 2^63 (what the harness accepts as a number) -/
def nat? (s : String) : Option Nat :=
  if s.length > 19 then none else
  match s.toNat? with
  | some n => if n < 2 ^ 63 then some n else none
  | none => none

def idx? (bound : Nat) (s : String) : Option Nat :=
  match nat? s with
  | some n => if n < bound then some n else none
  | none => none

def int? (s : String) : Option Int :=
  match s.toList with
  | '-' :: r => (nat? (String.ofList r)).map fun n => -(n : Int)
  | _ => (nat? s).map fun n => (n : Int)

def optNat? (s : String) : Option (Option Nat) := if s = "-" then some none else (nat? s).map some
def optIdx? (bound : Nat) (s : String) : Option (Option Nat) := if s = "-" then some none else (idx? bound s).map some
def bit? (s : String) : Option Bool := if s = "1" then some true else if s = "0" then some false else none

def natCsv? (s : String) : Option (List Nat) :=
  if s = "-" ∨ s = "" then some [] else (s.splitOn ",").mapM fun w => w.toNat?
def idxCsv? (bound : Nat) (s : String) : Option (List Nat) := (s.splitOn ",").mapM (idx? bound)
def intCsv? (s : String) : Option (List Int) :=
  if s = "-" ∨ s = "" then some [] else (s.splitOn ",").mapM fun w => w.toInt?
def pairCsv? (s : String) : Option (List (Nat × Nat)) :=
  if s = "-" ∨ s = "" then some [] else
  (s.splitOn ",").mapM fun w => match w.splitOn ":" with
    | [a, b] => match a.toNat?, b.toNat? with
      | some a, some b => some (a, b)
      | _, _ => none
    | _ => none

/-- `dp:cr:succ:total:cc:rw` per blobber allocation of a close -/
def closeCsv? (s : String) : Option (List (Nat × Nat) × List (Nat × Nat × Nat)) :=
  if s = "-" ∨ s = "" then some ([], []) else
  (s.splitOn ",").foldr (fun w acc => match acc, (w.splitOn ":").mapM String.toNat? with
    | some (ps, rs), some [dp, cr, succ, total, cc, _rw] => some ((dp, cr) :: ps, (succ, total, cc) :: rs)
    | _, _ => none) (some ([], []))

def caller? (s : String) : Option Caller :=
  match s.toList with
  | 'c' :: r => (idx? NC (String.ofList r)).map .client
  | 'b' :: r => (idx? NB (String.ofList r)).map .blobber
  | 'v' :: r => (idx? NV (String.ofList r)).map fun _ => .other
  | 'o' :: r => (nat? (String.ofList r)).map fun _ => .other
  | _ => none

def provKind? : String → Option Bool
  | "b" => some false
  | "v" => some true
  | _ => none

def provIdx? (v : Bool) (s : String) : Option Nat := idx? (if v then NV else NB) s

/-- well-formedness of the operation part alone (arity, token classes, index bounds): mirrors `wellFormed` of the
harness; a line that fails it is answered `bad-op` whatever follows the `;`. -/
def wellFormed : List String → Bool
  | ["addb", i, cap, wp, rp, j, ch] => (idx? NB i).isSome && (nat? cap).isSome && (nat? wp).isSome && (nat? rp).isSome && (idx? NC j).isSome && (nat? ch).isSome
  | ["addv", i, j] => (idx? NV i).isSome && (idx? NC j).isSome
  | ["stake", kd, i, j, amt] => (match provKind? kd with | some v => (provIdx? v i).isSome | none => false) && (idx? NC j).isSome && (nat? amt).isSome
  | ["unstake", kd, i, j] => (match provKind? kd with | some v => (provIdx? v i).isSome | none => false) && (idx? NC j).isSome
  | ["collect", kd, i, j] => (match provKind? kd with | some v => (provIdx? v i).isSome | none => false) && (idx? NC j).isSome
  | ["newa", j, data, parity, size, value, bl] => (idx? NC j).isSome && (nat? data).isSome && (nat? parity).isSome && (nat? size).isSome && (nat? value).isSome && (idxCsv? NB bl).isSome
  | ["upd", k, c, value, size, ext, add, rem] => (nat? k).isSome && (caller? c).isSome && (nat? value).isSome && (nat? size).isSome && (bit? ext).isSome && (optIdx? NB add).isSome && (optIdx? NB rem).isSome
  | ["commit", k, i, size] => (nat? k).isSome && (idx? NB i).isSome && (int? size).isSome
  | ["genc"] => true
  | ["resp", k, i, v] => (nat? k).isSome && (idx? NB i).isSome && (v = "pass" || v = "fail")
  | ["kill", kd, i] => (match provKind? kd with | some v => (provIdx? v i).isSome | none => false)
  | ["shut", "b", i] => (idx? NB i).isSome
  | ["shutby", i, j] => (idx? NB i).isSome && (idx? NC j).isSome
  | ["fin", k, c] => (nat? k).isSome && (caller? c).isSome
  | ["cancel", k, c] => (nat? k).isSome && (caller? c).isSome
  | ["wpl", k, j, value] => (nat? k).isSome && (idx? NC j).isSome && (nat? value).isSome
  | ["rpl", j, value] => (idx? NC j).isSome && (nat? value).isSome
  | ["rpu", j] => (idx? NC j).isSome
  | ["rr", k, i, j, n] => (nat? k).isSome && (idx? NB i).isSome && (idx? NC j).isSome && (idx? 4294967297 n).isSome
  | ["updb", i, cap, wp] => (idx? NB i).isSome && (optNat? cap).isSome && (optNat? wp).isSome
  | ["tick", dt, blocks, hc] => (nat? dt).isSome && (nat? blocks).isSome && (bit? hc).isSome
  | _ => false

/-- the operation with its observed amounts; `none` = malformed. `okObs` are the tokens after `; ok`. -/
def parse (op okObs : List String) : Option Op :=
  match op, okObs with
  | ["addb", i, cap, wp, _rp, _j, _ch], [] => do pure (.addBlobber (← nat? i) (← nat? cap) (← nat? wp))
  | ["addv", i, _j], [] => do pure (.addValidator (← nat? i))
  | ["stake", kd, i, j, amt], [] => do pure (.stake (← provKind? kd) (← nat? i) (← nat? j) (← nat? amt))
  | ["unstake", kd, i, j], [amt, rew] => do pure (.unstake (← provKind? kd) (← nat? i) (← nat? j) (← nat? amt) (← nat? rew))
  | ["collect", kd, i, j], [_amt, rew] => do pure (.collect (← provKind? kd) (← nat? i) (← nat? j) (← nat? rew))
  | ["updb", i, cap, wp], [] => do pure (.updBlobber (← nat? i) (← optNat? cap) (← optNat? wp))
  | ["kill", "b", i], [ns, del] => do pure (.killBlobber (← nat? i) (← nat? ns) (del = "1"))
  | ["shut", "b", i], [ns, del] => do pure (.shutBlobber (← nat? i) (← nat? ns) (del = "1"))
  | ["shutby", i, _j], [ns, del] => do pure (.shutBlobber (← nat? i) (← nat? ns) (del = "1"))
  | ["kill", "v", i], [ns, del] => do pure (.killValidator (← nat? i) (← nat? ns) (del = "1"))
  | ["newa", j, data, _parity, size, value, _bl], [chosen] => do
      pure (.newAlloc (← nat? j) (← nat? data) (← nat? size) (← nat? value) (← natCsv? chosen))
  | ["upd", k, c, value, size, ext, add, rem], [rw, cc, dp, _cr, ds] => do
      pure (.update (← nat? k) (← caller? c) (← nat? value) (← nat? size) (ext = "1") (← optNat? add) (← optNat? rem)
        (← nat? rw) (← nat? cc) (← nat? dp) (← intCsv? ds))
  | ["commit", k, i, size], [move] => do pure (.commit (← nat? k) (← nat? i) (← int? size) (← nat? move))
  | ["genc"], [_] => some .noop
  | ["resp", k, i, "pass"], [D, m, V, dp, cr] => do
      pure (.respPass (← nat? k) (← nat? i) (← nat? D) (← nat? m) (← nat? V) (← nat? dp) (← pairCsv? cr))
  | ["resp", _, _, "fail"], _ => some .noop
  | ["resp", _, _, "pass"], [] => some .noop
  | ["wpl", k, j, value], [] => do pure (.wpLock (← nat? k) (← nat? j) (← nat? value))
  | ["rpl", j, value], [] => do pure (.rpLock (← nat? j) (← nat? value))
  | ["rpu", j], [] => do pure (.rpUnlock (← nat? j) 0)
  | ["tick", dt, _blocks, _hc], [] => do pure (.tick (← nat? dt))
  | _, _ => none

/-- FNV-1a (64 bit) over the UTF-8 bytes, as 16 lower-case hex digits — the harness computes the same. -/
def fnv64 (s : String) : String :=
  let h := s.toUTF8.foldl (fun (h : UInt64) b => (h ^^^ b.toUInt64) * 1099511628211) 14695981039346656037
  let hex := (Nat.toDigits 16 h.toNat)
  String.ofList (List.replicate (16 - hex.length) '0' ++ hex)

/-- driver state: the model state and whether an answer has already failed to match its recorded hash -/
structure DS where
  s : State
  stale : Bool
  chain : String   -- running hash of the lines seen in this case (see `step`)

def answer (st : String) (s : State) : State × String := (s, st ++ " # " ++ render s)

/-- split the trailing `h=<answer hash>` and `p=<chain hash>` tokens off the observations -/
def splitHash (obs : List String) : List String × Option String × Option String :=
  let (obs1, p) := match obs.reverse with
    | last :: rest => if last.startsWith "p=" then (rest.reverse, some (last.drop 2).toString) else (obs, none)
    | [] => (obs, none)
  match obs1.reverse with
  | last :: rest => if last.startsWith "h=" then (rest.reverse, some (last.drop 2).toString, p) else (obs1, none, p)
  | [] => (obs1, none, p)

/-- the text a line's chain hash covers: everything before the ` p=` token -/
def chainText (ws : List String) : String :=
  " ".intercalate (ws.filter fun w => !w.startsWith "p=")

def stepCore (s : State) (op obs : List String) : State × String :=
  match op with
  | ["init", _tag, mode] => answer "ok" (if mode = "2" then initNvr0 else init)
  | _ =>
  if !wellFormed op then (s, "bad-op") else
  match op with
  | "fin" :: _ | "cancel" :: _ =>
    -- status and reason are the model's own
    match op, obs with
    | [verb, k, c], status :: rest =>
      match nat? k, caller? c with
      | some k, some c =>
        let (X, per) : Nat × Option (List (Nat × Nat) × List (Nat × Nat × Nat)) := match status, rest with
          | "ok", [x, p] => ((nat? x).getD 0, closeCsv? p)
          | _, _ => (0, some ([], []))
        match per with
        | none => (s, "bad-op")
        | some (per, rates) =>
          -- a failure the accounting model has no reason for (`other:<class>`, e.g. a float NaN in the pricing of the
          -- closing payments) is an observation like the failures of the other operations: nothing changes
          let otherFail := status = "fail" && (match rest with | r :: _ => r.startsWith "other:" | [] => false)
          match ZChain.Storage.step s (.close (verb = "fin") k c X per rates) with
          | .ok s' => if otherFail then answer (" ".intercalate (status :: rest)) s
                      else answer (" ".intercalate ("ok" :: (if status = "ok" then rest else []))) s'
          | .error (.fail r) => answer ("fail " ++ r) s
          | .error (.inadm w) => if status = "ok" then answer ("inadmissible " ++ w) s
                                  else if otherFail then answer (" ".intercalate (status :: rest)) s
                                  else answer "model-ok-impl-failed" s
      | _, _ => (s, "bad-op")
    | _, _ => (s, "bad-op")
  | ["rr", k, i, j, _n] =>
    -- read_redeem: `status price [reason]`; the price of the marker is observed, status and reason are the model's own
    -- (a marker the contract refuses before it looks at any pool — `other:<class>` — is an observation)
    match obs, nat? k, nat? i, nat? j with
    | status :: price :: rest, some k, some i, some j =>
      match (if price.length > 20 then none else price.toNat?) with
      | none => (s, "bad-op")
      | some pr =>
        let otherFail := status = "fail" && (match rest with | r :: _ => r.startsWith "other:" | [] => false)
        if otherFail || status = "rejected" then answer (" ".intercalate (status :: price :: rest)) s else
        match ZChain.Storage.step s (.readRedeem k i j pr) with
        | .ok s' => answer ("ok " ++ price) s'
        | .error (.fail r) => answer ("fail " ++ price ++ " " ++ r) s
        | .error (.inadm w) => answer ("inadmissible " ++ w) s
    | _, _, _, _ => (s, "bad-op")
  | ["rpu", j] =>
    match obs, nat? j with
    | ["ok"], some j =>
      -- the drained amount is the pool's balance (the harness does not print it)
      match ZChain.Storage.step s (.rpUnlock j ((s.rps j).getD 0)) with
      | .ok s' => answer "ok" s'
      | .error (.fail r) => answer ("model-fail " ++ r) s
      | .error (.inadm w) => answer ("inadmissible " ++ w) s
    | st :: _, some _ => answer st s
    | _, _ => (s, "bad-op")
  | _ =>
    match obs with
    | "ok" :: okObs =>
      match parse op okObs with
      | none => (s, "bad-op")
      | some o =>
        match ZChain.Storage.step s o with
        | .ok s' => answer (" ".intercalate ("ok" :: okObs)) s'
        | .error (.fail r) => answer ("model-fail " ++ r) s
        | .error (.inadm w) => answer ("inadmissible " ++ w) s
    | st :: rest =>
      -- a failed or rejected call: no state change (the op must still be well-formed)
      if st = "fail" ∨ st = "rejected" then answer (" ".intercalate (st :: rest)) s
      else (s, "bad-op")
    | [] => (s, "bad-op")

/-- one line: the model's answer, or `stale`.
A history may reach the driver cut (the differ's shrinker drops lines); the amounts recorded in the remaining lines then
no longer belong to it. Two guards, mirrored by `impl` of harness/cmd/storage/main.go:
* every recorded line carries `p=` = hash of (previous line's `p`, this line's text): a line whose `p` does not continue
  the chain of the lines actually seen — something before it was removed — and all later lines are answered `stale` by
  BOTH sides, whatever they would compute;
* `h=` = hash of the implementation's answer when the line was recorded: a side whose own answer differs answers
  `stale` from there on. On an uncut history the implementation always reproduces `h`, so the model answering `stale`
  there is a genuine disagreement. -/
def step (d : DS) (ws : List String) : DS × String :=
  let (op, obs0) := splitObs ws
  let (obs, h, p) := splitHash obs0
  let isInit := match op with
    | ["init", _, _] => true
    | _ => false
  let expected := if isInit then fnv64 (chainText ws) else fnv64 (d.chain ++ "|" ++ chainText ws)
  let chainOk := match p with
    | some pp => pp == expected
    | none => true
  let fresh := (isInit || !d.stale) && chainOk
  let (s', out) := stepCore d.s op obs
  let ok := match h with
    | some hh => fnv64 out == hh
    | none => true
  if fresh && ok then (⟨s', false, expected⟩, out) else (⟨s', true, expected⟩, "stale")

def run : IO Unit := ZChain.Drv.runLoop step ⟨init, false, ""⟩

end ZChain.Drv.STORAGE

def main : IO Unit := ZChain.Drv.STORAGE.run
