import ZChain.Drv.Util
import ZChain.Model.ViewChange
/-! Line driver for `Model/ViewChange` (C38). Labels: `m<i>` miners (id i), `s<i>` sharders (id 100+i), `x<i>` other
clients (id 200+i).

```
init minN= maxN= minS= maxS= t=<16hex> k=<16hex> x=<16hex> rounds=a,b,c,d,e miners=m0:10,… sharders=s0:5,… prevM=m0,… prevS=s0,… seed=<int> perms=<Perm(0)>;<Perm(1)>;…
pay | skip | mpk <sender> <size> [as=<label>] | sos <sender> <count> <valid|bad> [as=<label>]
wait <sender> | keep <sender> <sharder> | addm <m> <stake> | adds <s> <stake> | finalize seed=<int> perms=…
```
-/
namespace ZChain.Drv.C38
open ZChain.ViewChange ZChain.Reduce

def parseLabel (w : String) : Option Nat :=
  if w.length < 2 then none else
  match (w.drop 1).toString.toNat? with
  | none => none
  | some i =>
    if i ≥ 100 then none
    else if w.startsWith "m" then some i
    else if w.startsWith "s" then some (100 + i)
    else if w.startsWith "x" then some (200 + i)
    else none

def showLabel (i : Nat) : String :=
  if i < 100 then s!"m{i}" else if i < 200 then s!"s{i - 100}" else s!"x{i - 200}"

def insertNat (x : Nat) : List Nat → List Nat
  | [] => [x]
  | y :: ys => if x ≤ y then x :: y :: ys else y :: insertNat x ys
def sortNat (l : List Nat) : List Nat := l.foldr insertNat []

def showLabels (l : List Nat) : String :=
  if l.isEmpty then "-" else ",".intercalate ((sortNat l).map showLabel)

def kvGet (ws : List String) (k : String) : Option String :=
  (ws.find? fun w => w.startsWith (k ++ "=")).map fun w => (w.drop (k.length + 1)).toString

def parseHex (s : String) : Option Nat :=
  if s.length ≠ 16 then none else
  s.toList.foldl (fun acc c => match acc with
    | none => none
    | some a =>
      if '0' ≤ c ∧ c ≤ '9' then some (a * 16 + (c.toNat - '0'.toNat))
      else if 'a' ≤ c ∧ c ≤ 'f' then some (a * 16 + (c.toNat - 'a'.toNat + 10))
      else none) (some 0)

def parseNodes (s : String) (kind : String) : Option (List Node) :=
  if s = "-" ∨ s = "" then some [] else
  (s.splitOn ",").mapM fun t =>
    match t.splitOn ":" with
    | [l, st] => match parseLabel l, st.toNat? with
      | some i, some st => if l.startsWith kind ∧ st < 2 ^ 64 then some ⟨i, st⟩ else none
      | _, _ => none
    | _ => none

def parseLabels (s : String) : Option (List Nat) :=
  if s = "-" ∨ s = "" then some [] else (s.splitOn ",").mapM parseLabel

def parsePerms (s : String) : Option (List (List Nat)) :=
  (s.splitOn ";").mapM fun p => if p = "" then some [] else (p.splitOn ",").mapM (·.toNat?)

def isPermOf (k : Nat) (p : List Nat) : Bool :=
  p.length = k && (List.range k).all (fun i => p.contains i)

def validPerms (ps : List (List Nat)) : Bool :=
  (List.range ps.length).all fun k => isPermOf k (ps.getD k [])

def nodupNat : List Nat → Bool
  | [] => true
  | x :: xs => !xs.contains x && nodupNat xs

def parseRounds (s : String) : Option (List Int) :=
  match (s.splitOn ",").mapM (·.toNat?) with
  | some l => if l.length = 5 then some (l.map Int.ofNat) else none
  | none => none

def finite (bits : Nat) : Bool := (decode bits).isSome

def initState (ws : List String) : Option State := do
  let minN ← (← kvGet ws "minN").toNat?
  let maxN ← (← kvGet ws "maxN").toNat?
  let minS ← (← kvGet ws "minS").toNat?
  let maxS ← (← kvGet ws "maxS").toNat?
  let t ← parseHex (← kvGet ws "t")
  let k ← parseHex (← kvGet ws "k")
  let x ← parseHex (← kvGet ws "x")
  let rounds ← parseRounds (← kvGet ws "rounds")
  let miners ← parseNodes (← kvGet ws "miners") "m"
  let sharders ← parseNodes (← kvGet ws "sharders") "s"
  let prevM ← parseLabels (← kvGet ws "prevM")
  let prevS ← parseLabels (← kvGet ws "prevS")
  let _seed ← (← kvGet ws "seed").toInt?
  let perms ← parsePerms (← kvGet ws "perms")
  if !(finite t && finite k && finite x) || prevM.isEmpty || prevS.isEmpty || !validPerms perms
      || !nodupNat (ids miners) || !nodupNat (ids sharders) || maxN ≥ 2 ^ 31 || maxS ≥ 2 ^ 31 then none
  else
    let cfg : Cfg := ⟨minN, maxN, minS, maxS, t, k, x, rounds⟩
    let lfmb : MB := ⟨1, 0, 1, 1, prevM.length, ⟨prevM, prevM⟩, ⟨prevS, prevS⟩⟩
    some { cfg := cfg, round := 1, pn := none, miners := miners, sharders := sharders, dkg := DKG.empty 0,
           mpks := none, gsos := none, keep := [], mb := none, viewChange := 0, lastRound := 0, gnPrev := none,
           lfmb := lfmb, perms := perms }

def showMB (o : Option MB) : String :=
  match o with
  | none => "mb none"
  | some mb => s!"mb {mb.number} {mb.start} T={mb.t} K={mb.k} N={mb.n} m={showLabels mb.miners.nodes} s={showLabels mb.sharders.nodes} vm={showLabels mb.miners.vis} vs={showLabels mb.sharders.vis}"

def snapshot (s : State) : String :=
  let pn := match s.pn with
    | none => "pn none"
    | some p => s!"pn {p.phase} {p.start} {p.cur} {p.restarts}"
  let prev := match s.gnPrev with
    | none => "prev none"
    | some mb => s!"prev m={showLabels mb.miners.vis} s={showLabels mb.sharders.vis}"
  let showOpt (o : Option (List Nat)) := showLabels (o.getD [])
  s!"{pn} | dkg {showLabels (ids s.dkg.nodes)} T={s.dkg.t} K={s.dkg.k} N={s.dkg.n} sr={s.dkg.startRound} | mpks {showOpt s.mpks} | gsos {showOpt s.gsos} | waited {showLabels s.dkg.waited} | keep {showLabels s.keep} | {showMB s.mb} | vc {s.viewChange} | {prev}"

def showErr : Err → String
  | .phase => "err phase" | .notMember => "err not-member" | .size => "err size" | .dup => "err dup"
  | .few => "err few" | .invalid => "err invalid" | .unknown => "err unknown" | .other => "err other"

def txn (s : State) (r : Except Err State) : Option State × String :=
  match r with
  | .ok s' => (some s', "ok")
  | .error e => (some s, showErr e)

def asArg (rest : List String) : Option (Option Nat) :=
  match rest with
  | [] => some none
  | [w] => if w.startsWith "as=" then (parseLabel (w.drop 3).toString).map some else none
  | _ => none

def stepSome (s : State) (ws : List String) : Option State × String :=
  match ws with
  | ["pay"] =>
    match payFees s with
    | .ok s' => (some (nextRound s'), "ok | " ++ snapshot s')
    | .err => (some (nextRound s), "fail | " ++ snapshot s)
    | .panic => (some (nextRound s), "panic | " ++ snapshot s)
  | ["skip"] => (some (nextRound s), "ok")
  | "mpk" :: sender :: size :: rest =>
    match parseLabel sender, size.toNat?, asArg rest with
    | some sd, some sz, some as => if sz > 40 then (some s, "bad-op") else txn s (contributeMpk s sd sz as)
    | _, _, _ => (some s, "bad-op")
  | "sos" :: sender :: count :: v :: rest =>
    -- `valid|bad` says whether the entries verify against the DKG of `as` (default: the sender's own); the contract
    -- validates against the sender's MPK, so entries of another miner's DKG do not verify
    match parseLabel sender, count.toNat?, asArg rest with
    | some sd, some c, some as =>
      if v ≠ "valid" ∧ v ≠ "bad" then (some s, "bad-op") else
      txn s (shareSignsOrShares s sd c (decide (v = "valid") && (decide (c = 0) || decide (as.getD sd = sd))))
    | _, _, _ => (some s, "bad-op")
  | ["wait", sender] =>
    match parseLabel sender with
    | some sd => txn s (wait s sd)
    | none => (some s, "bad-op")
  | ["keep", sender, sh] =>
    match parseLabel sender, parseLabel sh with
    | some _, some i => if sh.startsWith "s" then txn s (sharderKeep s i) else (some s, "bad-op")
    | _, _ => (some s, "bad-op")
  | ["addm", l, st] =>
    match parseLabel l, st.toNat? with
    | some i, some st => if l.startsWith "m" ∧ st < 2 ^ 64 then (some { s with miners := register s.miners ⟨i, st⟩ }, "ok") else (some s, "bad-op")
    | _, _ => (some s, "bad-op")
  | ["adds", l, st] =>
    match parseLabel l, st.toNat? with
    | some i, some st => if l.startsWith "s" ∧ st < 2 ^ 64 then (some { s with sharders := register s.sharders ⟨i, st⟩ }, "ok") else (some s, "bad-op")
    | _, _ => (some s, "bad-op")
  | "finalize" :: rest =>
    match (kvGet rest "seed").bind (·.toInt?), (kvGet rest "perms").bind parsePerms with
    | some _, some perms =>
      if !validPerms perms then (some s, "bad-op") else
      match finalize s perms with
      | some s' => (some s', "ok")
      | none => (some s, "none")
    | _, _ => (some s, "bad-op")
  | _ => (some s, "bad-op")

def step (st : Option State) (ws : List String) : Option State × String :=
  match ws with
  | "init" :: rest =>
    match initState rest with
    | some s => (some s, "ok")
    | none => (none, "bad-op")
  | _ =>
    match st with
    | none => (none, "bad-op")
    | some s => stepSome s ws

def run : IO Unit := ZChain.Drv.runLoop step none

end ZChain.Drv.C38

def main : IO Unit := ZChain.Drv.C38.run
