import ZChain.Drv.Util
import ZChain.Model.Codec
import ZChain.Generated.C08
/-! Line driver for the codec model (C08), over the GENERATED schemas.

`init`                                  → `ok <number of schemas>`
`enc <schema> <value>`                  → `hex <bytes>` | `illtyped`
`dec <schema> <hex>`                    → `ok <hex of the re-encoded decoded value> rest=<n>` | `fail`
`state <hash-hex> <round> <balance> <nonce>`   → `hex <bytes>`
`unstate <hex>`                         → `state <hash-hex> <round> <balance> <nonce>` | `fail`
`mig <from schema> <to schema> <value>` → `hex <bytes of the migrated value under the new schema>` | `illtyped`

value syntax (one token): `i<int>` `u<nat>` `bt|bf` `s<hex>` `x<hex>` `f<hex16>` `g<hex8>` `t<sec>:<nsec>`
`[v,v,…]` (slice, array, struct) `{<hexkey>=v,…}` (map) `n` (nil) `&v` (pointer) `@<i>:v` (wrapper, version index). -/
namespace ZChain.Drv.C08
open ZChain.Codec

def hexDigit (n : Nat) : Char := if n < 10 then Char.ofNat (48 + n) else Char.ofNat (87 + n)

def toHex (bs : Bytes) : String := String.ofList (bs.flatMap fun b => [hexDigit (b / 16 % 16), hexDigit (b % 16)])

def hexVal (c : Char) : Option Nat :=
  if '0' ≤ c ∧ c ≤ '9' then some (c.toNat - 48)
  else if 'a' ≤ c ∧ c ≤ 'f' then some (c.toNat - 87)
  else none

def fromHexChars : List Char → Option Bytes
  | [] => some []
  | [_] => none
  | a :: b :: r =>
    match hexVal a, hexVal b, fromHexChars r with
    | some x, some y, some t => some ((x * 16 + y) :: t)
    | _, _, _ => none

def fromHex (s : String) : Option Bytes := fromHexChars s.toList

/-- split off the longest prefix satisfying `p` -/
def spanChars (p : Char → Bool) : List Char → List Char × List Char
  | [] => ([], [])
  | c :: r => if p c then let (a, b) := spanChars p r; (c :: a, b) else ([], c :: r)

def isHex (c : Char) : Bool := (hexVal c).isSome
def isDigit (c : Char) : Bool := '0' ≤ c ∧ c ≤ '9'

def natOf (cs : List Char) : Option Nat := if cs.isEmpty then none else (String.ofList cs).toNat?

mutual
/-- recursive-descent parser of the value syntax, with fuel -/
def pVal : Nat → List Char → Option (Val × List Char)
  | 0, _ => none
  | fuel + 1, cs =>
    match cs with
    | 'i' :: '-' :: r => let (d, r') := spanChars isDigit r; (natOf d).map fun n => (.int (-(n : Int)), r')
    | 'i' :: r => let (d, r') := spanChars isDigit r; (natOf d).map fun n => (.int n, r')
    | 'u' :: r => let (d, r') := spanChars isDigit r; (natOf d).map fun n => (.uint n, r')
    | 'b' :: 't' :: r => some (.bool true, r)
    | 'b' :: 'f' :: r => some (.bool false, r)
    | 's' :: r => let (h, r') := spanChars isHex r; (fromHexChars h).map fun b => (.str b, r')
    | 'x' :: r => let (h, r') := spanChars isHex r; (fromHexChars h).map fun b => (.bin b, r')
    | 'f' :: r => let (h, r') := spanChars isHex r; (fromHexChars h).map fun b => (.f64 (ofBe b), r')
    | 'g' :: r => let (h, r') := spanChars isHex r; (fromHexChars h).map fun b => (.f32 (ofBe b), r')
    | 't' :: '-' :: r =>
      let (d, r') := spanChars isDigit r
      match r' with
      | ':' :: r'' => let (e, r3) := spanChars isDigit r''
        match natOf d, natOf e with
        | some s, some ns => some (.time (-(s : Int)) ns, r3)
        | _, _ => none
      | _ => none
    | 't' :: r =>
      let (d, r') := spanChars isDigit r
      match r' with
      | ':' :: r'' => let (e, r3) := spanChars isDigit r''
        match natOf d, natOf e with
        | some s, some ns => some (.time s ns, r3)
        | _, _ => none
      | _ => none
    | 'n' :: r => some (.null, r)
    | '&' :: r => (pVal fuel r).map fun (v, r') => (.some v, r')
    | '@' :: r =>
      let (d, r') := spanChars isDigit r
      match r', natOf d with
      | ':' :: r'', some i => (pVal fuel r'').map fun (v, r3) => (.alt i v, r3)
      | _, _ => none
    | '[' :: ']' :: r => some (.arr .nil, r)
    | '[' :: r => (pVals fuel r).map fun (vs, r') => (.arr vs, r')
    | '{' :: '}' :: r => some (.map .nil, r)
    | '{' :: r => (pKVs fuel r).map fun (kvs, r') => (.map kvs, r')
    | _ => none
def pVals : Nat → List Char → Option (Vals × List Char)
  | 0, _ => none
  | fuel + 1, cs =>
    match pVal fuel cs with
    | none => none
    | some (v, ',' :: r) => (pVals fuel r).map fun (vs, r') => (.cons v vs, r')
    | some (v, ']' :: r) => some (.cons v .nil, r)
    | _ => none
def pKVs : Nat → List Char → Option (KVs × List Char)
  | 0, _ => none
  | fuel + 1, cs =>
    let (h, r) := spanChars isHex cs
    match fromHexChars h, r with
    | some k, '=' :: r' =>
      match pVal fuel r' with
      | some (v, ',' :: r'') => (pKVs fuel r'').map fun (kvs, r3) => (.cons k v kvs, r3)
      | some (v, '}' :: r'') => some (.cons k v .nil, r'')
      | _ => none
    | _, _ => none
end

def parseVal (s : String) : Option Val :=
  match pVal (s.length + 1) s.toList with
  | some (v, []) => some v
  | _ => none

def schemaOf (name : String) : Option Ty := (Gen.schemas.find? (·.1 = name)).map (·.2)

def structFields : Ty → Option Fields
  | .struct fs => some fs
  | _ => none

def intOf (s : String) : Option Int := s.toInt?

def schemaIndex (name : String) : Option Nat :=
  let rec go : List (String × Ty) → Nat → Option Nat
    | [], _ => none
    | (n, _) :: r, i => if n = name then some i else go r (i + 1)
  go Gen.schemas 0

def step (_ : Unit) (ws : List String) : Unit × String :=
  match ws with
  | ["init"] => ((), s!"ok {Gen.schemas.length}")
  | ["enc", sn, vs] =>
    match schemaOf sn, parseVal vs with
    | some t, some v => ((), if wt t v then "hex " ++ toHex (enc t v) else "illtyped")
    | _, _ => ((), "bad-op")
  | ["dec", sn, hx] =>
    match schemaOf sn, fromHex hx with
    | some t, some bs =>
      match dec t bs with
      | some (v, rest) => ((), s!"ok {toHex (enc t v)} rest={rest.length}")
      | none => ((), "fail")
    | _, _ => ((), "bad-op")
  | ["state", hh, r, b, n] =>
    match fromHex hh, intOf r, b.toNat?, intOf n with
    | some h, some r, some b, some n => ((), "hex " ++ toHex (encState ⟨h, r, b, n⟩))
    | _, _, _, _ => ((), "bad-op")
  | ["unstate", hx] =>
    match fromHex hx with
    | some bs =>
      match decState bs with
      | some s => ((), s!"state {toHex s.txnHash} {s.round} {s.balance} {s.nonce}")
      | none => ((), "fail")
    | none => ((), "bad-op")
  | ["mig", fromN, toN, vs] =>
    match schemaOf fromN, schemaOf toN, parseVal vs, schemaIndex fromN, schemaIndex toN with
    | some ft, some tt, some (.arr old), some fi, some ti =>
      match structFields ft, structFields tt, Gen.migrations.find? (fun m => m.1 = fi ∧ m.2.1 = ti) with
      | some ffs, some tfs, some (_, _, copied, ver) =>
        if wt ft (.arr old) then
          ((), "hex " ++ toHex (enc tt (.arr (migrate ffs tfs copied ver old))))
        else ((), "illtyped")
      | _, _, _ => ((), "bad-op")
    | _, _, _, _, _ => ((), "bad-op")
  | _ => ((), "bad-op")

def run : IO Unit := ZChain.Drv.runLoop step ()

end ZChain.Drv.C08

def main : IO Unit := ZChain.Drv.C08.run
