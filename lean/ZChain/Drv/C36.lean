import ZChain.Drv.Util
import ZChain.Model.Finalize
/-! Line driver for the finalization model (C36).
`tree B <hash>:<round>:<prev> … R <round> <hash> … R <round> …`  sets the block store and the round objects;
`cfb <lfbr> <r>` = ComputeFinalizedBlock; `anc <h1> <h2>` = commonAncestor; `decide <plfb hash> <r>` = the branch
finalizeRound takes. -/
namespace ZChain.Drv.C36
open ZChain.Finalize

def parseBlk (w : String) : Option Blk :=
  match (w.splitOn ":").map String.toNat? with
  | [some h, some r, some p] => some ⟨h, r, p⟩
  | _ => none

/-- parse the token list after `tree`, one token at a time. `mode`: 0 = expect `B`/`R`, 1 = expect a block,
2 = expect a round number, 3 = inside a round's hash list (the last round of `c.rounds` is being filled). -/
def parseTree : List String → Nat → Chain → Option Chain
  | [], mode, c => if mode == 0 || mode == 3 then some c else none
  | w :: rest, mode, c =>
    if mode == 1 then
      match parseBlk w with
      | some b => parseTree rest 0 { c with blocks := c.blocks ++ [b] }
      | none => none
    else if mode == 2 then
      match w.toNat? with
      | some n => parseTree rest 3 { c with rounds := c.rounds ++ [(n, [])] }
      | none => none
    else if w == "B" then parseTree rest 1 c
    else if w == "R" then parseTree rest 2 c
    else if mode == 3 then
      match w.toNat? with
      | some h => match c.block? h, c.rounds.getLast? with
        | some b, some (n, bs) => parseTree rest 3 { c with rounds := c.rounds.dropLast ++ [(n, bs ++ [b])] }
        | _, _ => none
      | none => none
    else none

def showO : Option Blk → String
  | none => "nil"
  | some b => s!"blk {b.hash}"

def step (c : Chain) (ws : List String) : Chain × String :=
  match ws with
  | "tree" :: rest => match parseTree rest 0 ⟨[], []⟩ with
    | some c' => (c', "ok")
    | none => (c, "bad-op")
  | ["cfb", l, r] => match l.toNat?, r.toNat? with
    | some l, some r => match c.round? r with
      | none => (c, "no-round")
      | some _ => (c, showO (computeFinalizedBlock c l r))
    | _, _ => (c, "bad-op")
  | ["anc", a, b] => match a.toNat?, b.toNat? with
    | some a, some b => match c.block? a, c.block? b with
      | some a, some b => (c, showO (commonAncestor c a b))
      | _, _ => (c, "no-block")
    | _, _ => (c, "bad-op")
  | ["decide", p, r] => match p.toNat?, r.toNat? with
    | some p, some r => match c.block? p, c.round? r with
      | some p, some _ => (c, match finalizeDecision c p r with
          | .none => "none"
          | .forward b => s!"forward {b.hash}"
          | .rollback b => "rollback " ++ showO b)
      | _, _ => (c, "no-block")
    | _, _ => (c, "bad-op")
  | _ => (c, "bad-op")

def run : IO Unit := ZChain.Drv.runLoop step ⟨[], []⟩

end ZChain.Drv.C36

def main : IO Unit := ZChain.Drv.C36.run
