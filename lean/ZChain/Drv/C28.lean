import ZChain.Drv.Util
import ZChain.Model.StateChange
/-! Line driver for the state-change synchronisation model (C28). Operations as in `harness/cmd/c28/main.go`:
`world` | `p <enc> <hash> <L|F|E> <rehash> <child>*` | `blk <hash> <statehash> <count> <prev|-> <0|1> <status> <round>` |
`cs <block> <root> [honest]` | `n <enc> <hash> <L|F|E> <rehash> <child>*` | `decode` | `apply` | `rawapply` | `state` | `db`.
The encodings are opaque to the model; it works from the annotation, which the Go side checks against the real
code before it uses a line. -/
namespace ZChain.Drv.C28
open ZChain.StateChange

def isHex (s : String) : Bool :=
  s.length % 2 == 0 && s.all (fun c => ('0' ≤ c && c ≤ '9') || ('a' ≤ c && c ≤ 'f'))

structure St where
  started : Bool := false
  db      : List Node := []
  blk     : Option Blk := none
  bstate  : Option BState := none
  csBlock : String := ""
  csRoot  : String := ""
  nodes   : List Node := []     -- in order
  bscSet  : Bool := false
  decoded : Bool := false
  root    : Option Node := none -- bsc.GetRoot()
  pStatus : Option Nat := none     -- state status of the previous block (none: no previous block)
  pState  : Option BState := none  -- its in-memory client state, if it has one

def parseNode (ws : List String) : Option Node :=
  match ws with
  | enc :: h :: k :: rh :: cs =>
    if !(isHex enc) || enc.isEmpty then none
    else match k with
      | "L" => some { hash := h, leaf := true, rehash := rh, children := cs }
      | "F" => some { hash := h, leaf := false, rehash := rh, children := cs }
      | "E" => some { hash := h, leaf := false, rehash := rh, children := cs }
      | _ => none
  | _ => none

def showErr : ErrClass → String
  | .blockHash => "block-hash" | .stateHash => "state-hash" | .rootNil => "root-nil" | .count => "count"
  | .stateMismatch => "state-mismatch"

def doApply (s : St) (b : Blk) (root : Option Node) : St × String :=
  let cs : ChangeSet := { block := s.csBlock, root := s.csRoot, nodes := s.nodes }
  let (r, bs, st) := apply b cs root (baseOverlay s.pStatus s.pState)
  let s' := { s with blk := some { b with status := st }, bstate := (match bs with | some x => some x | none => s.bstate) }
  match r with
  | .applied => (s', "applied")
  | .noop => (s', "noop")
  | .err c => (s', "apply-err:" ++ showErr c)

def step (s : St) (ws : List String) : St × String :=
  match ws with
  | ["world"] => ({ started := true }, "ok")
  | "p" :: rest =>
    if !s.started then (s, "bad-op") else
    match parseNode rest with
    | none => (s, "bad-op")
    | some n => ({ s with db := n :: s.db.filter (fun m => m.hash != n.hash) }, "ok")
  | ["blk", h, sh, cnt, prev, pc, st, rd] =>
    if !s.started then (s, "bad-op") else
    match cnt.toNat?, st.toNat?, rd.toNat? with
    | some c, some stv, some r =>
      if stv > 5 || !(isHex sh) || (pc != "0" && pc != "1") || r < 1 || r > 1099511627776
         || (prev != "-" && prev != "@" && !(isHex prev)) then (s, "bad-op")
      else if prev = "@" then
        -- the previous block is the block handled just before, as it stands
        match s.blk with
        | none => (s, "bad-op")
        | some pb =>
          let b : Blk := { hash := h, stateHash := sh, count := c, prev := some pb.stateHash,
                           prevComputed := pb.status ≥ 4, status := stv, round := r }
          ({ s with blk := some b, bstate := none, bscSet := false, decoded := false, nodes := [], root := none,
                    pStatus := some pb.status, pState := s.bstate }, "ok")
      else
        let b : Blk := { hash := h, stateHash := sh, count := c, prev := if prev = "-" then none else some prev,
                         prevComputed := pc = "1", status := stv, round := r }
        -- a fresh previous block whose state is a trie directly over the node DB (no in-memory nodes)
        ({ s with blk := some b, bstate := none, bscSet := false, decoded := false, nodes := [], root := none,
                  pStatus := if prev = "-" then none else some (if pc = "1" then 4 else 0), pState := none }, "ok")
    | _, _, _ => (s, "bad-op")
  | "cs" :: blkh :: root :: rest =>
    if s.blk.isNone || !(rest = [] || rest = ["honest"]) || !(isHex root) then (s, "bad-op")
    else ({ s with csBlock := blkh, csRoot := root, nodes := [], bscSet := false, decoded := false, root := none }, "ok")
  | "n" :: rest =>
    if s.blk.isNone || s.csRoot = "" then (s, "bad-op") else
    match parseNode rest with
    | none => (s, "bad-op")
    | some n => ({ s with nodes := s.nodes ++ [n] }, "ok")
  | ["decode"] =>
    match s.blk with
    | none => (s, "bad-op")
    | some _ =>
      if s.csRoot = "" || s.bscSet then (s, "bad-op") else
      match computeProperties { block := s.csBlock, root := s.csRoot, nodes := s.nodes } with
      | none => (s, "decode-err")
      | some r => ({ s with bscSet := true, decoded := true, root := some r }, "ok")
  | ["rawapply"] =>
    match s.blk with
    | none => (s, "bad-op")
    | some b =>
      if s.csRoot = "" || s.bscSet then (s, "bad-op") else
      doApply { s with bscSet := true, root := none } b none
  | ["apply"] =>
    match s.blk with
    | none => (s, "bad-op")
    | some b =>
      if !s.decoded then (s, "bad-op") else
      doApply { s with decoded := false } b s.root
  | ["state"] =>
    match s.blk with
    | none => (s, "bad-op")
    | some b =>
      match s.bstate with
      | none => (s, s!"nostate {b.status}")
      | some bs => (s, s!"state {bs.root} {b.status} " ++ (if complete s.db bs then "complete" else "missing"))
  | ["db"] => if !s.started then (s, "bad-op") else (s, s!"db {s.db.length}")
  | _ => (s, "bad-op")

def run : IO Unit := ZChain.Drv.runLoop step {}

end ZChain.Drv.C28

def main : IO Unit := ZChain.Drv.C28.run
