import ZChain.Drv.Util
import ZChain.Base.F64Line
import ZChain.Model.MinerFees
/-! Line driver for the miner fee payment model (C22).

`gn <shareRatio hex> <blockReward> <rewardRate hex> <epoch> <decline hex> <nMinerDel> <nSharderDel> <lastRound> <nSharders>` → `ok`
   (first op of a case; forgets all nodes; `nSharders` is only used by the Go side's selection)
`node m|s <idx> <killed 0|1> <minStake> <charge hex> <spReward> <bal:reward>*` → `ok`
`pay <isGen 0|1> <inputRound> <round> <fee,fee…|-> <minerSel> <sharderSel> <sender> <gen> <seed>` → result
   minerSel   = `none` | `<idx>/<i.j.k|->`              (the rewarded miner and the delegates `rand.Perm` selects)
   sharderSel = `none` (no live sharder) | `empty` | `<idx>/<i.j|->;<idx>/…` (rewarded sharders in shuffle order)
   `sender gen seed` are for the Go side.
result: `ok gn <lastRound> <rewardRate hex> a <mR> <mF> <sR> <sF> [M <idx> <spReward> p <pool rewards>] [S <idx> <spReward> p <pool rewards>]*` | `err <class>`
`dupcheck <fn:0|1,…|-> ` → `accept` | `reject`   (built-ins fixed: the names of gBuildInTxnsMap are passed by the harness in `builtins <a,b,…>`)
-/
namespace ZChain.Drv.C22
open ZChain ZChain.StakePool ZChain.MinerFees

structure St where
  gn       : Option GN
  miners   : List (Nat × SP)
  sharders : List (Nat × SP)
  builtins : List String

def allSome {α} : List (Option α) → Option (List α)
  | [] => some []
  | none :: _ => none
  | some a :: rest => (allSome rest).map (a :: ·)

def parsePool (s : String) : Option DP :=
  match s.splitOn ":" with
  | [b, r] => match F64Line.u64? b, F64Line.u64? r with
    | some b, some r => some ⟨b, r⟩
    | _, _ => none
  | _ => none

def look (l : List (Nat × SP)) (k : Nat) : Option SP := (l.find? (fun p => p.1 = k)).map (·.2)

def put (l : List (Nat × SP)) (k : Nat) (v : SP) : List (Nat × SP) :=
  match l with
  | [] => [(k, v)]
  | (k', v') :: rest => if k' = k then (k, v) :: rest else (k', v') :: put rest k v

def parseIdxs (s : String) : Option (List Nat) :=
  if s = "-" then some [] else allSome ((s.splitOn ".").map String.toNat?)

/-- `<idx>/<idxs>` → the provider index and the selection, validated against the provider's pool count. -/
def parseSel (nodes : List (Nat × SP)) (n : Nat) (s : String) : Option (Nat × Sel) :=
  match s.splitOn "/" with
  | [i, is] => match i.toNat?, parseIdxs is with
    | some i, some is => match look nodes i with
      | some sp =>
        if is.all (· < sp.pools.length) ∧ is.eraseDups.length = is.length ∧ (sp.pools.length ≤ n ∨ is.length = n) then some (i, (sp, is)) else none
      | none => none
    | _, _ => none
  | _ => none

def showSel (tag : String) (i : Nat) (p : Sel) : String :=
  s!" {tag} {i} {p.1.reward} p" ++ String.join (p.1.pools.map fun d => s!" {d.reward}")

def zipIdx (is : List Nat) (ps : List Sel) : List (Nat × Sel) := is.zip ps

def step (st : St) (ws : List String) : St × String :=
  match ws with
  | ["builtins", bs] => ({ st with builtins := if bs = "-" then [] else bs.splitOn "," }, "ok")
  | ["dupcheck", ts] =>
    let items := if ts = "-" then some [] else allSome ((ts.splitOn ",").map fun t => match t.splitOn ":" with
      | [fn, "1"] => some (⟨true, fn⟩ : Txn)
      | [fn, "0"] => some ⟨false, fn⟩
      | _ => none)
    match items with
    | some txns => (st, if noDupBuiltIns st.builtins txns [] then "accept" else "reject")
    | none => (st, "bad-op")
  | ["gn", sr, br, rr, ep, dc, nm, nsd, lr, _ns] =>
    match F64.ofHex? sr, F64Line.u64? br, F64.ofHex? rr, F64Line.i64? ep, F64.ofHex? dc, nm.toNat?, nsd.toNat?, F64Line.i64? lr with
    | some sr, some br, some rr, some ep, some dc, some nm, some nsd, some lr =>
      if ep = 0 then ({ st with gn := none, miners := [], sharders := [] }, "bad-op")
      else ({ st with gn := some ⟨sr, br, rr, ep, dc, nm, nsd, lr⟩, miners := [], sharders := [] }, "ok")
    | _, _, _, _, _, _, _, _ => ({ st with gn := none, miners := [], sharders := [] }, "bad-op")
  | "gn" :: _ => ({ st with gn := none, miners := [], sharders := [] }, "bad-op")
  | "node" :: kind :: idx :: k :: ms :: ch :: r :: pools =>
    match st.gn, idx.toNat?, F64Line.u64? ms, F64.ofHex? ch, F64Line.u64? r, allSome (pools.map parsePool) with
    | some _, some idx, some ms, some ch, some r, some ps =>
      if (k = "0" ∨ k = "1") ∧ idx < 8 ∧ (kind = "m" ∨ kind = "s") then
        let sp : SP := { pools := ps, reward := r, minStake := ms, ratio := ch, killed := k = "1" }
        if kind = "m" then ({ st with miners := put st.miners idx sp }, "ok") else ({ st with sharders := put st.sharders idx sp }, "ok")
      else (st, "bad-op")
    | _, _, _, _, _, _ => (st, "bad-op")
  | ["pay", ig, ir, rd, fees, msel, ssel, _sender, _gen, _seed] =>
    match st.gn, ir.toInt?, rd.toInt?, (if fees = "-" then some [] else allSome ((fees.splitOn ",").map F64Line.u64?)) with
    | some gn, some ir, some rd, some fees =>
      let miner : Option (Option (Nat × Sel)) := if msel = "none" then some none else (parseSel st.miners gn.nMinerDel msel).map some
      let shs : Option (Option (List (Nat × Sel))) :=
        if ssel = "none" then some none
        else if ssel = "empty" then some (some [])
        else (allSome ((ssel.splitOn ";").map (parseSel st.sharders gn.nSharderDel))).map some
      match miner, shs with
      | some miner, some shs =>
        if (ig = "0" ∨ ig = "1") then
          match payFees gn (ig = "1") ir rd fees (miner.map (·.2)) (shs.map (·.map (·.2))) with
          | .error e => (st, "err " ++ e.tag)
          | .ok o =>
            let st1 := { st with gn := some o.gn }
            let (st2, ms) := match miner, o.miner with
              | some (i, _), some m' => ({ st1 with miners := put st1.miners i m'.1 }, showSel "M" i m')
              | _, _ => (st1, "")
            let (st3, ss) := match shs, o.sharders with
              | some sel, some out =>
                let pairs := zipIdx (sel.map (·.1)) out
                ({ st2 with sharders := pairs.foldl (fun acc (p : Nat × Sel) => put acc p.1 p.2.1) st2.sharders },
                 String.join (pairs.map fun p => showSel "S" p.1 p.2))
              | _, _ => (st2, "")
            (st3, s!"ok gn {o.gn.lastRound} {o.gn.rewardRate.toHex} a {o.minerReward} {o.minerFees} {o.sharderReward} {o.sharderFees}" ++ ms ++ ss)
        else (st, "bad-op")
      | _, _ => (st, "bad-op")
    | _, _, _, _ => (st, "bad-op")
  | _ => (st, "bad-op")

def run : IO Unit := ZChain.Drv.runLoop step { gn := none, miners := [], sharders := [], builtins := [] }

end ZChain.Drv.C22

def main : IO Unit := ZChain.Drv.C22.run
