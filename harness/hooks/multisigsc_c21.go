//go:build verif

package multisigsc

// Read-only observation hooks for the C21 check (the proposal and expiration-queue types are unexported).

import (
	"encoding/json"

	"0chain.net/chaincore/chain/state"
	"github.com/0chain/common/core/util"
)

// VerifProposalJSON returns the stored proposal of (clientID, proposalID) as JSON; ok=false when no node is stored.
func VerifProposalJSON(balances state.StateContextI, clientID, proposalID string) (js string, ok bool, err error) {
	p := proposal{}
	err = balances.GetTrieNode(getProposalKey(clientID, proposalID), &p)
	switch err {
	case nil:
		return string(p.Encode()), true, nil
	case util.ErrValueNotPresent:
		return "", false, nil
	default:
		return "", false, err
	}
}

// VerifQueueJSON returns the expiration queue node ({"head":{…},"tail":{…}}); ok=false when it is not stored.
func VerifQueueJSON(balances state.StateContextI) (js string, ok bool, err error) {
	q := expirationQueue{}
	err = balances.GetTrieNode(getExpirationQueueKey(), &q)
	switch err {
	case nil:
		b, _ := json.Marshal(&q)
		return string(b), true, nil
	case util.ErrValueNotPresent:
		return "", false, nil
	default:
		return "", false, err
	}
}

// VerifKeys: the state keys of a wallet, a proposal and the queue (for the harness' foreign-leaf count).
func VerifKeys(clientID, proposalID string) (wallet, prop, queue string) {
	return getWalletKey(clientID), getProposalKey(clientID, proposalID), getExpirationQueueKey()
}
