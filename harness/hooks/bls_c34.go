//go:build verif

package bls

import hbls "github.com/herumi/bls-go-binary/bls"

// VerifMsk exposes the coefficients of the party's secret polynomial (read-only use by the harness).
func (dkg *DKG) VerifMsk() []Key { return dkg.msk }

// VerifSetMsk replaces the CSPRNG coefficients with secrets the harness chose, exactly as MakeDKG derives
// the public polynomial from them.
func (dkg *DKG) VerifSetMsk(msk []Key) {
	dkg.msk = msk
	dkg.mpks = hbls.GetMasterPublicKey(dkg.msk)
}
