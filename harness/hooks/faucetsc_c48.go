//go:build verif

package faucetsc

import cstate "0chain.net/chaincore/chain/state"

// VerifC48Validate runs the contract's own GlobalNode.validate on the global node stored in the state.
func VerifC48Validate(balances cstate.CommonStateContextI) error {
	gn := &GlobalNode{ID: ADDRESS}
	if err := balances.GetTrieNode(globalNodeKey, gn); err != nil {
		return err
	}
	return gn.validate()
}
