//go:build verif

package minersc

import (
	"0chain.net/chaincore/block"
	cstate "0chain.net/chaincore/chain/state"
	sci "0chain.net/chaincore/smartcontractinterface"
	"0chain.net/chaincore/transaction"
	"0chain.net/smartcontract/stakepool/spenum"
	"github.com/0chain/common/core/currency"
)

// C22 hook. Adds code only: exported wrappers around the unexported fee-payment pieces of fees.go / models.go.

// VerifC22Split calls the real GlobalNode.splitByShareRatio.
func VerifC22Split(shareRatio float64, fees currency.Coin) (currency.Coin, currency.Coin, error) {
	gn := &GlobalNode{ShareRatio: shareRatio}
	return gn.splitByShareRatio(fees)
}

// VerifC22SumFee calls the real sumFee (without the metrics side effect).
func VerifC22SumFee(b *block.Block) (currency.Coin, error) {
	msc := &MinerSmartContract{SmartContract: sci.NewSC(ADDRESS)}
	return msc.sumFee(b, false)
}

// VerifC22PaySharders calls the real payShardersAndDelegates.
func VerifC22PaySharders(numSharderDelegates int, sharders []*MinerNode, reward currency.Coin, seed int64, balances cstate.StateContextI) error {
	msc := &MinerSmartContract{SmartContract: sci.NewSC(ADDRESS)}
	gn := &GlobalNode{NumSharderDelegatesRewarded: numSharderDelegates}
	return msc.payShardersAndDelegates(gn, sharders, reward, seed, spenum.FeeRewardSharder, balances)
}

// VerifC22PutNodes stores miner and sharder nodes and the two id lists exactly as the contract does.
func VerifC22PutNodes(balances cstate.StateContextI, miners, sharders []*MinerNode) error {
	for _, n := range miners {
		n.ProviderType = spenum.Miner
		if err := n.save(balances); err != nil {
			return err
		}
	}
	for _, n := range sharders {
		n.ProviderType = spenum.Sharder
		if err := n.save(balances); err != nil {
			return err
		}
	}
	if err := updateMinersList(balances, &MinerNodes{Nodes: miners}); err != nil {
		return err
	}
	return updateAllShardersList(balances, &MinerNodes{Nodes: sharders})
}

// VerifC22GetNode reads a stored miner or sharder node.
func VerifC22GetNode(balances cstate.StateContextI, id string, sharder bool) (*MinerNode, error) {
	if sharder {
		return getSharderNode(id, balances)
	}
	return getMinerNode(id, balances)
}

// VerifC22PayFees calls the real payFees with the given global node.
func VerifC22PayFees(t *transaction.Transaction, input []byte, gn *GlobalNode, balances cstate.StateContextI) (string, error) {
	msc := &MinerSmartContract{SmartContract: sci.NewSC(ADDRESS)}
	return msc.payFees(t, input, gn, balances)
}
