//go:build verif

package storagesc

// Hooks for property C08 (harness/cmd/c08): reflect.Types of the unexported stored entity types, so that the
// harness can build values of them and call their REAL MarshalMsg / UnmarshalMsg / MigrateFrom. Add-only.

import "reflect"

// VerifC08Types: schema name → Go type (the pointer to it implements the msgp methods).
func VerifC08Types() map[string]reflect.Type {
	return map[string]reflect.Type{
		"storagesc.stakePool":               reflect.TypeOf(stakePool{}),
		"storagesc.storageNodeV1":           reflect.TypeOf(storageNodeV1{}),
		"storagesc.storageNodeV2":           reflect.TypeOf(storageNodeV2{}),
		"storagesc.storageNodeV3":           reflect.TypeOf(storageNodeV3{}),
		"storagesc.storageAllocationV1":     reflect.TypeOf(storageAllocationV1{}),
		"storagesc.storageAllocationV2":     reflect.TypeOf(storageAllocationV2{}),
		"storagesc.writeMarkerV1":           reflect.TypeOf(writeMarkerV1{}),
		"storagesc.writeMarkerV2":           reflect.TypeOf(writeMarkerV2{}),
		"storagesc.BlobberAllocation":       reflect.TypeOf(BlobberAllocation{}),
		"storagesc.challengePool":           reflect.TypeOf(challengePool{}),
		"storagesc.readPool":                reflect.TypeOf(readPool{}),
		"storagesc.ValidationNode":          reflect.TypeOf(ValidationNode{}),
		"storagesc.StorageChallenge":        reflect.TypeOf(StorageChallenge{}),
		"storagesc.AllocationChallenges":    reflect.TypeOf(AllocationChallenges{}),
		"storagesc.StorageNode":             reflect.TypeOf(StorageNode{}),
		"storagesc.StorageAllocation":       reflect.TypeOf(StorageAllocation{}),
		"storagesc.WriteMarker":             reflect.TypeOf(WriteMarker{}),
		"storagesc.BlobberRewardNode":       reflect.TypeOf(BlobberRewardNode{}),
		"storagesc.ChallengeReadyBlobber":   reflect.TypeOf(ChallengeReadyBlobber{}),
		"storagesc.BlobberAllocationNode":   reflect.TypeOf(BlobberAllocationNode{}),
		"storagesc.ValidationPartitionNode": reflect.TypeOf(ValidationPartitionNode{}),
		"storagesc.freeStorageAssigner":     reflect.TypeOf(freeStorageAssigner{}),
	}
}
