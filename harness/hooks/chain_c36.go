//go:build verif

package chain

import (
	"context"
	"sync"

	"0chain.net/chaincore/block"
	"0chain.net/chaincore/round"
)

// C36 hook: lets the harness start every case from an empty round/block cache and reach the unexported
// commonAncestor. Adds code only; ComputeFinalizedBlock, AddRound, GetRound and SetBlock are the real exported methods.

// VerifC36Reset empties the chain's round and block caches.
func (c *Chain) VerifC36Reset() {
	c.roundsMutex.Lock()
	c.rounds = make(map[int64]round.RoundI)
	c.roundsMutex.Unlock()
	c.blocksMutex.Lock()
	c.blocks = make(map[string]*block.Block)
	c.blocksMutex.Unlock()
}

// VerifC36CommonAncestor calls the real commonAncestor.
func (c *Chain) VerifC36CommonAncestor(ctx context.Context, b1, b2 *block.Block) *block.Block {
	return c.commonAncestor(ctx, b1, b2)
}

var verifC36ProviderMu sync.Mutex

// VerifC36NewChain makes an independent chain object (Provider writes a package-level configuration pointer, hence the lock).
func VerifC36NewChain() *Chain {
	verifC36ProviderMu.Lock()
	defer verifC36ProviderMu.Unlock()
	return Provider().(*Chain)
}
