//go:build verif

package miner

import (
	"context"
	"sync"

	"0chain.net/chaincore/block"
	"0chain.net/chaincore/chain"
	"0chain.net/chaincore/round"
	"0chain.net/chaincore/transaction"
	"0chain.net/core/cache"
	"0chain.net/core/common"
	"0chain.net/core/datastore"
	"github.com/0chain/common/core/util"
)

// C45 hook. Adds code only. GenerateBlock and VerifyBlock are the real exported methods; the hook provides
//   - a SECOND, independent miner chain object (the package keeps one singleton; the verifying node of the property is
//     "another node", so it must not share the generator's chain object, state cache or node DB);
//   - wrappers around the unexported selection pieces (validateTransaction, TxnIterInfo.checkForCurrent,
//     isBuildInTxn) so that the harness can probe them one by one on real transactions and a real state.

// VerifC45NewChain builds a miner chain object around c exactly as SetupMinerChain does for the singleton.
func VerifC45NewChain(c *chain.Chain) *Chain {
	mc := &Chain{}
	mc.Chain = c
	mc.Chain.OnBlockAdded = func(b *block.Block) {}
	mc.blockMessageChannel = make(chan *BlockMessage, 128)
	mc.muDKG = &sync.RWMutex{}
	mc.roundDkg = round.NewRoundStartingStorage()
	mc.viewChangeProcess.init(mc)
	mc.subRestartRoundEventChannel = make(chan chan struct{})
	mc.unsubRestartRoundEventChannel = make(chan chan struct{})
	mc.restartRoundEventChannel = make(chan struct{})
	mc.restartRoundEventWorkerIsDoneChannel = make(chan struct{})
	mc.nbpMutex = &sync.Mutex{}
	mc.notarizationBlockProcessMap = make(map[string]struct{})
	mc.notarizationBlockProcessC = make(chan *Notarization, 10)
	mc.blockVerifyC = make(chan *block.Block, 10)
	mc.validateTxnsWithContext = common.NewWithContextFunc(1)
	mc.notarizingBlocksTasks = make(map[string]chan struct{})
	mc.notarizingBlocksResults = cache.NewLRUCache[string, bool](1000)
	mc.nbmMutex = &sync.Mutex{}
	mc.verifyBlockNotarizationWorker = common.NewWithContextFunc(4)
	mc.mergeBlockVRFSharesWorker = common.NewWithContextFunc(1)
	mc.verifyCachedVRFSharesWorker = common.NewWithContextFunc(1)
	mc.generateBlockWorker = common.NewWithContextFunc(1)
	return mc
}

// VerifC45Classify calls the real validateTransaction: "current" | "past" | "future" | "late" | "error".
func (mc *Chain) VerifC45Classify(b *block.Block, bState util.MerklePatriciaTrieI, txn *transaction.Transaction) (string, int64) {
	n, err := mc.validateTransaction(b, bState, txn, nil)
	switch err {
	case nil:
		return "current", n
	case PastTransaction:
		return "past", n
	case FutureTransaction:
		return "future", n
	case ErrNotTimeTolerant:
		return "late", n
	}
	return "error", n
}

// VerifC45IsBuildIn calls the real isBuildInTxn.
func (mc *Chain) VerifC45IsBuildIn(txn *transaction.Transaction) bool { return mc.isBuildInTxn(txn) }

// VerifC45CheckForCurrent runs the real TxnIterInfo.checkForCurrent on a future list of one client and returns
// (promoted, dropped as past, still future, recorded nonce).
func VerifC45CheckForCurrent(included *transaction.Transaction, future []*transaction.Transaction, nonce int64) (cur, past, fut []*transaction.Transaction, n int64) {
	tii := newTxnIterInfo(10)
	tii.futureTxns[included.ClientID] = &clientNonceTxns{nonce: nonce, txns: future}
	tii.checkForCurrent(included)
	for _, e := range tii.pastTxns {
		past = append(past, e.(*transaction.Transaction))
	}
	l := tii.futureTxns[included.ClientID]
	return tii.currentTxns, past, l.txns, l.nonce
}

// VerifC45PoolOrder iterates the transaction pool exactly as generateBlock does (same store call, same collection)
// and returns the keys in iteration order.
func VerifC45PoolOrder(ctx context.Context) ([]string, error) {
	md := datastore.GetEntityMetadata("txn")
	txn := md.Instance().(*transaction.Transaction)
	var keys []string
	err := md.GetStore().IterateCollection(ctx, md, txn.GetCollectionName(), func(ctx context.Context, qe datastore.CollectionEntity) (bool, error) {
		keys = append(keys, qe.GetKey())
		return true, nil
	})
	return keys, err
}
