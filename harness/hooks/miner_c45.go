//go:build verif

package miner

import (
	"context"
	"sync"

	"0chain.net/chaincore/block"
	"0chain.net/chaincore/chain"
	"0chain.net/chaincore/round"
	"0chain.net/chaincore/transaction"
	"0chain.net/core/cache"
	"0chain.net/core/common"
	"0chain.net/core/datastore"
)

// C45 hook. Adds code only. GenerateBlock and VerifyBlock are the real exported methods; the hook provides
//   - a SECOND, independent miner chain object (the package keeps one singleton; the verifying node of the property is
//     "another node", so it must not share the generator's chain object, state cache or node DB);
//   - a read-out of the pool's iteration order through the very store call generateBlock makes.

// VerifC45NewChain builds a miner chain object around c exactly as SetupMinerChain does for the singleton.
func VerifC45NewChain(c *chain.Chain) *Chain {
	mc := &Chain{}
	mc.Chain = c
	mc.Chain.OnBlockAdded = func(b *block.Block) {}
	mc.blockMessageChannel = make(chan *BlockMessage, 128)
	mc.muDKG = &sync.RWMutex{}
	mc.roundDkg = round.NewRoundStartingStorage()
	mc.viewChangeProcess.init(mc)
	mc.subRestartRoundEventChannel = make(chan chan struct{})
	mc.unsubRestartRoundEventChannel = make(chan chan struct{})
	mc.restartRoundEventChannel = make(chan struct{})
	mc.restartRoundEventWorkerIsDoneChannel = make(chan struct{})
	mc.nbpMutex = &sync.Mutex{}
	mc.notarizationBlockProcessMap = make(map[string]struct{})
	mc.notarizationBlockProcessC = make(chan *Notarization, 10)
	mc.blockVerifyC = make(chan *block.Block, 10)
	mc.validateTxnsWithContext = common.NewWithContextFunc(1)
	mc.notarizingBlocksTasks = make(map[string]chan struct{})
	mc.notarizingBlocksResults = cache.NewLRUCache[string, bool](1000)
	mc.nbmMutex = &sync.Mutex{}
	mc.verifyBlockNotarizationWorker = common.NewWithContextFunc(4)
	mc.mergeBlockVRFSharesWorker = common.NewWithContextFunc(1)
	mc.verifyCachedVRFSharesWorker = common.NewWithContextFunc(1)
	mc.generateBlockWorker = common.NewWithContextFunc(1)
	return mc
}

// VerifC45PoolOrder iterates the transaction pool exactly as generateBlock does (same store call, same collection)
// and returns the keys in iteration order.
func VerifC45PoolOrder(ctx context.Context) ([]string, error) {
	md := datastore.GetEntityMetadata("txn")
	txn := md.Instance().(*transaction.Transaction)
	var keys []string
	err := md.GetStore().IterateCollection(ctx, md, txn.GetCollectionName(), func(ctx context.Context, qe datastore.CollectionEntity) (bool, error) {
		keys = append(keys, qe.GetKey())
		return true, nil
	})
	return keys, err
}
