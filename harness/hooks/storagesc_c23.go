//go:build verif

package storagesc

import (
	cstate "0chain.net/chaincore/chain/state"
	"0chain.net/smartcontract/stakepool/spenum"
	"github.com/0chain/common/core/currency"
)

// VerifC23Reward does what every reward-paying path of the storage contract does with a provider's stake pool
// (e.g. blobber_block_rewards, challenge rewards): load it under the provider's id, DistributeRewards, save it back.
func VerifC23Reward(balances cstate.StateContextI, ptype spenum.Provider, id string, value currency.Coin) error {
	sp, err := getStakePool(ptype, id, balances)
	if err != nil {
		return err
	}
	rt := spenum.BlockRewardBlobber
	if ptype == spenum.Validator {
		rt = spenum.ValidationReward
	}
	if err := sp.DistributeRewards(value, id, ptype, rt, balances); err != nil {
		return err
	}
	return sp.Save(ptype, id, balances)
}

// VerifC23SetSavedData sets SavedData of a registered blobber (what commit_connection does when the blobber accepts a
// write marker; running that path needs a whole signed storage-protocol exchange) and saves the blobber record.
func VerifC23SetSavedData(balances cstate.StateContextI, id string, savedData int64) error {
	b, err := getBlobber(id, balances)
	if err != nil {
		return err
	}
	if err := b.mustUpdateBase(func(nb *storageNodeBase) error {
		nb.SavedData = savedData
		return nil
	}); err != nil {
		return err
	}
	_, err = balances.InsertTrieNode(b.GetKey(), b)
	return err
}
