//go:build verif

package storagesc

import cstate "0chain.net/chaincore/chain/state"

// VerifC48Validate runs the contract's own Config.validate on the configuration stored in the state.
func VerifC48Validate(balances cstate.CommonStateContextI) error {
	conf := newConfig()
	if err := balances.GetTrieNode(scConfigKey(ADDRESS), conf); err != nil {
		return err
	}
	return conf.validate()
}
