//go:build verif

package miner

import (
	"context"

	"0chain.net/chaincore/block"
)

// VerifProcessVerifyBlock runs the handler of a received "verify block" message (the block proposal path).
func (mc *Chain) VerifProcessVerifyBlock(ctx context.Context, b *block.Block) error {
	return mc.processVerifyBlock(ctx, b)
}

// VerifHandleVerificationTicket runs the handler of a received verification ticket message.
func (mc *Chain) VerifHandleVerificationTicket(ctx context.Context, msg *BlockMessage) {
	mc.handleVerificationTicketMessage(ctx, msg)
}

// VerifHandleNotarizedBlock runs the handler of a received notarized block message.
func (mc *Chain) VerifHandleNotarizedBlock(ctx context.Context, msg *BlockMessage) {
	mc.handleNotarizedBlockMessage(ctx, msg)
}

// VerifNotarizationProcess runs the processing of a received notarization message (synchronously).
func (mc *Chain) VerifNotarizationProcess(ctx context.Context, not *Notarization) error {
	return mc.notarizationProcess(ctx, not)
}

// VerifCachedVRFShares is the number of VRF shares parked in the round's cache.
func (r *Round) VerifCachedVRFShares() int { return len(r.vrfSharesCache.getAll()) }
