//go:build verif

package vestingsc

// Hooks for property C08 (harness/cmd/c08). Add-only.

import "reflect"

func VerifC08Types() map[string]reflect.Type {
	return map[string]reflect.Type{
		"vestingsc.vestingPool": reflect.TypeOf(vestingPool{}),
		"vestingsc.clientPools": reflect.TypeOf(clientPools{}),
	}
}
