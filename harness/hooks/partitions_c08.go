//go:build verif

package partitions

// Hooks for property C08 (harness/cmd/c08). Add-only.

import "reflect"

func VerifC08Types() map[string]reflect.Type {
	return map[string]reflect.Type{
		"partitions.Partitions": reflect.TypeOf(Partitions{}),
		"partitions.partition":  reflect.TypeOf(partition{}),
		"partitions.location":   reflect.TypeOf(location{}),
	}
}
