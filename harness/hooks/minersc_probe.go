//go:build verif

package minersc

func VerifHookProbe() string { return "hook-ok" }
