//go:build verif

package client

import "0chain.net/core/cache"

// VerifResetCache empties the process-wide client cache (client id -> client with its public key), so that a
// C30 case starts from the state a fresh node is in.
func VerifResetCache() { cacher = cache.NewLFUCache(10 * 1024) }
