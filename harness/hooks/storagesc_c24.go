//go:build verif

package storagesc

// Hooks of C24 (harness/cmd/c24). Read-only observation of the free-storage assigner record, the stored configuration
// and allocations, plus ONE genesis-time writer: VerifC24SetFreeSettings stores, before the first block, a
// configuration node whose free-allocation settings differ from sc.yaml (1+1 shards, a non-zero read-pool fraction),
// exactly as InitConfig stores the configured one. The contract's code is not changed.

import (
	cstate "0chain.net/chaincore/chain/state"
	"github.com/0chain/common/core/currency"
)

type VerifC24Assigner struct {
	Present         bool
	ClientId        string
	PublicKey       string
	IndividualLimit uint64
	TotalLimit      uint64
	CurrentRedeemed uint64
	RedeemedNonces  []int64
}

func VerifC24GetAssigner(balances cstate.StateContextI, name string) VerifC24Assigner {
	fsa := new(freeStorageAssigner)
	if err := balances.GetTrieNode(freeStorageAssignerKey(ADDRESS, name), fsa); err != nil {
		return VerifC24Assigner{}
	}
	return VerifC24Assigner{Present: true, ClientId: fsa.ClientId, PublicKey: fsa.PublicKey, IndividualLimit: uint64(fsa.IndividualLimit),
		TotalLimit: uint64(fsa.TotalLimit), CurrentRedeemed: uint64(fsa.CurrentRedeemed), RedeemedNonces: append([]int64(nil), fsa.RedeemedNonces...)}
}

type VerifC24Conf struct {
	OwnerId       string
	MaxIndividual uint64
	MaxTotal      uint64
	Data, Parity  int
	Size          int64
	ReadFraction  float64
	ReadMax       uint64
	WriteMax      uint64
}

func VerifC24Config(balances cstate.StateContextI) (VerifC24Conf, error) {
	conf := newConfig()
	if err := balances.GetTrieNode(scConfigKey(ADDRESS), conf); err != nil {
		return VerifC24Conf{}, err
	}
	f := conf.FreeAllocationSettings
	return VerifC24Conf{OwnerId: conf.OwnerId, MaxIndividual: uint64(conf.MaxIndividualFreeAllocation), MaxTotal: uint64(conf.MaxTotalFreeAllocation),
		Data: f.DataShards, Parity: f.ParityShards, Size: f.Size, ReadFraction: f.ReadPoolFraction,
		ReadMax: uint64(f.ReadPriceRange.Max), WriteMax: uint64(f.WritePriceRange.Max)}, nil
}

// VerifC24SetFreeSettings: genesis-time configuration of the free-allocation settings (see the header).
func VerifC24SetFreeSettings(balances cstate.StateContextI, data, parity int, size int64, readFraction float64, readMax, writeMax uint64) error {
	conf := newConfig()
	if err := balances.GetTrieNode(scConfigKey(ADDRESS), conf); err != nil {
		return err
	}
	conf.FreeAllocationSettings.DataShards = data
	conf.FreeAllocationSettings.ParityShards = parity
	conf.FreeAllocationSettings.Size = size
	conf.FreeAllocationSettings.ReadPoolFraction = readFraction
	conf.FreeAllocationSettings.ReadPriceRange = PriceRange{Min: 0, Max: currency.Coin(readMax)}
	conf.FreeAllocationSettings.WritePriceRange = PriceRange{Min: 0, Max: currency.Coin(writeMax)}
	if err := conf.validate(); err != nil {
		return err
	}
	_, err := balances.InsertTrieNode(scConfigKey(ADDRESS), conf)
	return err
}

type VerifC24Alloc struct {
	Present   bool
	Owner     string
	WritePool uint64
	Blobbers  []string
}

func VerifC24GetAlloc(balances cstate.StateContextI, id string) VerifC24Alloc {
	sa := new(StorageAllocation)
	if err := balances.GetTrieNode(GetAllocKey(ADDRESS, id), sa); err != nil {
		return VerifC24Alloc{}
	}
	b := sa.mustBase()
	out := VerifC24Alloc{Present: true, Owner: b.Owner, WritePool: uint64(b.WritePool)}
	for _, d := range b.BlobberAllocs {
		out.Blobbers = append(out.Blobbers, d.BlobberID)
	}
	return out
}

func VerifC24ReadPool(balances cstate.StateContextI, client string) (bool, uint64) {
	rp := new(readPool)
	if err := balances.GetTrieNode(readPoolKey(ADDRESS, client), rp); err != nil {
		return false, 0
	}
	return true, uint64(rp.Balance)
}
