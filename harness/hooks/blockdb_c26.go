//go:build verif

package blockdb

// VerifNewMapIndex exposes the unexported map index so that a database can be re-opened with it
// (`SetIndex(mapIndex); Open()` decodes the .idx with mapIndex.Decode instead of the fixed key array).
func VerifNewMapIndex() Index { return newMapIndex() }

// VerifNewFixedIndex exposes the fixed key array index (what Open installs by default).
func VerifNewFixedIndex(keyLength int8) Index { return newFixedKeyArrayIndex(keyLength) }
