//go:build verif

package chain

import (
	cstate "0chain.net/chaincore/chain/state"
	"0chain.net/chaincore/state"
)

// VerifMustInitGBState exposes the unexported genesis-balance initialisation to the verification harness.
func (c *Chain) VerifMustInitGBState(initStates *state.InitStates, stateCtx *cstate.StateContext) {
	c.mustInitGBState(initStates, stateCtx)
}
