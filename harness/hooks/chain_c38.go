//go:build verif

package chain

import (
	"context"

	"0chain.net/chaincore/block"
)

// VerifSetLFMB makes b the latest finalized magic block (what the chain does when the block that carries a new
// magic block is finalized), without the monotonicity filter of SetLatestFinalizedMagicBlock, so that a harness
// can start a fresh history in the same process. Needs StartLFMBWorker running.
func (c *Chain) VerifSetLFMB(b *block.Block) {
	c.updateLatestFinalizedMagicBlock(context.Background(), b)
}
