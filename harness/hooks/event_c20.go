//go:build verif

package event

// Hooks for property C20 (harness/cmd/c20). Add-only: exported wrappers around the unexported
// merge step and the per-tag handler dispatch, so that the harness can run the REAL mergeEvents and
// the REAL handlers (addStat) on a store it supplies (in-memory sqlite), without Postgres, Kafka or
// the events worker.

import (
	"context"

	"0chain.net/core/config"
	"0chain.net/smartcontract/dbs"
)

// VerifMergeEvents is mergeEvents (process.go).
func VerifMergeEvents(round int64, block string, events []Event) ([]Event, error) {
	return mergeEvents(round, block, events)
}

// VerifNewEventDb builds an EventDb over the given store with no worker, no kafka.
func VerifNewEventDb(store dbs.Store) *EventDb {
	return &EventDb{Store: store}
}

// VerifAddStat is the handler dispatch of one (merged) event: (*EventDb).addStat (process.go).
func (edb *EventDb) VerifAddStat(e Event) error {
	return edb.addStat(e)
}

// ---- the commit path (fault-injection ops of harness/cmd/c20) ----------------------------------------------------

type verifNopKafka struct{}

func (verifNopKafka) PublishToKafka(topic string, key, message []byte) chan int64 {
	c := make(chan int64, 1)
	c <- 0
	return c
}
func (verifNopKafka) ReconnectWriter(topic string) error { return nil }
func (verifNopKafka) CloseWriter(topic string) error     { return nil }
func (verifNopKafka) CloseAllWriters() error             { return nil }

// VerifNewWorkerEventDb builds an EventDb over the given store exactly as NewInMemoryEventDb does (channels, settings)
// and starts the REAL events worker (addEventsWorker), so that the exported ProcessEvents runs its real path:
// mergeEvents → Begin → worker: Work → WorkEvents → addEvents, processEvent/addStat → commit or rollback.
// No kafka; partition periods so large that no round triggers partition management.
func VerifNewWorkerEventDb(ctx context.Context, store dbs.Store) *EventDb {
	edb := &EventDb{
		Store:                  store,
		eventsChannel:          make(chan BlockEvents, 1),
		partitionChan:          make(chan int64, 100),
		permanentPartitionChan: make(chan int64, 100),
		settings:               config.DbSettings{PartitionChangePeriod: 1 << 40, PermanentPartitionChangePeriod: 1 << 40, PartitionKeepCount: 10, PermanentPartitionKeepCount: 10},
		kafka:                  verifNopKafka{},
	}
	go edb.addEventsWorker(ctx, func(round int64) (int64, []Event, error) { return round, []Event{}, nil })
	return edb
}
