//go:build verif

package event

// Hooks for property C20 (harness/cmd/c20). Add-only: exported wrappers around the unexported
// merge step and the per-tag handler dispatch, so that the harness can run the REAL mergeEvents and
// the REAL handlers (addStat) on a store it supplies (in-memory sqlite), without Postgres, Kafka or
// the events worker.

import "0chain.net/smartcontract/dbs"

// VerifMergeEvents is mergeEvents (process.go).
func VerifMergeEvents(round int64, block string, events []Event) ([]Event, error) {
	return mergeEvents(round, block, events)
}

// VerifNewEventDb builds an EventDb over the given store with no worker, no kafka.
func VerifNewEventDb(store dbs.Store) *EventDb {
	return &EventDb{Store: store}
}

// VerifAddStat is the handler dispatch of one (merged) event: (*EventDb).addStat (process.go).
func (edb *EventDb) VerifAddStat(e Event) error {
	return edb.addStat(e)
}
