//go:build verif

package round

// C37 hook: lock-free view of a Round for the correspondence run (the exported getters take r.mutex and would
// block for ever once the mutex has been leaked). Adds code only.

type VerifBlk struct {
	Hash string
	Rank int
}

type VerifRoundState struct {
	Phase     int32
	Fin       int32
	TC        int
	Soft      int32
	Seed      int64
	PermLen   int // -1 = nil
	VRF       string
	Shares    []string
	NBs       []VerifBlk
	PBs       []VerifBlk
	Blk       *VerifBlk
	BlockHash string
	Votes     map[string]int
	TPerm     []string
	Locked    bool
}

// VerifState reads every field directly. It must only be called while no operation on r is running
// (operations that are blocked on r.mutex do not touch any field).
func (r *Round) VerifState() VerifRoundState {
	st := VerifRoundState{
		Phase: int32(r.getState()), Fin: int32(r.finalizingState), TC: r.timeoutCounter.count,
		Soft: int32(r.GetSoftTimeoutCount()), Seed: r.GetRandomSeed(), PermLen: -1, VRF: r.VRFOutput,
		BlockHash: r.BlockHash, Votes: map[string]int{},
	}
	if r.minerPerm != nil {
		st.PermLen = len(r.minerPerm)
	}
	for k := range r.shares {
		st.Shares = append(st.Shares, k)
	}
	for _, b := range r.notarizedBlocks {
		st.NBs = append(st.NBs, VerifBlk{b.Hash, b.RoundRank})
	}
	for _, b := range r.proposedBlocks {
		st.PBs = append(st.PBs, VerifBlk{b.Hash, b.RoundRank})
	}
	if r.Block != nil {
		st.Blk = &VerifBlk{r.Block.Hash, r.Block.RoundRank}
	}
	for k, v := range r.timeoutCounter.votes {
		st.Votes[k] = v
	}
	st.TPerm = append(st.TPerm, r.timeoutCounter.perm...)
	if r.mutex.TryLock() {
		r.mutex.Unlock()
	} else {
		st.Locked = true
	}
	return st
}
