//go:build verif

package chain

import "sync"

// C41 hook: channel fill levels of the LFB-ticket worker (to wait until it has consumed what was sent), a direct
// call of the unexported verifyLFBTicket, and an independent chain object. Adds code only.

// VerifC41Pending returns the number of received tickets and of blocks waiting in the worker's channels.
func (c *Chain) VerifC41Pending() (int, int) {
	return len(c.updateLFBTicket), len(c.broadcastLFBTicket)
}

// VerifC41Verify calls the real verifyLFBTicket.
func (c *Chain) VerifC41Verify(t *LFBTicket) bool { return c.verifyLFBTicket(t) }

var verifC41ProviderMu sync.Mutex

// VerifC41NewChain makes an independent chain object.
func VerifC41NewChain() *Chain {
	verifC41ProviderMu.Lock()
	defer verifC41ProviderMu.Unlock()
	return Provider().(*Chain)
}
