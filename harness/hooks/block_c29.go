//go:build verif

package block

// VerifHashData exposes the unexported getHashData (the pre-image of the block hash) to the C29 harness.
func (b *Block) VerifHashData() string { return b.getHashData() }
