//go:build verif

package chain

import (
	"context"

	"0chain.net/chaincore/block"
	"0chain.net/chaincore/round"
	"0chain.net/core/datastore"
	"github.com/0chain/common/core/util"
)

// VerifSetStateDB installs the persistent node DB the chain finalizes into and prunes (the unexported field that
// SetupStateDB/Initialize normally fill from the package-level rocksdb handle).
func VerifSetStateDB(c *Chain, db util.NodeDB) { c.stateDB = db }

// VerifFinalizeBlock runs the real finalizeBlock (SaveChanges, dead-node recording at the block's round, chain
// bookkeeping).
func VerifFinalizeBlock(c *Chain, ctx context.Context, fb *block.Block, bsh BlockStateHandler) error {
	return c.finalizeBlock(ctx, fb, bsh)
}

// VerifPruneClientState runs the real pruneClientState and reports what it decided: the stage it ended in
// (util.PruneStateDelete / Abandoned / Complete as strings) and the number of deleted nodes.
func VerifPruneClientState(c *Chain, ctx context.Context) (stage string, deleted int64, ran bool) {
	c.pruneStats = nil
	c.pruneClientState(ctx)
	if c.pruneStats == nil {
		return "", 0, false
	}
	return c.pruneStats.Stage, c.pruneStats.Deleted, true
}

// VerifResetChain clears the per-run bookkeeping finalizeBlock and pruneClientState read (block ring, rounds,
// blocks, latest finalized block), as Initialize does.
func VerifResetChain(c *Chain) {
	c.Initialize()
	c.roundsMutex.Lock()
	c.rounds = make(map[int64]round.RoundI)
	c.roundsMutex.Unlock()
	c.blocksMutex.Lock()
	c.blocks = make(map[datastore.Key]*block.Block)
	c.blocksMutex.Unlock()
}
