//go:build verif

package partitions

// Verification hook for C07 (add-only): instances of the unexported cacheable types of this package, so that the
// Clone/CopyFrom round-trip and aliasing checks cover every type that implements statecache.Value.

import (
	"github.com/0chain/common/core/statecache"
	"github.com/0chain/common/core/util"
)

type VerifCacheable interface {
	statecache.Value
	util.MPTSerializable
}

func VerifNewPartitionValue(loc int, ids []string) VerifCacheable {
	p := &partition{Loc: loc}
	for _, id := range ids {
		p.Items = append(p.Items, item{ID: id, Data: []byte(id + "=1")})
	}
	return p
}

func VerifEmptyPartitionValue() VerifCacheable { return &partition{} }

func VerifNewLocationValue(l int) VerifCacheable { return &location{Location: l} }

func VerifEmptyLocationValue() VerifCacheable { return &location{} }

// VerifNewPartitionsValue: a Partitions object with loaded partitions and a location cache (what a contract holds
// in memory when it calls InsertTrieNode through Save).
func VerifNewPartitionsValue(name string, size int, ids []string) VerifCacheable {
	p := &Partitions{Name: name, PartitionSize: size, Last: &partition{Key: partitionKey(name, 1), Loc: 1},
		Partitions: map[int]*partition{}, locations: map[string]int{}}
	for _, id := range ids {
		p.Last.Items = append(p.Last.Items, item{ID: id, Data: []byte(id + "=1")})
	}
	p.Partitions[0] = &partition{Key: partitionKey(name, 0), Loc: 0, Items: []item{{ID: "x", Data: []byte("x=1")}}, Changed: true}
	p.locations[p.getLocKey("x")] = 0
	return p
}

func VerifEmptyPartitionsValue() VerifCacheable { return &Partitions{} }
