//go:build verif

package minersc

import (
	"sort"
	"sync"

	"0chain.net/chaincore/block"
	cstate "0chain.net/chaincore/chain/state"
	"0chain.net/smartcontract/stakepool/spenum"
	"github.com/0chain/common/core/currency"
	"github.com/0chain/common/core/util"
)

// VerifC38Node is a registered miner or sharder as the view-change code reads it.
type VerifC38Node struct {
	ID        string
	PublicKey string
	Stake     uint64
	N2NHost   string
}

// VerifC38Config are the global-node fields the DKG reads; everything else comes from the repo's sc.yaml.
type VerifC38Config struct {
	MinN, MaxN, MinS, MaxS       int
	TPercent, KPercent, XPercent float64
}

func verifC38MinerNode(n VerifC38Node, sharder bool) *MinerNode {
	mn := NewMinerNode()
	mn.ID = n.ID
	mn.PublicKey = n.PublicKey
	mn.N2NHost = n.N2NHost
	mn.Host = n.N2NHost
	mn.Port = 7071
	mn.TotalStaked = currency.Coin(n.Stake)
	mn.Settings.DelegateWallet = n.ID
	mn.Settings.MaxNumDelegates = 10
	if sharder {
		mn.ProviderType = spenum.Sharder
		mn.NodeType = NodeTypeSharder
	} else {
		mn.ProviderType = spenum.Miner
		mn.NodeType = NodeTypeMiner
	}
	return mn
}

// VerifC38Init writes the global node (repo configuration + cfg) and the registered miners and sharders.
func VerifC38Init(balances cstate.StateContextI, cfg VerifC38Config, miners, sharders []VerifC38Node) error {
	var gn GlobalNode
	if err := gn.readConfig(); err != nil {
		return err
	}
	gn.MinN, gn.MaxN, gn.MinS, gn.MaxS = cfg.MinN, cfg.MaxN, cfg.MinS, cfg.MaxS
	gn.TPercent, gn.KPercent, gn.XPercent = cfg.TPercent, cfg.KPercent, cfg.XPercent
	if _, err := balances.InsertTrieNode(GlobalNodeKey, &gn); err != nil {
		return err
	}
	for _, n := range miners {
		if err := VerifC38AddNode(balances, n, false); err != nil {
			return err
		}
	}
	for _, n := range sharders {
		if err := VerifC38AddNode(balances, n, true); err != nil {
			return err
		}
	}
	return nil
}

// VerifC38AddNode has the effect of a successful add_miner / add_sharder on the node and the all-nodes list.
func VerifC38AddNode(balances cstate.StateContextI, n VerifC38Node, sharder bool) error {
	key := AllMinersKey
	if sharder {
		key = AllShardersKey
	}
	ids, err := getNodeIDs(balances, key)
	if err != nil {
		return err
	}
	if !ids.find(n.ID) {
		ids = append(ids, n.ID)
		if err := ids.save(balances, key); err != nil {
			return err
		}
	}
	return verifC38MinerNode(n, sharder).save(balances)
}

// VerifC38ResetLocks replaces the per-phase mutexes: setPhaseNode takes them without defer, so a panic inside a phase
// function that a harness recovered from (in a node it ends the process) would leave one locked for ever.
func VerifC38ResetLocks() {
	for k := range lockPhaseFunctions {
		lockPhaseFunctions[k] = &sync.Mutex{}
	}
}

// VerifC38SetPhaseRounds replaces the configured phase lengths (package-level table).
func VerifC38SetPhaseRounds(r [5]int64) {
	for i := 0; i < 5; i++ {
		PhaseRounds[Phase(i)] = r[i]
	}
}

func VerifC38PhaseRounds() (r [5]int64, n int) {
	for i := 0; i < 5; i++ {
		r[i] = PhaseRounds[Phase(i)]
	}
	return r, len(PhaseRounds)
}

// VerifC38Tables names the move function and the phase function registered for each phase.
func VerifC38Tables() (move, phase [5]string) {
	for i := 0; i < 5; i++ {
		if f, ok := moveFunctions[Phase(i)]; ok {
			move[i] = getFunctionName(f)
		}
		if f, ok := phaseFuncs[Phase(i)]; ok {
			phase[i] = getFunctionName(f)
		}
	}
	return
}

// VerifC38State is what the contract holds about the view change after a block.
type VerifC38State struct {
	HasPhase                                 bool
	Phase                                    int
	StartRound, CurrentRound, Restarts       int64
	DKG                                      []string
	T, K, N                                  int
	DKGStartRound                            int64
	Waited                                   []string
	Mpks, Gsos, Keep, AllMiners, AllSharders []string
	HasMB                                    bool
	MBMiners, MBSharders                     []string // visible to HasNode / Size (NodesMap)
	MBMinerNodes, MBSharderNodes             []string // the Nodes slice
	MBStart, MBNumber                        int64
	MBT, MBK, MBN                            int
	ViewChange                               int64
	HasPrevMB                                bool
	PrevMiners, PrevSharders                 []string
	PrevMBNumber, PrevMBStart                int64
	LastRound                                int64
}

func sortedKeys[V any](m map[string]V) []string {
	ks := make([]string, 0, len(m))
	for k := range m {
		ks = append(ks, k)
	}
	sort.Strings(ks)
	return ks
}

// VerifC38Read reads the stored nodes (not the defaults GetPhaseNode would substitute).
func VerifC38Read(balances cstate.StateContextI) (s VerifC38State, err error) {
	pn := &PhaseNode{}
	switch e := balances.GetTrieNode(pn.GetKey(), pn); e {
	case nil:
		s.HasPhase = true
		s.Phase, s.StartRound, s.CurrentRound, s.Restarts = int(pn.Phase), pn.StartRound, pn.CurrentRound, pn.Restarts
	case util.ErrValueNotPresent:
	default:
		return s, e
	}
	dmn, err := getDKGMinersList(balances)
	if err != nil {
		return s, err
	}
	s.DKG = sortedKeys(dmn.SimpleNodes)
	s.T, s.K, s.N, s.DKGStartRound = dmn.T, dmn.K, dmn.N, dmn.StartRound
	for k, v := range dmn.Waited {
		if v {
			s.Waited = append(s.Waited, k)
		}
	}
	sort.Strings(s.Waited)
	if mpks, e := getMinersMPKs(balances); e == nil {
		s.Mpks = sortedKeys(mpks.Mpks)
	} else if e != util.ErrValueNotPresent {
		return s, e
	}
	if gsos, e := getGroupShareOrSigns(balances); e == nil {
		s.Gsos = sortedKeys(gsos.Shares)
	} else if e != util.ErrValueNotPresent {
		return s, e
	}
	ids, err := getNodeIDs(balances, ShardersKeepKey)
	if err != nil {
		return s, err
	}
	s.Keep = append([]string(nil), ids...)
	if ids, err = getNodeIDs(balances, AllMinersKey); err != nil {
		return s, err
	}
	s.AllMiners = append([]string(nil), ids...)
	if ids, err = getNodeIDs(balances, AllShardersKey); err != nil {
		return s, err
	}
	s.AllSharders = append([]string(nil), ids...)
	if mb, e := getMagicBlock(balances); e == nil {
		s.HasMB = true
		s.MBMiners, s.MBSharders = verifPoolKeys(mb, true), verifPoolKeys(mb, false)
		s.MBMinerNodes, s.MBSharderNodes = verifPoolNodes(mb, true), verifPoolNodes(mb, false)
		s.MBStart, s.MBNumber = mb.StartingRound, mb.MagicBlockNumber
		s.MBT, s.MBK, s.MBN = mb.T, mb.K, mb.N
	} else if e != util.ErrValueNotPresent {
		return s, e
	}
	gn, err := getGlobalNode(balances)
	if err != nil {
		return s, err
	}
	s.ViewChange, s.LastRound = gn.ViewChange, gn.LastRound
	if gn.PrevMagicBlock != nil {
		s.HasPrevMB = true
		s.PrevMiners, s.PrevSharders = verifPoolKeys(gn.PrevMagicBlock, true), verifPoolKeys(gn.PrevMagicBlock, false)
		s.PrevMBNumber, s.PrevMBStart = gn.PrevMagicBlock.MagicBlockNumber, gn.PrevMagicBlock.StartingRound
	}
	return s, nil
}

func verifPoolKeys(mb *block.MagicBlock, miners bool) []string {
	p := mb.Sharders
	if miners {
		p = mb.Miners
	}
	if p == nil {
		return nil
	}
	ks := p.Keys()
	sort.Strings(ks)
	return ks
}

// verifPoolNodes lists the pool's Nodes slice (what a decoded pool still holds when its NodesMap is not restored).
func verifPoolNodes(mb *block.MagicBlock, miners bool) []string {
	p := mb.Sharders
	if miners {
		p = mb.Miners
	}
	if p == nil {
		return nil
	}
	var ks []string
	for _, n := range p.Nodes {
		ks = append(ks, n.ID)
	}
	sort.Strings(ks)
	return ks
}

// VerifC38StoredMagicBlock returns the magic block node of the state (what SetMagicBlock publishes).
func VerifC38StoredMagicBlock(balances cstate.StateContextI) (*block.MagicBlock, error) {
	return getMagicBlock(balances)
}
