//go:build verif

package vestingsc

import cstate "0chain.net/chaincore/chain/state"

// VerifC48Validate runs the contract's own config.validate on the configuration stored in the state.
func VerifC48Validate(balances cstate.CommonStateContextI) error {
	conf := new(config)
	if err := balances.GetTrieNode(scConfigKey(ADDRESS), conf); err != nil {
		return err
	}
	return conf.validate()
}
