//go:build verif

package storagesc

// Snapshot hook of the storage properties C09, C12, C13, C14 (harness/cmd/storage).
// Read-only: loads the nodes the contract itself stores (allocation, challenge pool, blobber, stake pools,
// validators, read pools) with the contract's own getters and copies the token-accounting fields out.
// Adds code only; nothing in the contract is changed.

import (
	"sort"

	cstate "0chain.net/chaincore/chain/state"
	"0chain.net/smartcontract/provider"
	"0chain.net/smartcontract/stakepool/spenum"
	"github.com/0chain/common/core/util"
)

type VerifBA struct {
	BlobberID        string
	Size             int64
	WritePrice       uint64
	ReadPrice        uint64
	CV               uint64 // ChallengePoolIntegralValue
	Offer            uint64 // BlobberAllocation.Offer() as the contract computes it
	UsedSize         int64
	Penalty          uint64
	Returned         uint64
	ChallengeReward  uint64
	LatestFinalized  int64
	LatestSuccessful int64
	Open, Total, Success, Failed int64
}

type VerifAlloc struct {
	ID                string
	Present           bool
	Err               string
	Owner             string
	Size              int64
	DataShards        int
	ParityShards      int
	Expiration        int64
	WritePool         uint64
	MovedToChallenge  uint64
	MovedBack         uint64
	MovedToValidators uint64
	Finalized         bool
	Canceled          bool
	UsedSize          int64
	Enterprise        bool
	BAs               []VerifBA
	CPPresent         bool
	CPErr             string
	CP                uint64
	// allocation challenges node: present?, and its open challenges (blobber, round created)
	ACPresent bool
	OpenCh    []VerifOpenCh
}

type VerifOpenCh struct {
	BlobberID string
	Round     int64
}

type VerifPool struct {
	Delegate string
	Balance  uint64
	Reward   uint64
	Status   int
}

type VerifSP struct {
	Present     bool
	Err         string
	TotalOffers uint64
	Reward      uint64 // unpaid service charge
	Dead        bool
	MinStake    uint64
	Pools       []VerifPool
}

type VerifBlobber struct {
	ID         string
	Present    bool
	Err        string
	Capacity   int64
	Allocated  int64
	SavedData  int64
	Killed     bool
	ShutDown   bool
	WritePrice uint64
	ReadPrice  uint64
	SP         VerifSP
}

type VerifValidator struct {
	ID       string
	Present  bool
	Killed   bool
	ShutDown bool
	SP       VerifSP
}

type VerifReadPool struct {
	Client  string
	Present bool
	Balance uint64
}

type VerifSnapshot struct {
	Allocs     []VerifAlloc
	Blobbers   []VerifBlobber
	Validators []VerifValidator
	ReadPools  []VerifReadPool
}

func verifErr(err error) (present bool, msg string) {
	if err == nil {
		return true, ""
	}
	if err == util.ErrValueNotPresent {
		return false, ""
	}
	return false, err.Error()
}

func verifSP(pt spenum.Provider, id string, balances cstate.StateContextI) VerifSP {
	var out VerifSP
	sp, err := getStakePool(pt, id, balances)
	out.Present, out.Err = verifErr(err)
	if err != nil {
		return out
	}
	out.TotalOffers = uint64(sp.TotalOffers)
	out.Reward = uint64(sp.Reward)
	out.Dead = sp.HasBeenKilled
	out.MinStake = uint64(sp.Settings.MinStake)
	ids := make([]string, 0, len(sp.Pools))
	for k := range sp.Pools {
		ids = append(ids, k)
	}
	sort.Strings(ids)
	for _, k := range ids {
		dp := sp.Pools[k]
		out.Pools = append(out.Pools, VerifPool{Delegate: k, Balance: uint64(dp.Balance), Reward: uint64(dp.Reward), Status: int(dp.Status)})
	}
	return out
}

// VerifStorageSnapshot reads the accounting state of the given allocations, blobbers, validators and read pools.
func VerifStorageSnapshot(balances cstate.StateContextI, allocIDs, blobberIDs, validatorIDs, readPoolClients []string) VerifSnapshot {
	var snap VerifSnapshot
	for _, id := range allocIDs {
		a := VerifAlloc{ID: id}
		sa := new(StorageAllocation)
		err := balances.GetTrieNode(GetAllocKey(ADDRESS, id), sa)
		a.Present, a.Err = verifErr(err)
		if err == nil {
			b := sa.mustBase()
			a.Owner = b.Owner
			a.Size = b.Size
			a.DataShards = b.DataShards
			a.ParityShards = b.ParityShards
			a.Expiration = int64(b.Expiration)
			a.WritePool = uint64(b.WritePool)
			a.MovedToChallenge = uint64(b.MovedToChallenge)
			a.MovedBack = uint64(b.MovedBack)
			a.MovedToValidators = uint64(b.MovedToValidators)
			a.Finalized = b.Finalized
			a.Canceled = b.Canceled
			if b.Stats != nil {
				a.UsedSize = b.Stats.UsedSize
			}
			if sa.Entity().GetVersion() == "v2" {
				if v2, ok := sa.Entity().(*storageAllocationV2); ok && v2.IsEnterprise != nil && *v2.IsEnterprise {
					a.Enterprise = true
				}
			}
			for _, d := range b.BlobberAllocs {
				ba := VerifBA{
					BlobberID: d.BlobberID, Size: d.Size, WritePrice: uint64(d.Terms.WritePrice), ReadPrice: uint64(d.Terms.ReadPrice),
					CV: uint64(d.ChallengePoolIntegralValue), Offer: uint64(d.Offer()),
					Penalty: uint64(d.Penalty), Returned: uint64(d.Returned), ChallengeReward: uint64(d.ChallengeReward),
					LatestFinalized: int64(d.LatestFinalizedChallCreatedAt), LatestSuccessful: int64(d.LatestSuccessfulChallCreatedAt),
				}
				if d.Stats != nil {
					ba.UsedSize = d.Stats.UsedSize
					ba.Open, ba.Total, ba.Success, ba.Failed = d.Stats.OpenChallenges, d.Stats.TotalChallenges, d.Stats.SuccessChallenges, d.Stats.FailedChallenges
				}
				a.BAs = append(a.BAs, ba)
			}
		}
		cp := newChallengePool()
		err = balances.GetTrieNode(challengePoolKey(ADDRESS, id), cp)
		a.CPPresent, a.CPErr = verifErr(err)
		if err == nil {
			a.CP = uint64(cp.Balance)
		}
		ac := new(AllocationChallenges)
		ac.AllocationID = id
		if err := balances.GetTrieNode(ac.GetKey(ADDRESS), ac); err == nil {
			a.ACPresent = true
			for _, oc := range ac.OpenChallenges {
				a.OpenCh = append(a.OpenCh, VerifOpenCh{BlobberID: oc.BlobberID, Round: oc.RoundCreatedAt})
			}
		}
		snap.Allocs = append(snap.Allocs, a)
	}
	for _, id := range blobberIDs {
		b := VerifBlobber{ID: id}
		sn, err := getBlobber(id, balances)
		b.Present, b.Err = verifErr(err)
		if err == nil {
			bb := sn.mustBase()
			b.Capacity, b.Allocated, b.SavedData = bb.Capacity, bb.Allocated, bb.SavedData
			b.Killed, b.ShutDown = bb.IsKilled(), bb.IsShutDown()
			b.WritePrice, b.ReadPrice = uint64(bb.Terms.WritePrice), uint64(bb.Terms.ReadPrice)
		}
		b.SP = verifSP(spenum.Blobber, id, balances)
		snap.Blobbers = append(snap.Blobbers, b)
	}
	for _, id := range validatorIDs {
		v := VerifValidator{ID: id}
		vn := new(ValidationNode)
		err := balances.GetTrieNode(provider.GetKey(id), vn)
		v.Present, _ = verifErr(err)
		if err == nil {
			v.Killed, v.ShutDown = vn.IsKilled(), vn.IsShutDown()
		}
		v.SP = verifSP(spenum.Validator, id, balances)
		snap.Validators = append(snap.Validators, v)
	}
	for _, id := range readPoolClients {
		r := VerifReadPool{Client: id}
		rp := new(readPool)
		err := balances.GetTrieNode(readPoolKey(ADDRESS, id), rp)
		r.Present, _ = verifErr(err)
		if err == nil {
			r.Balance = uint64(rp.Balance)
		}
		snap.ReadPools = append(snap.ReadPools, r)
	}
	return snap
}

// VerifOpenChallenges lists the open challenges of an allocation: id, blobber, validator ids (for building responses).
type VerifChallenge struct {
	ID           string
	AllocationID string
	BlobberID    string
	Validators   []string
	Created      int64
	Round        int64
}

func VerifOpenChallenges(balances cstate.StateContextI, allocID string) []VerifChallenge {
	ac := new(AllocationChallenges)
	ac.AllocationID = allocID
	if err := balances.GetTrieNode(ac.GetKey(ADDRESS), ac); err != nil {
		return nil
	}
	var out []VerifChallenge
	for _, oc := range ac.OpenChallenges {
		ch := new(StorageChallenge)
		ch.ID = oc.ID
		if err := balances.GetTrieNode(ch.GetKey(ADDRESS), ch); err != nil {
			continue
		}
		out = append(out, VerifChallenge{ID: ch.ID, AllocationID: ch.AllocationID, BlobberID: ch.BlobberID,
			Validators: append([]string(nil), ch.ValidatorIDs...), Created: int64(ch.Created), Round: ch.RoundCreatedAt})
	}
	return out
}
