//go:build verif

package partitions

// Verification hook for C25 (add-only, compiled in with -tags verif through go build -overlay):
// a read-only dump of a Partitions object (unexported fields) and of the nodes it has persisted.
// Nothing here mutates the object or the state.

import (
	"sort"

	"0chain.net/chaincore/chain/state"
	"0chain.net/core/encryption"
	"github.com/0chain/common/core/util"
)

type VerifItem struct {
	ID   string
	Data []byte
}

type VerifPart struct {
	KeyIdx  int // index i with Key == partitionKey(name, i); -1 when none of 0..maxIdx matches
	Loc     int
	Changed bool
	Items   []VerifItem
}

type VerifDump struct {
	Size      int
	LastNil   bool
	Last      VerifPart
	Parts     map[int]VerifPart // loaded partitions (p.Partitions)
	Locs      map[string]int    // location cache, by item id (for the ids given)
	LocsOther int               // cache entries whose key is not the location key of any given id

	HdrPresent bool
	HdrSize    int
	HdrLastNil bool
	HdrLast    VerifPart
	StoreParts map[int]VerifPart // persisted partition nodes with index 0..maxIdx
	StoreLocs  map[string]int    // persisted location nodes of the ids given
	Errors     []string          // unexpected read errors (other than value-not-present)
}

func verifItems(its []item) []VerifItem {
	res := make([]VerifItem, len(its))
	for i, it := range its {
		res[i] = VerifItem{ID: it.ID, Data: append([]byte(nil), it.Data...)}
	}
	return res
}

func verifKeyIdx(name, key string, maxIdx int) int {
	for i := 0; i <= maxIdx; i++ {
		if partitionKey(name, i) == key {
			return i
		}
	}
	return -1
}

func verifPart(name string, pt *partition, maxIdx int) VerifPart {
	return VerifPart{KeyIdx: verifKeyIdx(name, pt.Key, maxIdx), Loc: pt.Loc, Changed: pt.Changed, Items: verifItems(pt.Items)}
}

// VerifRawGet reads a node straight from the trie of the context (no state cache involved).
func VerifRawGet(sc state.StateContextI, key string, v util.MPTSerializable) error {
	return sc.GetState().GetNodeValue(util.Path(encryption.Hash(key)), v)
}

// VerifDump: the in-memory object and the persisted header / partition / location nodes.
func (p *Partitions) VerifDump(sc state.StateContextI, ids []string, maxIdx int) VerifDump {
	d := VerifDump{Size: p.PartitionSize, Parts: map[int]VerifPart{}, Locs: map[string]int{},
		StoreParts: map[int]VerifPart{}, StoreLocs: map[string]int{}}
	if p.Last == nil {
		d.LastNil = true
	} else {
		d.Last = verifPart(p.Name, p.Last, maxIdx)
	}
	for k, pt := range p.Partitions {
		d.Parts[k] = verifPart(p.Name, pt, maxIdx)
	}
	known := map[string]string{}
	for _, id := range ids {
		known[p.getLocKey(id)] = id
	}
	for k, v := range p.locations {
		if id, ok := known[k]; ok {
			d.Locs[id] = v
		} else {
			d.LocsOther++
		}
	}
	var hdr Partitions
	switch err := VerifRawGet(sc, p.Name, &hdr); err {
	case nil:
		d.HdrPresent = true
		d.HdrSize = hdr.PartitionSize
		if hdr.Last == nil {
			d.HdrLastNil = true
		} else {
			d.HdrLast = verifPart(p.Name, hdr.Last, maxIdx)
		}
	case util.ErrValueNotPresent:
	default:
		d.Errors = append(d.Errors, "hdr: "+err.Error())
	}
	for i := 0; i <= maxIdx; i++ {
		var pt partition
		switch err := VerifRawGet(sc, partitionKey(p.Name, i), &pt); err {
		case nil:
			pt.Key = partitionKey(p.Name, i)
			d.StoreParts[i] = verifPart(p.Name, &pt, maxIdx)
		case util.ErrValueNotPresent:
		default:
			d.Errors = append(d.Errors, "part: "+err.Error())
		}
	}
	for _, id := range ids {
		var l location
		switch err := VerifRawGet(sc, p.getLocKey(id), &l); err {
		case nil:
			d.StoreLocs[id] = l.Location
		case util.ErrValueNotPresent:
		default:
			d.Errors = append(d.Errors, "loc: "+err.Error())
		}
	}
	sort.Strings(d.Errors)
	return d
}

// VerifLastLoc: Last.Loc and the number of items in Last (statistics of the harness).
func (p *Partitions) VerifLastLoc() (int, int) {
	if p.Last == nil {
		return -1, 0
	}
	return p.Last.Loc, len(p.Last.Items)
}
