//go:build verif

package minersc

import (
	"sort"

	"github.com/0chain/common/core/currency"
)

// verifPoolC39 is a Pooler (the previous magic block's node pool) given by its member ids.
type verifPoolC39 map[string]bool

func (p verifPoolC39) HasNode(id string) bool { return p[id] }

// VerifReduceC39 calls the unexported SimpleNodes.reduce on a candidate map built from (ids, stakes).
// prev lists the members of the previous set; nilPool passes a nil Pooler (no previous magic block).
// Returns reduce's result and the ids left in the map, sorted.
func VerifReduceC39(ids []string, stakes []uint64, prev []string, nilPool bool, limit int, xPercent float64, seed int64) (maxNodes int, selected []string) {
	sns := NewSimpleNodes()
	for i, id := range ids {
		sn := &SimpleNode{}
		sn.ID = id
		sn.TotalStaked = currency.Coin(stakes[i])
		sns[id] = sn
	}
	var pool Pooler
	if !nilPool {
		p := verifPoolC39{}
		for _, id := range prev {
			p[id] = true
		}
		pool = p
	}
	maxNodes = sns.reduce(limit, xPercent, seed, pool)
	for k, v := range sns {
		if k != v.ID {
			panic("reduce: key differs from node id")
		}
		selected = append(selected, k)
	}
	sort.Strings(selected)
	return maxNodes, selected
}
