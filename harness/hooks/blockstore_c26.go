//go:build verif

package blockstore

import (
	"path/filepath"

	"0chain.net/core/datastore"
)

// VerifNewStore builds a BlockStore over basePath exactly as Init does (no cache configured), without
// touching the package-level store, so that several stores can be used side by side.
func VerifNewStore(basePath string) *BlockStore {
	return &BlockStore{
		cache:                 noOpCache{},
		blockMetadataProvider: datastore.GetEntityMetadata("block"),
		basePath:              basePath,
	}
}

// VerifBlockPath is the file a block hash is stored in ("" when the hash is too short).
func VerifBlockPath(basePath, hash string) string {
	bp, err := getBlockFilePath(hash)
	if err != nil {
		return ""
	}
	return filepath.Join(basePath, bp)
}
