//go:build verif

package node

// C41 hook: the global node registry has no way to forget a node; the harness starts every case from an empty one.

// VerifC41ResetNodes empties the global registry.
func VerifC41ResetNodes() {
	nodesMutex.Lock()
	nodes = make(map[string]*Node)
	nodesMutex.Unlock()
}
