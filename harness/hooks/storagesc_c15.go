//go:build verif

package storagesc

// Read-only snapshot hook of C15 (harness/cmd/c15): the nodes commitBlobberRead reads and writes — the client's read
// pool, the stored ReadConnection under the contract's own key, the allocation's read terms/statistics, the blobber's
// stake pool. Adds code only; nothing in the contract is changed.

import (
	"sort"

	cstate "0chain.net/chaincore/chain/state"
	"0chain.net/smartcontract/stakepool/spenum"
)

type VerifC15BA struct {
	BlobberID  string
	ReadPrice  uint64
	ReadReward uint64
	NumReads   int64
}

type VerifC15Alloc struct {
	Present    bool
	Owner      string
	Start      int64
	Expiration int64
	NumReads   int64
	BAs        []VerifC15BA
}

type VerifC15SP struct {
	Present   bool
	Killed    bool
	Stake     uint64
	MinStake  uint64
	NumPools  int
	Reward    uint64 // sp.Reward (service charge, unpaid)
	Delegates uint64 // Σ delegate pool rewards
	Charge    float64
}

// VerifC15ReadPool: the read pool node of a client (absent / balance).
func VerifC15ReadPool(balances cstate.StateContextI, client string) (bool, uint64) {
	rp := new(readPool)
	if err := balances.GetTrieNode(readPoolKey(ADDRESS, client), rp); err != nil {
		return false, 0
	}
	return true, uint64(rp.Balance)
}

// VerifC15Last: the read connection stored under ReadConnection.GetKey for (blobber, client, allocation).
func VerifC15Last(balances cstate.StateContextI, blobber, client, alloc string) (bool, int64) {
	rc := &ReadConnection{ReadMarker: &ReadMarker{BlobberID: blobber, ClientID: client, AllocationID: alloc}}
	got := &ReadConnection{}
	if err := balances.GetTrieNode(rc.GetKey(ADDRESS), got); err != nil || got.ReadMarker == nil {
		return false, 0
	}
	return true, got.ReadMarker.ReadCounter
}

func VerifC15GetAlloc(balances cstate.StateContextI, id string) VerifC15Alloc {
	var a VerifC15Alloc
	sa := new(StorageAllocation)
	if err := balances.GetTrieNode(GetAllocKey(ADDRESS, id), sa); err != nil {
		return a
	}
	b := sa.mustBase()
	a.Present = true
	a.Owner = b.Owner
	a.Start = int64(b.StartTime)
	a.Expiration = int64(b.Expiration)
	if b.Stats != nil {
		a.NumReads = b.Stats.NumReads
	}
	for _, d := range b.BlobberAllocs {
		ba := VerifC15BA{BlobberID: d.BlobberID, ReadPrice: uint64(d.Terms.ReadPrice), ReadReward: uint64(d.ReadReward)}
		if d.Stats != nil {
			ba.NumReads = d.Stats.NumReads
		}
		a.BAs = append(a.BAs, ba)
	}
	return a
}

func VerifC15GetSP(balances cstate.StateContextI, blobber string) VerifC15SP {
	var out VerifC15SP
	sp, err := getStakePool(spenum.Blobber, blobber, balances)
	if err != nil {
		return out
	}
	out.Present = true
	out.Killed = sp.HasBeenKilled
	out.MinStake = uint64(sp.Settings.MinStake)
	out.Charge = sp.Settings.ServiceChargeRatio
	out.Reward = uint64(sp.Reward)
	out.NumPools = len(sp.Pools)
	ids := make([]string, 0, len(sp.Pools))
	for k := range sp.Pools {
		ids = append(ids, k)
	}
	sort.Strings(ids)
	for _, k := range ids {
		out.Delegates += uint64(sp.Pools[k].Reward)
	}
	if st, err := sp.stake(); err == nil {
		out.Stake = uint64(st)
	}
	return out
}

// VerifC15Config: the stored configuration values the model's constants stand for
// (min_stake_per_delegate, readpool.min_lock, time_unit in seconds).
func VerifC15Config(balances cstate.StateContextI) (minStake, minLock uint64, timeUnit int64) {
	conf := newConfig()
	if err := balances.GetTrieNode(scConfigKey(ADDRESS), conf); err != nil {
		return 0, 0, -1
	}
	if conf.ReadPool != nil {
		minLock = uint64(conf.ReadPool.MinLock)
	}
	return uint64(conf.MinStakePerDelegate), minLock, int64(conf.TimeUnit.Seconds())
}
