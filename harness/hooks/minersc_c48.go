//go:build verif

package minersc

import cstate "0chain.net/chaincore/chain/state"

// VerifC48Validate runs the contract's own GlobalNode.validate on the global node stored in the state.
func VerifC48Validate(balances cstate.CommonStateContextI) error {
	gn, err := getGlobalNode(balances)
	if err != nil {
		return err
	}
	return gn.validate()
}
