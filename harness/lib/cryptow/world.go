// Package cryptow is the implementation side of the "crypto world" line protocol of Model/AlgWorld.lean
// (properties C31–C34, C47): the same operations performed on the REAL code — the herumi library through
// the repository's wrappers core/encryption (BLS0ChainScheme, threshold, split, aggregate) and
// chaincore/threshold/bls (DKG) — with secrets chosen by the harness. Curve points are never printed:
// a point is answered by the label of its first occurrence in the case (K<n> public keys, S<n> signatures).
package cryptow

import (
	"encoding/hex"
	"fmt"
	"sort"
	"strconv"
	"strings"

	"0chain.net/chaincore/block"
	zbls "0chain.net/chaincore/threshold/bls"
	"0chain.net/core/encryption"
	"github.com/0chain/common/core/logging"
	"github.com/herumi/bls-go-binary/bls"
	"go.uber.org/zap"
)

func init() {
	// the repository code logs through these globals; they are nil until a node's main() sets them
	if logging.Logger == nil {
		logging.Logger = zap.NewNop()
	}
	if logging.N2n == nil {
		logging.N2n = zap.NewNop()
	}
}

type World struct {
	T, N     int
	labK     map[string]int
	labS     map[string]int
	Msgs     map[string][]byte
	Sigs     []bls.Sign
	Keys     map[string]*encryption.BLS0ChainScheme
	Parties  map[int]*zbls.DKG
	MinerIDs map[int]string
	TShares  []encryption.ThresholdSignatureScheme
	// Published holds every party's published public polynomial ONCE (as the magic block's Mpks do): the same slices
	// are handed to every call that takes them, and compared with their snapshot after every such call — a call must
	// not modify what it is given.
	Published map[int][]zbls.PublicKey
	pubSnap   map[int]string
	// MsgFn lets a harness give some message tokens other bytes than MsgBytes (e.g. the hash of a transaction).
	MsgFn func(w *World, token string) ([]byte, bool)
}

func New() *World {
	return &World{labK: map[string]int{}, labS: map[string]int{}, Msgs: map[string][]byte{},
		Keys: map[string]*encryption.BLS0ChainScheme{}, Parties: map[int]*zbls.DKG{}, MinerIDs: map[int]string{}}
}

func (w *World) LabK(pk *bls.PublicKey) string {
	h := pk.SerializeToHexStr()
	i, ok := w.labK[h]
	if !ok {
		i = len(w.labK)
		w.labK[h] = i
	}
	return "K" + strconv.Itoa(i)
}

func (w *World) LabS(s *bls.Sign) string {
	h := s.SerializeToHexStr()
	i, ok := w.labS[h]
	if !ok {
		i = len(w.labS)
		w.labS[h] = i
	}
	return "S" + strconv.Itoa(i)
}

func (w *World) PushSig(s *bls.Sign) string {
	idx := len(w.Sigs)
	w.Sigs = append(w.Sigs, *s)
	return fmt.Sprintf("sig %d %s", idx, w.LabS(s))
}

// MsgBytes is the byte string that stands for message token m: the raw sha3 of "m:"+m. DKG code signs it as a
// Go string, client keys sign it as a hash (hex), so the same token is the same message point on both paths.
func MsgBytes(m string) []byte { return encryption.RawHash("m:" + m) }

func (w *World) msg(m string) ([]byte, bool) { b, ok := w.Msgs[m]; return b, ok }

func splitList(s string) []string {
	if s == "-" {
		return nil
	}
	return strings.Split(s, ",")
}

func natList(s string) ([]int, bool) {
	var r []int
	for _, x := range splitList(s) {
		v, err := strconv.Atoi(x)
		if err != nil || v < 0 {
			return nil, false
		}
		r = append(r, v)
	}
	return r, true
}

// ParseFr: decimal, possibly negative or >= r, reduced mod r (as the model's Fr.parse?).
func ParseFr(s string) (*bls.Fr, bool) {
	neg := strings.HasPrefix(s, "-")
	d := strings.TrimPrefix(s, "-")
	if d == "" {
		return nil, false
	}
	for _, c := range d {
		if c < '0' || c > '9' {
			return nil, false
		}
	}
	// reduce with big arithmetic through the library: SetString fails for values >= r, so reduce by hand
	v := new(bigInt)
	if !v.setDec(d) {
		return nil, false
	}
	v.mod()
	if neg {
		v.negMod()
	}
	var f bls.Fr
	if err := f.SetString(v.String(), 10); err != nil {
		return nil, false
	}
	return &f, true
}

func frList(s string) ([]*bls.Fr, bool) {
	var r []*bls.Fr
	for _, x := range splitList(s) {
		f, ok := ParseFr(x)
		if !ok {
			return nil, false
		}
		r = append(r, f)
	}
	return r, true
}

func skOf(f *bls.Fr) bls.SecretKey { return *bls.CastToSecretKey(f) }

func showBool(b bool) string {
	if b {
		return "true"
	}
	return "false"
}

// NewKey builds a BLS0ChainScheme holding the chosen secret through the repository's own ReadKeys.
func NewKey(f *bls.Fr) (*encryption.BLS0ChainScheme, error) {
	sk := skOf(f)
	k := encryption.NewBLS0ChainScheme()
	txt := sk.GetPublicKey().SerializeToHexStr() + "\n" + hex.EncodeToString(sk.GetLittleEndian()) + "\n"
	if err := k.ReadKeys(strings.NewReader(txt)); err != nil {
		return nil, err
	}
	return k, nil
}

// IDOfSecret is the node/client id of the key with the given secret scalar: the hash of the public key bytes, as
// the repository derives it (client.SetPublicKey / encryption.VerifyPublicKeyClientID). Used by generators.
func IDOfSecret(dec string) string {
	f, ok := ParseFr(dec)
	if !ok {
		panic("bad scalar")
	}
	sk := skOf(f)
	return encryption.Hash(sk.GetPublicKey().Serialize())
}

func mpkHex(m []zbls.PublicKey) string {
	var b strings.Builder
	for i := range m {
		b.WriteString(m[i].SerializeToHexStr())
		b.WriteByte('|')
	}
	return b.String()
}

// mpkOf: party j's published polynomial — one shared slice per party for the whole case.
func (w *World) mpkOf(j int) []zbls.PublicKey {
	if w.Published == nil {
		w.Published, w.pubSnap = map[int][]zbls.PublicKey{}, map[int]string{}
	}
	if m, ok := w.Published[j]; ok {
		return m
	}
	m := w.Parties[j].GetMPKs()
	w.Published[j] = m
	w.pubSnap[j] = mpkHex(m)
	return m
}

func (w *World) indexOf(d *zbls.DKG) int {
	for j, q := range w.Parties {
		if q == d {
			return j
		}
	}
	return -1
}

// guard appends INPUT-MUTATED to an answer when a real call changed a published polynomial it was only given to read.
func (w *World) guard(out string) string {
	for j, m := range w.Published {
		if mpkHex(m) != w.pubSnap[j] {
			return out + " INPUT-MUTATED"
		}
	}
	return out
}

func (w *World) sig(s string) (*bls.Sign, bool) {
	i, err := strconv.Atoi(s)
	if err != nil || i < 0 || i >= len(w.Sigs) {
		return nil, false
	}
	c := w.Sigs[i]
	return &c, true
}

func (w *World) party(s string) (*zbls.DKG, int, bool) {
	i, err := strconv.Atoi(s)
	if err != nil {
		return nil, 0, false
	}
	p, ok := w.Parties[i]
	return p, i, ok
}

func (w *World) shareFor(pj, pi *zbls.DKG, d *bls.Fr) (bls.SecretKey, error) {
	s, err := pj.ComputeDKGKeyShare(pi.ID)
	if err != nil {
		return s, err
	}
	dk := skOf(d)
	s.Add(&dk)
	return s, nil
}

// Step performs one operation; handled=false means the line is not a crypto-world operation.
func (w *World) Step(ws []string) (out string, handled bool) {
	if len(ws) == 0 {
		return "", false
	}
	bad := func() (string, bool) { return "bad-op", true }
	switch {
	case ws[0] == "order" && len(ws) == 1:
		return "order " + bls.GetCurveOrder(), true
	case ws[0] == "msg" && len(ws) == 3:
		if _, ok := ParseFr(ws[2]); !ok {
			return bad()
		}
		w.Msgs[ws[1]] = MsgBytes(ws[1])
		if w.MsgFn != nil {
			if b, ok := w.MsgFn(w, ws[1]); ok {
				w.Msgs[ws[1]] = b
			}
		}
		return "ok", true
	case ws[0] == "msgb" && len(ws) == 4:
		// a message given by its bytes (hex, "-" = empty): hashes of any length
		if _, ok := ParseFr(ws[3]); !ok {
			return bad()
		}
		b := []byte{}
		if ws[2] != "-" {
			d, err := hex.DecodeString(ws[2])
			if err != nil {
				return bad()
			}
			b = d
		}
		w.Msgs[ws[1]] = b
		return "ok", true
	case ws[0] == "rawmsg" && len(ws) == 3:
		// a message that is signed as the literal string (the VRF message of a round)
		if _, ok := ParseFr(ws[2]); !ok {
			return bad()
		}
		if _, have := w.Msgs[ws[1]]; !have {
			w.Msgs[ws[1]] = []byte(ws[1])
		}
		return "ok", true
	case ws[0] == "key" && len(ws) == 3:
		f, ok := ParseFr(ws[2])
		if !ok {
			return bad()
		}
		k, err := NewKey(f)
		if err != nil {
			return "err", true
		}
		w.Keys[ws[1]] = k
		return w.LabK(k.GetBLSPublicKey()), true
	case ws[0] == "ksign" && len(ws) == 3:
		k, ok := w.Keys[ws[1]]
		m, ok2 := w.msg(ws[2])
		if !ok || !ok2 {
			return bad()
		}
		s, err := k.Sign(hex.EncodeToString(m))
		if err != nil {
			return "err", true
		}
		sg, err := k.GetSignature(s)
		if err != nil {
			return "err", true
		}
		return w.PushSig(sg), true
	case ws[0] == "kverify" && len(ws) == 4:
		k, ok := w.Keys[ws[1]]
		sg, ok1 := w.sig(ws[2])
		m, ok2 := w.msg(ws[3])
		if !ok || !ok1 || !ok2 {
			return bad()
		}
		// verification goes through a public-key-only scheme object, as a verifier would hold it
		v := encryption.NewBLS0ChainScheme()
		if err := v.SetPublicKey(k.GetPublicKey()); err != nil {
			return "err", true
		}
		r, err := v.Verify(sg.SerializeToHexStr(), hex.EncodeToString(m))
		if err != nil {
			return "err", true
		}
		return showBool(r), true
	case (ws[0] == "sigadd" || ws[0] == "sigsub") && len(ws) == 3:
		a, ok := w.sig(ws[1])
		b, ok2 := w.sig(ws[2])
		if !ok || !ok2 {
			return bad()
		}
		if ws[0] == "sigadd" {
			a.Add(b)
			return w.PushSig(a), true
		}
		var o bls.G1
		bls.G1Sub(&o, bls.CastFromSign(a), bls.CastFromSign(b))
		return w.PushSig(bls.CastToSign(&o)), true
	case ws[0] == "sigzero" && len(ws) == 1:
		var z bls.Sign
		return w.PushSig(&z), true
	case ws[0] == "kpkadd" && len(ws) == 2:
		var acc bls.PublicKey
		for _, n := range splitList(ws[1]) {
			k, ok := w.Keys[n]
			if !ok {
				return bad()
			}
			acc.Add(k.GetBLSPublicKey())
		}
		return w.LabK(&acc), true
	case ws[0] == "aggsigs" && len(ws) == 3:
		k, ok := w.Keys[ws[1]]
		idx, ok2 := natList(ws[2])
		if !ok || !ok2 {
			return bad()
		}
		var hs []string
		for _, i := range idx {
			if i >= len(w.Sigs) {
				return bad()
			}
			hs = append(hs, w.Sigs[i].SerializeToHexStr())
		}
		a, err := k.AggregateSignatures(hs)
		if err != nil {
			return "err", true
		}
		sg, err := k.GetSignature(a)
		if err != nil {
			return "err", true
		}
		return w.PushSig(sg), true
	case ws[0] == "split" && len(ws) == 3:
		k, ok := w.Keys[ws[1]]
		ks, ok2 := frList(ws[2])
		if !ok || !ok2 {
			return bad()
		}
		parts, err := k.GenerateSplitKeys(len(ks) + 1)
		if err != nil {
			return "err", true
		}
		for i, p := range parts {
			w.Keys[fmt.Sprintf("%s.%d", ws[1], i)] = p.(*encryption.BLS0ChainScheme)
		}
		return fmt.Sprintf("ok %d", len(parts)), true
	case ws[0] == "tks" && len(ws) == 5:
		t, e1 := strconv.Atoi(ws[1])
		n, e2 := strconv.Atoi(ws[2])
		k, ok := w.Keys[ws[3]]
		cs, ok2 := frList(ws[4])
		if e1 != nil || e2 != nil || !ok || !ok2 || t <= 0 || len(cs)+1 != t {
			return bad()
		}
		sh, err := encryption.GenerateThresholdKeyShares(encryption.SignatureSchemeBls0chain, t, n, k)
		if err != nil {
			return "err", true
		}
		w.TShares = sh
		return fmt.Sprintf("ok %d", len(sh)), true
	case ws[0] == "tsign" && len(ws) == 3:
		i, err := strconv.Atoi(ws[1])
		m, ok := w.msg(ws[2])
		if err != nil || i < 0 || i >= len(w.TShares) || !ok {
			return bad()
		}
		s, err := w.TShares[i].Sign(hex.EncodeToString(m))
		if err != nil {
			return "err", true
		}
		var sg bls.Sign
		if err := sg.DeserializeHexStr(s); err != nil {
			return "err", true
		}
		return w.PushSig(&sg), true
	case ws[0] == "tverify" && len(ws) == 4:
		i, err := strconv.Atoi(ws[1])
		sg, ok1 := w.sig(ws[2])
		m, ok := w.msg(ws[3])
		if err != nil || i < 0 || i >= len(w.TShares) || !ok || !ok1 {
			return bad()
		}
		r, err := w.TShares[i].Verify(sg.SerializeToHexStr(), hex.EncodeToString(m))
		if err != nil {
			return "err", true
		}
		return showBool(r), true
	case ws[0] == "tid" && len(ws) == 2:
		// the id of a threshold share as a STRING: GetID, then SetID of that string on a fresh scheme object (what the
		// multisig contract does between registration and reconstruction), read back and parsed the way SetID parses
		i, err := strconv.Atoi(ws[1])
		if err != nil || i < 0 || i >= len(w.TShares) {
			return bad()
		}
		s1 := w.TShares[i].GetID()
		t2 := encryption.GetThresholdSignatureScheme(encryption.SignatureSchemeBls0chain)
		if err := t2.SetID(s1); err != nil {
			return "err", true
		}
		var x bls.ID
		if err := x.SetHexString(t2.GetID()); err != nil {
			return "err", true
		}
		return "id " + x.GetDecString(), true
	case ws[0] == "reconstructs" && len(ws) == 2:
		// reconstruction through the string path: the share objects are rebuilt from their id STRINGS
		rec := encryption.GetReconstructSignatureScheme(encryption.SignatureSchemeBls0chain, w.T, w.N)
		for _, e := range splitList(ws[1]) {
			ab := strings.Split(e, ":")
			if len(ab) != 2 {
				return bad()
			}
			i, err := strconv.Atoi(ab[0])
			sg, ok := w.sig(ab[1])
			if err != nil || i < 0 || i >= len(w.TShares) || !ok {
				return bad()
			}
			ts := encryption.GetThresholdSignatureScheme(encryption.SignatureSchemeBls0chain)
			if err := ts.SetID(w.TShares[i].GetID()); err != nil {
				return "err", true
			}
			if err := rec.Add(ts, sg.SerializeToHexStr()); err != nil {
				return "err", true
			}
		}
		s, err := rec.Reconstruct()
		if err != nil {
			return "err", true
		}
		var sg bls.Sign
		if err := sg.DeserializeHexStr(s); err != nil {
			return "err", true
		}
		return w.PushSig(&sg), true
	case ws[0] == "reconstruct" && len(ws) == 2:
		rec := encryption.GetReconstructSignatureScheme(encryption.SignatureSchemeBls0chain, w.T, w.N)
		for _, e := range splitList(ws[1]) {
			ab := strings.Split(e, ":")
			if len(ab) != 2 {
				return bad()
			}
			i, err := strconv.Atoi(ab[0])
			sg, ok := w.sig(ab[1])
			if err != nil || i < 0 || i >= len(w.TShares) || !ok {
				return bad()
			}
			if err := rec.Add(w.TShares[i], sg.SerializeToHexStr()); err != nil {
				return "err", true
			}
		}
		s, err := rec.Reconstruct()
		if err != nil {
			return "err", true
		}
		var sg bls.Sign
		if err := sg.DeserializeHexStr(s); err != nil {
			return "err", true
		}
		return w.PushSig(&sg), true

	case ws[0] == "dkg" && len(ws) == 3:
		t, e1 := strconv.Atoi(ws[1])
		n, e2 := strconv.Atoi(ws[2])
		if e1 != nil || e2 != nil || t < 0 || n < 0 {
			return bad()
		}
		fn := w.MsgFn
		*w = *New()
		w.MsgFn = fn
		w.T, w.N = t, n
		return "ok", true
	case ws[0] == "party" && len(ws) == 4:
		j, err := strconv.Atoi(ws[1])
		cs, ok := frList(ws[3])
		if err != nil || j < 0 || !ok || len(ws[2]) < 31 {
			return bad()
		}
		for _, c := range ws[2][:31] {
			if !strings.ContainsRune("0123456789abcdefABCDEF", c) {
				return bad()
			}
		}
		// the real constructor (CSPRNG polynomial of T coefficients), then the chosen secrets
		d := zbls.MakeDKG(len(cs), w.N, ws[2])
		made := len(d.VerifMsk())
		if len(d.GetMPKs()) != made {
			made = -1
		}
		msk := make([]zbls.Key, len(cs))
		for i, c := range cs {
			msk[i] = skOf(c)
		}
		d.VerifSetMsk(msk)
		d.T = w.T
		w.Parties[j] = d
		w.MinerIDs[j] = ws[2]
		delete(w.Published, j) // a new polynomial is published for this party
		delete(w.pubSnap, j)
		return fmt.Sprintf("id %s t=%d", d.ID.GetDecString(), made), true
	case ws[0] == "share" && len(ws) == 3:
		pj, _, ok := w.party(ws[1])
		pi, _, ok2 := w.party(ws[2])
		if !ok || !ok2 {
			return bad()
		}
		s, err := pj.ComputeDKGKeyShare(pi.ID)
		if err != nil {
			return "err", true
		}
		return "s " + s.GetDecString(), true
	case ws[0] == "validate" && len(ws) == 5:
		pi, _, ok := w.party(ws[1])
		pj, _, ok2 := w.party(ws[2])
		pk, _, ok3 := w.party(ws[3])
		d, ok4 := ParseFr(ws[4])
		if !ok || !ok2 || !ok3 || !ok4 {
			return bad()
		}
		s, err := w.shareFor(pj, pi, d)
		if err != nil {
			return "err", true
		}
		return w.guard(showBool(pi.ValidateShare(w.mpkOf(w.indexOf(pk)), s))), true
	case ws[0] == "recv" && len(ws) == 5:
		pi, _, ok := w.party(ws[1])
		pj, _, ok2 := w.party(ws[2])
		d, ok4 := ParseFr(ws[3])
		if !ok || !ok2 || !ok4 {
			return bad()
		}
		s, err := w.shareFor(pj, pi, d)
		if err != nil {
			return "err", true
		}
		if err := pi.AddSecretShare(pj.ID, s.GetHexString(), ws[4] == "1"); err != nil {
			return "err", true
		}
		return "ok", true
	case ws[0] == "aggsk" && len(ws) == 2:
		p, _, ok := w.party(ws[1])
		if !ok {
			return bad()
		}
		p.AggregateSecretKeyShares()
		return "s " + p.Si.GetDecString() + " " + w.LabK(p.Pi), true
	case ws[0] == "aggpk" && len(ws) == 3:
		p, _, ok := w.party(ws[1])
		js, ok2 := natList(ws[2])
		if !ok || !ok2 {
			return bad()
		}
		mpks := map[zbls.PartyID][]zbls.PublicKey{}
		for _, j := range js {
			q, ok := w.Parties[j]
			if !ok {
				return bad()
			}
			mpks[q.ID] = w.mpkOf(j)
		}
		if err := p.AggregatePublicKeyShares(mpks); err != nil {
			return w.guard("err"), true
		}
		return w.guard("ok"), true
	case ws[0] == "rundkg" && len(ws) == 1:
		mpks := map[zbls.PartyID][]zbls.PublicKey{}
		for j, q := range w.Parties {
			mpks[q.ID] = w.mpkOf(j)
		}
		for _, pi := range w.Parties {
			for _, pj := range w.Parties {
				s, err := pj.ComputeDKGKeyShare(pi.ID)
				if err != nil {
					return "err", true
				}
				if err := pi.AddSecretShare(pj.ID, s.GetHexString(), false); err != nil {
					return "err", true
				}
			}
			pi.AggregateSecretKeyShares()
			if err := pi.AggregatePublicKeyShares(mpks); err != nil {
				return w.guard("err"), true
			}
		}
		return w.guard("ok"), true
	case ws[0] == "gpk" && len(ws) == 3:
		p, _, ok := w.party(ws[1])
		q, _, ok2 := w.party(ws[2])
		if !ok || !ok2 {
			return bad()
		}
		pk := p.GetPublicKeyByID(q.ID)
		return w.LabK(&pk), true
	case ws[0] == "sign" && len(ws) == 3:
		p, _, ok := w.party(ws[1])
		m, ok2 := w.msg(ws[2])
		if !ok || !ok2 {
			return bad()
		}
		return w.PushSig(p.Sign(string(m))), true
	case ws[0] == "verify" && len(ws) == 5:
		p, _, ok := w.party(ws[1])
		q, _, ok2 := w.party(ws[2])
		sg, ok3 := w.sig(ws[3])
		m, ok4 := w.msg(ws[4])
		if !ok || !ok2 || !ok3 || !ok4 {
			return bad()
		}
		return showBool(p.VerifySignature(sg, string(m), q.ID)), true
	case ws[0] == "recover" && len(ws) == 3:
		sis, ok := natList(ws[1])
		ks, ok2 := natList(ws[2])
		if !ok || !ok2 {
			return bad()
		}
		var hs, ids []string
		for _, i := range sis {
			if i >= len(w.Sigs) {
				return bad()
			}
			hs = append(hs, w.Sigs[i].GetHexString())
		}
		var any *zbls.DKG
		for _, k := range ks {
			q, ok := w.Parties[k]
			if !ok {
				return bad()
			}
			any = q
			ids = append(ids, q.ID.GetHexString())
		}
		if any == nil {
			any = zbls.MakeDKG(1, 1, strings.Repeat("0", 64))
		}
		g, err := any.CalBlsGpSign(hs, ids)
		if err != nil {
			return "err", true
		}
		return w.PushSig(&g), true
	case ws[0] == "gverify" && len(ws) == 4:
		sg, ok := w.sig(ws[1])
		m, ok2 := w.msg(ws[2])
		js, ok3 := natList(ws[3])
		if !ok || !ok2 || !ok3 {
			return bad()
		}
		var gpk bls.PublicKey
		for _, j := range js {
			if _, ok := w.Parties[j]; !ok {
				return bad()
			}
			mp := w.mpkOf(j)
			if len(mp) > 0 {
				gpk.Add(&mp[0])
			}
		}
		return showBool(sg.Verify(&gpk, string(m))), true
	case ws[0] == "sos" && len(ws) == 3:
		pj, j, ok := w.party(ws[1])
		if !ok {
			return bad()
		}
		sos := block.NewShareOrSigns()
		sos.ID = w.MinerIDs[j]
		pubs := map[string]string{}
		back := map[string]int{}
		for _, e := range splitList(ws[2]) {
			f := strings.Split(e, ":")
			switch {
			case len(f) == 2 && f[0] == "n":
				_, i, ok := w.party(f[1])
				if !ok {
					if v, err := strconv.Atoi(f[1]); err == nil && v >= 0 {
						sos.ShareOrSigns[fmt.Sprintf("%064d", v)] = nil
						continue
					}
					return bad()
				}
				sos.ShareOrSigns[w.MinerIDs[i]] = nil
			case len(f) == 3 && f[0] == "s":
				pi, i, ok := w.party(f[1])
				d, ok2 := ParseFr(f[2])
				if !ok || !ok2 {
					return bad()
				}
				s, err := w.shareFor(pj, pi, d)
				if err != nil {
					return bad()
				}
				sos.ShareOrSigns[w.MinerIDs[i]] = &zbls.DKGKeyShare{Share: s.GetHexString()}
				back[w.MinerIDs[i]] = i
			case len(f) == 5 && f[0] == "g":
				_, i, ok := w.party(f[1])
				sg, ok2 := w.sig(f[3])
				m, ok3 := w.msg(f[4])
				if !ok || !ok2 || !ok3 {
					return bad()
				}
				if f[2] != "-" {
					k, ok := w.Keys[f[2]]
					if !ok {
						return bad()
					}
					pubs[w.MinerIDs[i]] = k.GetPublicKey()
				}
				sos.ShareOrSigns[w.MinerIDs[i]] = &zbls.DKGKeyShare{Sign: sg.SerializeToHexStr(), Message: hex.EncodeToString(m)}
			default:
				return bad()
			}
		}
		mpks := block.NewMpks()
		mpk := &block.MPK{ID: sos.ID}
		for _, p := range w.mpkOf(j) {
			mpk.Mpk = append(mpk.Mpk, p.GetHexString())
		}
		mpks.Mpks[sos.ID] = mpk
		keys, okv := sos.Validate(mpks, pubs, encryption.NewBLS0ChainScheme())
		if !okv {
			return "fail", true
		}
		var is []int
		for _, k := range keys {
			is = append(is, back[k])
		}
		sort.Ints(is)
		if len(is) == 0 {
			return "ok -", true
		}
		var ss []string
		for _, i := range is {
			ss = append(ss, strconv.Itoa(i))
		}
		return "ok " + strings.Join(ss, ","), true
	}
	return "", false
}
