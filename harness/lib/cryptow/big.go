package cryptow

import (
	"math/big"

	"github.com/herumi/bls-go-binary/bls"
)

// bigInt: decimal scalars reduced modulo the group order the library reports.
type bigInt struct{ v big.Int }

var order *big.Int

// Order returns the group order of the curve the repository initialises (bls.GetCurveOrder()).
func Order() *big.Int {
	if order == nil {
		o, ok := new(big.Int).SetString(bls.GetCurveOrder(), 10)
		if !ok {
			panic("bad curve order")
		}
		order = o
	}
	return order
}

func (b *bigInt) setDec(s string) bool { _, ok := b.v.SetString(s, 10); return ok }
func (b *bigInt) mod()                 { b.v.Mod(&b.v, Order()) }
func (b *bigInt) negMod()              { b.v.Neg(&b.v); b.v.Mod(&b.v, Order()) }
func (b *bigInt) String() string       { return b.v.String() }
