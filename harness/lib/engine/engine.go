// Package engine runs the REAL 0chain transaction engine and smart contracts in-process:
// the repo's own config files, chain.NewChainFromConfig, setupsc.SetupSmartContracts, a real MPT over
// util.MemoryNodeDB, the real state cache, and the exported Chain.UpdateState. No redis, rocksdb directory,
// postgres or network. Used by every engine/contract harness.
package engine

import (
	"context"
	"encoding/json"
	"encoding/hex"
	"fmt"
	"os"
	"sort"
	"sync"
	"sync/atomic"

	"0chain.net/chaincore/block"
	"0chain.net/chaincore/chain"
	cstate "0chain.net/chaincore/chain/state"
	"0chain.net/core/config"
	"0chain.net/chaincore/state"
	"0chain.net/chaincore/transaction"
	"0chain.net/core/common"
	"0chain.net/core/datastore"
	"0chain.net/core/encryption"
	"0chain.net/core/viper"
	"0chain.net/smartcontract/dbs/event"
	"0chain.net/smartcontract/setupsc"
	"github.com/0chain/common/core/currency"
	"github.com/0chain/common/core/logging"
	"github.com/0chain/common/core/statecache"
	"github.com/0chain/common/core/util"
	"go.uber.org/zap"
)

var (
	once  sync.Once
	Chain *chain.Chain
	// worldSeq makes every block hash of every World unique within the process: the chain's state cache is
	// global and keyed by block hash, so a reused hash would leak cached values from one case into another.
	worldSeq uint64
)

// RepoRoot is /repo unless VERIF_REPO is set (scratch worktrees for mutation trials).
func RepoRoot() string {
	if r := os.Getenv("VERIF_REPO"); r != "" {
		return r
	}
	return "/repo"
}

// Setup initialises loggers, configuration (the repo's docker.local/config/0chain.yaml and sc.yaml),
// the chain object and the smart-contract registry. Idempotent.
func Setup() *chain.Chain {
	once.Do(func() {
		logging.Logger = zap.NewNop()
		logging.N2n = zap.NewNop()
		config.SetupDefaultConfig()
		config.SetupConfig(RepoRoot() + "/docker.local")
		config.SetupSmartContractConfig(RepoRoot() + "/docker.local")
		config.SetServerChainID(viper.GetString("server_chain.id"))
		common.SetupRootContext(context.Background())
		c := chain.NewChainFromConfig()
		c.SetupStateCache()
		chain.SetServerChain(c)
		setupsc.SetupSmartContracts()
		block.SetupEntity(nopStore{})
		Chain = c
	})
	return Chain
}

// Client is a deterministic test identity. Signatures are not checked by UpdateState, so the public key is
// just 32 pseudo-random bytes and the id is its hash (as ComputeClientID does).
type Client struct {
	ID        string
	PublicKey string
}

func NewClient(tag string) Client {
	pk := encryption.Hash("verif-client-pk:" + tag)
	b, _ := hex.DecodeString(pk)
	return Client{ID: encryption.Hash(b), PublicKey: pk}
}

// World is one chain state: a block tree of depth 1 (genesis + current block) over one node DB.
type World struct {
	C      *chain.Chain
	NDB    util.NodeDB
	Prev   *block.Block
	B      *block.Block
	State  util.MerklePatriciaTrieI
	BC     *statecache.BlockCache
	Round  int64
	Now    common.Timestamp
	txnSeq int
	id     uint64
}

// NewWorld builds a genesis state with the given balances (and runs init on it, e.g. contract InitConfig).
func NewWorld(balances map[string]currency.Coin, init func(sctx *cstate.StateContext) error) (*World, error) {
	c := Setup()
	ndb := util.NewMemoryNodeDB()
	mpt := util.NewMerklePatriciaTrie(ndb, 0, nil, statecache.NewEmpty())
	gb := block.NewBlock("", 0)
	wid := atomic.AddUint64(&worldSeq, 1)
	gb.Hash = encryption.Hash(fmt.Sprintf("verif-genesis-%d", wid))
	gtxn := &transaction.Transaction{}
	gtxn.Hash = encryption.Hash("verif-genesis-txn")
	sctx := cstate.NewStateContext(gb, mpt, gtxn, nil, nil, nil, nil, nil, nil)
	ids := make([]string, 0, len(balances))
	for id := range balances {
		ids = append(ids, id)
	}
	sort.Strings(ids)
	for _, id := range ids {
		s := &state.State{Balance: balances[id]}
		if err := s.SetTxnHash(gtxn.Hash); err != nil {
			return nil, err
		}
		if _, err := sctx.SetClientState(id, s); err != nil {
			return nil, err
		}
	}
	if init != nil {
		if err := init(sctx); err != nil {
			return nil, err
		}
	}
	gb.ClientState = mpt
	gb.ClientStateHash = mpt.GetRoot()
	gb.SetStateStatus(block.StateSuccessful)
	w := &World{C: c, NDB: ndb, Prev: gb, Round: 0, Now: 1700000000, id: wid}
	w.NextBlock()
	return w, nil
}

// NextBlock seals the current block (its state becomes the previous state) and opens the next round.
func (w *World) NextBlock() {
	if w.B != nil {
		w.B.ClientStateHash = w.State.GetRoot()
		w.B.SetStateStatus(block.StateSuccessful)
		w.BC.Commit()
		w.Prev = w.B
	}
	if w.id == 0 {
		// a World assembled by hand (e.g. several worlds forked from one genesis) still gets process-unique hashes
		w.id = atomic.AddUint64(&worldSeq, 1)
	}
	w.Round++
	b := block.NewBlock("", w.Round)
	b.Hash = encryption.Hash(fmt.Sprintf("verif-block-%d-world-%d", w.Round, w.id))
	b.PrevHash = w.Prev.Hash
	b.PrevBlock = w.Prev
	b.CreationDate = w.Now
	b.MinerID = NewClient("miner0").ID
	st := block.CreateStateWithPreviousBlock(w.Prev, w.NDB, w.Round)
	b.ClientState = st
	w.B = b
	w.State = st
	w.BC = statecache.NewBlockCache(w.C.GetStateCache(), statecache.Block{Round: b.Round, Hash: b.Hash, PrevHash: b.PrevHash})
}

// Txn builds a transaction the way a client would (hash computed over its fields).
func (w *World) Txn(from Client, to string, value, fee currency.Coin, nonce int64, typ int, fn string, input string) *transaction.Transaction {
	w.txnSeq++
	t := &transaction.Transaction{}
	t.ClientID = from.ID
	t.PublicKey = from.PublicKey
	t.ToClientID = to
	t.Value = value
	t.Fee = fee
	t.Nonce = nonce
	t.TransactionType = typ
	t.CreationDate = w.Now
	t.ChainID = w.C.ID
	if typ == transaction.TxnTypeSmartContract {
		t.SmartContractData = &transaction.SmartContractData{FunctionName: fn, InputData: json.RawMessage(inputOrNull(input))}
		t.TransactionData = fmt.Sprintf(`{"name":%q,"input":%s}`, fn, inputOrNull(input))
	} else {
		t.TransactionData = input
	}
	t.Hash = encryption.Hash(fmt.Sprintf("verif-txn-%d-%s-%d-%s", w.txnSeq, from.ID, nonce, t.TransactionData))
	t.OutputHash = ""
	return t
}

func inputOrNull(s string) string {
	if s == "" {
		return "null"
	}
	return s
}

// Exec runs one transaction through the real Chain.UpdateState on the current block state.
func (w *World) Exec(t *transaction.Transaction) ([]event.Event, error) {
	return w.C.UpdateState(context.Background(), w.B, w.State, t, w.BC)
}

// SCtx returns a read context on the current block state (fresh txn cache on the block cache).
func (w *World) SCtx() *cstate.StateContext {
	tc := statecache.NewTransactionCache(w.BC)
	mpt := chain.CreateTxnMPT(w.State, tc)
	t := &transaction.Transaction{}
	t.Hash = encryption.Hash("verif-read")
	t.CreationDate = w.Now
	return w.C.NewStateContext(w.B, mpt, t, nil)
}

func (w *World) Account(id string) (bal currency.Coin, nonce int64, present bool) {
	s, err := chain.GetStateById(w.State, id)
	if err != nil || s == nil {
		return 0, 0, false
	}
	return s.Balance, s.Nonce, true
}

// Leaves iterates every value node of the current state: path (hex of the hashed key) -> raw bytes.
func (w *World) Leaves() (map[string][]byte, error) {
	res := map[string][]byte{}
	err := w.State.Iterate(context.Background(), func(ctx context.Context, path util.Path, key util.Key, node util.Node) error {
		if ln, ok := node.(*util.LeafNode); ok {
			res[string(path)+string(ln.Path)] = ln.GetValueBytes()
		}
		return nil
	}, util.NodeTypeLeafNode)
	return res, err
}

// TotalBalance sums State.Balance over all leaves that decode as a client state of the fixed 56-byte layout.
// Client states are the only leaves stored under Hash-less raw client ids (path = client id), see KeyIsClient.
func (w *World) Root() string { return hex.EncodeToString(w.State.GetRoot()) }

type nopStore struct{}

func (nopStore) Read(ctx context.Context, key datastore.Key, entity datastore.Entity) error {
	return fmt.Errorf("nopStore")
}
func (nopStore) Merge(ctx context.Context, entity datastore.Entity) error { return nil }
func (nopStore) Write(ctx context.Context, entity datastore.Entity) error  { return nil }
func (nopStore) InsertIfNE(ctx context.Context, entity datastore.Entity) error { return nil }
func (nopStore) Delete(ctx context.Context, entity datastore.Entity) error { return nil }
func (nopStore) MultiRead(ctx context.Context, entityMetadata datastore.EntityMetadata, keys []datastore.Key, entities []datastore.Entity) error {
	return fmt.Errorf("nopStore")
}
func (nopStore) MultiWrite(ctx context.Context, entityMetadata datastore.EntityMetadata, entities []datastore.Entity) error {
	return nil
}
func (nopStore) MultiDelete(ctx context.Context, entityMetadata datastore.EntityMetadata, entities []datastore.Entity) error {
	return nil
}
func (nopStore) AddToCollection(ctx context.Context, entity datastore.CollectionEntity) error { return nil }
func (nopStore) MultiAddToCollection(ctx context.Context, entityMetadata datastore.EntityMetadata, entities []datastore.Entity) error {
	return nil
}
func (nopStore) DeleteFromCollection(ctx context.Context, entity datastore.CollectionEntity) error {
	return nil
}
func (nopStore) MultiDeleteFromCollection(ctx context.Context, entityMetadata datastore.EntityMetadata, entities []datastore.Entity) error {
	return nil
}
func (nopStore) GetCollectionSize(ctx context.Context, entityMetadata datastore.EntityMetadata, collectionName string) int64 {
	return 0
}
func (nopStore) IterateCollection(ctx context.Context, entityMetadata datastore.EntityMetadata, collectionName string, handler datastore.CollectionIteratorHandler) error {
	return nil
}

// feeCfg overrides IsFeeEnabled of the chain configuration (everything else is the repo's own config).
type feeCfg struct {
	config.ChainConfig
	fee bool
}

func (f feeCfg) IsFeeEnabled() bool { return f.fee }

var baseCfg config.ChainConfig

// SetFeeEnabled switches transaction fees on or off for subsequent UpdateState calls (global: harnesses
// that use it must run their cases serially).
func SetFeeEnabled(on bool) {
	c := Setup()
	if baseCfg == nil {
		baseCfg = c.ChainConfig
	}
	cfg := feeCfg{ChainConfig: baseCfg, fee: on}
	c.ChainConfig = cfg
	config.Configuration().ChainConfig = cfg
}
