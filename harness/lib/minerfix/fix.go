// Package minerfix builds a minimal in-process miner chain object (miner.SetupMinerChain on a fresh chain.Chain)
// for the protocol properties that need the real miner handlers (C31 notarization, C33 round random seed):
// a magic block of n miner nodes with real BLS keys, a genesis block as latest finalized block, rounds on demand.
// No network, no stores: state computation of blocks is avoided by marking fixture blocks as state-computed.
// The miner chain is a package-level singleton in the repository, so harnesses using this fixture run serially.
package minerfix

import (
	"context"
	"os"
	"strconv"
	"sync"

	"0chain.net/chaincore/block"
	"0chain.net/chaincore/chain"
	"0chain.net/chaincore/client"
	"0chain.net/chaincore/node"
	"0chain.net/chaincore/round"
	"0chain.net/core/common"
	"0chain.net/core/config"
	"0chain.net/core/datastore"
	"0chain.net/core/encryption"
	"0chain.net/core/memorystore"
	"0chain.net/miner"
	"github.com/0chain/common/core/logging"
	"github.com/0chain/common/core/statecache"
	"github.com/0chain/common/core/util"
	"go.uber.org/zap"
)

var once sync.Once

// GlobalInit sets up the process-wide entity metadata, loggers and root context once.
func GlobalInit() { globalInit() }

func globalInit() {
	once.Do(func() {
		logging.Logger = zap.NewNop()
		logging.N2n = zap.NewNop()
		if os.Getenv("VERIF_DEBUG_LOG") != "" {
			logging.Logger, _ = zap.NewDevelopment()
		}
		common.SetupRootContext(context.Background())
		config.SetServerChainID("verif-chain")
		block.SetupEntity(memorystore.GetStorageProvider())
		block.SetupBlockSummaryEntity(memorystore.GetStorageProvider())
		round.SetupEntity(memorystore.GetStorageProvider())
		round.SetupVRFShareEntity(memorystore.GetStorageProvider())
		client.SetupEntity(memorystore.GetStorageProvider())
		miner.SetupNotarizationEntity()
		miner.SetupM2MSenders()
		miner.SetupM2SSenders()
	})
}

type Fix struct {
	MC    *miner.Chain
	MB    *block.MagicBlock
	Nodes []*node.Node
	Keys  []*encryption.BLS0ChainScheme
	GB    *block.Block
	Ctx   context.Context
	stop  context.CancelFunc
	rounds []*miner.Round
	// MBs are all installed magic blocks (MBs[0] == MB); LFMBs[i] is the finalized block that carries MBs[i].
	MBs   []*block.MagicBlock
	LFMBs []*block.Block
}

type Opts struct {
	N, T             int
	Self             int
	ThresholdByCount int
	ThresholdByStake int
	// Keys are the miners' signing keys (generated when nil); IDs override the node ids (default: hash of the
	// public key, as client.SetPublicKey computes it).
	Keys []*encryption.BLS0ChainScheme
	IDs  []string
	GenesisSeed int64
	ValidationBatchSize int
	// SelfKey is this node's own signing key (with the private part); default Keys[Self].
	SelfKey *encryption.BLS0ChainScheme
	// Pools, when set, installs one magic block per entry (miner sets given as indices into Keys): the first starts
	// at round 0, the following ones at round 100, 200, … (a view change). Each magic block has its own node objects.
	Pools [][]int
	// PoolT / PoolStart optionally give the T (DKG threshold) and the starting round of each magic block of Pools.
	PoolT     []int
	PoolStart []int64
}

// New builds a fresh chain + miner chain. Everything a previous fixture registered globally is replaced.
func New(o Opts) *Fix {
	globalInit()
	f := &Fix{}
	f.Ctx, f.stop = context.WithCancel(context.Background())
	np := node.NewPool(node.NodeTypeMiner)
	for i := 0; i < o.N; i++ {
		var k *encryption.BLS0ChainScheme
		if o.Keys != nil {
			k = o.Keys[i]
		} else {
			k = encryption.NewBLS0ChainScheme()
			if err := k.GenerateKeys(); err != nil {
				panic(err)
			}
		}
		nd := node.Provider()
		nd.Type = node.NodeTypeMiner
		nd.Host = "127.0.0.1" // nothing listens there: a broadcast the handlers start fails at once
		nd.Port = 1 + i
		nd.N2NHost = "127.0.0.1"
		_ = strconv.Itoa
		nd.Status = node.NodeStatusActive
		if err := nd.SetSignatureScheme(k); err != nil { // sets PublicKey and ID = Hash(public key bytes)
			panic(err)
		}
		if o.IDs != nil {
			nd.ID = o.IDs[i]
		}
		f.Keys = append(f.Keys, k)
		f.Nodes = append(f.Nodes, nd)
		in0 := o.Pools == nil
		if o.Pools != nil {
			for _, j := range o.Pools[0] {
				if j == i {
					in0 = true
				}
			}
		}
		if in0 {
			np.AddNode(nd)
		}
		node.RegisterNode(nd) // every node the process knows is in the global registry
	}
	// the self node is published only when complete: a broadcast goroutine a handler of the PREVIOUS fixture started may
	// still call node.Self.Sign
	sn := &node.SelfNode{}
	sn.Node = f.Nodes[o.Self]
	sk := o.SelfKey
	if sk == nil {
		sk = f.Keys[o.Self]
	}
	sn.SetSignatureScheme(sk)
	node.Self = sn

	mb := block.NewMagicBlock()
	mb.Miners = np
	mb.Sharders = node.NewPool(node.NodeTypeSharder)
	mb.T, mb.N = o.T, o.N
	if o.Pools != nil {
		mb.T, mb.N = len(o.Pools[0]), len(o.Pools[0])
		if o.PoolT != nil {
			mb.T = o.PoolT[0]
		}
	}
	mb.StartingRound = 0
	mb.MagicBlockNumber = 1
	f.MB = mb

	c := chain.Provider().(*chain.Chain)
	c.ID = datastore.ToKey(config.GetServerChainID())
	data := &chain.ConfigData{}
	data.ThresholdByCount = o.ThresholdByCount
	data.ThresholdByStake = o.ThresholdByStake
	data.IsDkgEnabled = true
	data.MinGenerators = 1
	data.GeneratorsPercent = 0.2
	data.ClientSignatureScheme = encryption.SignatureSchemeBls0chain
	data.ValidationBatchSize = 2
	if o.ValidationBatchSize > 0 {
		data.ValidationBatchSize = o.ValidationBatchSize
	}
	c.ChainConfig = chain.NewConfigImpl(data)
	c.SetMagicBlock(mb)
	c.SetupStateCache()
	chain.SetServerChain(c)
	miner.SetupMinerChain(c)
	mc := miner.GetMinerChain()
	mc.SetMagicBlock(mb)
	f.MC = mc

	seed := o.GenesisSeed
	if seed == 0 {
		seed = 839695260482366273
	}
	gb := block.NewBlock(config.GetServerChainID(), 0)
	gb.SetRoundRandomSeed(seed)
	gb.HashBlock()
	gb.SetBlockState(block.StateNotarized)
	gb.SetStateStatus(block.StateSuccessful)
	gb.ClientState = util.NewMerklePatriciaTrie(util.NewMemoryNodeDB(), 0, nil, statecache.NewEmpty())
	// the latest finalized magic block is served by a worker goroutine of the chain
	go mc.StartLFMBWorker(f.Ctx)
	gb.MagicBlock = mb
	mb.Hash = mb.GetHash()
	mc.SetLatestFinalizedMagicBlock(gb)
	r0 := f.Round(0, seed)
	gb = mc.AddRoundBlock(r0, gb)
	mc.Chain.SetLatestFinalizedBlock(gb)
	f.GB = gb
	f.MBs = []*block.MagicBlock{mb}
	f.LFMBs = []*block.Block{gb}
	// further magic blocks (view changes) with their own miner sets
	for i := 1; i < len(o.Pools); i++ {
		pool := node.NewPool(node.NodeTypeMiner)
		for _, j := range o.Pools[i] {
			nd := node.Provider()
			nd.Type = node.NodeTypeMiner
			nd.Host, nd.N2NHost, nd.Port = "127.0.0.1", "127.0.0.1", 1+j
			nd.Status = node.NodeStatusActive
			if err := nd.SetSignatureScheme(f.Keys[j]); err != nil {
				panic(err)
			}
			pool.AddNode(nd)
		}
		prev := f.MBs[i-1]
		m := block.NewMagicBlock()
		m.Miners = pool
		m.Sharders = node.NewPool(node.NodeTypeSharder)
		m.T, m.N = len(o.Pools[i]), len(o.Pools[i])
		m.StartingRound = int64(100 * i)
		if o.PoolT != nil {
			m.T = o.PoolT[i]
		}
		if o.PoolStart != nil {
			m.StartingRound = o.PoolStart[i]
		}
		m.MagicBlockNumber = prev.MagicBlockNumber + 1
		m.PreviousMagicBlockHash = prev.Hash
		m.Hash = m.GetHash()
		c.SetMagicBlock(m)
		lb := block.NewBlock(config.GetServerChainID(), m.StartingRound)
		lb.SetRoundRandomSeed(seed + int64(i))
		lb.MagicBlock = m
		lb.HashBlock()
		lb.SetBlockState(block.StateNotarized)
		lb.SetStateStatus(block.StateSuccessful)
		mc.SetLatestFinalizedMagicBlock(lb)
		f.MBs = append(f.MBs, m)
		f.LFMBs = append(f.LFMBs, lb)
	}
	return f
}

// Round returns the miner round rn, creating it; seed != 0 sets its random seed.
func (f *Fix) Round(rn int64, seed int64) *miner.Round {
	mr := f.MC.GetMinerRound(rn)
	if mr == nil {
		mr = f.MC.AddRound(f.MC.CreateRound(round.NewRound(rn))).(*miner.Round)
		f.rounds = append(f.rounds, mr)
	}
	if seed != 0 {
		f.MC.SetRandomSeed(mr, seed)
	}
	return mr
}

// Close cancels what the handlers may have started (block collection goroutines).
func (f *Fix) Close() {
	for _, r := range f.rounds {
		r.CancelVerification()
		r.TryCancelBlockGeneration()
	}
	f.stop()
}
