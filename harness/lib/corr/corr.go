// Package corr is the correspondence ("differential") runner shared by all property harnesses.
//
// A property harness supplies a generator of operation sequences (one string per operation), a function
// that runs a sequence on the REAL implementation from a fresh state and returns one answer line per
// operation, and an oracle that states the property itself on such a run. The runner pipes the same
// operation lines to the Lean model driver (`zdrv <tag>`, compiled from /verif/lean), compares the two
// answer streams line by line, shrinks any disagreement to a minimal operation sequence, evaluates the
// oracle on every run, and writes a JSON result that ./check turns into evidence and VIOLATION lines.
//
// Every random choice derives from one seed (VERIF_SEED / -seed), so a disagreement replays exactly.
package corr

import (
	"bufio"
	"bytes"
	"crypto/sha256"
	"encoding/hex"
	"encoding/json"
	"flag"
	"fmt"
	"math/rand"
	"os"
	"os/exec"
	"path/filepath"
	"runtime"
	"sort"
	"strings"
	"sync"
	"time"
)

// Violation is a concrete run of the implementation on which the property is false.
type Violation struct {
	Signature string   `json:"signature"` // stable identification of WHAT fails (matched against known_findings.jsonl)
	Message   string   `json:"message"`
	Ops       []string `json:"ops"`
	Impl      []string `json:"impl_outputs"`
}

// Disagreement is a (shrunk) operation sequence on which model and implementation answer differently.
type Disagreement struct {
	Ops       []string `json:"ops"`
	Impl      []string `json:"impl_outputs"`
	Model     []string `json:"model_outputs"`
	FirstDiff int      `json:"first_diff"`
	Case      int      `json:"case"`
	Signature string   `json:"signature"`
}

type Prop struct {
	ID    string
	Model string // zdrv tag; "" = no model stream (oracle only)
	// Gen returns the operations of case i. The first operation must (re)initialise the state on both sides.
	Gen func(r *rand.Rand, thorough bool, i int) []string
	// Impl runs one case on the real code from a fresh state: one answer per operation.
	Impl func(ops []string) []string
	// Oracle states the property on an implementation run; nil = holds.
	Oracle func(ops, outs []string) *Violation
	// Cases is the number of generated cases per tier.
	Cases func(thorough bool) int
	// Fixed cases run first (corpus of past disagreements, negation witnesses, boundary cases).
	Fixed [][]string
	// Nontrivial decides whether a case counts as non-trivial in the evidence; default: ≥ 3 ops.
	Nontrivial func(ops, outs []string) bool
	// Serial forces single-threaded implementation runs (global state in the code under test).
	Serial bool
	// DiffSignature classifies a disagreement (default: kind of the first differing op).
	DiffSignature func(d *Disagreement) string
	// Extra lets a harness add property-specific numbers to the result.
	Extra func() map[string]interface{}
	// Stress is an optional extra search on the implementation alone (e.g. concurrent schedules, which a line
	// protocol cannot express): it returns the violations it found. It is a search, never a proof.
	Stress func(thorough bool, seed int64) []Violation
}

type Result struct {
	Property      string                 `json:"property"`
	Tier          string                 `json:"tier"`
	Seed          int64                  `json:"seed"`
	Cases         int                    `json:"cases"`
	Ops           int                    `json:"ops"`
	Distinct      int                    `json:"distinct_cases"`
	Nontrivial    int                    `json:"distinct_nontrivial"`
	OpHist        map[string]int         `json:"op_hist"`
	OutHist       map[string]int         `json:"out_hist"`
	LenHist       map[string]int         `json:"case_len_hist"`
	Compared      int                    `json:"lines_compared"`
	Disagreements []Disagreement         `json:"disagreements"`
	Violations    []Violation            `json:"violations"`
	Samples       [][]string             `json:"samples"`
	SelfTest      string                 `json:"differ_selftest"`
	ModelCmd      string                 `json:"model_cmd"`
	WallS         float64                `json:"wall_s"`
	Extra         map[string]interface{} `json:"extra,omitempty"`
	Error         string                 `json:"error,omitempty"`
}

func kind(s string) string {
	if i := strings.IndexByte(s, ' '); i >= 0 {
		return s[:i]
	}
	return s
}

// RunModel pipes ops to the model driver and returns one answer per op.
// zdrv is the directory holding the compiled drivers (`zdrv-<tag>`), or the path of one driver executable.
func RunModel(zdrv, tag string, ops []string) ([]string, error) {
	exe := zdrv
	if st, err := os.Stat(zdrv); err == nil && st.IsDir() {
		exe = filepath.Join(zdrv, "zdrv-"+tag)
	}
	cmd := exec.Command(exe)
	var in bytes.Buffer
	for _, o := range ops {
		in.WriteString(o)
		in.WriteByte('\n')
	}
	cmd.Stdin = &in
	var out, errb bytes.Buffer
	cmd.Stdout = &out
	cmd.Stderr = &errb
	if err := cmd.Run(); err != nil {
		return nil, fmt.Errorf("model driver failed: %v: %s", err, errb.String())
	}
	var res []string
	sc := bufio.NewScanner(&out)
	sc.Buffer(make([]byte, 1<<20), 1<<28)
	for sc.Scan() {
		res = append(res, sc.Text())
	}
	if len(res) != len(ops) {
		return res, fmt.Errorf("model driver answered %d lines for %d ops", len(res), len(ops))
	}
	return res, nil
}

func safeImpl(p *Prop, ops []string) (outs []string) {
	defer func() {
		if r := recover(); r != nil {
			outs = make([]string, len(ops))
			for i := range outs {
				outs[i] = fmt.Sprintf("harness-panic %v", r)
			}
		}
	}()
	outs = p.Impl(ops)
	if len(outs) != len(ops) {
		panic(fmt.Sprintf("impl returned %d answers for %d ops", len(outs), len(ops)))
	}
	return outs
}

func firstDiff(a, b []string) int {
	n := len(a)
	if len(b) < n {
		n = len(b)
	}
	for i := 0; i < n; i++ {
		if a[i] != b[i] {
			return i
		}
	}
	if len(a) != len(b) {
		return n
	}
	return -1
}

// shrink: delta-debugging over the op list (op 0, the initialiser, is always kept).
func shrink(p *Prop, zdrv string, ops []string, differs func(ops []string) bool) []string {
	cur := append([]string(nil), ops...)
	trials := 0
	// first: cut everything after the first differing op
	n := 2
	for len(cur) > 2 && trials < 400 {
		chunk := (len(cur) - 1 + n - 1) / n
		reduced := false
		for start := 1; start < len(cur) && trials < 400; start += chunk {
			end := start + chunk
			if end > len(cur) {
				end = len(cur)
			}
			cand := append(append([]string(nil), cur[:start]...), cur[end:]...)
			trials++
			if len(cand) >= 1 && differs(cand) {
				cur = cand
				if n > 2 {
					n--
				}
				reduced = true
				break
			}
		}
		if !reduced {
			if chunk <= 1 {
				break
			}
			n *= 2
			if n > len(cur)-1 {
				n = len(cur) - 1
			}
		}
	}
	return cur
}

func hashOps(ops []string) string {
	h := sha256.New()
	for _, o := range ops {
		h.Write([]byte(o))
		h.Write([]byte{'\n'})
	}
	return hex.EncodeToString(h.Sum(nil)[:8])
}

// Main is the entry point of every property harness binary.
func Main(p Prop) {
	tier := flag.String("tier", "quick", "quick|thorough")
	seed := flag.Int64("seed", 1, "PRNG seed")
	zdrv := flag.String("zdrv", "/verif/lean/.lake/build/bin", "directory of the compiled Lean model drivers (zdrv-<tag>)")
	outPath := flag.String("out", "", "result json")
	replayDir := flag.String("replays", "", "directory for replay files")
	replay := flag.String("replay", "", "replay file: run its ops on implementation and model, print both")
	ncases := flag.Int("n", 0, "override number of generated cases")
	knownSigs := flag.String("known", "", "comma-separated violation signatures listed in known_findings.jsonl: reported, but not shrunk again")
	flag.Parse()
	start := time.Now()
	thorough := *tier == "thorough"

	if *replay != "" {
		os.Exit(doReplay(&p, *zdrv, *replay))
	}

	res := Result{Property: p.ID, Tier: *tier, Seed: *seed, OpHist: map[string]int{}, OutHist: map[string]int{}, LenHist: map[string]int{}}
	res.ModelCmd = *zdrv + "/zdrv-" + p.Model
	n := 0
	if p.Cases != nil {
		n = p.Cases(thorough)
	}
	if *ncases > 0 {
		n = *ncases
	}
	var cases [][]string
	cases = append(cases, p.Fixed...)
	nfixed := len(cases)
	if p.Gen != nil {
		for i := 0; i < n; i++ {
			// one PRNG per case, derived from the seed, so a case replays by (seed, index)
			r := rand.New(rand.NewSource(*seed*1000003 + int64(i)))
			cases = append(cases, p.Gen(r, thorough, i))
		}
	}
	_ = nfixed
	outs := make([][]string, len(cases))
	workers := runtime.NumCPU()
	if p.Serial {
		workers = 1
	}
	var wg sync.WaitGroup
	ch := make(chan int)
	for w := 0; w < workers; w++ {
		wg.Add(1)
		go func() {
			defer wg.Done()
			for i := range ch {
				outs[i] = safeImpl(&p, cases[i])
			}
		}()
	}
	for i := range cases {
		ch <- i
	}
	close(ch)
	wg.Wait()

	// statistics
	seen := map[string]bool{}
	for i, c := range cases {
		res.Ops += len(c)
		for _, o := range c {
			res.OpHist[kind(o)]++
		}
		for _, o := range outs[i] {
			res.OutHist[kind(o)]++
		}
		b := "1-4"
		switch {
		case len(c) >= 64:
			b = "64+"
		case len(c) >= 16:
			b = "16-63"
		case len(c) >= 5:
			b = "5-15"
		}
		res.LenHist[b]++
		h := hashOps(c)
		if !seen[h] {
			seen[h] = true
			nt := len(c) >= 3
			if p.Nontrivial != nil {
				nt = p.Nontrivial(c, outs[i])
			}
			if nt {
				res.Nontrivial++
			}
		}
	}
	res.Cases = len(cases)
	res.Distinct = len(seen)
	for i := 0; i < len(cases) && len(res.Samples) < 3; i += 1 + len(cases)/3 {
		s := cases[i]
		if len(s) > 12 {
			s = append(append([]string(nil), s[:12]...), fmt.Sprintf("... (%d ops)", len(cases[i])))
		}
		res.Samples = append(res.Samples, s)
	}

	// model stream, one process for all cases
	if p.Model != "" {
		var all []string
		for _, c := range cases {
			all = append(all, c...)
		}
		mo, err := RunModel(*zdrv, p.Model, all)
		if err != nil {
			res.Error = err.Error()
		} else {
			// differ self-test: a deliberately corrupted model stream must be noticed
			if len(mo) > 0 {
				cp := append([]string(nil), mo...)
				cp[len(cp)/2] += " <corrupted>"
				var implAll []string
				for i := range cases {
					implAll = append(implAll, outs[i]...)
				}
				if firstDiff(implAll, cp) >= 0 {
					res.SelfTest = "ok: corrupted model line detected"
				} else {
					res.SelfTest = "FAILED"
					res.Error = "differ self-test failed"
				}
			}
			off := 0
			for i, c := range cases {
				m := mo[off : off+len(c)]
				off += len(c)
				res.Compared += len(c)
				if fd := firstDiff(outs[i], m); fd >= 0 {
					if len(res.Disagreements) >= 5 {
						continue
					}
					differs := func(ops []string) bool {
						io := safeImpl(&p, ops)
						mm, err := RunModel(*zdrv, p.Model, ops)
						return err != nil || firstDiff(io, mm) >= 0
					}
					sh := shrink(&p, *zdrv, c[:fd+1], differs)
					io := safeImpl(&p, sh)
					mm, _ := RunModel(*zdrv, p.Model, sh)
					d := Disagreement{Ops: sh, Impl: io, Model: mm, FirstDiff: firstDiff(io, mm), Case: i}
					if p.DiffSignature != nil {
						d.Signature = p.DiffSignature(&d)
					} else if d.FirstDiff >= 0 && d.FirstDiff < len(sh) {
						d.Signature = p.ID + ":diff:" + kind(sh[d.FirstDiff])
					}
					res.Disagreements = append(res.Disagreements, d)
				}
			}
		}
	}

	// oracle on every run (and on the shrunk disagreements)
	if p.Oracle != nil {
		known := map[string]bool{}
		for _, k := range strings.Split(*knownSigs, ",") {
			if k != "" {
				known[k] = true
			}
		}
		sigSeen := map[string]bool{}
		addV := func(v *Violation) {
			if v == nil || sigSeen[v.Signature] {
				return
			}
			sigSeen[v.Signature] = true
			res.Violations = append(res.Violations, *v)
		}
		for _, d := range res.Disagreements {
			addV(p.Oracle(d.Ops, d.Impl))
		}
		for i, c := range cases {
			v := p.Oracle(c, outs[i])
			if v != nil && !sigSeen[v.Signature] && known[v.Signature] {
				addV(v) // a recorded finding: report it as found, without spending time on shrinking it again
				continue
			}
			if v != nil && !sigSeen[v.Signature] {
				// shrink the violating run while the oracle still reports the same signature
				sig := v.Signature
				sh := shrink(&p, *zdrv, c, func(ops []string) bool {
					vv := p.Oracle(ops, safeImpl(&p, ops))
					return vv != nil && vv.Signature == sig
				})
				io := safeImpl(&p, sh)
				if vv := p.Oracle(sh, io); vv != nil {
					v = vv
				}
				addV(v)
			}
		}
	}
	if p.Stress != nil {
		seenSig := map[string]bool{}
		for _, v := range res.Violations {
			seenSig[v.Signature] = true
		}
		for _, v := range p.Stress(thorough, *seed) {
			if !seenSig[v.Signature] {
				seenSig[v.Signature] = true
				res.Violations = append(res.Violations, v)
			}
		}
	}
	if p.Extra != nil {
		res.Extra = p.Extra()
	}
	res.WallS = time.Since(start).Seconds()

	// replay files
	if *replayDir != "" {
		os.MkdirAll(*replayDir, 0o755)
		for i, d := range res.Disagreements {
			writeJSON(filepath.Join(*replayDir, fmt.Sprintf("%s-diff-%d.json", p.ID, i)), map[string]interface{}{
				"property": p.ID, "kind": "correspondence-disagreement", "seed": *seed, "broken": "correspondence " + p.Model + " vs implementation",
				"ops": d.Ops, "impl_outputs": d.Impl, "model_outputs": d.Model, "first_diff": d.FirstDiff, "signature": d.Signature})
		}
		for i, v := range res.Violations {
			writeJSON(filepath.Join(*replayDir, fmt.Sprintf("%s-viol-%d.json", p.ID, i)), map[string]interface{}{
				"property": p.ID, "kind": "property-violation", "seed": *seed, "signature": v.Signature, "message": v.Message,
				"ops": v.Ops, "impl_outputs": v.Impl})
		}
	}
	if *outPath != "" {
		writeJSON(*outPath, res)
	} else {
		b, _ := json.MarshalIndent(res, "", " ")
		fmt.Println(string(b))
	}
	if res.Error != "" {
		fmt.Fprintln(os.Stderr, "error:", res.Error)
		os.Exit(3)
	}
}

func writeJSON(path string, v interface{}) {
	b, _ := json.MarshalIndent(v, "", " ")
	os.WriteFile(path, b, 0o644)
}

func doReplay(p *Prop, zdrv, path string) int {
	b, err := os.ReadFile(path)
	if err != nil {
		fmt.Fprintln(os.Stderr, err)
		return 2
	}
	var r struct {
		Ops []string `json:"ops"`
	}
	if err := json.Unmarshal(b, &r); err != nil {
		fmt.Fprintln(os.Stderr, err)
		return 2
	}
	io := safeImpl(p, r.Ops)
	var mm []string
	if p.Model != "" {
		mm, _ = RunModel(zdrv, p.Model, r.Ops)
	}
	rc := 0
	for i, o := range r.Ops {
		m := ""
		if i < len(mm) {
			m = mm[i]
		}
		mark := " "
		if p.Model != "" && m != io[i] {
			mark = "!"
			rc = 1
		}
		fmt.Printf("%s %-40s impl=%-30s model=%s\n", mark, o, io[i], m)
	}
	if p.Oracle != nil {
		if v := p.Oracle(r.Ops, io); v != nil {
			fmt.Printf("ORACLE: property false on this run: %s (%s)\n", v.Message, v.Signature)
			rc = 1
		} else {
			fmt.Println("ORACLE: property holds on this run")
		}
	}
	return rc
}

// SortedKeys is a helper for canonical output of maps.
func SortedKeys(m map[string]int) []string {
	ks := make([]string, 0, len(m))
	for k := range m {
		ks = append(ks, k)
	}
	sort.Strings(ks)
	return ks
}
