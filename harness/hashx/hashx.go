// Package hashx is the shared part of the C29/C30 translators (harness/cmd/xc29, xc30): it loads the repo packages
// with full type information (golang.org/x/tools/go/packages, export data of the dependencies from the build
// cache) and classifies — fail closed — the expressions that `Block.getHashData` and `Transaction.HashData`
// write into their string builder, the leaves of the two Merkle trees, and small helper functions whose exact
// body the models rely on (`common.TimeToString`, `encryption.Hash`, `datastore.ToString`, getters).
//
// Anything that does not match a known shape ends the program with a position and exit status 1.
package hashx

import (
	"bytes"
	"crypto/sha1"
	"encoding/hex"
	"fmt"
	"go/ast"
	"go/printer"
	"go/token"
	"go/types"
	"os"
	"path/filepath"
	"strings"
	"unicode"

	"golang.org/x/tools/go/packages"
)

type World struct {
	Tool string
	Fset *token.FileSet
	Pkgs map[string]*packages.Package // by import path
	tmp  string
}

func (w *World) Die(pos token.Pos, format string, a ...interface{}) {
	p := ""
	if pos.IsValid() {
		p = w.Fset.Position(pos).String() + ": "
	}
	fmt.Fprintf(os.Stderr, "%s: %s%s\n", w.Tool, p, fmt.Sprintf(format, a...))
	if w.tmp != "" {
		os.RemoveAll(w.tmp)
	}
	os.Exit(1)
}

func (w *World) Src(n ast.Node) string {
	var b bytes.Buffer
	printer.Fprint(&b, w.Fset, n)
	return b.String()
}

// Load type-checks the given import paths of module 0chain.net as found under gosrc.
// The load runs in the harness module (cwd must be /verif/harness or $VERIF_HARNESS), whose go.mod replaces
// 0chain.net by /repo/code/go/0chain.net; for another tree a temporary -modfile is written.
func Load(tool, gosrc string, paths ...string) *World {
	w := &World{Tool: tool, Fset: token.NewFileSet(), Pkgs: map[string]*packages.Package{}}
	hdir := os.Getenv("VERIF_HARNESS")
	if hdir == "" {
		hdir = "/verif/harness"
	}
	gosrc, _ = filepath.Abs(gosrc)
	var flags []string
	if gosrc != "/repo/code/go/0chain.net" {
		mod, err := os.ReadFile(filepath.Join(hdir, "go.mod"))
		if err != nil {
			w.Die(token.NoPos, "%v", err)
		}
		s := strings.ReplaceAll(string(mod), "/repo/code/go/0chain.net", gosrc)
		s = strings.ReplaceAll(s, "./third_party/grocksdb", filepath.Join(hdir, "third_party/grocksdb"))
		h := sha1.Sum([]byte(gosrc))
		w.tmp = filepath.Join(os.TempDir(), "hashx-"+hex.EncodeToString(h[:5])+fmt.Sprint(os.Getpid()))
		os.MkdirAll(w.tmp, 0o755)
		os.WriteFile(filepath.Join(w.tmp, "go.mod"), []byte(s), 0o644)
		sum, _ := os.ReadFile(filepath.Join(hdir, "go.sum"))
		os.WriteFile(filepath.Join(w.tmp, "go.sum"), sum, 0o644)
		flags = append(flags, "-modfile="+filepath.Join(w.tmp, "go.mod"))
	}
	cfg := &packages.Config{
		Mode: packages.NeedName | packages.NeedFiles | packages.NeedSyntax | packages.NeedTypes | packages.NeedTypesInfo | packages.NeedImports,
		Dir:  hdir, Fset: w.Fset, BuildFlags: flags,
		Env: append(os.Environ(), "GOFLAGS=-mod=mod", "GOWORK=off", "GOPROXY=off", "GOSUMDB=off", "GOTOOLCHAIN=local"),
	}
	pkgs, err := packages.Load(cfg, paths...)
	if w.tmp != "" {
		os.RemoveAll(w.tmp)
		w.tmp = ""
	}
	if err != nil {
		w.Die(token.NoPos, "load: %v", err)
	}
	for _, p := range pkgs {
		if len(p.Errors) > 0 {
			w.Die(token.NoPos, "package %s does not type-check: %v", p.PkgPath, p.Errors[0])
		}
		if p.Types == nil || p.TypesInfo == nil || len(p.Syntax) == 0 {
			w.Die(token.NoPos, "package %s: no syntax/types", p.PkgPath)
		}
		// the loaded files must be the ones under gosrc
		for _, f := range p.GoFiles {
			if !strings.HasPrefix(f, gosrc+"/") {
				w.Die(token.NoPos, "package %s loaded from %s, expected under %s", p.PkgPath, f, gosrc)
			}
		}
		w.Pkgs[p.PkgPath] = p
	}
	for _, pa := range paths {
		if w.Pkgs[pa] == nil {
			w.Die(token.NoPos, "package %s not loaded", pa)
		}
	}
	return w
}

// Info returns the types.Info that covers node n.
func (w *World) infoFor(pos token.Pos) *types.Info {
	file := w.Fset.Position(pos).Filename
	for _, p := range w.Pkgs {
		for _, f := range p.CompiledGoFiles {
			if f == file {
				return p.TypesInfo
			}
		}
		for _, f := range p.GoFiles {
			if f == file {
				return p.TypesInfo
			}
		}
	}
	w.Die(pos, "no type info for this file")
	return nil
}

// FuncDecl finds the declaration of a package-level function or of a method (recv = named type, "" for functions).
func (w *World) FuncDecl(pkgPath, recv, name string) *ast.FuncDecl {
	p := w.Pkgs[pkgPath]
	if p == nil {
		w.Die(token.NoPos, "package %s not loaded (needed for %s.%s)", pkgPath, recv, name)
	}
	var found *ast.FuncDecl
	for _, f := range p.Syntax {
		for _, d := range f.Decls {
			fd, ok := d.(*ast.FuncDecl)
			if !ok || fd.Name.Name != name {
				continue
			}
			r := ""
			if fd.Recv != nil && len(fd.Recv.List) == 1 {
				t := fd.Recv.List[0].Type
				if st, ok := t.(*ast.StarExpr); ok {
					t = st.X
				}
				if id, ok := t.(*ast.Ident); ok {
					r = id.Name
				}
			}
			if r == recv {
				if found != nil {
					w.Die(fd.Pos(), "two declarations of %s.%s", recv, name)
				}
				found = fd
			}
		}
	}
	if found == nil {
		w.Die(token.NoPos, "declaration of %s %s.%s not found", pkgPath, recv, name)
	}
	if found.Body == nil {
		w.Die(found.Pos(), "%s.%s has no body", recv, name)
	}
	return found
}

// DeclOf finds the declaration of the function object a call resolves to.
func (w *World) DeclOf(fn *types.Func) *ast.FuncDecl {
	recv := ""
	if sig, ok := fn.Type().(*types.Signature); ok && sig.Recv() != nil {
		t := sig.Recv().Type()
		if p, ok := t.(*types.Pointer); ok {
			t = p.Elem()
		}
		if n, ok := t.(*types.Named); ok {
			recv = n.Obj().Name()
		}
	}
	if fn.Pkg() == nil {
		w.Die(token.NoPos, "function %s has no package", fn.Name())
	}
	return w.FuncDecl(fn.Pkg().Path(), recv, fn.Name())
}

// Callee resolves the static callee of a call (function or method), nil when it is not a static call.
func (w *World) Callee(call *ast.CallExpr) *types.Func {
	info := w.infoFor(call.Pos())
	var id *ast.Ident
	switch f := call.Fun.(type) {
	case *ast.Ident:
		id = f
	case *ast.SelectorExpr:
		id = f.Sel
	default:
		return nil
	}
	if fn, ok := info.Uses[id].(*types.Func); ok {
		return fn
	}
	return nil
}

func (w *World) IsCallTo(call *ast.CallExpr, pkgPath, name string) bool {
	fn := w.Callee(call)
	return fn != nil && fn.Pkg() != nil && fn.Pkg().Path() == pkgPath && fn.Name() == name
}

// RecvName returns the receiver identifier object of a method declaration.
func (w *World) RecvObj(fd *ast.FuncDecl) types.Object {
	if fd.Recv == nil || len(fd.Recv.List) != 1 || len(fd.Recv.List[0].Names) != 1 {
		w.Die(fd.Pos(), "%s: expected a method with a named receiver", fd.Name.Name)
	}
	return w.infoFor(fd.Pos()).Defs[fd.Recv.List[0].Names[0]]
}

// FieldPath: if e is a chain of field selections rooted at the identifier root (receiver), returns the names of
// the explicitly written selectors' FINAL fields including promoted embedding (e.g. b.MagicBlock.Hash →
// ["MagicBlock","Hash"], b.Hash → ["Hash"] even though Hash is promoted from HashIDField).
func (w *World) FieldPath(e ast.Expr, root types.Object) ([]string, bool) {
	info := w.infoFor(e.Pos())
	switch x := e.(type) {
	case *ast.ParenExpr:
		return w.FieldPath(x.X, root)
	case *ast.Ident:
		if info.Uses[x] == root {
			return []string{}, true
		}
		return nil, false
	case *ast.SelectorExpr:
		sel := info.Selections[x]
		if sel == nil || sel.Kind() != types.FieldVal {
			return nil, false
		}
		base, ok := w.FieldPath(x.X, root)
		if !ok {
			return nil, false
		}
		return append(base, x.Sel.Name), true
	}
	return nil, false
}

// TypeOf returns the type of an expression.
func (w *World) TypeOf(e ast.Expr) types.Type {
	t := w.infoFor(e.Pos()).TypeOf(e)
	if t == nil {
		w.Die(e.Pos(), "no type for %s", w.Src(e))
	}
	return t
}

// Kind of a Go type for the models: str | int | uint | bytes | other
func Kind(t types.Type) string {
	switch u := t.Underlying().(type) {
	case *types.Basic:
		switch {
		case u.Kind() == types.String:
			return "str"
		case u.Info()&types.IsUnsigned != 0:
			return "uint"
		case u.Info()&types.IsInteger != 0:
			return "int"
		}
	case *types.Slice:
		if b, ok := u.Elem().Underlying().(*types.Basic); ok && b.Kind() == types.Byte {
			return "bytes"
		}
	}
	return "other"
}

// StructFields lists the exported fields of the named struct, flattening the embedded structs named in flatten
// (by type name); other embedded fields count as one field named after their type.
func (w *World) StructFields(pkgPath, name string, flatten map[string]bool) [][2]string {
	p := w.Pkgs[pkgPath]
	obj := p.Types.Scope().Lookup(name)
	if obj == nil {
		w.Die(token.NoPos, "type %s.%s not found", pkgPath, name)
	}
	st, ok := obj.Type().Underlying().(*types.Struct)
	if !ok {
		w.Die(obj.Pos(), "%s is not a struct", name)
	}
	var out [][2]string
	var walk func(st *types.Struct)
	walk = func(st *types.Struct) {
		for i := 0; i < st.NumFields(); i++ {
			f := st.Field(i)
			if !f.Exported() {
				continue
			}
			if f.Embedded() && flatten[f.Name()] {
				t := f.Type()
				if pt, ok := t.(*types.Pointer); ok {
					t = pt.Elem()
				}
				est, ok := t.Underlying().(*types.Struct)
				if !ok {
					w.Die(f.Pos(), "embedded %s is not a struct", f.Name())
				}
				walk(est)
				continue
			}
			out = append(out, [2]string{f.Name(), Kind(f.Type())})
		}
	}
	walk(st)
	return out
}

// SingleReturn returns the expression of a function body that consists of exactly one `return e`.
func (w *World) SingleReturn(fd *ast.FuncDecl) ast.Expr {
	if len(fd.Body.List) != 1 {
		w.Die(fd.Pos(), "%s: expected a body of one return statement, got %d statements", fd.Name.Name, len(fd.Body.List))
	}
	rs, ok := fd.Body.List[0].(*ast.ReturnStmt)
	if !ok || len(rs.Results) != 1 {
		w.Die(fd.Pos(), "%s: expected `return <expr>`", fd.Name.Name)
	}
	return rs.Results[0]
}

func (w *World) paramObj(fd *ast.FuncDecl, i int) types.Object {
	n := 0
	for _, f := range fd.Type.Params.List {
		for _, nm := range f.Names {
			if n == i {
				return w.infoFor(fd.Pos()).Defs[nm]
			}
			n++
		}
	}
	w.Die(fd.Pos(), "%s: no parameter %d", fd.Name.Name, i)
	return nil
}

func isIntLit(e ast.Expr, v string) bool {
	b, ok := e.(*ast.BasicLit)
	return ok && b.Kind == token.INT && b.Value == v
}

// conversion T(x): returns x when e is a conversion to a type of the given kind
func (w *World) conversionArg(e ast.Expr, kind string) (ast.Expr, bool) {
	c, ok := e.(*ast.CallExpr)
	if !ok || len(c.Args) != 1 {
		return nil, false
	}
	tv, ok := w.infoFor(e.Pos()).Types[c.Fun]
	if !ok || !tv.IsType() {
		return nil, false
	}
	if Kind(tv.Type) != kind {
		return nil, false
	}
	return c.Args[0], true
}

// CheckTimeToString: common.TimeToString(ts) must be `return strconv.FormatInt(int64(ts), 10)`.
func (w *World) CheckTimeToString() {
	fd := w.FuncDecl("0chain.net/core/common", "", "TimeToString")
	call, ok := w.SingleReturn(fd).(*ast.CallExpr)
	if !ok || !w.IsCallTo(call, "strconv", "FormatInt") || len(call.Args) != 2 || !isIntLit(call.Args[1], "10") {
		w.Die(fd.Pos(), "TimeToString is not `return strconv.FormatInt(int64(ts), 10)`")
	}
	arg, ok := w.conversionArg(call.Args[0], "int")
	if !ok {
		w.Die(fd.Pos(), "TimeToString: argument of FormatInt is not a signed-integer conversion")
	}
	id, ok := arg.(*ast.Ident)
	if !ok || w.infoFor(fd.Pos()).Uses[id] != w.paramObj(fd, 0) {
		w.Die(fd.Pos(), "TimeToString: does not format its parameter")
	}
	if b, ok := w.TypeOf(call.Args[0]).Underlying().(*types.Basic); !ok || b.Kind() != types.Int64 {
		w.Die(fd.Pos(), "TimeToString: conversion is not to int64")
	}
}

// CheckEncryptionHash: encryption.Hash(data) = hex.EncodeToString(RawHash(data)) and RawHash uses sha3.New256().
// Returns the name recorded in the generated file.
func (w *World) CheckEncryptionHash() string {
	const enc = "0chain.net/core/encryption"
	fd := w.FuncDecl(enc, "", "Hash")
	call, ok := w.SingleReturn(fd).(*ast.CallExpr)
	if !ok || !w.IsCallTo(call, "encoding/hex", "EncodeToString") || len(call.Args) != 1 {
		w.Die(fd.Pos(), "encryption.Hash is not `return hex.EncodeToString(RawHash(data))`")
	}
	inner, ok := call.Args[0].(*ast.CallExpr)
	if !ok || !w.IsCallTo(inner, enc, "RawHash") || len(inner.Args) != 1 {
		w.Die(fd.Pos(), "encryption.Hash does not hex-encode RawHash(data)")
	}
	if id, ok := inner.Args[0].(*ast.Ident); !ok || w.infoFor(fd.Pos()).Uses[id] != w.paramObj(fd, 0) {
		w.Die(fd.Pos(), "encryption.Hash does not hash its parameter")
	}
	raw := w.FuncDecl(enc, "", "RawHash")
	var ctor []string
	ast.Inspect(raw.Body, func(n ast.Node) bool {
		if c, ok := n.(*ast.CallExpr); ok {
			if fn := w.Callee(c); fn != nil && fn.Pkg() != nil && strings.HasSuffix(fn.Pkg().Path(), "/sha3") {
				ctor = append(ctor, fn.Name())
			}
		}
		return true
	})
	if len(ctor) != 1 || ctor[0] != "New256" {
		w.Die(raw.Pos(), "RawHash: expected exactly one sha3 constructor call, New256; found %v", ctor)
	}
	return "sha3-256/hex"
}

// CheckIdentityString: f(key) must be `return string(key)` (datastore.ToString).
func (w *World) CheckIdentityString(pkgPath, name string) {
	fd := w.FuncDecl(pkgPath, "", name)
	arg, ok := w.conversionArg(w.SingleReturn(fd), "str")
	if !ok {
		w.Die(fd.Pos(), "%s is not `return string(key)`", name)
	}
	if id, ok := arg.(*ast.Ident); !ok || w.infoFor(fd.Pos()).Uses[id] != w.paramObj(fd, 0) {
		w.Die(fd.Pos(), "%s does not return its parameter", name)
	}
}

// GetterField: a method whose body is `return r.F` or `return atomic.LoadInt64(&r.F)`; returns F's path.
func (w *World) GetterField(fd *ast.FuncDecl) []string {
	recv := w.RecvObj(fd)
	e := w.SingleReturn(fd)
	if c, ok := e.(*ast.CallExpr); ok {
		if !(w.IsCallTo(c, "sync/atomic", "LoadInt64") || w.IsCallTo(c, "sync/atomic", "LoadInt32")) || len(c.Args) != 1 {
			w.Die(fd.Pos(), "getter %s: unsupported call %s", fd.Name.Name, w.Src(c))
		}
		u, ok := c.Args[0].(*ast.UnaryExpr)
		if !ok || u.Op != token.AND {
			w.Die(fd.Pos(), "getter %s: expected &field", fd.Name.Name)
		}
		e = u.X
	}
	p, ok := w.FieldPath(e, recv)
	if !ok || len(p) == 0 {
		w.Die(fd.Pos(), "getter %s does not return a field of its receiver: %s", fd.Name.Name, w.Src(e))
	}
	return p
}

// Piece is one classified argument of WriteString.
type Piece struct {
	Kind  string   // sep | str | dec | udec | hashOf | call (method on the receiver returning string, resolved by the caller) | local
	Lit   string   // sep: the literal
	Field []string // field path
	Expr  ast.Expr
	Pos   token.Pos
}

// ClassifyString classifies an expression of type string written into the hash data; recv is the receiver object
// of the enclosing method; locals maps local variables to their single defining expression.
func (w *World) ClassifyString(e ast.Expr, recv types.Object, locals map[types.Object]ast.Expr) Piece {
	info := w.infoFor(e.Pos())
	if Kind(w.TypeOf(e)) != "str" {
		w.Die(e.Pos(), "expression written into the hash data is not a string: %s", w.Src(e))
	}
	field := func(x ast.Expr, kinds ...string) []string {
		// a widening integer conversion (int64(b.F), uint64(t.V)) renders the same decimal text
		if inner, ok := w.conversionArg(x, "int"); ok && Kind(w.TypeOf(inner)) == "int" {
			if b, ok := w.TypeOf(x).Underlying().(*types.Basic); ok && (b.Kind() == types.Int64 || b.Kind() == types.Int) {
				x = inner
			}
		}
		// a field of the receiver, directly or through a getter method
		if c, ok := x.(*ast.CallExpr); ok && len(c.Args) == 0 {
			if sel, ok := c.Fun.(*ast.SelectorExpr); ok {
				if base, ok := w.FieldPath(sel.X, recv); ok && len(base) == 0 {
					if fn := w.Callee(c); fn != nil {
						p := w.GetterField(w.DeclOf(fn))
						return p
					}
				}
			}
			w.Die(x.Pos(), "unclassifiable call %s", w.Src(x))
		}
		p, ok := w.FieldPath(x, recv)
		if !ok || len(p) == 0 {
			w.Die(x.Pos(), "not a field of the receiver: %s", w.Src(x))
		}
		k := Kind(w.TypeOf(x))
		for _, want := range kinds {
			if k == want {
				return p
			}
		}
		w.Die(x.Pos(), "field %s has kind %s, expected one of %v", w.Src(x), k, kinds)
		return nil
	}
	switch x := e.(type) {
	case *ast.BasicLit:
		if x.Kind != token.STRING {
			w.Die(x.Pos(), "unexpected literal %s", x.Value)
		}
		s := x.Value
		if len(s) < 2 || s[0] != '"' || strings.ContainsAny(s[1:len(s)-1], "\\\"") {
			w.Die(x.Pos(), "unsupported string literal %s", s)
		}
		return Piece{Kind: "sep", Lit: s[1 : len(s)-1], Pos: x.Pos()}
	case *ast.Ident:
		obj := info.Uses[x]
		if def, ok := locals[obj]; ok {
			return Piece{Kind: "local", Expr: def, Pos: x.Pos()}
		}
		w.Die(x.Pos(), "identifier %s is not a single-assignment local of this function", x.Name)
	case *ast.SelectorExpr:
		p, ok := w.FieldPath(x, recv)
		if !ok || len(p) == 0 {
			w.Die(x.Pos(), "unclassifiable selector %s", w.Src(x))
		}
		return Piece{Kind: "str", Field: p, Pos: x.Pos()}
	case *ast.CallExpr:
		switch {
		case w.IsCallTo(x, "0chain.net/core/common", "TimeToString") && len(x.Args) == 1:
			w.CheckTimeToString()
			return Piece{Kind: "dec", Field: field(x.Args[0], "int"), Pos: x.Pos()}
		case w.IsCallTo(x, "strconv", "FormatInt") && len(x.Args) == 2 && isIntLit(x.Args[1], "10"):
			if b, ok := w.TypeOf(x.Args[0]).Underlying().(*types.Basic); !ok || b.Kind() != types.Int64 {
				w.Die(x.Pos(), "FormatInt of a non-int64")
			}
			return Piece{Kind: "dec", Field: field(x.Args[0], "int"), Pos: x.Pos()}
		case w.IsCallTo(x, "strconv", "Itoa") && len(x.Args) == 1:
			return Piece{Kind: "dec", Field: field(x.Args[0], "int"), Pos: x.Pos()}
		case w.IsCallTo(x, "strconv", "FormatUint") && len(x.Args) == 2 && isIntLit(x.Args[1], "10"):
			arg := x.Args[0]
			if inner, ok := w.conversionArg(arg, "uint"); ok {
				if b, ok := w.TypeOf(arg).Underlying().(*types.Basic); !ok || b.Kind() != types.Uint64 {
					w.Die(x.Pos(), "FormatUint: conversion is not to uint64")
				}
				arg = inner
			}
			return Piece{Kind: "udec", Field: field(arg, "uint"), Pos: x.Pos()}
		case w.IsCallTo(x, "0chain.net/core/encryption", "Hash") && len(x.Args) == 1:
			return Piece{Kind: "hashOf", Field: field(x.Args[0], "str"), Pos: x.Pos()}
		}
		w.Die(x.Pos(), "unclassifiable call written into the hash data: %s", w.Src(x))
	}
	w.Die(e.Pos(), "unclassifiable expression written into the hash data: %s", w.Src(e))
	return Piece{}
}

// LeanName: Go field name → constructor name of the hand-written `Field` inductive (first letter lower-cased).
func LeanName(goName string) string {
	r := []rune(goName)
	r[0] = unicode.ToLower(r[0])
	return string(r)
}

// IsMutexCall: x.mu.Lock()/RLock()/Unlock()/RUnlock() on a sync mutex.
func (w *World) IsMutexCall(s ast.Stmt) bool {
	es, ok := s.(*ast.ExprStmt)
	if !ok {
		return false
	}
	c, ok := es.X.(*ast.CallExpr)
	if !ok {
		return false
	}
	fn := w.Callee(c)
	if fn == nil || fn.Pkg() == nil || fn.Pkg().Path() != "sync" {
		return false
	}
	switch fn.Name() {
	case "Lock", "Unlock", "RLock", "RUnlock":
		return true
	}
	return false
}

// IsLogCall: an expression statement calling a method of *zap.Logger (logging.Logger.Error(...) etc.).
func (w *World) IsLogCall(s ast.Stmt) bool {
	es, ok := s.(*ast.ExprStmt)
	if !ok {
		return false
	}
	c, ok := es.X.(*ast.CallExpr)
	if !ok {
		return false
	}
	fn := w.Callee(c)
	return fn != nil && fn.Pkg() != nil && fn.Pkg().Path() == "go.uber.org/zap"
}

// BodyIs compares the printed body of a small helper function with the text the model was written against
// (white space normalised). Fail closed: any edit of the helper must be looked at.
func (w *World) BodyIs(pkgPath, recv, name, want string) {
	fd := w.FuncDecl(pkgPath, recv, name)
	norm := func(s string) string { return strings.Join(strings.Fields(strings.ReplaceAll(s, ";", " ")), " ") }
	got := norm(w.Src(fd.Body))
	if got != norm(want) {
		w.Die(fd.Pos(), "%s.%s: body changed.\n  have: %s\n  want: %s", recv, name, got, norm(want))
	}
}

// ReturnsError: block consists (after mutex and logging calls) of one `return <non-nil expr>`.
func (w *World) ReturnsError(b *ast.BlockStmt) bool {
	var rest []ast.Stmt
	for _, s := range b.List {
		if !w.IsMutexCall(s) && !w.IsLogCall(s) {
			rest = append(rest, s)
		}
	}
	if len(rest) != 1 {
		return false
	}
	rs, ok := rest[0].(*ast.ReturnStmt)
	if !ok || len(rs.Results) != 1 {
		return false
	}
	if id, ok := rs.Results[0].(*ast.Ident); ok && id.Name == "nil" {
		return false
	}
	return true
}

// WriteLean writes the generated file atomically.
func WriteLean(out, content string) error {
	if err := os.MkdirAll(filepath.Dir(out), 0o755); err != nil {
		return err
	}
	tmp := out + ".tmp"
	if err := os.WriteFile(tmp, []byte(content), 0o644); err != nil {
		return err
	}
	return os.Rename(tmp, out)
}
