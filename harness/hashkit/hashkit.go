// Package hashkit is shared by the C29 and C30 harnesses: deterministic key pairs of both signature schemes
// (derived from the case PRNG, so a case is reproducible from its seed), wire encoding of byte strings, and the
// one-time process setup of the repo globals the block/transaction code reads.
package hashkit

import (
	"crypto/ed25519"
	"encoding/hex"
	"math/rand"
	"strings"
	"sync"

	"0chain.net/core/config"
	"0chain.net/core/encryption"
	"github.com/0chain/common/core/logging"
	"github.com/herumi/bls-go-binary/bls"
	"go.uber.org/zap"
)

// ServerChain is the chain id the process is configured with: the main chain, so that both an explicit id and the
// empty id are valid (the two accepting branches of config.ValidChain).
const ServerChain = config.MAIN_CHAIN

var once sync.Once

// Setup initialises logging and the server chain id (process-wide, once).
func Setup() {
	once.Do(func() {
		logging.Logger = zap.NewNop()
		logging.N2n = zap.NewNop()
		config.SetServerChainID(ServerChain)
	})
}

// W encodes a byte string for the line protocol: lower-case hex, "-" for the empty string.
func W(s string) string {
	if s == "" {
		return "-"
	}
	return hex.EncodeToString([]byte(s))
}

// U decodes W.
func U(s string) (string, bool) {
	if s == "-" {
		return "", true
	}
	b, err := hex.DecodeString(s)
	if err != nil {
		return "", false
	}
	return string(b), true
}

type Key struct {
	Scheme string
	Pub    string // hex, as the repo handles public keys
	Priv   string
	ID     string // encryption.Hash(public key bytes)
	SS     encryption.SignatureScheme
}

func randBytes(r *rand.Rand, n int) []byte {
	b := make([]byte, n)
	for i := range b {
		b[i] = byte(r.Intn(256))
	}
	return b
}

// NewKey derives a key pair of the given scheme from r.
func NewKey(r *rand.Rand, scheme string) *Key {
	k := &Key{Scheme: scheme}
	switch scheme {
	case encryption.SignatureSchemeEd25519:
		priv := ed25519.NewKeyFromSeed(randBytes(r, 32))
		k.Priv = hex.EncodeToString(priv)
		k.Pub = hex.EncodeToString(priv[32:])
	case encryption.SignatureSchemeBls0chain:
		var sk bls.SecretKey
		if err := sk.SetLittleEndianMod(randBytes(r, 32)); err != nil {
			panic(err)
		}
		k.Priv = hex.EncodeToString(sk.GetLittleEndian())
		k.Pub = sk.GetPublicKey().SerializeToHexStr()
	default:
		panic("unknown scheme " + scheme)
	}
	k.SS = encryption.GetSignatureScheme(scheme)
	if err := k.SS.ReadKeys(strings.NewReader(k.Pub + "\n" + k.Priv + "\n")); err != nil {
		panic(err)
	}
	pb, _ := hex.DecodeString(k.Pub)
	k.ID = encryption.Hash(pb)
	return k
}

// Sign signs a hex hash with the real scheme.
func (k *Key) Sign(hash string) string {
	s, err := k.SS.Sign(hash)
	if err != nil {
		panic(err)
	}
	return s
}

// RandHex returns n random bytes in hex.
func RandHex(r *rand.Rand, n int) string { return hex.EncodeToString(randBytes(r, n)) }

// FlipHex changes one hex digit of s (keeps it hex, keeps the length).
func FlipHex(r *rand.Rand, s string) string {
	if s == "" {
		return "a"
	}
	b := []byte(s)
	i := r.Intn(len(b))
	const digits = "0123456789abcdef"
	for {
		c := digits[r.Intn(16)]
		if c != b[i] {
			b[i] = c
			break
		}
	}
	return string(b)
}

// BoundaryInt64 draws boundary-biased int64 values.
func BoundaryInt64(r *rand.Rand) int64 {
	switch r.Intn(12) {
	case 0:
		return 0
	case 1:
		return 1
	case 2:
		return -1
	case 3:
		return 1<<63 - 1
	case 4:
		return -1 << 63
	case 5:
		return 1<<53 + 1
	case 6:
		return int64(r.Intn(100))
	case 7:
		return -int64(r.Intn(1000))
	default:
		return r.Int63n(1 << 40)
	}
}
