// C44 harness: the generated lockset table (Generated/C44.lean, model Model/LockSet.lean, driver zdrv-C44) against the
// Go race detector on the REAL round.Round / block.Block / miner.Chain.ValidateTransactions.
//
// One operation per (location, function, function) triple that the table says is co-accessed with at least one write by
// concurrently callable entry points:   pair <location> <fnA> <fnB>
//   - the Lean driver answers from the table:  racy | sync          (its verdict, see LockSet.verdict)
//   - the implementation side answers from the race detector: the harness builds cmd/c44race with `go build -race`, lets it
//     hammer entry-point pairs that reach fnA and fnB on shared objects, parses the `WARNING: DATA RACE` reports and maps
//     each to a triple: the LOCATION from the report's address (inside which Round/Block object of the scenario, which
//     field by the struct's reflect offsets; for slice/map elements and ValidateTransactions' closure variables through
//     the table's file:line rows), the FUNCTIONS from the innermost round/block frames of the two stacks. racy iff a
//     report maps to the triple, else sync.
//
// Plus one operation per ownership-by-index site (a shared slice written without a lock, race-free only while the goroutines
// write disjoint indices — Model/IndexOwn.lean):   slots VT.aggregator
//   - the driver answers disjoint | shared from the extracted arithmetic (stride, bound and aggregator batch size must be
//     one expression);
//   - the implementation side runs the real mc.ValidateTransactions through the signature aggregation (bls0chain, batch
//     size 4, 1000+ blocks of 5/9/13 valid transactions) under -race: shared iff two workers race inside
//     BLS0ChainAggregateSignatureScheme.Aggregate or a valid block is rejected (signature C44:race:aggregator-slot-shared-by-workers).
//
// A disagreement "model sync / detector racy" means the extractor is unsound there (VIOLATION); "model racy / detector
// sync" means the table is imprecise there or the schedule search missed it (BROKEN correspondence — fix the scenario
// or list the triple under `notDriven` with the reason). The oracle reports every reproduced race as a violation
// `C44:race:<location>:<fnA>/<fnB>`; the ones listed in known_findings.jsonl are the findings.
package main

import (
	"bufio"
	"bytes"
	"crypto/sha1"
	"encoding/hex"
	"encoding/json"
	"fmt"
	"os"
	"os/exec"
	"path/filepath"
	"regexp"
	"sort"
	"strconv"
	"strings"
	"sync"
	"time"

	"verifharness/lib/corr"
)

type lk struct {
	Name string `json:"name"`
	Excl bool   `json:"excl"`
}
type row struct {
	Fn     string `json:"fn"`
	Loc    string `json:"loc"`
	Write  bool   `json:"write"`
	Locks  []lk   `json:"locks"`
	Atomic bool   `json:"atomic"`
	File   string `json:"file"`
	Line   int    `json:"line"`
	Esc    bool   `json:"esc"`
	Own    bool   `json:"own"`
}
type call struct {
	Caller string `json:"caller"`
	Callee string `json:"callee"`
	Locks  []lk   `json:"locks"`
	Same   bool   `json:"same"`
}
type entry struct {
	Fn       string `json:"fn"`
	Group    int    `json:"group"`
	SelfConc bool   `json:"self_conc"`
}
type stridedSite struct {
	Name      string `json:"name"`
	Stride    string `json:"stride"`
	Div       string `json:"div"`
	SlotFile  string `json:"slot_file"`
	SlotLines []int  `json:"slot_lines"`
}
type table struct {
	Accesses []row         `json:"accesses"`
	Calls    []call        `json:"calls"`
	Entries  []entry       `json:"entries"`
	Gosrc    string        `json:"gosrc"`
	Strided  []stridedSite `json:"strided_sites"`
}

// ownership by index: the lock-free aggregator of ValidateTransactions (op `slots VT.aggregator`)
const aggSig = "C44:race:aggregator-slot-shared-by-workers"

var (
	aggWanted   bool
	aggExecuted bool
	aggRace     string // excerpt of the first race report with both stacks inside Aggregate
	aggStats    string // the child's "validations=… failed=…" line
	aggFailed   int
)

type triple struct{ loc, a, b string }

func mkTriple(loc, a, b string) triple {
	if b < a {
		a, b = b, a
	}
	return triple{loc, a, b}
}
func (t triple) sig() string { return "C44:race:" + t.loc + ":" + t.a + "/" + t.b }
func (t triple) op() string  { return "pair " + t.loc + " " + t.a + " " + t.b }

// notDriven: triples the table lists as co-accessed but for which the child has no way to run the two functions
// concurrently on one object; they are not asked (neither side answers) and are counted in the evidence.
var notDriven = map[string]string{
	// GetBestRanked{Notarized,Proposed}Block sort the round's internal slice in place while holding only the READ lock
	// (GetBlocksByRank → sort.SliceStable on a view of the field). The table counts an in-place sort as a write of the
	// elements. On the real code the slices are already ordered by rank (AddNotarizedBlock / addProposedBlock keep them
	// so, and a block's RoundRank does not change), so the stable sort never swaps and the detector has nothing to
	// see: conservative rows, NOT findings.
	"pair Round.notarizedBlocks[] Round.Clone Round.GetBestRankedNotarizedBlock":                       sortedAlready,
	"pair Round.notarizedBlocks[] Round.GetBestRankedNotarizedBlock Round.GetBestRankedNotarizedBlock": sortedAlready,
	"pair Round.notarizedBlocks[] Round.GetBestRankedNotarizedBlock Round.GetHeaviestNotarizedBlock":   sortedAlready,
	"pair Round.notarizedBlocks[] Round.GetBestRankedNotarizedBlock Round.GetNotarizedBlocks":          sortedAlready,
	"pair Round.proposedBlocks[] Round.Clone Round.GetBestRankedProposedBlock":                         sortedAlready,
	"pair Round.proposedBlocks[] Round.GetBestRankedProposedBlock Round.GetBestRankedProposedBlock":    sortedAlready,
	"pair Round.proposedBlocks[] Round.GetBestRankedProposedBlock Round.GetProposedBlocks":             sortedAlready,
	// ValidateState reads b.Round only to log that the change set's root is nil or differs from the state's root —
	// branches a consistent trie never takes
	"pair Block.Round Block.SetPreviousBlock block.ValidateState": "read only on an error-logging path that a consistent state never takes",
	// the spawning body of ValidateTransactions reads roundMismatch after the FIRST worker's result while other workers
	// may still write it. Real (the detector showed it in 2 of 3 runs of 1000 calls with suppress_equal_addresses=0), but
	// the window is too narrow to demand it of every run; when a run does show it, it is reported (Stress) under its
	// signature, which is listed in known_findings.jsonl
	"pair VT.roundMismatch VT.main VT.validate": "reproduced, but not in every run (narrow window)",
}

const sortedAlready = "in-place stable sort of an already sorted slice under RLock: no element is ever moved"

var (
	tab       table
	verifDir  = "/verif"
	byLine    = map[string][]row{}    // "file:line" -> rows
	reach     = map[string][]string{} // function -> entries that reach it
	entryOf   = map[string]entry{}
	drivable  = map[string]bool{}
	mu        sync.Mutex
	executed  = map[triple]bool{}
	observed  = map[triple]string{} // triple -> excerpt of the first report
	unmapped  []string
	foreign   []string
	ambiguous []string
	hangs     []string
	crashes   []string
	panics    []string
	nReports  int
	nScen     int
	iters     = 100
	childBin  string
	childErr  string
)

func loadTable() {
	p := filepath.Join(verifDir, "lean/ZChain/Generated/C44.lean.json")
	b, err := os.ReadFile(p)
	if err != nil {
		fmt.Fprintln(os.Stderr, "c44:", err)
		os.Exit(2)
	}
	if err := json.Unmarshal(b, &tab); err != nil {
		fmt.Fprintln(os.Stderr, "c44:", err)
		os.Exit(2)
	}
	for _, r := range tab.Accesses {
		k := r.File + ":" + strconv.Itoa(r.Line)
		byLine[k] = append(byLine[k], r)
		if hasRow[r.Fn] == nil {
			hasRow[r.Fn] = map[string]bool{}
		}
		hasRow[r.Fn][r.Loc] = true
	}
	callees := map[string][]string{}
	for _, c := range tab.Calls {
		callees[c.Caller] = append(callees[c.Caller], c.Callee)
	}
	// reach[f]: the entries that reach f, nearest first (call distance), then the entry with the fewest accesses of
	// its own first — the most direct way to run f comes first in the plan
	nrows := map[string]int{}
	for _, r := range tab.Accesses {
		nrows[r.Fn]++
	}
	dist := map[string]map[string]int{}
	for _, e := range tab.Entries {
		entryOf[e.Fn] = e
		d := map[string]int{e.Fn: 0}
		queue := []string{e.Fn}
		for len(queue) > 0 {
			f := queue[0]
			queue = queue[1:]
			for _, g := range callees[f] {
				if _, ok := d[g]; !ok {
					d[g] = d[f] + 1
					queue = append(queue, g)
				}
			}
		}
		for f := range d {
			reach[f] = append(reach[f], e.Fn)
		}
		dist[e.Fn] = d
	}
	for f, es := range reach {
		sort.Slice(es, func(i, j int) bool {
			di, dj := dist[es[i]][f], dist[es[j]][f]
			if di != dj {
				return di < dj
			}
			if nrows[es[i]] != nrows[es[j]] {
				return nrows[es[i]] < nrows[es[j]]
			}
			return es[i] < es[j]
		})
	}
}

// candidate triples: same location, at least one write, functions reachable from two entries that may run concurrently.
func candidates() []triple {
	byLoc := map[string][]row{}
	for _, r := range tab.Accesses {
		byLoc[r.Loc] = append(byLoc[r.Loc], r)
	}
	set := map[triple]bool{}
	conc := func(f, g string) bool {
		for _, e1 := range reach[f] {
			for _, e2 := range reach[g] {
				a, b := entryOf[e1], entryOf[e2]
				if a.Group == b.Group && (a.Fn != b.Fn || a.SelfConc) {
					return true
				}
			}
		}
		return false
	}
	for loc, rs := range byLoc {
		for _, p := range rs {
			if !p.Write {
				continue
			}
			for _, q := range rs {
				if conc(p.Fn, q.Fn) {
					set[mkTriple(loc, p.Fn, q.Fn)] = true
				}
			}
		}
	}
	var ts []triple
	for t := range set {
		ts = append(ts, t)
	}
	sort.Slice(ts, func(i, j int) bool { return ts[i].op() < ts[j].op() })
	return ts
}

func goEnv() []string {
	e := os.Environ()
	return append(e, "GOFLAGS=-mod=mod", "GOPROXY=off", "GOSUMDB=off", "GOWORK=off", "GOTOOLCHAIN=local")
}

// buildChild: `go build -race` of cmd/c44race against $VERIF_REPO (a -modfile as ./check writes it for another tree).
func buildChild() error {
	repo := os.Getenv("VERIF_REPO")
	if repo == "" {
		repo = "/repo"
	}
	hdir := filepath.Join(verifDir, "harness")
	// -gcflags=all=-l: no inlining, so that every function of a racing stack has its own frame in the report (with
	// inlining the small accessors — ResetPhase, setRandomSeed, … — vanish from the atomic-operation stacks)
	args := []string{"build", "-race", "-gcflags=all=-l", "-tags", "verif"}
	suffix := ""
	if repo != "/repo" {
		h := sha1.Sum([]byte(repo))
		suffix = "_alt_" + hex.EncodeToString(h[:3])
		d := filepath.Join(verifDir, "build", "mod-c44-"+hex.EncodeToString(h[:5]))
		os.MkdirAll(d, 0o755)
		src, err := os.ReadFile(filepath.Join(hdir, "go.mod"))
		if err != nil {
			return err
		}
		s := strings.ReplaceAll(string(src), "/repo/code/go/0chain.net", filepath.Join(repo, "code/go/0chain.net"))
		s = strings.ReplaceAll(s, "./third_party/grocksdb", filepath.Join(hdir, "third_party/grocksdb"))
		os.WriteFile(filepath.Join(d, "go.mod"), []byte(s), 0o644)
		sum, _ := os.ReadFile(filepath.Join(hdir, "go.sum"))
		os.WriteFile(filepath.Join(d, "go.sum"), sum, 0o644)
		args = append(args, "-modfile="+filepath.Join(d, "go.mod"))
	}
	childBin = filepath.Join(verifDir, "build", "c44race"+suffix)
	args = append(args, "-o", childBin, "./cmd/c44race")
	cmd := exec.Command("go", args...)
	cmd.Dir = hdir
	cmd.Env = goEnv()
	out, err := cmd.CombinedOutput()
	if err != nil {
		return fmt.Errorf("go build -race ./cmd/c44race: %v\n%s", err, tail(string(out), 3000))
	}
	// which entries can the child drive?
	c2 := exec.Command(childBin)
	c2.Env = append(os.Environ(), "C44_LIST=1")
	o2, err := c2.Output()
	if err != nil {
		return fmt.Errorf("c44race C44_LIST: %v", err)
	}
	for _, l := range strings.Fields(string(o2)) {
		drivable[l] = true
	}
	return nil
}

func tail(s string, n int) string {
	if len(s) > n {
		return s[len(s)-n:]
	}
	return s
}

// plan: entry pairs to run so that every triple is covered by up to `per` pairs of drivable entries.
func plan(ts []triple, perOf func(triple) int) (pairs [][2]string, covered map[triple]int) {
	covered = map[triple]int{}
	seen := map[[2]string]bool{}
	for _, t := range ts {
		n := 0
		per := perOf(t)
		for _, ea := range reach[t.a] {
			for _, eb := range reach[t.b] {
				if n >= per {
					break
				}
				if !drivable[ea] || !drivable[eb] {
					continue
				}
				a, b := entryOf[ea], entryOf[eb]
				if !(a.Group == b.Group && (a.Fn != b.Fn || a.SelfConc)) {
					continue
				}
				p := [2]string{ea, eb}
				if p[1] < p[0] {
					p[0], p[1] = p[1], p[0]
				}
				n++
				if !seen[p] {
					seen[p] = true
					pairs = append(pairs, p)
				}
			}
		}
		covered[t] = n
	}
	return
}

var frameRe = regexp.MustCompile(`^\s+(\S+):(\d+)( \+0x[0-9a-f]+)?$`)
var headRe = regexp.MustCompile(`^(Previous )?([A-Za-z ]+?) at (0x[0-9a-f]+) by (main )?goroutine`)
var symRe = regexp.MustCompile(`chaincore/(round|block)\.(?:\(\*?(\w+)\)\.)?(\w+)`)

type frame struct {
	fn, file string
	line     int
}
type side struct {
	kind   string
	frames []frame
}
type field struct {
	name      string
	off, size uint64
}
type object struct {
	typ  string
	addr uint64
}

var (
	layouts  = map[string][]field{}
	typeSize = map[string]uint64{}
	hasRow   = map[string]map[string]bool{} // function -> location -> the table has a row
)

// locate: the location an address belongs to, if it lies inside one of the scenario's Round / Block objects.
func locate(addr uint64, objs []object) (string, bool) {
	for _, o := range objs {
		if addr >= o.addr && addr < o.addr+typeSize[o.typ] {
			off := addr - o.addr
			for _, f := range layouts[o.typ] {
				if off >= f.off && off < f.off+f.size {
					return f.name, true
				}
			}
			return o.typ + ".?", true
		}
	}
	return "", false
}

// fnKey: the table's name of the innermost round/block function on a stack (closures belong to their function).
func fnKey(s side) (string, bool) {
	for _, f := range s.frames {
		if m := symRe.FindStringSubmatch(f.fn); m != nil {
			if m[2] != "" {
				return m[2] + "." + m[3], true
			}
			return m[1] + "." + m[3], true
		}
	}
	return "", false
}

// accessor: the function that performs the access of a side. For a sync/atomic operation the race runtime reports the
// stack WITHOUT the function that calls sync/atomic (it records the caller's caller): the accessor is then the callee
// of the innermost round/block frame that has an atomic row for the location, or — when the harness called the
// accessor itself — the scenario's entry with such a row.
func accessor(s side, loc string, scen [2]string) (string, bool) {
	fn, ok := fnKey(s)
	if len(s.frames) == 0 || !strings.HasPrefix(s.frames[0].fn, "sync/atomic.") {
		return fn, ok
	}
	atomicRow := func(f string) bool {
		for _, r := range tab.Accesses {
			if r.Fn == f && r.Loc == loc && r.Atomic {
				return true
			}
		}
		return false
	}
	if ok {
		for _, c := range tab.Calls {
			if c.Caller == fn && atomicRow(c.Callee) {
				return c.Callee, true
			}
		}
		return fn, true
	}
	for _, e := range scen {
		if atomicRow(e) {
			return e, true
		}
	}
	return "", false
}

// parse the child's stderr: layouts, markers, object addresses and race reports
func parseLog(log string, gosrc string) {
	var scen [2]string
	var objs []object
	sc := bufio.NewScanner(strings.NewReader(log))
	sc.Buffer(make([]byte, 1<<20), 1<<26)
	var block []string
	inReport := false
	flush := func() {
		if len(block) > 0 {
			handleReport(block, scen, objs, gosrc)
		}
		block = nil
	}
	for sc.Scan() {
		l := sc.Text()
		switch {
		case strings.HasPrefix(l, "=== LAYOUT "):
			w := strings.Fields(l)
			sz, _ := strconv.ParseUint(w[3], 10, 64)
			typeSize[w[2]] = sz
			var fs []field
			for _, x := range w[4:] {
				p := strings.Split(x, ":")
				if len(p) == 3 {
					o, _ := strconv.ParseUint(p[1], 10, 64)
					z, _ := strconv.ParseUint(p[2], 10, 64)
					fs = append(fs, field{p[0], o, z})
				}
			}
			layouts[w[2]] = fs
		case strings.HasPrefix(l, "=== SCEN "):
			w := strings.Fields(l)
			if len(w) >= 5 {
				scen = [2]string{w[3], w[4]}
			}
			objs = nil
			nScen++
		case strings.HasPrefix(l, "=== OBJ "):
			w := strings.Fields(l)
			if len(w) == 4 {
				a, _ := strconv.ParseUint(strings.TrimPrefix(w[3], "0x"), 16, 64)
				objs = append(objs, object{w[2], a})
			}
		case strings.HasPrefix(l, "=== AGG "):
			aggStats = strings.TrimPrefix(l, "=== AGG ")
			if m := regexp.MustCompile(`failed=(\d+)`).FindStringSubmatch(l); m != nil {
				n, _ := strconv.Atoi(m[1])
				aggFailed += n
			}
		case strings.HasPrefix(l, "=== HANG "):
			hangs = append(hangs, l)
		case strings.HasPrefix(l, "=== PANICS "):
			panics = append(panics, l)
		case strings.HasPrefix(l, "=== "):
		case l == "==================":
			if inReport {
				flush()
				inReport = false
			} else {
				inReport = true
			}
		case strings.HasPrefix(l, "WARNING: DATA RACE"):
			flush()
			inReport = true
			block = append(block, l)
		default:
			if inReport && len(block) > 0 {
				block = append(block, l)
			}
		}
	}
	flush()
}

func handleReport(lines []string, scen [2]string, objs []object, gosrc string) {
	nReports++
	var sides []side
	var cur *side
	var pendingFn string
	var addr uint64
	for _, l := range lines[1:] {
		if m := headRe.FindStringSubmatch(l); m != nil {
			sides = append(sides, side{kind: strings.ToLower(m[2])})
			cur = &sides[len(sides)-1]
			if len(sides) == 1 {
				addr, _ = strconv.ParseUint(strings.TrimPrefix(m[3], "0x"), 16, 64)
			}
			continue
		}
		if strings.HasPrefix(l, "Goroutine ") {
			cur = nil
			continue
		}
		if cur == nil {
			continue
		}
		if m := frameRe.FindStringSubmatch(l); m != nil {
			n, _ := strconv.Atoi(m[2])
			cur.frames = append(cur.frames, frame{pendingFn, m[1], n})
			continue
		}
		if s := strings.TrimSpace(l); s != "" {
			pendingFn = s
		}
	}
	excerpt := func() string {
		var b strings.Builder
		for i, s := range sides {
			if i > 1 {
				break
			}
			b.WriteString(s.kind + ":")
			n := 0
			for _, f := range s.frames {
				if strings.HasPrefix(f.file, gosrc) && n < 3 {
					b.WriteString(" " + strings.TrimPrefix(f.file, gosrc+"/") + ":" + strconv.Itoa(f.line))
					n++
				}
			}
			if n == 0 && len(s.frames) > 0 {
				b.WriteString(" " + s.frames[0].fn)
			}
			b.WriteString("; ")
		}
		return b.String()
	}
	if len(sides) < 2 {
		unmapped = append(unmapped, "unparsed report: "+strings.Join(lines[:min(4, len(lines))], " | "))
		return
	}
	record := func(t triple) {
		if _, ok := observed[t]; !ok {
			observed[t] = excerpt()
		}
	}

	// (0) both stacks are inside the lock-free aggregator's slot accesses: two batch workers share a slot
	inAgg := func(sd side) bool {
		for _, f := range sd.frames {
			if strings.Contains(f.fn, "BLS0ChainAggregateSignatureScheme") && strings.Contains(f.fn, "Aggregate") {
				return true
			}
			for _, st := range tab.Strided {
				if f.file == gosrc+"/"+st.SlotFile {
					for _, ln := range st.SlotLines {
						if ln == f.line {
							return true
						}
					}
				}
			}
		}
		return false
	}
	if inAgg(sides[0]) && inAgg(sides[1]) {
		if aggRace == "" {
			aggRace = excerpt()
		}
		return
	}

	// (1) the address lies inside a Round / Block object of the scenario: the location is the field at that offset,
	//     the functions are the innermost round/block functions of the two stacks
	if loc, ok := locate(addr, objs); ok {
		fa, oka := accessor(sides[0], loc, scen)
		fb, okb := accessor(sides[1], loc, scen)
		if !oka || !okb {
			// a field touched directly by code outside the two packages (the harness must not; library code may)
			foreign = append(foreign, "field "+loc+" accessed from outside round/block: "+excerpt())
			return
		}
		for _, f := range []string{fa, fb} {
			if !hasRow[f][loc] {
				unmapped = append(unmapped, fmt.Sprintf("the table has no access of %s by %s: %s", loc, f, excerpt()))
				return
			}
		}
		record(mkTriple(loc, fa, fb))
		return
	}

	// (2) elsewhere (elements of a slice/map field, closure variables of ValidateTransactions, or memory of other
	//     objects): through the (file, line) rows of the element / closure locations, innermost frame first; when the
	//     exact lines do not meet, through all such rows of the two functions
	elemRow := func(r row) bool { return strings.HasSuffix(r.Loc, "[]") || strings.HasPrefix(r.Loc, "VT.") }
	cand := func(s side) (exact []row, wide []row, ok bool) {
		for _, f := range s.frames {
			if !strings.HasPrefix(f.file, gosrc+"/") {
				continue
			}
			k := strings.TrimPrefix(f.file, gosrc+"/") + ":" + strconv.Itoa(f.line)
			rs, hit := byLine[k]
			if !hit {
				continue
			}
			fns := map[string]bool{}
			for _, r := range rs {
				fns[r.Fn] = true
				if !r.Esc && elemRow(r) {
					exact = append(exact, r)
				}
			}
			for _, r := range tab.Accesses {
				if fns[r.Fn] && !r.Esc && elemRow(r) {
					wide = append(wide, r)
				}
			}
			return exact, wide, true
		}
		return nil, nil, false
	}
	onlyHarness := func(s side) bool {
		for _, f := range s.frames {
			if strings.HasPrefix(f.fn, "main.") {
				return true
			}
			if strings.HasPrefix(f.file, gosrc+"/") {
				return false
			}
		}
		return false
	}
	e0, w0, ok0 := cand(sides[0])
	e1, w1, ok1 := cand(sides[1])
	// a side that runs in the harness itself: the caller of an entry that hands out its internal slice/map
	escRows := func() []row {
		var out []row
		for _, e := range scen {
			for _, r := range tab.Accesses {
				if r.Esc && r.Fn == e {
					out = append(out, r)
				}
			}
		}
		return out
	}
	if !ok0 && onlyHarness(sides[0]) {
		e0, ok0 = escRows(), true
		w0 = e0
	}
	if !ok1 && onlyHarness(sides[1]) {
		e1, ok1 = escRows(), true
		w1 = e1
	}
	if !ok0 || !ok1 {
		foreign = append(foreign, excerpt())
		return
	}
	match := func(x, y []row) map[triple]bool {
		found := map[triple]bool{}
		for _, a := range x {
			for _, b := range y {
				if a.Loc == b.Loc && (a.Write || b.Write) {
					found[mkTriple(a.Loc, a.Fn, b.Fn)] = true
				}
			}
		}
		return found
	}
	for _, pr := range [][2][]row{{e0, e1}, {e0, w1}, {w0, e1}, {w0, w1}} {
		found := match(pr[0], pr[1])
		if len(found) == 0 {
			continue
		}
		locs := map[string]bool{}
		for t := range found {
			locs[t.loc] = true
		}
		if len(locs) != 1 {
			ambiguous = append(ambiguous, excerpt())
			return
		}
		for t := range found {
			record(t)
		}
		return
	}
	// neither a field of a Round/Block nor an element/closure location the table knows: memory of another object
	// (a trie, a ticket, …) — out of this property's scope, counted only
	foreign = append(foreign, excerpt())
}

func min(a, b int) int {
	if a < b {
		return a
	}
	return b
}

// search: put the triples before the race detector — two entry pairs for those the MODEL calls racy, one for the
// others (thorough: six / three); then, for those the model calls racy and the detector has not shown yet, search
// harder (every pair of entries that reaches the two functions, more iterations) — twice. The model's verdict only
// decides where the search effort goes; the answer of the implementation side is what the detector reported.
func search(all []triple, thorough bool) {
	var ts []triple
	mu.Lock()
	for _, t := range all {
		if !executed[t] {
			ts = append(ts, t)
		}
	}
	pend := aggWanted && !aggExecuted
	mu.Unlock()
	if len(ts) == 0 {
		if pend {
			runTriples(nil, func(triple) int { return 1 }, 1, false)
		}
		return
	}
	verdict := map[triple]string{}
	ask := func() bool {
		if zdrvDir == "" {
			return false
		}
		var ops []string
		for _, t := range ts {
			ops = append(ops, "init", t.op())
		}
		outs, err := corr.RunModel(zdrvDir, "C44", ops)
		if err != nil {
			return false
		}
		for i, t := range ts {
			verdict[t] = outs[2*i+1]
		}
		return true
	}
	haveModel := ask()
	perR, perS := 2, 1
	if thorough {
		perR, perS = 6, 3
	}
	runTriples(ts, func(t triple) int {
		if !haveModel || verdict[t] == "racy" {
			return perR
		}
		return perS
	}, 1, false)
	if !haveModel || childErr != "" {
		return
	}
	for round, mult := range []int{3, 8} {
		var missing []triple
		mu.Lock()
		for _, t := range ts {
			if _, seen := observed[t]; !seen && verdict[t] == "racy" {
				missing = append(missing, t)
			}
		}
		mu.Unlock()
		if len(missing) == 0 {
			return
		}
		retried[round] = len(missing)
		for _, t := range missing {
			retriedOps = append(retriedOps, fmt.Sprintf("round %d: %s", round+1, t.op()))
		}
		runTriples(missing, func(triple) int { return 1000 }, mult, true)
	}
}

var timing = map[string]float64{}
var zdrvDir string
var thoroughTier bool
var retried [2]int
var retriedOps []string

// runTriples: run the scenarios that cover the given triples (once per triple unless force).
func runTriples(ts []triple, per func(triple) int, mult int, force bool) {
	mu.Lock()
	defer mu.Unlock()
	var todo []triple
	for _, t := range ts {
		if force || !executed[t] {
			todo = append(todo, t)
		}
	}
	aggPending := aggWanted && !aggExecuted
	if (len(todo) == 0 && !aggPending) || childErr != "" {
		return
	}
	if childBin == "" {
		t0 := time.Now()
		if err := buildChild(); err != nil {
			childErr = err.Error()
			return
		}
		timing["build_child_s"] = time.Since(t0).Seconds()
	}
	pairs, _ := plan(todo, per)
	if aggPending {
		// the stress case of the ownership-by-index site: bls0chain, batch size 4, blocks of 5/9/13 signed transactions
		pairs = append(pairs, [2]string{"VT.aggregator", "VT.aggregator"})
		aggExecuted = true
	}
	// the child may die in the middle of a scenario (the Go runtime aborts on a concurrent map read/write): that
	// scenario is recorded as a crash and the child is restarted with the pairs that follow it
	for attempt := 0; len(pairs) > 0 && attempt < 12; attempt++ {
		var in bytes.Buffer
		for _, p := range pairs {
			fmt.Fprintf(&in, "%s %s\n", p[0], p[1])
		}
		cmd := exec.Command(childBin, strconv.Itoa(iters*mult))
		cmd.Stdin = &in
		cmd.Env = append(os.Environ(), "GORACE=halt_on_error=0 history_size=5 suppress_equal_addresses=0")
		var errb bytes.Buffer
		cmd.Stderr = &errb
		cmd.Stdout = &errb
		t1 := time.Now()
		err := cmd.Run()
		timing[fmt.Sprintf("child_run_%d_s", len(timing))] = time.Since(t1).Seconds()
		log := errb.String()
		if os.Getenv("C44_KEEP_LOG") != "" {
			if f, err := os.OpenFile(os.Getenv("C44_KEEP_LOG"), os.O_APPEND|os.O_CREATE|os.O_WRONLY, 0o644); err == nil {
				f.Write(errb.Bytes())
				f.Close()
			}
		}
		t2 := time.Now()
		parseLog(log, tab.Gosrc)
		timing[fmt.Sprintf("parse_%d_s", len(timing))] = time.Since(t2).Seconds()
		if strings.Contains(log, "=== DONE") {
			break
		}
		// which scenario was running?
		last := -1
		var lastPair [2]string
		for _, l := range strings.Split(log, "\n") {
			if strings.HasPrefix(l, "=== SCEN ") {
				w := strings.Fields(l)
				if len(w) >= 5 {
					last, _ = strconv.Atoi(w[2])
					lastPair = [2]string{w[3], w[4]}
				}
			}
		}
		fatal := ""
		for _, l := range strings.Split(log, "\n") {
			if strings.HasPrefix(l, "fatal error:") || strings.HasPrefix(l, "panic:") {
				fatal = l
				break
			}
		}
		if last < 0 || last >= len(pairs) {
			childErr = fmt.Sprintf("c44race did not finish: %v\n%s", err, tail(log, 2000))
			return
		}
		crashes = append(crashes, fmt.Sprintf("%s %s: %s", lastPair[0], lastPair[1], fatal))
		pairs = pairs[last+1:]
	}
	for _, t := range todo {
		executed[t] = true
	}
}

func parseOp(op string) (triple, bool) {
	w := strings.Fields(op)
	if len(w) != 4 || w[0] != "pair" {
		return triple{}, false
	}
	return mkTriple(w[1], w[2], w[3]), true
}

func impl(ops []string) []string {
	var need []triple
	for _, op := range ops {
		if t, ok := parseOp(op); ok {
			need = append(need, t)
		}
	}
	for _, op := range ops {
		if strings.HasPrefix(op, "slots ") {
			mu.Lock()
			aggWanted = true
			mu.Unlock()
		}
	}
	search(need, thoroughTier)
	outs := make([]string, len(ops))
	for i, op := range ops {
		switch {
		case op == "init":
			outs[i] = "ok"
		case strings.HasPrefix(op, "slots "):
			mu.Lock()
			switch {
			case childErr != "":
				outs[i] = "child-failed"
			case op != "slots VT.aggregator" || !aggExecuted:
				outs[i] = "none"
			case aggRace != "" || aggFailed > 0:
				outs[i] = "shared"
			default:
				outs[i] = "disjoint"
			}
			mu.Unlock()
		default:
			t, ok := parseOp(op)
			if !ok {
				outs[i] = "bad-op"
				continue
			}
			if childErr != "" {
				outs[i] = "child-failed"
				continue
			}
			mu.Lock()
			_, racy := observed[t]
			mu.Unlock()
			if racy {
				outs[i] = "racy"
			} else {
				outs[i] = "sync"
			}
		}
	}
	return outs
}

func oracle(ops, outs []string) *corr.Violation {
	for i, op := range ops {
		if outs[i] == "child-failed" {
			return &corr.Violation{Signature: "C44:race-child-failed", Message: childErr, Ops: ops, Impl: outs}
		}
		if outs[i] == "shared" {
			mu.Lock()
			msg := fmt.Sprintf("batch workers of miner.Chain.ValidateTransactions share a slot of the lock-free signature aggregator (bls0chain, validation batch size 4, blocks of 5/9/13 valid transactions; %s)", aggStats)
			if aggRace != "" {
				msg += ": the race detector reports the unsynchronised check-then-set of encryption.BLS0ChainAggregateSignatureScheme.Aggregate from two workers (" + aggRace + ")"
			}
			if aggFailed > 0 {
				msg += fmt.Sprintf("; %d validations of VALID blocks failed (a signature was dropped from the aggregate)", aggFailed)
			}
			mu.Unlock()
			return &corr.Violation{Signature: aggSig, Message: msg, Ops: ops, Impl: outs}
		}
		if outs[i] != "racy" {
			continue
		}
		t, _ := parseOp(op)
		mu.Lock()
		ex := observed[t]
		mu.Unlock()
		return &corr.Violation{Signature: t.sig(), Ops: ops, Impl: outs,
			Message: fmt.Sprintf("the race detector reports a data race on %s between %s and %s (%s) — replay: ./check C44 --replay <this file> runs the two functions concurrently under -race again", t.loc, t.a, t.b, ex)}
	}
	return nil
}

func main() {
	if v := os.Getenv("VERIF_DIR"); v != "" {
		verifDir = v
	}
	thorough := false
	replay := false
	zdrvDir = "/verif/lean/.lake/build/bin"
	for i, a := range os.Args {
		if (a == "-tier" || a == "--tier") && i+1 < len(os.Args) && os.Args[i+1] == "thorough" {
			thorough = true
		}
		if (a == "-zdrv" || a == "--zdrv") && i+1 < len(os.Args) {
			zdrvDir = os.Args[i+1]
		}
		if a == "-replay" || a == "--replay" {
			replay = true
		}
	}
	if thorough {
		iters = 500
	}
	thoroughTier = thorough
	loadTable()
	all := candidates()
	var ts []triple
	skipped := 0
	for _, t := range all {
		if _, nd := notDriven[t.op()]; nd {
			skipped++
			continue
		}
		ts = append(ts, t)
	}
	var fixed [][]string
	for _, t := range ts {
		fixed = append(fixed, []string{"init", t.op()})
	}
	for _, st := range tab.Strided {
		fixed = append(fixed, []string{"init", "slots " + st.Name})
		aggWanted = !replay
	}
	if !replay {
		search(ts, thorough)
	}
	corr.Main(corr.Prop{
		ID: "C44", Model: "C44", Impl: impl, Oracle: oracle, Fixed: fixed, Serial: true,
		Cases:      func(bool) int { return 0 },
		Nontrivial: func(ops, outs []string) bool { return len(ops) == 2 },
		Stress: func(th bool, seed int64) []corr.Violation {
			// races the table cannot place (a frame of round/block/ValidateTransactions code without a row), and races on
			// triples that were not asked (set-up functions, functions the table does not connect)
			var vs []corr.Violation
			asked := map[triple]bool{}
			for _, t := range ts {
				asked[t] = true
			}
			mu.Lock()
			defer mu.Unlock()
			for t, ex := range observed {
				if !asked[t] {
					vs = append(vs, corr.Violation{Signature: t.sig(), Message: "race on a pair the table does not list as co-accessed by concurrent entries: " + ex, Ops: []string{"init", t.op()}})
				}
			}
			for _, u := range unmapped {
				vs = append(vs, corr.Violation{Signature: "C44:race-not-in-table", Message: "race report in round/block/ValidateTransactions code that no table row accounts for: " + u, Ops: []string{"init"}})
				break
			}
			if childErr != "" {
				vs = append(vs, corr.Violation{Signature: "C44:race-child-failed", Message: childErr, Ops: []string{"init"}})
			}
			for _, c := range crashes {
				vs = append(vs, corr.Violation{Signature: "C44:runtime-abort:" + strings.SplitN(c, ":", 2)[0], Message: "the Go runtime aborted the process while these two entries ran concurrently on one object: " + c, Ops: []string{"init"}})
			}
			sort.Slice(vs, func(i, j int) bool { return vs[i].Signature < vs[j].Signature })
			return vs
		},
		Extra: func() map[string]interface{} {
			mu.Lock()
			defer mu.Unlock()
			var obs []string
			for t := range observed {
				obs = append(obs, t.sig())
			}
			sort.Strings(obs)
			nd := 0
			for _, t := range ts {
				ok := false
				for _, ea := range reach[t.a] {
					for _, eb := range reach[t.b] {
						if drivable[ea] && drivable[eb] {
							ok = true
						}
					}
				}
				if !ok {
					nd++
				}
			}
			return map[string]interface{}{
				"triples_asked": len(ts), "triples_not_driven_listed": skipped, "triples_without_drivable_entries": nd,
				"race_reports": nReports, "scenarios_run": nScen, "races_observed": obs, "unmapped_reports": unmapped,
				"ambiguous_reports": ambiguous, "runtime_aborts": crashes, "aggregator_stress": aggStats, "aggregator_race": aggRace, "reports_on_other_objects": len(foreign), "reports_on_other_objects_sample": foreign[:min(5, len(foreign))], "hangs": hangs, "panics": panics, "iterations_per_goroutine": iters,
				"child": childBin, "model_racy_not_yet_seen_before_retry_1_2": retried, "retried": retriedOps, "timing": timing,
			}
		},
	})
}
